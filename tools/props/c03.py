"""C03: relative branches / rjmp / rcall at every distance across and beyond both range limits,
forward and backward labels and pc-relative expressions, with code of both lengths, data, odd .db
lines, strings that are not ASCII and .org gaps between instruction and target.  Oracle: independent spec (ENC) at the
instruction's real address; the word is read from the image at that address."""
import random
from collections import Counter
from . import enc_common as E
import vlib

THEOREM_FILES = ['C03', 'C03b', 'C04', 'C01', 'Enc', 'EncOps1', 'EncOps2', 'EncOps3', 'EncOps4', 'EncDefs']
ASSUMPTIONS = ['label values and pc come from the layout (property C02); here the instruction address is computed by the generator from the filler it emitted']

def filler(rng, words, kind):
    """lines that occupy exactly `words` words of flash"""
    out = []
    n = words
    while n > 0:
        k = kind if kind != 'mix' else rng.choice(['nop', 'lds', 'dw', 'db', 'db3', 'dbu'])
        if k == 'dbu':
            # strings that are not ASCII: the size is the number of BYTES (2, 3+pad, 7+pad, 6)
            text, w = rng.choice([('.db "\u00e9"', 1), ('.db "\u20ac"', 2), ('.db "\u00f1and\u00fa"', 4), ('.db "\u65e5\u672c"', 3), ('.db 1, "\u00b5"', 2)])
            if w <= n:
                out.append(text); n -= w; continue
            k = 'nop'
        if k == 'tlds':
            # reduced core (ATtiny20): lds/sts are ONE word
            out.append(rng.choice(['lds r%d, 0x%x', 'sts 0x%x, r%d']) % ((rng.randrange(16, 32), rng.randrange(0x40, 0xc0)) if rng.random() < .5 else (rng.randrange(0x40, 0xc0), rng.randrange(16, 32))) if False else
                       ('lds r%d, 0x%x' % (rng.randrange(16, 32), rng.randrange(0x40, 0xc0)) if rng.random() < .5 else 'sts 0x%x, r%d' % (rng.randrange(0x40, 0xc0), rng.randrange(16, 32)))); n -= 1
        elif k == 'lds' and n >= 2:
            out.append('lds r%d, 0x%x' % (rng.randrange(32), rng.randrange(65536))); n -= 2
        elif k == 'dw':
            out.append('.dw 0x%x' % rng.randrange(65536)); n -= 1
        elif k == 'db':
            out.append('.db %d' % rng.randrange(256)); n -= 1          # odd line: padded to a word
        elif k == 'db3' and n >= 2:
            out.append('.db 1, 2, "x"'); n -= 2
        else:
            out.append('nop'); n -= 1
    return out

def cases(tier, seed):
    rng = random.Random(seed)
    mns = [('br' + b, 64) for b in E.BRANCHES] + [('brbs', 64), ('brbc', 64), ('rjmp', 2048), ('rcall', 2048)]
    out = []
    for mn, lim in mns:
        near = 70 if tier == 'quick' else 140
        ds = sorted(set(list(range(-lim - near, -lim + near)) + list(range(-near // 2, near // 2)) + list(range(lim - near, lim + near))))
        if mn in ('rjmp', 'rcall') and tier == 'quick':
            ds = [d for d in ds if abs(abs(d) - lim) <= 12 or abs(d) <= 6 or d % 7 == 0]
        for d in ds:
            pre = '3, ' if mn in ('brbs', 'brbc') else ''
            pretok = ['v3'] if pre else []
            kind = rng.choice(['nop', 'mix', 'mix', 'lds', 'dw', 'db', 'org', 'dbu'])
            start = rng.choice([0, 0, 1, 5, 300])
            head = filler(rng, start, 'mix')
            tiny = lim == 64 and rng.random() < .2
            if tiny:
                # the reduced core books ONE word for lds/sts: a label after them must still be where the bytes are
                kind = 'tlds'; start = rng.choice([0, 1, 5]); head = ['.device ATtiny20'] + filler(rng, start, 'tlds')
            if d >= 0:   # forward label
                if kind == 'org':
                    body = ['.org %d' % (start + 1 + d)]
                else:
                    body = filler(rng, d, kind)
                lines = head + ['%s %stgt' % (mn, pre)] + body + ['tgt:', 'nop']
                addr = start
                target = start + 1 + d
            else:        # backward label: tgt at `start`, instruction at start + (-d-1)
                n = -d - 1
                if kind == 'org':
                    body = ['nop', '.org %d' % (start + n)] if n >= 1 else []
                    if n == 0:
                        body = []
                else:
                    body = filler(rng, n, kind)
                lines = head + ['tgt:'] + body + ['%s %stgt' % (mn, pre)]
                addr = start + n
                target = start
            out.append((mn, '\n'.join(lines), addr, pretok + ['v%d' % target], d))
            # pc-relative spelling of the same distance
            if rng.random() < 0.5:
                expr = 'pc+%d' % (d + 1) if d + 1 >= 0 else 'pc-%d' % (-(d + 1))
                # the instruction in the middle of a section, or as the FIRST instruction of a section that does
                # not start at 0 (after .org, or after coming back from .dseg): pc must be that address
                h2 = head
                if not tiny and start > 0 and rng.random() < .5:
                    h2 = rng.choice([['.org %d' % start], head + ['.dseg', '.byte 2', '.cseg'], ['.dseg', 'v_c03: .byte 1', '.cseg', '.org %d' % start]])
                lines = h2 + ['%s %s%s' % (mn, pre, expr.upper() if rng.random() < .3 else expr)]
                out.append((mn, '\n'.join(lines), start, pretok + ['v%d' % (start + 1 + d)], d))
            # the target through a `.set` symbol captured from `pc`: at the target's place (backward), or computed
            # just before the instruction (any distance); the symbol holds the address of the place where it is set
            if rng.random() < 0.5 and not tiny:
                h2 = filler(rng, start, 'mix')
                if d < 0 and rng.random() < .5:
                    n = -d - 1
                    lines = h2 + ['.set c03t = %s' % rng.choice(['pc', 'PC', 'pc + 0'])] + filler(rng, n, rng.choice(['nop', 'mix', 'lds'])) + ['%s %sc03t' % (mn, pre)]
                    out.append((mn, '\n'.join(lines), start + n, pretok + ['v%d' % start], d))
                else:
                    off = d + 1
                    lines = h2 + ['.set c03t = %s' % ('pc+%d' % off if off >= 0 else 'pc-%d' % -off), '%s %s%s' % (mn, pre, rng.choice(['c03t', 'C03T']))]
                    out.append((mn, '\n'.join(lines), start, pretok + ['v%d' % (start + 1 + d)], d))
    # far targets: a distance that only fits after wrapping through 16 bits must be rejected
    for mn, lim in mns:
        pre = '3, ' if mn in ('brbs', 'brbc') else ''
        pretok = ['v3'] if pre else []
        for far in (65536, -65536, 131072, 65536 + 5, -65536 - 17, 32768 + 3, 4096 + 2, 128 + 1, -128 - 2, 256 + 1):
            if mn not in ('rjmp', 'rcall', 'breq', 'brne', 'brbs') and abs(far) > 300:
                continue
            d = far
            expr = 'pc+%d' % (d + 1) if d + 1 >= 0 else 'pc-%d' % (-(d + 1))
            out.append((mn, 'nop\n%s %s%s' % (mn, pre, expr), 1, pretok + ['v%d' % (1 + 1 + d)], d))
            if d > 0:
                out.append((mn, '%s %stgt\n.org %d\ntgt: nop' % (mn, pre, 1 + d), 0, pretok + ['v%d' % (1 + d)], d))
            else:
                out.append((mn, 'tgt: nop\n.org %d\n%s %stgt' % (-d - 1, mn, pre), -d - 1, pretok + ['v0'], d))
    return out

def run(tier, seed, model_ok):
    cs = cases(tier, seed)
    trip = [(str(i), 'B', vlib.hx(c[1])) for i, c in enumerate(cs)]
    impl = vlib.run_impl(trip)
    model = vlib.run_model(trip, vlib.cwd_prelude()) if model_ok else {}
    lines = ['%d ENC 0 %s %d %s' % (i, c[0], c[2], ' '.join(c[3])) for i, c in enumerate(cs)]
    spec, _, _ = vlib.run_lines(E.SPEC, lines, mode=None)
    dis, vio = [], []
    accepted = rejected = 0
    for i, c in enumerate(cs):
        k = str(i)
        a = impl.get(k, 'MISSING')
        if model_ok and a != model.get(k, 'MISSING'):
            dis.append({'source': c[1], 'impl': a[:300], 'model': model.get(k, 'MISSING')[:300]})
        s = spec.get(k, 'NOSPEC')
        if s.startswith('W'):
            accepted += 1
            exp = E.expected_canon_code(s)
            code = E.code_of(a) if a.startswith('OK') else None
            got = code[4 * c[2]: 4 * c[2] + 4] if code is not None else None
            if got != exp:
                vio.append({'what': 'branch word at the instruction address is not the ISA encoding of the named target',
                            'source': c[1], 'impl': a[:200], 'expected_word_at_%d' % c[2]: exp, 'got': got, 'key': c[0], 'distance': c[4]})
        elif s == 'ILLEGAL':
            rejected += 1
            if not a.startswith('ERR'):
                vio.append({'what': 'unreachable target was not rejected', 'source': c[1], 'impl': a[:200], 'expected': 'error', 'key': c[0], 'distance': c[4]})
        else:
            vio.append({'what': 'oracle could not judge (harness bug)', 'source': c[1], 'impl': a[:100], 'expected': s, 'key': c[0]})
    return {
        'evaluations': len(cs), 'distinct_nontrivial': len({c[1] for c in cs}),
        'rule': 'all 18 named branches + brbs/brbc + rjmp + rcall x distances within 70 of each range limit on both sides and around zero (rjmp/rcall thinned in the quick tier away from the limits), forward/backward labels with random filler (1- and 2-word instructions, .dw, odd .db lines, strings that are not ASCII, .org gaps; on ATtiny20 one-word lds/sts) at random start addresses, targets through .set symbols captured from pc (at the target, or computed before the instruction), and pc-relative expressions in the middle of a section and as the first instruction after .org / after returning from .dseg; far targets (distances of 64 Ki, 128 Ki words and other values that fit only after wrapping) through pc expressions and .org gaps; distinct = distinct programs',
        'samples': [cs[0][1], cs[len(cs) // 2][1]],
        'exhaustive': False,
        'distribution': {'reachable_targets': accepted, 'unreachable_targets': rejected, 'per_mnemonic': Counter(c[0] for c in cs).most_common(4)},
        'disagreements': dis, 'violations': vio,
    }
