"""C09: macros.  Macro sets (up to ten parameters; bodies with instructions, data, conditionals on
parameters, nested calls, segment switches) are called with registers, index forms and random
expressions of every operator level incl. parenthesised sub-expressions, in any letter case, before
and after their definition, repeatedly.  Oracle, as the property says: build(P) must equal
build(hand-expanded P) — the generator expands the calls itself on the STRUCTURE (argument trees
are re-rendered fully parenthesised into the body), never through text substitution."""
import random
from collections import Counter
import vlib
from . import c05

THEOREM_FILES = ['C09', 'C09b']
ASSUMPTIONS = ['the hand expansion is done by the generator on structured bodies (holes in operand positions); arguments are pasted fully parenthesised',
               'line numbers differ between a program and its expansion, so messages are not generated inside macro bodies']

def case(rng, s):
    k = rng.random()
    if k < .5: return s
    if k < .75: return s.upper()
    return ''.join(c.upper() if rng.random() < .5 else c.lower() for c in s)

class M:
    def __init__(self, name, kinds, body):
        self.name, self.kinds, self.body = name, kinds, body   # kinds: list of 'r' | 'e' | 'i' per parameter

def gen_macro(rng, idx, earlier):
    nparams = rng.choice([0, 1, 1, 2, 2, 3, 10])
    kinds = [rng.choice('ree') for _ in range(nparams)]
    if nparams and rng.random() < .3: kinds[0] = 'i'
    body = []      # entries: ('ins', template with {k} holes) | ('call', macro, args holes) | ('if', k, [entries], [entries]) | ('seg', ...)
    for _ in range(rng.randrange(1, 5)):
        r = rng.random()
        es = [k for k, t in enumerate(kinds) if t == 'e']
        rs = [k for k, t in enumerate(kinds) if t == 'r']
        ix = [k for k, t in enumerate(kinds) if t == 'i']
        if r < .25 and es:
            k = rng.choice(es)
            body.append(('ins', rng.choice(['.dw {%d}', '.dw {%d}*3', '.dw 2+{%d}', 'ldi r16, low({%d})', '.dw -{%d}', '.dw {%d} - 1', '.dw {%d}<<1', '.dw ~{%d} & 0xff', '.dw 10 - {%d}',
                                             '.dw 1000/{%d}', '.dw 1000%%{%d}', '.dw 7*{%d}', '.dw (!{%d}) + 4', '.dw 60 - {%d} - 1', '.dw 1<<{%d}>>1', '.dw 3 & {%d} | 8', '.dw 5 == {%d}', '.dw 2 < {%d}']) % k))
        elif r < .4 and rs:
            k = rng.choice(rs)
            body.append(('ins', rng.choice(['mov {%d}, r2', 'inc {%d}', 'cp r3, {%d}', 'push {%d}']) % k))
        elif r < .5 and ix:
            body.append(('ins', rng.choice(['ld r4, {%d}', 'st {%d}, r5']) % ix[0]))
        elif r < .6 and es and len(kinds) > 0:
            k = rng.choice(es)
            body.append(('if', k, [('ins', '.dw 0x1111')], [('ins', '.dw 0x2222')]))
        elif r < .72 and earlier:
            m = rng.choice(earlier)
            args = []
            okc = True
            for t in m.kinds:
                cands = [k for k, tt in enumerate(kinds) if tt == t]
                if cands and rng.random() < .7: args.append(('hole', rng.choice(cands)))
                elif t == 'r': args.append(('lit', 'r%d' % rng.randrange(16, 32)))
                elif t == 'e': args.append(('lit', str(rng.randrange(0, 50))))
                else: args.append(('lit', rng.choice(['X', 'Y+', '-Z'])))
            body.append(('call', m, args))
        elif r < .8:
            body.append(('seg', rng.choice([['.dseg', '.byte %d' % rng.randrange(1, 5), '.cseg'], ['.eseg', '.db 1, 2, 3', '.cseg']])))
        else:
            body.append(('ins', rng.choice(['nop', 'ldi r17, 5', '.db 1, 2', 'ret'])))
    return M('Mac%d' % idx, kinds, body)

def body_text(m):
    out = []
    for e in m.body:
        if e[0] == 'ins':
            t = e[1]
            for k in range(len(m.kinds)): t = t.replace('{%d}' % k, '@%d' % k)
            out.append('  ' + t)
        elif e[0] == 'if':
            out += ['  .if @%d' % e[1], '    ' + e[2][0][1], '  .else', '    ' + e[3][0][1], '  .endif']
        elif e[0] == 'call':
            args = ['@%d' % a[1] if a[0] == 'hole' else a[1] for a in e[2]]
            out.append('  ' + e[1].name + (' ' + ', '.join(args) if args else ''))
        else:
            out += ['  ' + l for l in e[1]]
    return out

def expand(m, args, uniq):
    """hand expansion: args = list of (text pasted atomically, value or None)"""
    out = []
    for e in m.body:
        if e[0] == 'ins':
            t = e[1]
            for k in range(len(m.kinds)): t = t.replace('{%d}' % k, args[k][0])
            out.append('  ' + t)
        elif e[0] == 'if':
            v = args[e[1]][1]
            out.append('    ' + (e[2] if v != 0 else e[3])[0][1])
        elif e[0] == 'call':
            sub = [args[a[1]] if a[0] == 'hole' else (a[1], int(a[1]) if a[1].isdigit() else None) for a in e[2]]
            out += expand(e[1], sub, uniq)
        else:
            out += ['  ' + l for l in e[1]]
    return out

def gen_program(rng):
    g = c05.G(rng.randrange(1 << 30))
    macros = []
    for i in range(rng.randrange(1, 4)):
        macros.append(gen_macro(rng, i, macros))
    defs = []
    for m in macros:
        defs.append(['.macro %s' % case(rng, m.name)] + body_text(m) + [rng.choice(['.endm', '.endmacro'])])
    calls, expanded = [], []
    used_dseg = set()
    for _ in range(rng.randrange(1, 5)):
        m = rng.choice(macros)
        # a body that defines a data label can be called once only (labels are not local): keep it to one call
        key = m.name
        has_label = any(e[0] == 'seg' and 'mv' in e[1][1] for e in all_entries(m))
        if has_label and key in used_dseg: continue
        used_dseg.add(key)
        args_text, args = [], []
        for t in m.kinds:
            if t == 'r':
                r = 'r%d' % rng.randrange(16, 32); args_text.append(case(rng, r)); args.append((r, None))
            elif t == 'i':
                x = rng.choice(['X', 'Y', 'Z', 'X+', 'Y+', '-Z', 'Y+5', 'Z+(1+2)'])
                args_text.append(x); args.append((x, None))
            elif rng.random() < .08:
                # a character literal: re-printed as its code
                ch = rng.choice('azAZ09 #+;')
                args_text.append("'%s'" % ch); args.append(('(%d)' % ord(ch), ord(ch)))
            else:
                k = rng.random()
                if k < .45:
                    tree = small_tree(rng, rng.choice([1, 2, 2, 3]))     # small values: stays in range, so it is really used
                elif k < .85:
                    tree = g.tree(rng.randrange(0, 3))
                else:
                    tree = ('c', rng.randrange(0, 9))
                tree = strip_syms(tree)
                val = evaluate(tree)
                if val is None or not (0 <= val <= 0x3fff):
                    tree = ('c', rng.randrange(0, 200)); val = tree[1]
                args_text.append(g.render(tree, 0, 0.3)); args.append(('(' + g.render(tree, 0, 0) + ')', val))
        calls.append('  ' + case(rng, m.name) + (' ' + ', '.join(args_text) if args_text else ''))
        expanded += expand(m, args, None)
    # macro definitions before or after the calls (calls before the definition are allowed)
    flat_defs = [l for d in defs for l in d]
    blank_defs = ['' for _ in flat_defs]
    if rng.random() < .7:
        return flat_defs + ['  nop'] + calls + ['  ret'], blank_defs + ['  nop'] + expanded + ['  ret']
    return ['  nop'] + calls + ['  ret'] + flat_defs, ['  nop'] + expanded + ['  ret'] + blank_defs

def all_entries(m):
    for e in m.body:
        yield e
        if e[0] == 'call':
            for x in all_entries(e[1]): yield x

SMALL_OPS = ['add', 'sub', 'mul', 'div', 'rem', 'band', 'bor', 'bxor', 'shl', 'shr', 'lt', 'le', 'gt', 'ge', 'eq', 'ne', 'land', 'lor']

def small_tree(rng, depth):
    """expression trees over small constants with every operator at every position (in particular
    a product/quotient/difference as the RIGHT operand of an operator of the same level, and below
    unary operators), so that the way an argument is re-printed matters"""
    if depth <= 0 or rng.random() < .2:
        return ('c', rng.choice([1, 2, 3, 4, 5, 6, 7, 9, 12]))
    k = rng.random()
    if k < .15:
        return ('u', rng.choice(['minus', 'bnot', 'lnot']), small_tree(rng, depth - 1))
    if k < .2:
        return ('f', rng.choice(['low', 'high', 'lwrd']), small_tree(rng, depth - 1))
    return ('b', rng.choice(SMALL_OPS), small_tree(rng, depth - 1), small_tree(rng, depth - 1))

def strip_syms(t):
    if t[0] == 's': return ('c', 3)
    if t[0] in ('u', 'f'): return (t[0], t[1], strip_syms(t[2]))
    if t[0] == 'b': return ('b', t[1], strip_syms(t[2]), strip_syms(t[3]))
    return t

def evaluate(t):
    """small evaluator used only to keep argument values in a range where every body line is valid"""
    try:
        k = t[0]
        if k == 'c': return t[1]
        if k == 'u':
            v = evaluate(t[2])
            if v is None: return None
            return {'minus': -v, 'bnot': ~v, 'lnot': int(v == 0)}[t[1]]
        if k == 'f':
            v = evaluate(t[2])
            if v is None: return None
            u = v % 2**64
            return {'low': u & 255, 'high': (u >> 8) & 255, 'byte2': (u >> 8) & 255, 'byte3': (u >> 16) & 255, 'byte4': (u >> 24) & 255,
                    'lwrd': u & 0xffff, 'hwrd': (u >> 16) & 0xffff, 'page': (u >> 16) & 31, 'exp2': (1 << v) if 0 <= v < 63 else None, 'log2': u.bit_length()}[t[1]]
        a, b = evaluate(t[2]), evaluate(t[3])
        if a is None or b is None: return None
        op = t[1]
        if op in ('div', 'rem') and b == 0: return None
        if op in ('shl', 'shr') and not (0 <= b <= 63): return None
        import operator
        f = {'add': operator.add, 'sub': operator.sub, 'mul': operator.mul, 'band': operator.and_, 'bor': operator.or_, 'bxor': operator.xor,
             'shl': lambda x, y: x << y, 'shr': lambda x, y: x >> y, 'lt': lambda x, y: int(x < y), 'le': lambda x, y: int(x <= y), 'gt': lambda x, y: int(x > y),
             'ge': lambda x, y: int(x >= y), 'eq': lambda x, y: int(x == y), 'ne': lambda x, y: int(x != y), 'land': lambda x, y: int(bool(x) and bool(y)),
             'lor': lambda x, y: int(bool(x) or bool(y)), 'div': lambda x, y: abs(x) // abs(y) * (1 if (x < 0) == (y < 0) else -1),
             'rem': lambda x, y: abs(x) % abs(y) * (1 if x >= 0 else -1)}[op]
        v = f(a, b)
        return v if -2**63 <= v < 2**63 else None
    except Exception:
        return None

KNOWN_OUTSIDE_CSEG = 'macro-call-outside-code-segment'
KNOWN_CALLS = [
    (('.macro ed', '  .db @0, @0+1', '.endm', '.eseg', '  ed 5', '  ed 7', '.cseg', '  nop'), ('', '', '', '.eseg', '  .db 5, (5)+1', '  .db 7, (7)+1', '.cseg', '  nop')),
    (('.macro rsv', '  .byte @0', '.endm', '.dseg', 'buf: rsv 4', 'b2: rsv 2', '.cseg', '  ldi r16, low(b2)'), ('', '', '', '.dseg', 'buf: .byte 4', 'b2: .byte 2', '.cseg', '  ldi r16, low(b2)')),
]

def matches_known(k, v):
    return k.get('id') == KNOWN_OUTSIDE_CSEG and v.get('key') == 'expand' and v.get('source') in k.get('inputs', [])

def run(tier, seed, model_ok):
    rng = random.Random(seed)
    n = 1500 if tier == 'quick' else 20000
    progs = [gen_program(rng) for _ in range(n)]
    # fixed cases the property names
    fixed = [
        (['.macro m', '  .dw @0*3', '.endm', '  m (1+2)'], ['', '', '', '  .dw (1+2)*3']),
        (['.macro Foo', '  nop', '.endm', '  FOO', '  foo'], ['', '', '', '  nop', '  nop']),
        (['.macro ten', '  .db @0,@1,@2,@3,@4,@5,@6,@7,@8,@9', '.endm', '  ten 1,2,3,4,5,6,7,8,9,10'], ['', '', '', '  .db 1,2,3,4,5,6,7,8,9,10']),
        (['.macro a', '  nop', '  .dseg', 'v: .byte 1', '  .cseg', '  ret', '.endm', '  a', '  .dw v'], ['', '', '', '', '', '', '', '  nop\n  .dseg\nv: .byte 1\n  .cseg\n  ret', '  .dw v']),
    ]
    fixed += [
        # a body that begins with .org on a parameter: the expansion lands where the .org says
        (['.macro vec', '.org @0', '  rjmp @1', '.endm', '  nop', '  vec 0x10, 5', '  vec 0x20, 7', '  ret'], ['', '', '', '', '  nop', '.org 0x10\n  rjmp 5', '.org 0x20\n  rjmp 7', '  ret']),
        (['.macro vec', '.org @0', '  rjmp @1', '.endm', '.macro two', '  vec @0 + 2, 3', '.endm', '  nop', '  two 0x10', '  ret'], ['', '', '', '', '', '', '', '  nop', '.org (0x10) + 2\n  rjmp 3', '  ret']),
        (['.macro tab', '  nop', '.org @0', '  .dw @0', '.endm', '  tab 8', '  tab 0x18'], ['', '', '', '', '', '  nop\n.org 8\n  .dw 8', '  nop\n.org 0x18\n  .dw 0x18']),
        # identifiers pass through as written: .define flags and device names are case-sensitive
        (['.define FLAG', '.macro t', '.ifdef @0', '  .dw 1', '.else', '  .dw 2', '.endif', '.endm', '  t FLAG', '  t flag', '  t Flag'], ['.define FLAG', '', '', '', '', '', '', '', '  .dw 1', '  .dw 2', '  .dw 2']),
        (['.macro dev', '.device @0', '.endm', '  dev ATmega48', '  nop'], ['', '', '', '.device ATmega48', '  nop']),
        (['.equ Mixed = 7', '.macro u', '  .dw @0 + 1', '.endm', '  u Mixed', '  u MIXED'], ['.equ Mixed = 7', '', '', '', '  .dw 8', '  .dw 8']),
        # a macro defined again: the last definition is the one a call expands
        # (macros are collected by the parse and expanded afterwards: the LAST definition of a name serves every call)
        (['.macro emit', '  .dw 1', '.endm', '  emit 5', '.macro emit', '  .dw 2, @0', '.endm', '  emit 9'], ['', '', '', '  .dw 2, 5', '', '', '', '  .dw 2, 9']),
        (['.macro Emit', '  .dw 1', '.endm', '.macro EMIT', '  .dw 3', '.endm', '.macro w', '  emit', '.endm', '  w'], ['', '', '', '', '', '', '', '', '', '  .dw 3']),
    ]
    fixed += [
        # a body that ENDS in another segment: the caller goes on where the body left off
        (['.macro toee', '  nop', '.eseg', '.endm', '  toee', '  .db 1, 2, 3, 4', '.cseg', '  ret'], ['', '', '', '', '  nop\n.eseg', '  .db 1, 2, 3, 4', '.cseg', '  ret']),
        (['.macro tod', '.dseg', '.endm', '  nop', '  tod', 'buf: .byte 3', '.cseg', '  ldi r16, low(buf)'], ['', '', '', '  nop', '.dseg', 'buf: .byte 3', '.cseg', '  ldi r16, low(buf)']),
        (['.macro sel', '.if @0 == 1', '.eseg', '.elif @0 == 2', '.dseg', '.else', '.cseg', '.endif', '.endm', '  nop', '  sel 1', '  .db 7, 8', '  sel 2', 'b2: .byte 2', '  sel 0', '  ldi r17, low(b2)', '  sel 1', '  .db 9'],
         ['', '', '', '', '', '', '', '', '', '  nop', '.eseg', '  .db 7, 8', '.dseg', 'b2: .byte 2', '.cseg', '  ldi r17, low(b2)', '.eseg', '  .db 9']),
        (['.macro ee', '.eseg', '.endm', '.macro outer', '  nop', '  ee', '.endm', '  outer', '  .dw 0x1234', '.cseg', '  ret'], ['', '', '', '', '', '', '', '  nop\n.eseg', '  .dw 0x1234', '.cseg', '  ret']),
    ]
    fixed += [
        # calls whose argument lists differ but read alike once the commas are dropped: each call gets ITS arguments
        (['.macro fetch', '  sts @1, @0', '.endm', '  fetch r16, 5', '  fetch r1, 65', '  fetch r16, 5'], ['', '', '', '  sts 5, r16', '  sts 65, r1', '  sts 5, r16']),
        (['.macro pair', '  .db @0, @1', '.endm', '  pair 1, 23', '  pair 12, 3', '  pair 1, 2+3', '  pair 1, 2', '  pair 12, 3'], ['', '', '', '  .db 1, 23', '  .db 12, 3', '  .db 1, (2+3)', '  .db 1, 2', '  .db 12, 3']),
        (['.macro tri', '  .db @0, @1, @2', '.endm', '  tri 1, 2, 34', '  tri 1, 23, 4', '  tri 12, 3, 4'], ['', '', '', '  .db 1, 2, 34', '  .db 1, 23, 4', '  .db 12, 3, 4']),
        # a body that ends in EEPROM, then data lines of odd length in the caller: no padding there
        (['.macro toee2', '  nop', '.eseg', '.endm', '  toee2', '  .db 1, 2, 3', '  .db "abc"', '  .db 7', '.cseg', '  .db 9', '  ret'], ['', '', '', '', '  nop\n.eseg', '  .db 1, 2, 3', '  .db "abc"', '  .db 7', '.cseg', '  .db 9', '  ret']),
    ]
    # a macro called while the data or EEPROM segment is current (recorded finding: the call is not expanded there)
    fixed += [(list(p_), list(e_)) for p_, e_ in KNOWN_CALLS]
    must_fail = [['  nosuchmacro r1, 2'], ['.macro m', '  ldi r16, @1', '.endm', '  m 5'], ['.macro m', '  mov @0, r1', '.endm', '  m']]
    trip = []
    allp = progs + fixed
    for i, (p, e) in enumerate(allp):
        trip.append(('%dp' % i, 'B', vlib.hx('\n'.join(p)))); trip.append(('%de' % i, 'B', vlib.hx('\n'.join(e))))
    for i, p in enumerate(must_fail):
        trip.append(('f%d' % i, 'B', vlib.hx('\n'.join(p))))
    impl = vlib.run_impl(trip)
    model = vlib.run_model(trip, vlib.cwd_prelude()) if model_ok else {}
    dis, vio = [], []
    if model_ok:
        for k, _, h in trip:
            if impl.get(k) != model.get(k, 'MISSING'):
                dis.append({'source': vlib.unhx(h).decode(), 'impl': impl.get(k, '')[:160], 'model': model.get(k, 'MISSING')[:160]})
    okc = 0
    for i, (p, e) in enumerate(allp):
        a, b = impl.get('%dp' % i, ''), impl.get('%de' % i, '')
        if not b.startswith('OK'):
            if a.startswith('OK'):
                vio.append({'what': 'program with macros builds although its hand expansion does not', 'source': '\n'.join(p), 'impl': a[:160], 'expected': b[:80], 'key': 'expand'})
            continue
        okc += 1
        if a != b:
            vio.append({'what': 'program with macros does not build to the same result as its hand expansion', 'source': '\n'.join(p), 'impl': a[:200],
                        'expected(hand expansion)': b[:200], 'expanded_source': '\n'.join(e), 'key': 'expand'})
    for i, p in enumerate(must_fail):
        a = impl.get('f%d' % i, '')
        if not a.startswith('ERR'):
            vio.append({'what': 'calling an undefined macro / omitting an argument the body uses must fail', 'source': '\n'.join(p), 'impl': a[:120], 'expected': 'error', 'key': 'must-fail'})
    return {
        'evaluations': len(trip), 'distinct_nontrivial': len({t[2] for t in trip}),
        'rule': 'seeded random macro sets (1..3 macros, 0..3 or 10 parameters of kind register / expression / index; bodies of instructions and data with holes next to tighter and unary operators, .if on a parameter, calls of earlier macros passing parameters on, switches to .dseg/.eseg and back) called 1..4 times in any letter case, before or after the definitions, with registers, index forms and random expression trees (rendered with minimal and redundant parentheses); each program and its hand expansion are built; plus the fixed cases of the property text and three must-fail cases; distinct = distinct texts',
        'samples': ['\n'.join(progs[0][0]), '\n'.join(progs[1][0])],
        'exhaustive': False,
        'distribution': {'programs': len(allp), 'hand_expansions_that_build': okc},
        'disagreements': dis[:50], 'violations': vio,
    }
