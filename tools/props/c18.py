"""C18: the command-line tool.  The real binary, built from the tree, is run in scratch directories
on every combination of: source kind (code only, code+EEPROM, EEPROM only, empty, failing in
three ways, with an include, with messages) x source name shape (plain, in a sub-directory, two
dots, no extension, hidden) x -o (absent, plain, existing directory, missing directory, a
directory) x -e (same) x -v x stale files present at the target paths.
Oracle (independent of the model): the images come from the library itself (harness, build_file
with the same standard include directory); every file the tool writes is decoded by the
independent Intel HEX reader (avra_spec HEXCHECK) and must be exactly the library's image, at the
documented path; nothing else in the tree may change; a failing build changes nothing at all;
exit status is non-zero exactly when the build failed or a file could not be written, and then a
"Failed" line is printed.  The model of main.rs (Model/Cli.lean) gets the same scenarios."""
import os, random, shutil, subprocess, tempfile
from collections import Counter
import vlib
from . import enc_common as E

THEOREM_FILES = ['C18']
NEEDS_CLI = True
ASSUMPTIONS = ['unwritable locations are a missing directory and a path that is a directory (the checks run as root, so permission bits do not make a location unwritable)',
               'a successful build with an EMPTY flash image writes no flash file ("Nothing to write of code"): read as conforming — the property words the EEPROM file as "non-empty image" only, the tool treats both alike by explicit design; a stale file is then left as it is',
               'stdout is checked for the word "Failed" only']

SOURCES = {
    'code': ' ldi r16, 1\n rjmp 0\n',
    'code+eeprom': ' nop\n.eseg\n.db 1, 2, 3\n.cseg\n ret\n',
    'eeprom-only': '.eseg\n.db 7, 8\n',
    'empty': '',
    'comment-only': '; nothing\n',
    'fail-syntax': ' nop\n ldi r16,, 1\n',
    'fail-symbol': ' ldi r16, nosuch\n',
    'fail-after-eeprom': '.eseg\n.db 1\n.cseg\n bogus\n',
    'include': '.include "part.inc"\n ldi r16, PART\n',
    'include-missing': '.include "nosuch.inc"\n nop\n',
    'std-include': '.include "c18_std.inc"\n ldi r16, STDVAL\n',      # found only in the user's standard include directory, which the tool passes
    'messages': '.message "hello"\n nop\n.warning "careful"\n',
    'big': ' nop\n' * 2000 + '.eseg\n.db ' + ', '.join(['5'] * 300) + '\n',
    'huge': ' nop\n' * 40000 + '.eseg\n.db ' + ', '.join(['5'] * 300) + '\n',      # > 64 KiB of flash: not given to the (quadratic) model
    'error-directive': ' nop\n.error "no"\n',
    # more than 1 MiB of flash (only the default device is that large): the file needs an extended address beyond the
    # sixteenth 64 KiB block; few scenarios (see run), never given to the model
    'beyond-1MiB': ' ldi r16, 1\n.org 0x80100\n ldi r17, 2\n ret\n.eseg\n.db 9\n',
}
NAMES = ['prog.asm', 'sub/prog.asm', 'my.prog.asm', 'noext', '.hidden', 'sub/deep/x.S', 'fw.v2/blink', 'fw.v2/sub.d/x', 'sub/../blink2', './dot.asm']
# 'lnk' is a symbolic link to a directory elsewhere (so lnk/.. is not the start directory); /dev/full opens but cannot be written
OUTS = [None, 'out.hex', 'build/fw.hex', 'missing/fw.hex', 'adir', 'sub/../o2.hex', 'missing/../o3.hex', 'lnk/../o4.hex', 'lnk/o5.hex', '/dev/full']
EEPS = [None, 'out.eep', 'build/fw.eep.hex', 'missing/e.hex', 'adir', 'same-as-o', 'missing/../e3.hex', 'lnk/../e4.hex', '/dev/full']
def impl_only(s): return s['sk'] in ('huge', 'beyond-1MiB') or any(x and ('lnk/' in x or x.startswith('/dev/')) for x in (s['o'], s['e']))

def target(cwd, x):
    """(path as the OS sees it, can a file be created and written there)"""
    raw = os.path.join(cwd, x)
    dirn = os.path.dirname(raw)
    if not os.path.isdir(dirn): return os.path.normpath(raw), False
    real = os.path.join(os.path.realpath(dirn), os.path.basename(raw))
    return real, not os.path.isdir(real) and not raw.startswith('/dev/')

def stem(name):
    b = os.path.basename(name)
    i = b.rfind('.')
    return b if i <= 0 else b[:i]

def snapshot(root):
    out = {}
    for dp, dn, fn in os.walk(root):
        for f in fn:
            p = os.path.join(dp, f)
            try: out[p] = open(p, 'rb').read()
            except OSError: out[p] = None
    return out

def run(tier, seed, model_ok):
    rng = random.Random(seed)
    cli = vlib.build_cli()
    root = tempfile.mkdtemp(prefix='avra-c18-')
    dis, vio = [], []
    dist = Counter()
    combos = [(s, n, o, e) for s in SOURCES for n in NAMES for o in OUTS for e in EEPS
              if s != 'beyond-1MiB' or (n in NAMES[:2] and o in (None, 'build/fw.hex') and e in (None, 'out.eep'))]
    if tier == 'quick':
        rng.shuffle(combos)
        # every source x every -o kind x every -e kind at least once, names sampled
        seen, pick = set(), []
        for c in combos:
            ks = [('so', c[0], c[2]), ('se', c[0], c[3]), ('no', c[1], c[2]), ('ne', c[1], c[3]), ('oe', c[2], c[3])]
            if any(k not in seen for k in ks):
                pick.append(c); seen.update(ks)
        combos = pick
    scen = []
    try:
        for idx, (sk, name, o, e) in enumerate(combos):
            d = os.path.join(root, 'c%d' % idx)
            work = os.path.join(d, 'work'); home = os.path.join(d, 'home')
            for sub in ('sub/deep', 'build', 'adir', 'fw.v2/sub.d'): os.makedirs(os.path.join(work, sub))
            os.makedirs(home)
            stdinc = os.path.join(home, '.config', 'avra-rs', 'includes'); os.makedirs(stdinc)
            open(os.path.join(stdinc, 'c18_std.inc'), 'w').write('.equ STDVAL = 77\n')
            os.makedirs(os.path.join(d, 'elsewhere', 'build')); os.makedirs(os.path.join(d, 'elsewhere', 'adir'))
            os.symlink(os.path.join('..', 'elsewhere', 'build'), os.path.join(work, 'lnk')); os.symlink(os.path.join('..', 'work', 'build'), os.path.join(d, 'elsewhere', 'lnk'))
            # where the tool is started and how the source is named: next to it with a relative name (usual), or from
            # another directory with an absolute name — the default outputs stay next to the SOURCE, -o/-e follow the start directory
            away = rng.random() < .3
            cwd = os.path.join(d, 'elsewhere') if away else work
            srcp = os.path.normpath(os.path.join(work, name))
            open(srcp, 'w').write(SOURCES[sk])
            open(os.path.join(os.path.dirname(srcp), 'part.inc'), 'w').write('.equ PART = 42\n')
            verbose = rng.random() < .4
            if e == 'same-as-o': e = o
            # documented target paths
            if away and (o or '').startswith('sub/') : o = 'build/fw2.hex'
            if away and (e or '').startswith('sub/') : e = 'build/fw2.eep'
            (p1, w1) = target(cwd, o) if o else (os.path.join(os.path.dirname(srcp), stem(name) + '.hex'), True)
            (p2, w2) = target(cwd, e) if e else (os.path.join(os.path.dirname(srcp), stem(name) + '.eep.hex'), True)
            stale = rng.random() < .5
            if stale:
                for p in (p1, p2):
                    if os.path.isdir(os.path.dirname(p)) and not os.path.isdir(p) and p != srcp and not p.startswith('/dev/'):
                        open(p, 'w').write('STALE ' + os.path.basename(p) + '\n' + 'x' * rng.choice([0, 5000, 200000]))   # often longer than what will be written: a writer that does not truncate shows
            sname = os.path.join(work, name) if away else name
            args = ['-s', sname] + (['-o', o] if o else []) + (['-e', e] if e else []) + (['-v'] if verbose else [])
            scen.append(dict(idx=idx, sk=sk, name=sname, o=o, e=e, work=cwd, top=d, home=home, srcp=srcp, p1=p1, p2=p2, w1=w1, w2=w2, stale=stale, args=args, verbose=verbose, away=away))
            dist['started in another directory with an absolute source name' if away else 'started next to the source'] += 1
            dist['source ' + sk] += 1; dist['-o ' + str(o)] += 1; dist['-e ' + str(e)] += 1
        # the library's answers (same include directory as the tool passes)
        lib = vlib.run_impl([('l%d' % s['idx'], 'F', '%s %s' % (vlib.hx(s['srcp']), vlib.hx(os.path.join(s['home'], '.config', 'avra-rs', 'includes')))) for s in scen])
        # model: file system before the run
        mlines = []
        for s in scen:
            if impl_only(s): continue
            mlines += ['FSCLEAR', 'CWD ' + vlib.hx(s['work'])]
            dirs = set()
            for dp, dn, fn in os.walk(os.path.dirname(s['work'])):
                dirs.add(dp)
                for f in fn:
                    p = os.path.join(dp, f)
                    if os.path.getsize(p) < 100000 or p == s['srcp']:
                        mlines.append('FSFILE %s %s' % (vlib.hx(p), vlib.hx(open(p).read())))
            x = s['work']
            while len(x) > 1: dirs.add(x); x = os.path.dirname(x)
            for x in sorted(dirs): mlines.append('FSDIR ' + vlib.hx(x))
            mlines.append('m%d C %s %s %s %s' % (s['idx'], vlib.hx(s['name']), vlib.hx(s['o']) if s['o'] else '-', vlib.hx(s['e']) if s['e'] else '-',
                                                  vlib.hx(os.path.join(s['home'], '.config', 'avra-rs', 'includes'))))
        model = {}
        if model_ok:
            model, rc, err = vlib.run_lines(vlib.DRIVER, mlines, mode=None)
        hexlines = []
        for s in scen:
            before = {**snapshot(os.path.join(s['top'], 'work')), **snapshot(os.path.join(s['top'], 'elsewhere'))}
            env = dict(os.environ, HOME=s['home']); env.pop('XDG_CONFIG_HOME', None)
            try:
                p = subprocess.run([cli] + s['args'], cwd=s['work'], env=env, capture_output=True, timeout=120)
                rc, out = p.returncode, p.stdout.decode('utf-8', 'replace') + p.stderr.decode('utf-8', 'replace')
            except subprocess.TimeoutExpired:
                rc, out = 'timeout', ''
            after = {**snapshot(os.path.join(s['top'], 'work')), **snapshot(os.path.join(s['top'], 'elsewhere'))}
            changed = {p for p in after if after[p] != before.get(p)} | {p for p in before if p not in after}
            s.update(rc=rc, out=out, changed=changed, after=after, before=before)
            L = lib.get('l%d' % s['idx'], '')
            desc = {'source_kind': s['sk'], 'args': s['args'], 'stale_files_present': s['stale'], 'exit': rc, 'stdout': out[:300],
                    'changed_files': sorted(os.path.relpath(p, s['work']) for p in changed), 'library': L[:120]}
            def bad(what, key):
                vio.append(dict(desc, what=what, key=key, source=SOURCES[s['sk']][:300]))
            if L.startswith('ERR'):
                if rc == 0 or rc == 'timeout': bad('the build fails in the library but the tool exits with status 0', 'exit')
                if 'Failed' not in out: bad('the build fails but no failure is reported', 'report')
                if changed: bad('the build fails but files were created or altered', 'altered')
                continue
            if not L.startswith('OK'):
                bad('library gave no answer: ' + L[:80], 'lib'); continue
            f = dict(x.split('=', 1) for x in L.split(' ')[1:] if '=' in x)
            code, ee = ('' if f['code'] == '-' else f['code']), ('' if f['ee'] == '-' else f['ee'])
            expect_fail = False
            allowed = set()
            same = s['p1'] == s['p2'] and code and ee
            for img, path, writable, which in ((code, s['p1'], s['w1'], 'flash'), (ee, s['p2'], s['w2'], 'eeprom')):
                if not img:
                    if path in changed and not (same or (path == s['p2'] and s['p1'] == s['p2'] and code) or (path == s['p1'] and s['p1'] == s['p2'] and ee)):
                        bad('the %s image is empty but %s was created or altered' % (which, os.path.relpath(path, s['work'])), 'altered')
                    continue
                if not writable:
                    expect_fail = True
                    continue
                allowed.add(path)
                if same and which == 'flash':
                    continue       # both images go to one path: the second write wins, checked below
                data = after.get(path)
                if data is None:
                    bad('the %s image was not written to %s' % (which, os.path.relpath(path, s['work'])), 'missing'); continue
                hexlines.append(('%d_%s' % (s['idx'], which), data, img, s, which, path))
            if changed - allowed:
                bad('files other than the documented outputs were created or altered: %s' % sorted(os.path.relpath(p, s['work']) for p in changed - allowed), 'altered')
            if expect_fail and (rc == 0 or 'Failed' not in out):
                bad('an output file could not be written but the tool exits 0 or reports nothing', 'exit')
            if not expect_fail and rc != 0:
                bad('nothing failed but the exit status is %s' % rc, 'exit')
            if s['verbose'] and rc == 0 and f.get('msgs', '-') != '-':
                for m in bytes.fromhex(f['msgs']).decode().split('\n'):
                    if m not in out: bad('-v does not print the message %r' % m, 'verbose')
            # model
            if model_ok and not impl_only(s):
                mr = model.get('m%d' % s['idx'], 'MISSING')
                try:
                    parts = mr.split(' ')
                    mexit = int(parts[1]); mw = {}
                    if parts[5] != '-':
                        for w in parts[5].split(';'):
                            pth, content = w.split(':')
                            pth = bytes.fromhex(pth).decode()
                            mw[os.path.normpath(os.path.join(s['work'], pth))] = b'' if content == '-' else bytes.fromhex(content)
                    obs = {p: after[p] for p in changed}
                    if (mexit != 0) != (rc != 0) or mw != obs:
                        dis.append({'args': s['args'], 'source_kind': s['sk'], 'impl': {'exit': rc, 'written': sorted(os.path.relpath(p, s['work']) for p in obs)},
                                    'model': {'exit': mexit, 'written': sorted(os.path.relpath(p, s['work']) for p in mw)},
                                    'content_differs': [os.path.relpath(p, s['work']) for p in mw if p in obs and mw[p] != obs[p]]})
                except Exception as ex:
                    dis.append({'args': s['args'], 'impl': rc, 'model': mr[:200], 'error': repr(ex)})
        # failing builds vs the model too
        if model_ok:
            for s in scen:
                L = lib.get('l%d' % s['idx'], '')
                if L.startswith('ERR') and not impl_only(s):
                    mr = model.get('m%d' % s['idx'], 'MISSING')
                    if not mr.startswith('EXIT 1 FAIL 1 WRITES -'):
                        dis.append({'args': s['args'], 'source_kind': s['sk'], 'impl': 'build fails', 'model': mr[:120]})
        # decode every written file with the independent reader
        spec, _, _ = vlib.run_lines(E.SPEC, ['%s HEXCHECK %s %s' % (k, data.hex() if data else '-', img) for k, data, img, _, _, _ in hexlines], mode=None)
        for k, data, img, s, which, path in hexlines:
            r = spec.get(k)
            if r != 'MATCH':
                vio.append({'what': 'the %s file does not decode to the image the library built (%s)' % (which, r), 'source_kind': s['sk'], 'args': s['args'], 'file': os.path.relpath(path, s['work']),
                            'file_head': (data or b'')[:120].decode('utf-8', 'replace'), 'library_image_head': img[:64], 'key': 'content', 'source': SOURCES[s['sk']][:300]})
    finally:
        shutil.rmtree(root, ignore_errors=True)
    return {
        'evaluations': len(scen), 'distinct_nontrivial': len({(s['sk'], s['name'], str(s['o']), str(s['e']), s['verbose'], s['stale']) for s in scen}),
        'rule': 'scenarios = source kind (%d) x source name shape (%d) x -o (%d: absent, plain, existing directory, missing directory, a directory, with .. through an existing, a missing and a symbolically linked directory, a device that opens but cannot be written) x -e (%d, incl. the same path as -o), -v and stale target files by seeded coin; %s; each scenario runs the real binary in its own scratch tree (own HOME), the tree is snapshotted before and after; every written file is decoded by the independent HEX reader and compared with the library\'s image' % (
            len(SOURCES), len(NAMES), len(OUTS), len(EEPS), 'all combinations' if tier == 'thorough' else 'a covering sample (every pair of source, name, -o, -e values)'),
        'samples': [{'args': scen[0]['args'], 'source': SOURCES[scen[0]['sk']][:80]}],
        'exhaustive': tier == 'thorough',
        'distribution': dict(dist, exit_status=dict(Counter(str(s['rc']) for s in scen)), files_decoded=len(hexlines)),
        'disagreements': dis[:30], 'violations': vio[:30],
    }

def matches_known(k, v):
    return False
