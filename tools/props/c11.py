"""C11: includes.  A program is split into a tree of files spread over the main file's directory,
caller-supplied directories and .includepath directories (relative ones resolved against the file
containing the directive), depth <= 4, with symbols, macros, device selection and conditionals on
either side of the include boundaries, and .exit inside included files.  Real directory trees are
created in a scratch directory outside /repo and /verif (removed afterwards).
Oracle: build_file(main, dirs) must equal build_str(flattened text); a missing file must fail with
an error naming it.  The model gets the same tree as an abstract file system."""
import os, random, shutil, tempfile
from collections import Counter
import vlib

THEOREM_FILES = ['C11', 'C11b']
ASSUMPTIONS = ['OS behaviour (exists, open, relative paths against the process working directory, no symbolic links) is a parameter of the model (Model.Fs)',
               'when the same file name exists in two searched directories the property does not say which wins; such cases are compared impl vs model only']

CHUNKS = [
    ['  nop', '  ldi r16, 1'], ['  .equ K%d = %d'], ['L%d: ret'], ['  .def T%d = r2%d', '  mov T%d, r1'], ['  .dw K_prev'],
    ['  .macro mm%d', '    inc r17', '  .endm'], ['  mm_prev'], ['  .define F%d'], ['  .ifdef F_prev', '  .db 1, 2', '  .else', '  .db 3, 4', '  .endif'],
    ['  .dseg', 'v%d: .byte 2', '  .cseg'], ['  .eseg', '  .db 9', '  .cseg'], ['  rjmp L_prev'],
    ['  .org ORG'],
]
# an origin that is always ahead of the code so far: every step of the counter adds at most 3 words
def org_of(n): return 8 * n + 8

class Gen:
    def __init__(self, rng, root):
        self.rng, self.root = rng, root
        self.n = 0
        self.files = {}          # abs path -> list of lines
        self.dirs = set()
        self.state = {'K': None, 'mm': None, 'F': None, 'L': None}
        self.caller = [os.path.join(root, 'lib1'), os.path.join(root, 'lib2')]
        self.dup = False
        self.reserved = set()
        self.bare = []           # (file included by bare name, directories searched at that point)

    def chunk(self):
        r = self.rng
        for _ in range(20):
            c = r.choice(CHUNKS)
            self.n += 1
            out, ok = [], True
            for l in c:
                if 'K_prev' in l:
                    if self.state['K'] is None: ok = False; break
                    l = l.replace('K_prev', r.choice([self.state['K'], self.state['K'].lower()]))
                if 'mm_prev' in l:
                    if self.state['mm'] is None: ok = False; break
                    l = l.replace('mm_prev', self.state['mm'])
                if 'F_prev' in l:
                    l = l.replace('F_prev', self.state['F'] or 'Fnone')
                if 'L_prev' in l:
                    if self.state['L'] is None: ok = False; break
                    l = l.replace('L_prev', self.state['L'])
                if 'ORG' in l: l = l.replace('ORG', r.choice(['%d', '0x%x']) % org_of(self.n))
                if '%d' in l:
                    l = l % tuple([self.n] + [self.n % 10] * (l.count('%d') - 1)) if l.count('%d') > 1 and 'r2%d' in l else l % ((self.n,) * l.count('%d'))
                out.append(l)
            if not ok: continue
            for l in out:
                if '.equ K' in l: self.state['K'] = l.split()[1]
                if '.macro mm' in l: self.state['mm'] = l.split()[1]
                if '.define F' in l: self.state['F'] = l.split()[1]
                if l.startswith('L') and ':' in l: self.state['L'] = l.split(':')[0]
            return out
        return ['  nop']

    def make_file(self, path, depth, incset):
        """creates file `path`; returns flattened lines.  incset = directories searched from this file (model of the documented rule)"""
        r = self.rng
        d = os.path.dirname(path)
        self.dirs.add(d)
        lines, flat = [], []
        incset = list(incset) + [d]
        exited = False
        saved = None        # what was defined when the file was left: later text of the file defines nothing
        for _ in range(r.randrange(1, 5)):
            k = r.random()
            if k < .45 or depth >= 4:
                c = self.chunk()
                lines += c
                if not exited: flat += c
                else:
                    pass
            elif k < .93:
                self.n += 1
                name = 'f%d.inc' % self.n
                mode = r.choice(['same', 'same', 'caller', 'incpath_rel', 'incpath_abs', 'abs', 'subdir'])
                # two different files may carry the same base name when the name as written tells them apart
                # (a sub-directory, which is in no include set): the including file's own name, now and then
                if mode == 'subdir' and r.random() < .5:
                    cand = os.path.join(d, 'inc', os.path.basename(path))
                    clash = any(os.path.normpath(os.path.join(x, 'inc', os.path.basename(path))) in (set(self.files) | self.reserved | {path}) for x in incset if os.path.normpath(x) != os.path.normpath(d))
                    if cand != path and cand not in self.files and cand not in self.reserved and not clash:
                        name = os.path.basename(path)
                        self.reserved.add(cand)
                if mode == 'same':
                    # the name as written may pass through a directory and back, or start at "."
                    target, written = os.path.join(d, name), r.choice([name, name, name, 'inc/../' + name, './' + name, 'inc/./../' + name])
                    if 'inc/' in written: self.dirs.add(os.path.join(d, 'inc'))
                elif mode == 'caller':
                    target, written = os.path.join(r.choice(self.caller), name), name
                elif mode == 'incpath_rel':
                    rel = r.choice(['sub%d' % (self.n % 3), '../extra', 'deep/er'])
                    tdir = os.path.normpath(os.path.join(d, rel))
                    lines.append('.includepath "%s"' % rel)
                    if not exited: flat.append('')
                    incset.append(tdir)
                    target, written = os.path.join(tdir, name), name
                elif mode == 'incpath_abs':
                    tdir = os.path.join(self.root, 'absinc%d' % (self.n % 2))
                    lines.append('.includepath "%s"' % tdir)
                    if not exited: flat.append('')
                    incset.append(tdir)
                    target, written = os.path.join(tdir, name), name
                elif mode == 'abs':
                    target = os.path.join(self.root, 'elsewhere', name); written = target
                else:
                    target, written = os.path.join(d, 'inc', name), 'inc/' + name
                sub = self.make_file(target, depth + 1, incset)
                if written == name: self.bare.append((target, list(incset)))
                lines.append('.include "%s"' % written)
                if not exited: flat += sub
            elif k < .965 and depth > 0:
                # .exit under a condition (the include-guard idiom): taken, it ends this file there and then -
                # the still open conditional included; not taken, nothing happens
                f = self.state['F']
                taken = r.random() < .6
                if taken: cond = r.choice(['.ifdef %s' % f, '.if 1', '.ifndef Fnone']) if f else r.choice(['.if 1', '.ifndef Fnone'])
                else: cond = r.choice(['.ifdef Fnone', '.if 0', '.ifndef %s' % f if f else '.if 0'])
                blk = [cond, '  .exit', '.endif']
                lines += blk
                if not exited:
                    if taken:
                        exited = True; saved = dict(self.state)
                    else:
                        flat += blk
            else:
                lines.append('  .exit' if depth > 0 else '  nop')
                if depth > 0 and not exited:
                    exited = True; saved = dict(self.state)
                elif not exited:
                    flat.append('  nop')
        if saved is not None: self.state = saved
        if depth > 0 and not exited and r.random() < .12:
            # the file ends on an origin: what the includer emits next lands there
            self.n += 1
            c = ['  .org %d' % org_of(self.n)] + r.choice([[], [''], ['  ; end of file']])
            lines += c; flat += c
        self.files[path] = lines
        return flat

def build_case(rng, root, idx):
    g = Gen(rng, os.path.join(root, 'c%d' % idx, 't'))     # one level of its own above the tree: `..` out of the tree's top stays inside this case
    main = os.path.join(g.root, 'main', 'main.asm')
    # how the caller spells the main file: in full; through a directory and back; through "."; or
    # relative, not there from the working directory and found through a caller-supplied directory
    k = rng.random()
    g.spelled = main
    if k < .12:
        g.spelled = os.path.join(g.root, 'main', 'sub0', '..', 'main.asm'); g.dirs.add(os.path.join(g.root, 'main', 'sub0'))
    elif k < .2:
        g.spelled = os.path.join(g.root, 'main', '.', 'main.asm')
    elif k < .3:
        g.spelled = 'main.asm'; g.caller = g.caller + [os.path.join(g.root, 'main')]
    elif k < .38:
        g.spelled = 'main/main.asm'; g.caller = [g.root] + g.caller
    head = ['.device %s' % rng.choice(['ATmega8', 'ATmega328P'])] if rng.random() < .3 else []
    flat = g.make_file(main, 0, g.caller)
    g.files[main] = head + g.files[main]
    flat = head + flat
    # same name in two searched directories, different contents: the property does not say which
    # wins, so these trees are compared impl vs model only
    if g.bare and rng.random() < .3:
        target, incset = rng.choice(g.bare)
        others = [d for d in incset if os.path.normpath(d) != os.path.dirname(target)]
        if others:
            d2 = rng.choice(others)
            g.files[os.path.join(d2, os.path.basename(target))] = g.files[target] + ['  sleep']
            g.dup = True
    return g, main, flat

def materialise(g):
    for p, lines in g.files.items():
        os.makedirs(os.path.dirname(p), exist_ok=True)
        with open(p, 'w') as f: f.write('\n'.join(lines) + '\n')
    for d in list(g.caller) + sorted(g.dirs):
        os.makedirs(d, exist_ok=True)

def fs_prelude(g):
    pre = ['FSCLEAR']
    dirs = set(g.dirs) | set(g.caller)
    for p in g.files:
        d = os.path.dirname(p)
        while len(d) > 1:
            dirs.add(d); d = os.path.dirname(d)
    for d in sorted(dirs): pre.append('FSDIR ' + vlib.hx(d))
    for p, lines in g.files.items(): pre.append('FSFILE %s %s' % (vlib.hx(p), vlib.hx('\n'.join(lines) + '\n')))
    return pre

KNOWN_UNBALANCED = 'construct-open-across-include-boundary'
# exact trees of the recorded finding (known_findings.json): name -> (main lines, a.inc lines, pasted text)
UNBALANCED = {
    'ub_if0':   (['.include "a.inc"', '  nop', '.endif', '  ret'], ['.if 0'], ['.if 0', '  nop', '.endif', '  ret']),
    'ub_macro': (['.include "a.inc"', '  nop', '.endm', '  m', '  ret'], ['.macro m'], ['.macro m', '  nop', '.endm', '  m', '  ret']),
    'ub_endif': (['.if 0', '.include "a.inc"', '  ret'], ['  nop', '.endif'], ['.if 0', '  nop', '.endif', '  ret']),
    # a split that happens to agree with pasting: regression only
    'ub_if1':   (['.include "a.inc"', '  nop', '.else', '  ret', '.endif', '  sei'], ['.if 1'], ['.if 1', '  nop', '.else', '  ret', '.endif', '  sei']),
}
def tree_text(main, inc): return 'main.asm: ' + ' / '.join(l.strip() for l in main) + ' ; a.inc: ' + ' / '.join(l.strip() for l in inc)

def run(tier, seed, model_ok):
    rng = random.Random(seed)
    n = 250 if tier == 'quick' else 4000
    root = tempfile.mkdtemp(prefix='avra-c11-')
    dis, vio = [], []
    try:
        cases = [build_case(rng, root, i) for i in range(n)]
        # fixed cases: missing file; .includepath inside an included file used afterwards by the includer (recorded finding)
        special = []
        g = Gen(rng, os.path.join(root, 'missing')); m = os.path.join(g.root, 'main', 'main.asm')
        g.files[m] = ['  nop', '.include "not_there.inc"']; special.append(('missing', g, m, None))
        g = Gen(rng, os.path.join(root, 'probe')); m = os.path.join(g.root, 'main', 'main.asm')
        g.files[m] = ['.include "a.inc"', '.include "x.inc"']
        g.files[os.path.join(g.root, 'main', 'a.inc')] = ['.includepath "sub"', '  nop']
        g.files[os.path.join(g.root, 'main', 'sub', 'x.inc')] = ['  ret']
        special.append(('probe', g, m, ['', '  nop', '  ret']))
        for nm, (ml, il, flat) in UNBALANCED.items():
            g = Gen(rng, os.path.join(root, nm)); m = os.path.join(g.root, 'main', 'main.asm')
            g.files[m] = ml; g.files[os.path.join(g.root, 'main', 'a.inc')] = il
            special.append((nm, g, m, flat))
        trip_impl = []
        model_res = {}
        for i, (g, main, flat) in enumerate(cases):
            materialise(g)
            trip_impl.append(('%df' % i, 'F', '%s %s' % (vlib.hx(g.spelled), ','.join(vlib.hx(d) for d in g.caller))))
            trip_impl.append(('%ds' % i, 'B', vlib.hx('\n'.join(flat))))
        for name, g, main, flat in special:
            materialise(g)
            trip_impl.append(('%sf' % name, 'F', '%s %s' % (vlib.hx(main), ','.join(vlib.hx(d) for d in g.caller))))
            if flat is not None: trip_impl.append(('%ss' % name, 'B', vlib.hx('\n'.join(flat))))
        impl = vlib.run_impl(trip_impl)
        if model_ok:
            lines = vlib.cwd_prelude()
            allc = [(str(i), g, main) for i, (g, main, flat) in enumerate(cases)] + [(nm, g, main) for nm, g, main, _ in special]
            for key, g, main in allc:
                lines += fs_prelude(g)
                lines.append('%sf F %s %s' % (key, vlib.hx(getattr(g, 'spelled', main)), ','.join(vlib.hx(d) for d in g.caller)))
            mres, rc, err = vlib.run_lines(vlib.DRIVER, lines, mode=None)
            for key, g, main in allc:
                k = '%sf' % key
                if impl.get(k) != mres.get(k, 'MISSING'):
                    dis.append({'main': main, 'files': {p: l for p, l in g.files.items()}, 'impl': impl.get(k, '')[:200], 'model': mres.get(k, 'MISSING')[:200]})
        okc = 0
        def strip_msgs(s): return s.split(' msgs=')[0]
        for i, (g, main, flat) in enumerate(cases):
            a, b = impl.get('%df' % i, ''), impl.get('%ds' % i, '')
            if b.startswith('OK'): okc += 1
            if g.dup: continue
            same = (strip_msgs(a) == strip_msgs(b)) if a.startswith('OK') or b.startswith('OK') else (a.startswith('ERR') and b.startswith('ERR'))
            if not same:
                vio.append({'what': 'build_file of the tree differs from build_str of the flattened text', 'main': main, 'main_as_passed': g.spelled,
                            'files': {os.path.relpath(p, g.root): l for p, l in g.files.items()}, 'caller_dirs': [os.path.relpath(d, g.root) for d in g.caller],
                            'flattened': flat, 'impl': a[:200], 'expected(flattened)': b[:200], 'key': 'paste'})
        a = impl.get('missingf', '')
        if not (a.startswith('ERR') and ('file=' + vlib.hx('not_there.inc')) in a):
            vio.append({'what': 'a file found nowhere must fail the build with an error naming it', 'files': {'main.asm': ['  nop', '.include "not_there.inc"']}, 'impl': a[:200], 'expected': 'ERR ... file=not_there.inc', 'key': 'missing'})
        a, b = impl.get('probef', ''), impl.get('probes', '')
        if strip_msgs(a) != strip_msgs(b):
            vio.append({'what': 'a directory added by .includepath inside an included file is not searched afterwards from the including file', 'files': {'main/main.asm': ['.include "a.inc"', '.include "x.inc"'], 'main/a.inc': ['.includepath "sub"', '  nop'], 'main/sub/x.inc': ['  ret']},
                        'impl': a[:160], 'expected(flattened)': b[:160], 'key': 'includepath-writeback'})
        for nm, (ml, il, flat) in UNBALANCED.items():
            a, b = impl.get(nm + 'f', ''), impl.get(nm + 's', '')
            if strip_msgs(a) != strip_msgs(b):
                vio.append({'what': 'a conditional or macro definition open across an include boundary does not behave as pasted text', 'tree': tree_text(ml, il),
                            'impl': a[:160], 'expected(flattened)': b[:160], 'key': 'unbalanced'})
    finally:
        shutil.rmtree(root, ignore_errors=True)
    depth = Counter()
    for g, main, flat in cases: depth[len(g.files)] += 1
    return {
        'evaluations': 2 * len(cases) + 3 + 2 * len(UNBALANCED), 'distinct_nontrivial': len({tuple(sorted((os.path.relpath(p, g.root), tuple(l)) for p, l in g.files.items())) for g, _, _ in cases}),
        'rule': 'seeded random splits of a program (instructions, .equ, labels, .def, macro definitions and calls, .define/.ifdef, segment switches, optional .device) into a tree of files: includes by bare name from the includer\'s directory, a caller-supplied directory, a directory added by a relative or absolute .includepath just before; by sub-directory path; by absolute path; nesting up to 4, .exit in included files, plain and under a taken / untaken condition; each tree is written to a scratch directory and built with build_file, its flattened text with build_str; plus a missing-file case, the tree of the repaired .includepath defect and the exact trees of the recorded finding (constructs open across the boundary); distinct = distinct trees',
        'samples': [{os.path.relpath(p, cases[0][0].root): l for p, l in cases[0][0].files.items()}],
        'exhaustive': False,
        'distribution': {'trees': len(cases), 'trees_with_a_name_in_two_searched_directories(impl vs model only)': sum(1 for g, _, _ in cases if g.dup), 'flattened_programs_that_build': okc,
                         'main_file_spelling': dict(Counter('absolute' if g.spelled == main else 'relative, found through a caller directory' if not g.spelled.startswith('/') else 'through .. or .' for g, main, _ in cases)),
                         'included_files_ending_on_an_origin': sum(1 for g, main, _ in cases for p, l in g.files.items() if p != main and any(x.strip().startswith('.org') for x in l[-2:])),
                         'include_names_through_dot_components': sum(1 for g, _, _ in cases for l in g.files.values() for x in l if x.startswith('.include "') and ('/../' in x or '"./' in x)), 'files_per_tree': sorted(depth.items())},
        'disagreements': dis[:30], 'violations': vio,
    }

def matches_known(k, v):
    return k.get('id') == KNOWN_UNBALANCED and v.get('key') == 'unbalanced' and v.get('tree') in k.get('inputs', [])
