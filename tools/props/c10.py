"""C10: symbols.  Programs define and use labels, .equ, .set and .def names in random order and
letter case (.set redefinitions, .def/.undef windows, forward and backward references from
instructions and data).  Oracle (independent binder in the generator): the program must build to
the same result as its hand-resolved version (every reference replaced by the value / register the
documented binding rules give it, definitions blanked); every single-definition deletion, use of an
alias after .undef or before .def, duplicate label and cross-class name clash must fail."""
import random
from collections import Counter
import vlib

THEOREM_FILES = ['C10', 'C10b', 'C10c']
ASSUMPTIONS = ['the generator\'s binder implements the documented rules (labels/.equ global, .set = latest preceding assignment, .def from definition to .undef, names case-insensitive)',
               'all generated instructions are one word, so label addresses are line counts']

def case(rng, s):
    k = rng.random()
    if k < .4: return s
    if k < .6: return s.upper()
    if k < .8: return s.lower()
    return ''.join(c.upper() if rng.random() < .5 else c.lower() for c in s)

def gen(rng):
    """returns (lines, resolved_lines, mutants) ; each line a string"""
    n_equ, n_set, n_def, n_lab = rng.randrange(0, 3), rng.randrange(0, 3), rng.randrange(0, 3), rng.randrange(1, 4)
    equs = {'Eq%d' % i: rng.randrange(0, 200) for i in range(n_equ)}
    labs = ['Lab%d' % i for i in range(n_lab)]
    sets = ['Var%d' % i for i in range(n_set)]
    defs = ['Tmp%d' % i for i in range(n_def)]
    body = []     # (kind, payload)
    setval, live = {}, {}
    # an .equ whose expression reads a .set variable: it is evaluated where it is USED, with the assignment in force there
    equx = {}
    if sets and rng.random() < .6:
        equx['Eqx0'] = (rng.choice(sets), rng.randrange(1, 9))
    # statements
    stmts = []
    for _ in range(rng.randrange(4, 14)):
        k = rng.random()
        if k < .15 and sets:
            s = rng.choice(sets)
            if s in setval and rng.random() < .5:
                d = rng.randrange(1, 5); stmts.append(('set', s, '%s + %d' % (case(rng, s), d), setval[s] + d)); setval[s] += d
            elif equs and rng.random() < .3:
                e = rng.choice(list(equs)); stmts.append(('set', s, case(rng, e), equs[e])); setval[s] = equs[e]
            else:
                v = rng.randrange(0, 100); stmts.append(('set', s, str(v), v)); setval[s] = v
        elif k < .3 and defs:
            d = rng.choice(defs)
            if d in live:
                stmts.append(('undef', d)); del live[d]
            else:
                r = rng.randrange(16, 32); stmts.append(('def', d, r)); live[d] = r
        elif k < .45 and live:
            d = rng.choice(list(live))
            stmts.append(('ins', rng.choice(['mov %s, r1', 'ldi %s, 7', 'inc %s', 'cp r2, %s', 'mov r1, %s', 'ld %s, X', 'st Y+, %s', 'sbrc %s, 3', 'ldd %s, Z+2', 'andi %s, 0x0f', 'out 0x3f, %s', 'push %s', 'in %s, 0x3f', 'bld %s, 2', 'cpi %s, 3' if False else 'inc %s']), 'reg', d, live[d]))
        elif k < .6 and setval:
            s = rng.choice(list(setval))
            stmts.append(('ins', rng.choice(['.dw %s', 'ldi r16, %s', '.dw %s + 1', 'ldd r0, Y+(%s & 63)', 'sbi 5, %s & 7', 'ldi r16, low(%s)', '.dw -%s', 'c10use %s', 'cpi r20, (%s) & 0xff']), 'val', s, setval[s]))
        elif k < .68 and equx and equx['Eqx0'][0] in setval:
            var, c = equx['Eqx0']
            stmts.append(('ins', rng.choice(['.dw %s', 'ldi r17, %s', '.dw %s * 2', '.dw %s - 1']), 'val', 'Eqx0', setval[var] + c))
        elif k < .75 and equs:
            e = rng.choice(list(equs))
            stmts.append(('ins', rng.choice(['.dw %s', 'ldi r17, %s', 'subi r18, %s', '.dw %s * 2', 'std Z+(%s & 63), r3', 'sbrs r4, %s & 7', 'ldi r17, high(%s + 256)', '.dw ~%s & 0xffff', 'c10use %s', 'adiw r24, %s & 63', 'in r5, %s & 63']), 'val', e, equs[e]))
        elif k < .9:
            l = rng.choice(labs)
            stmts.append(('ins', rng.choice(['.dw %s', 'rjmp %s', 'ldi r19, low(%s)', 'brne %s', 'ldi r20, high(%s)', '.dw %s + 1', 'rcall %s', 'c10use %s', 'brbs 1, %s']), 'lab', l, None))
        else:
            stmts.append(('ins', 'nop', None, None, None))
    # equ definitions at random positions (forward references allowed), labels at random positions
    for e, v in equs.items():
        stmts.insert(rng.randrange(0, len(stmts) + 1), ('equ', e, v))
    for e, (var, c) in equx.items():
        stmts.insert(rng.randrange(0, len(stmts) + 1), ('equx', e, '%s + %d' % (case(rng, var), c)))
    for l in labs:
        stmts.insert(rng.randrange(0, len(stmts) + 1), ('label', l))
    # addresses: every 'ins' is one word; labels take the address of the next instruction
    addr, labaddr = 0, {}
    for s in stmts:
        if s[0] == 'label': labaddr[s[1]] = addr
        if s[0] == 'ins': addr += 1
    lines, res = [], []
    for s in stmts:
        if s[0] == 'equ':
            lines.append('.equ %s = %d' % (case(rng, s[1]), s[2])); res.append('')
        elif s[0] == 'equx':
            lines.append('.equ %s = %s' % (case(rng, s[1]), s[2])); res.append('')
        elif s[0] == 'label':
            lines.append('%s:' % case(rng, s[1])); res.append('')
        elif s[0] in ('set', 'def', 'undef'):
            t = ('.set %s = %s' % (case(rng, s[1]), s[2]) if s[0] == 'set' else
                 '.def %s = %s' % (case(rng, s[1]), case(rng, 'r%d' % s[2])) if s[0] == 'def' else '.undef %s' % case(rng, s[1]))
            # these take effect wherever they stand, also inside a data or EEPROM section (one list element, three lines)
            w = rng.random()
            if w < .15: t = '.dseg\n' + t + '\n.cseg'
            elif w < .22: t = '.eseg\n' + t + '\n.cseg'
            lines.append(t); res.append('')
        else:
            tmpl, kind, name, val = s[1], s[2], s[3], s[4]
            if kind is None:
                lines.append('  nop'); res.append('  nop')
            elif kind == 'reg':
                lines.append('  ' + tmpl % case(rng, name)); res.append('  ' + tmpl % ('r%d' % val))
            elif kind == 'val':
                lines.append('  ' + tmpl % case(rng, name)); res.append('  ' + tmpl % ('%d' % val))
            else:
                lines.append('  ' + tmpl % case(rng, name)); res.append('  ' + tmpl % ('%d' % labaddr[name]))
    # `c10use X` is `.dw X` through a macro (the symbol travels as a macro argument); the definition stands at the end
    res = [r.replace('c10use ', '.dw ') for r in res]
    if any('c10use' in l for l in lines):
        lines += ['.macro c10use', '  .dw @0', '.endm']; res += ['', '', '']
    # mutants that must fail
    mutants = []
    used = {s[3] for s in stmts if s[0] == 'ins' and s[3]}
    for idx, s in enumerate(stmts):
        if s[0] == 'equ' and s[1] in used:
            mutants.append(('delete .equ', [l for j, l in enumerate(lines) if j != idx]))
        if s[0] == 'label' and s[1] in used:
            mutants.append(('delete label', [l for j, l in enumerate(lines) if j != idx]))
            dup = list(lines); dup.insert(rng.randrange(0, len(dup) + 1), '%s:' % case(rng, s[1]))
            mutants.append(('duplicate label', dup))
        if s[0] == 'set' and s[1] in used:
            firstset = next(j for j, t in enumerate(stmts) if t[0] == 'set' and t[1] == s[1])
            firstuse = next((j for j, t in enumerate(stmts) if t[0] == 'ins' and t[3] == s[1]), None)
            later_sets = [j for j, t in enumerate(stmts) if t[0] == 'set' and t[1] == s[1] and j != firstset and (firstuse is None or j < firstuse)]
            if idx == firstset and not later_sets and firstuse is not None and all(not (t[0] == 'set' and s[1].lower() in t[2].lower() and j > firstset) or True for j, t in enumerate(stmts)):
                # removing the first assignment: the first use (or a later `.set x = x + d`) has nothing to refer to
                mutants.append(('delete first .set', [l for j, l in enumerate(lines) if j != idx]))
        if s[0] == 'def' and s[1] in used:
            nxt = next((j for j, t in enumerate(stmts) if j > idx and t[0] in ('undef', 'def') and t[1] == s[1]), len(stmts))
            if any(t[0] == 'ins' and t[3] == s[1] for t in stmts[idx:nxt]):
                mutants.append(('delete .def', [l for j, l in enumerate(lines) if j != idx]))
        if s[0] == 'undef':
            aft = list(lines); aft.insert(idx + 1, '  mov %s, r3' % case(rng, s[1]))
            mutants.append(('alias after .undef', aft))
    # an undefined name is an error wherever it stands in an expression, also behind an operand that decides && / ||
    pos = rng.randrange(0, len(lines) + 1)
    for t in ('  .dw 0 && c10_nosuch', '  ldi r16, 1 || c10_nosuch', '.if 0 && c10_nosuch\n.endif', '  .dw 1 || (c10_nosuch > 2)', '.set c10_v = 0 && c10_nosuch', '  .dw 0 * c10_nosuch'):
        m = list(lines); m.insert(pos, t)
        mutants.append(('undefined name behind a deciding operand', m))
    # cross-class name clashes: a name may have one definition only, whatever its class
    def add_clash(what, newline, pos=None):
        c = list(lines); c.insert(len(c) if pos is None else pos, newline); mutants.append((what, c))
    lab0 = labs[0]
    add_clash('label/.equ name clash', '.equ %s = 1' % case(rng, lab0), rng.choice([None, 0]))
    add_clash('label/.set name clash', '.set %s = 1' % case(rng, lab0), rng.choice([None, 0]))
    add_clash('label/.def name clash', '.def %s = r20' % case(rng, lab0), rng.choice([None, 0]))
    if equs:
        e0 = list(equs)[0]
        add_clash('duplicate .equ', '.equ %s = 77' % case(rng, e0), rng.choice([None, 0]))
        add_clash('.equ/.set name clash', '.set %s = 1' % case(rng, e0), rng.choice([None, 0]))
        add_clash('.equ/.def name clash', '.def %s = r21' % case(rng, e0), rng.choice([None, 0]))
        add_clash('.equ/label name clash', '%s:' % case(rng, e0), rng.choice([None, 0]))
    if setval:
        s0 = list(setval)[0]
        add_clash('.set/.def name clash', '.def %s = r22' % case(rng, s0))
        add_clash('.set/label name clash', '%s:' % case(rng, s0), rng.choice([None, 0]))
    rng.shuffle(mutants)
    # (after the mutants were derived from the one-item-per-line text)
    # a label may stand on the line of the instruction that follows it
    for i in range(len(stmts) - 1):
        if stmts[i][0] == 'label' and stmts[i + 1][0] == 'ins' and '\n' not in lines[i + 1] and rng.random() < .35:
            lines[i] = lines[i] + ' ' + lines[i + 1].strip(); lines[i + 1] = ''
    return lines, res, mutants

def run(tier, seed, model_ok):
    rng = random.Random(seed)
    n = 1500 if tier == 'quick' else 20000
    trip, meta = [], []
    for i in range(n):
        lines, res, mutants = gen(rng)
        trip.append(('%dp' % i, 'B', vlib.hx('\n'.join(lines)))); trip.append(('%dr' % i, 'B', vlib.hx('\n'.join(res))))
        ms = mutants if tier == 'thorough' else mutants[:8]
        for j, (what, ml) in enumerate(ms):
            trip.append(('%dm%d' % (i, j), 'B', vlib.hx('\n'.join(ml))))
        meta.append((lines, res, ms))
    # fixed programs: a .set variable assigned from ANOTHER variable (or from pc) keeps the value it got there, whatever
    # is assigned to the other one later ("the latest preceding assignment" of each name); symbol directives written while
    # the data segment is current count like everywhere else
    FIXED = [
        (['.set base = 1', '.set idx = base + 1', '.set base = 0x20', ' ldi r16, idx', ' .dw idx, base'], ['', '', '', ' ldi r16, 2', ' .dw 2, 0x20']),
        (['.set A = 3', '.set b = a * 2', '.set B = B + A', '.set a = 100', ' .dw b, a'], ['', '', '', '', ' .dw 9, 100']),
        ([' nop', '.set here = pc', ' nop', ' nop', '.set there = here + 1', '.set here = pc', ' .dw there, here'], [' nop', '', ' nop', ' nop', '', '', ' .dw 2, 3']),
        (['.set n = 1', '.def tmp = r16', '.dseg', '.set n = n + 1', '.undef tmp', '.def tmp = r20', 'buf: .byte 2', '.cseg', ' ldi tmp, n', ' ldi r17, low(buf)'],
         ['', '', '.dseg', '', '', '', 'buf: .byte 2', '.cseg', ' ldi r20, 2', ' ldi r17, low(buf)']),
        (['.dseg', '.def acc = r18', '.set k = 7', 'v: .byte 1', '.cseg', ' ldi acc, k', ' lds acc, v'], ['.dseg', '', '', 'v: .byte 1', '.cseg', ' ldi r18, 7', ' lds r18, v']),
    ]
    FIXED_FAIL = [('alias after .undef written in .dseg', ['.def tmp = r16', '.dseg', '.undef tmp', '.cseg', ' ldi tmp, 1']),
                  ('second .def of a live alias', ['.def tmp = r16', '.def tmp = r3', ' ldi tmp, 1']),
                  ('second .def of a live alias, other case', ['.def tmp = r16', '.def TMP = r17', ' inc tmp'])]
    for lines_, res_ in FIXED:
        i = len(meta)
        trip.append(('%dp' % i, 'B', vlib.hx('\n'.join(lines_)))); trip.append(('%dr' % i, 'B', vlib.hx('\n'.join(res_))))
        ms_ = FIXED_FAIL if lines_ is FIXED[0][0] else []
        for j, (what, ml) in enumerate(ms_):
            trip.append(('%dm%d' % (i, j), 'B', vlib.hx('\n'.join(ml))))
        meta.append((lines_, res_, ms_))
    # one name defined twice, by every pair of defining constructs in both orders, then used as a value and as a
    # register: which of these the tool refuses is not said by the property (only duplicate labels are), so these
    # programs are compared with the model only - a change in what is refused shows as a disagreement
    defs = {'label': 'nm:', 'equ': '.equ nm = 1', 'set': '.set nm = 2', 'def': '.def nm = r16', 'def2': '.def nm = r17', 'undef': '.undef nm', 'dseg label': '.dseg\nnm: .byte 1\n.cseg'}
    nclash = 0
    for a_, ta in defs.items():
        for b_, tb in defs.items():
            for use in ('ldi r18, nm', 'mov nm, r1', 'nop'):
                for nm2 in ('nm', 'NM'):
                    trip.append(('x%d' % nclash, 'B', vlib.hx(ta + '\n' + tb.replace('nm', nm2) + '\n ' + use))); nclash += 1
    impl = vlib.run_impl(trip)
    model = vlib.run_model(trip, vlib.cwd_prelude()) if model_ok else {}
    dis, vio = [], []
    kinds = Counter()
    if model_ok:
        for k, _, h in trip:
            if impl.get(k) != model.get(k, 'MISSING'):
                dis.append({'source': vlib.unhx(h).decode(), 'impl': impl.get(k, '')[:160], 'model': model.get(k, 'MISSING')[:160]})
    okp = 0
    for i, (lines, res, ms) in enumerate(meta):
        a, b = impl.get('%dp' % i, ''), impl.get('%dr' % i, '')
        if not b.startswith('OK'):
            # the resolved program itself fails (e.g. branch out of range, value out of range): nothing to compare
            if a.startswith('OK'):
                vio.append({'what': 'program builds although its hand-resolved version does not', 'source': '\n'.join(lines), 'impl': a[:160], 'expected': b[:80], 'key': 'resolve'})
            continue
        okp += 1
        if a != b:
            vio.append({'what': 'program does not build to the same result as its hand-resolved version (symbols replaced by the values the binding rules give)',
                        'source': '\n'.join(lines), 'impl': a[:200], 'expected(resolved)': b[:200], 'resolved_source': '\n'.join(res), 'key': 'resolve'})
        for j, (what, ml) in enumerate(ms):
            m = impl.get('%dm%d' % (i, j), '')
            kinds[what] += 1
            if not m.startswith('ERR'):
                vio.append({'what': 'mutant must fail the build (%s) but did not' % what, 'source': '\n'.join(ml), 'impl': m[:160], 'expected': 'error', 'key': what})
    kinds['two definitions of one name (compared with the model only)'] = nclash
    return {
        'evaluations': len(trip), 'distinct_nontrivial': len({t[2] for t in trip}),
        'rule': 'seeded random programs over up to 3 .equ, 3 .set variables (re-assigned, also from themselves and from .equ), 3 .def aliases with .undef/.def sequences and 1..3 labels, used from instructions (register and immediate positions, relative branches) and data directives, definitions of .equ and labels placed anywhere (forward references), every occurrence in a random letter case; each program is built, its hand-resolved version is built, and its mutants (single definition deleted, label duplicated, alias used after .undef, every cross-class name clash and duplicate .equ) are built; distinct = distinct texts',
        'samples': ['\n'.join(meta[0][0]), '\n'.join(meta[1][0])],
        'exhaustive': False,
        'distribution': {'programs': len(meta), 'programs_compared': okp, 'mutants': dict(kinds)},
        'disagreements': dis[:50], 'violations': vio,
    }
