"""C12: every device x each of the three memories x usage one below / at / one above capacity,
reached by code, data, reservations and .org.  Oracle: the capacities the shipped part definition
file declares (where one exists; otherwise the code's own table row), 'fits <=> builds', reported
sizes and RAM extent."""
import subprocess, sys, os
from collections import Counter
sys.path.insert(0, os.path.dirname(os.path.dirname(os.path.abspath(__file__))))
import vlib
from partdefs import partdefs

THEOREM_FILES = ['C12', 'C12b']
ASSUMPTIONS = ['the figures of includes/*def.inc are read by a static parse (tools/partdefs.py)',
               'for devices without a shipped part file the expected capacities are the code\'s own table row (nothing independent exists)']

def table():
    p = subprocess.run([vlib.HARNESS, 'extract'], input='nop\n', capture_output=True, text=True)
    devs, default = {}, None
    for l in p.stdout.splitlines():
        x = l.split()
        if x[0] == 'DEV':
            devs[x[1]] = dict(flash=int(x[2]), ram_start=int(x[3]), ram_size=int(x[4]), eeprom=int(x[5]), opts=x[6], avr8l=x[7] == '1')
        if x[0] == 'DEFAULTDEV':
            default = dict(flash=int(x[1]), ram_start=int(x[2]), ram_size=int(x[3]), eeprom=int(x[4]))
    return devs, default

def cases(tier):
    devs, default = table()
    pd = {r[1]: r for r in partdefs(vlib.REPO)}
    out = []   # (source, expect_ok, expect dict or None, note)
    # which devices have sts at all (verdict of the independent device-requirement table)
    from . import enc_common as EC
    names = sorted(devs)
    gate, _, _ = vlib.run_lines(EC.SPEC, ['%d GATE %s sts v64 r16' % (i, devs[nm]['opts']) for i, nm in enumerate(names)], mode=None)
    has_sts = {nm: gate.get(str(i)) == 'ALLOW' for i, nm in enumerate(names)}
    for name, d in sorted(devs.items()):
        cap = dict(d)
        if name in pd:
            _, _, fl, ee, rs, ra = pd[name]
            cap = dict(flash=fl // 2, eeprom=ee, ram_size=rs, ram_start=ra)
        F, E, R, S = cap['flash'], cap['eeprom'], cap['ram_size'], cap['ram_start']
        hdr = '.device %s\n' % name
        sizes = dict(fs=F, es=E, rs=R)
        for delta in (-1, 0, 1):
            ok = delta <= 0
            # flash by .org + one instruction / one data word / a two-word instruction
            n = F + delta            # words used
            if n >= 1:
                out.append((hdr + '.org %d\nnop' % (n - 1), ok, dict(sizes, code_len=2 * n, rf=0), 'flash/.org+nop'))
                out.append((hdr + '.org %d\n.dw 0x1234' % (n - 1), ok, dict(sizes, code_len=2 * n, rf=0), 'flash/.org+dw'))
                out.append((hdr + '.org %d\n.db 7' % (n - 1), ok, dict(sizes, code_len=2 * n, rf=0), 'flash/.org+odd db'))
            if n >= 2:
                out.append((hdr + '.org %d\n.dd 1' % (n - 2), ok, dict(sizes, code_len=2 * n, rf=0), 'flash/.org+dd'))
            # the last instruction is an sts: two words, one word on the reduced core - counted as emitted
            L = 1 if d['avr8l'] else 2
            if has_sts[name] and n >= L:
                out.append((hdr + '.org %d\nsts 0x40, r16' % (n - L), ok, dict(sizes, code_len=2 * n, rf=0), 'flash/.org+sts'))
                if F <= 4096:
                    out.append((hdr + 'nop\n' * (n - L) + 'sts 0x40, r16', ok, dict(sizes, code_len=2 * n, rf=0), 'flash/code+sts'))
                    if n % L == 0:
                        out.append((hdr + 'lds r16, 0x40\n' * (n // L), ok, dict(sizes, code_len=2 * n, rf=0), 'flash/all lds'))
            if F <= 4096 and n >= 0:
                out.append((hdr + 'nop\n' * n, ok, dict(sizes, code_len=2 * n, rf=0), 'flash/code'))
                out.append((hdr + '.dw 1\n' * n, ok, dict(sizes, code_len=2 * n, rf=0), 'flash/data'))
            # eeprom
            m = E + delta
            if m >= 0:
                out.append((hdr + '.eseg\n.byte %d' % m, ok, dict(sizes, ee_len=m, rf=0), 'eeprom/.byte'))
                if m >= 1:
                    out.append((hdr + '.eseg\n.org %d\n.db 9' % (m - 1), ok, dict(sizes, ee_len=m, rf=0), 'eeprom/.org+db'))
                if m <= 1024:
                    out.append((hdr + '.eseg\n' + '.db 1\n' * m, ok, dict(sizes, ee_len=m, rf=0), 'eeprom/data'))
            # ram
            k = R + delta
            if k >= 0:
                out.append((hdr + '.dseg\n.byte %d' % k, ok, dict(sizes, rf=k), 'ram/.byte'))
                if k >= 1 and S + k - 1 > 0:
                    out.append((hdr + '.dseg\n.org %d\n.byte 1' % (S + k - 1), ok, dict(sizes, rf=k), 'ram/.org+byte'))
                if k <= 512:
                    out.append((hdr + '.dseg\n' + 'v%d: .byte 1\n' * k % tuple(range(k)), ok, dict(sizes, rf=k), 'ram/vars'))
        for delta in (-1, 0, 1):
            ok = delta <= 0
            n, m, k = F + delta, E + delta, R + delta
            # lines that occupy nothing after the last unit; the device chosen inside a macro; a redundant
            # directive of the memory already selected after the origin
            for z in ('.set done = 1', '.def tmp = r16', '#pragma AVRPART CORE CORE_VERSION V2', 'last:', '.equ fin = 2\n.message "done"'):
                if n >= 1:
                    out.append((hdr + '.org %d\nnop\n%s' % (n - 1, z), ok, dict(sizes, code_len=2 * n, rf=0), 'flash/.org+nop, then a line that occupies nothing'))
                if m >= 1:
                    out.append((hdr + '.eseg\n.byte %d\n%s' % (m, z), ok, dict(sizes, ee_len=m, rf=0), 'eeprom/.byte, then a line that occupies nothing'))
                if k >= 1:
                    out.append((hdr + '.dseg\n.byte %d\n%s' % (k, z), ok, dict(sizes, rf=k), 'ram/.byte, then a line that occupies nothing'))
            if k >= 1:
                out.append((hdr + '.dseg\n.byte %d\n.byte 0' % k, ok, dict(sizes, rf=k), 'ram/.byte, then a line that occupies nothing'))
            if n >= 1:
                out.append((hdr + '.org %d\n.cseg\nnop' % (n - 1), ok, dict(sizes, code_len=2 * n, rf=0), 'flash/.org, same-memory directive, nop'))
                out.append((hdr + '.cseg\n.org %d\n.cseg\n.dw 1' % (n - 1), ok, dict(sizes, code_len=2 * n, rf=0), 'flash/.org, same-memory directive, nop'))
            if m >= 1:
                out.append((hdr + '.eseg\n.org %d\n.eseg\n.db 9' % (m - 1), ok, dict(sizes, ee_len=m, rf=0), 'eeprom/.org, same-memory directive, db'))
            if k >= 1 and S + k - 1 > 0:
                out.append((hdr + '.dseg\n.org %d\n.dseg\n.byte 1' % (S + k - 1), ok, dict(sizes, rf=k), 'ram/.org, same-memory directive, byte'))
            # something before the origin, in each memory
            if n >= 3:
                out.append((hdr + 'nop\n.org %d\nnop' % (n - 1), ok, dict(sizes, code_len=2 * n, rf=0), 'flash/item, .org, nop'))
            if m >= 4:
                out.append((hdr + '.eseg\n.db 1, 2\n.org %d\n.db 9' % (m - 1), ok, dict(sizes, ee_len=m, rf=0), 'eeprom/items, .org, db'))
            if k >= 3 and S + k - 1 > 0:
                out.append((hdr + '.dseg\n.byte 1\n.org %d\n.byte 1' % (S + k - 1), ok, dict(sizes, rf=k), 'ram/item, .org, byte'))
            for mh in ('.macro seldev\n.device %s\n.endm\nseldev\n' % name, '.macro seldev\n.device @0\n.endm\nseldev %s\n' % name):
                if n >= 1:
                    out.append((mh + '.org %d\nnop' % (n - 1), ok, dict(sizes, code_len=2 * n, rf=0), 'device chosen inside a macro'))
                if k >= 0:
                    out.append((mh + '.dseg\n.byte %d' % k, ok, dict(sizes, rf=k), 'device chosen inside a macro'))
        # unknown / second device
        out.append((hdr + '.device %s\nnop' % name, False, None, 'second device'))
        out.append(('.device %sx\nnop' % name, False, None, 'unknown device'))
    # defaults
    out.append(('nop', True, dict(fs=default['flash'], es=default['eeprom'], rs=default['ram_size'], code_len=2, rf=0), 'default sizes'))
    out.append(('.dseg\n.byte 10\n.eseg\n.byte 3', True, dict(fs=4194304, es=65536, rs=8388608, ee_len=3, rf=10), 'documented defaults'))
    out.append(('.eseg\n.byte 65536', True, dict(ee_len=65536), 'default eeprom full'))
    out.append(('.eseg\n.byte 65537', False, None, 'default eeprom +1'))
    out.append(('.dseg\n.byte 8388608', True, dict(rf=8388608), 'default ram full'))
    out.append(('.dseg\n.byte 8388609', False, None, 'default ram +1'))
    return out

def field(canon, name):
    for f in canon.split():
        if f.startswith(name + '='):
            return f[len(name) + 1:]
    return None

def file_cases():
    """the device selected by a shipped part-definition file: (main text, fits, expected sizes, note)"""
    return [
        ('.include "m48def.inc"\n.dseg\n.byte 512\n', True, dict(fs=2048, es=256, rs=512, rf=512), 'part file selects the device, RAM full'),
        ('.include "m48def.inc"\n.dseg\n.byte 513\n', False, None, 'part file selects the device, RAM + 1'),
        ('.include "m48def.inc"\n.org 2047\n nop\n', True, dict(fs=2048, code_len=4096), 'part file selects the device, flash full'),
        ('.include "m48def.inc"\n.org 2048\n nop\n', False, None, 'part file selects the device, flash + 1'),
        ('.include "m48def.inc"\n.include "m88def.inc"\n nop\n', False, None, 'second device through a second part file'),
        ('.device ATmega48\n.include "m88def.inc"\n nop\n', False, None, 'second device through a part file'),
        ('.include "m48def.inc"\n.device ATmega48\n nop\n', False, None, 'second device after a part file'),
        ('.include "m88def.inc"\n.eseg\n.byte 512\n', True, dict(fs=4096, es=512, ee_len=512), 'part file selects the device, EEPROM full'),
    ]

def run(tier, seed, model_ok):
    import tempfile, shutil
    cs = cases(tier)
    trip = [(str(i), 'B', vlib.hx(c[0])) for i, c in enumerate(cs)]
    # the same through files: the main file in a scratch directory, the shipped includes as include directory
    root = tempfile.mkdtemp(prefix='avra-c12-')
    try:
        inc = os.path.join(vlib.REPO, 'includes')
        for j, (text, ok, exp, note) in enumerate(file_cases()):
            pth = os.path.join(root, 'f%d.asm' % j)
            open(pth, 'w').write(text)
            trip.append((str(len(cs)), 'F', '%s %s' % (vlib.hx(pth), vlib.hx(inc))))
            cs.append((text, ok, exp, note))
        impl = vlib.run_impl(trip)
    finally:
        shutil.rmtree(root, ignore_errors=True)
    nfile = len(file_cases())
    trip = trip[:-nfile]
    model = vlib.run_model(trip, vlib.cwd_prelude()) if model_ok else {}
    dis, vio = [], []
    for i, (src, ok, exp, note) in enumerate(cs):
        k = str(i)
        a = impl.get(k, 'MISSING')
        if model_ok and i < len(cs) - nfile and a != model.get(k, 'MISSING'):
            dis.append({'source': src[:300], 'impl': a[:200], 'model': model.get(k, 'MISSING')[:200], 'note': note})
        short = src if len(src) < 200 else src[:100] + ' ... (%d lines)' % src.count('\n')
        if ok:
            if not a.startswith('OK'):
                vio.append({'what': 'program that fits the device exactly (or with room) does not build', 'source': short, 'impl': a[:160], 'expected': 'OK', 'key': note})
                continue
            bad = []
            for f in ('fs', 'es', 'rs', 'rf'):
                if exp and f in exp and field(a, f) != str(exp[f]):
                    bad.append('%s=%s expected %s' % (f, field(a, f), exp[f]))
            if exp and 'code_len' in exp:
                c = field(a, 'code'); n = 0 if c == '-' else len(c) // 2
                if n != exp['code_len']: bad.append('code length %d expected %d' % (n, exp['code_len']))
            if exp and 'ee_len' in exp:
                c = field(a, 'ee'); n = 0 if c == '-' else len(c) // 2
                if n != exp['ee_len']: bad.append('eeprom length %d expected %d' % (n, exp['ee_len']))
            if bad:
                vio.append({'what': 'reported sizes / usage wrong: ' + '; '.join(bad), 'source': short, 'impl': a[:60] + '...', 'expected': str(exp), 'key': note})
        else:
            if not a.startswith('ERR'):
                vio.append({'what': 'program that needs one unit more than the device has (or selects an unknown/second device) builds', 'source': short, 'impl': a[:60] + '...', 'expected': 'error', 'key': note})
    return {
        'evaluations': len(cs), 'distinct_nontrivial': len({c[0] for c in cs}),
        'rule': 'every device of the table x flash/EEPROM/RAM x usage capacity-1, capacity, capacity+1 reached by .org+instruction, .org+data (even, odd .db, .dd), an sts/lds as the last instruction (two words, one on the reduced core), plain code and data lines (small devices), .byte reservations, labelled one-byte variables; the same followed by a line that occupies nothing (.set, .def, #pragma, a label, .equ+.message, .byte 0); an origin followed by a redundant directive of the memory already selected; the device chosen inside a called macro (literal and @0); an item before the origin in each memory; second and unknown device selection; the device selected through the shipped part files m48def.inc / m88def.inc (full, +1, second device); default sizes; capacities expected from the shipped part file where one exists; distinct = distinct programs',
        'samples': [cs[0][0], cs[7][0][:80]],
        'exhaustive': True,
        'distribution': dict(Counter(c[3] for c in cs)),
        'disagreements': dis, 'violations': vio,
    }
