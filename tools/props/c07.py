"""C07: write_code_hex / write_eeprom_hex on every image length below 600, every length within a
record of each 64 KiB boundary up to the largest flash of the device table, random contents.
Correspondence: the file bytes vs the model's `fileText`.  Oracle: the independent Lean reader
(Spec.Hex.readCells, the one `hex_roundtrip` is about) must decode the file to exactly the image."""
import random, subprocess
from . import enc_common as E
import vlib

THEOREM_FILES = ['C07']
ASSUMPTIONS = ['the record formatting of the ihex crate (a dependency, not /repo source) is modelled (Model.Hex.recordText) and tied only by this correspondence run',
               'File::create / write_all write the bytes they are given']

def lengths(tier):
    p = subprocess.run([vlib.HARNESS, 'extract'], input='nop\n', capture_output=True, text=True)
    maxflash = max(int(l.split()[2]) for l in p.stdout.splitlines() if l.startswith('DEV ')) * 2
    ls = set(range(0, 600))
    b = 65536
    while b <= maxflash + 65536:
        for d in range(-17, 18):
            if b + d >= 0: ls.add(b + d)
        b += 65536
    ls.add(maxflash)
    # beyond the table: the default device (no .device line) has 8 MiB of flash; the 16th 64 KiB
    # block is where a 16-bit segment value would wrap
    ls |= {1048576 - 1, 1048576, 1048576 + 1, 1048576 + 17}
    if tier == 'thorough':
        ls |= set(range(600, 70000, 7)) | {524288, 524288 + 5}
    return sorted(ls), maxflash

def run(tier, seed, model_ok):
    rng = random.Random(seed)
    ls, maxflash = lengths(tier)
    imgs = []
    for n in ls:
        kind = rng.choice(['rand', 'rand', 'zero', 'ff', 'inc'])
        if kind == 'rand': img = bytes(rng.getrandbits(8) for _ in range(n)) if n < 5000 else rng.randbytes(n)
        elif kind == 'zero': img = bytes(n)
        elif kind == 'ff': img = b'\xff' * n
        else: img = bytes(i % 256 for i in range(n))
        imgs.append(img)
    trip = [(str(i), 'H', vlib.hx(img)) for i, img in enumerate(imgs)]
    impl = vlib.run_impl(trip)
    model = vlib.run_model(trip) if model_ok else {}
    dis, vio = [], []
    lines = []
    for i, img in enumerate(imgs):
        k = str(i)
        a = impl.get(k, 'MISSING')
        if model_ok and a != model.get(k, 'MISSING'):
            dis.append({'image_length': len(img), 'impl': a[:120], 'model': model.get(k, 'MISSING')[:120]})
        if a.startswith('HEX2 '):
            fc, fe = a[5:].split(' ')
            lines.append('%d HEXCHECK %s %s' % (i, fc, vlib.hx(img)))
            if fe != '-':      # the EEPROM file of the very large images is reported for every third length only
                lines.append('%de HEXCHECK %s %s' % (i, fe, vlib.hx(img[::-1])))
        else:
            vio.append({'what': 'writer did not produce one and the same file for code and eeprom / failed', 'image_length': len(img), 'impl': a[:100], 'expected': 'HEX file', 'key': 'write'})
    spec, _, _ = vlib.run_lines(E.SPEC, lines, mode=None)
    for i, img in enumerate(imgs):
      for which, s in (('code', spec.get(str(i))), ('eeprom', spec.get('%de' % i))):
        if s is not None and s != 'MATCH':
            vio.append({'what': 'independent reader does not get the %s image back from the file of the %s writer: ' % (which, which) + s, 'image_length': len(img),
                        'image_head': vlib.hx(img[:32]), 'impl': impl[str(i)][:160], 'expected': 'MATCH', 'key': 'len%d' % len(img)})
    return {
        'evaluations': len(imgs), 'distinct_nontrivial': len({(len(i), i[:64]) for i in imgs}) - 1,
        'rule': 'every image length 0..599, every length within 17 bytes of each multiple of 64 KiB up to the largest flash of the device table (%d bytes) + 64 KiB, plus 1 MiB -1/+0/+1/+17 (default device), contents random / zero / 0xff / counting (seeded); the code writer on the image and the EEPROM writer on the reversed image, two times out of three onto existing longer files; distinct = distinct (length, head) pairs, the empty image not counted as non-trivial' % maxflash,
        'samples': [{'length': len(imgs[5]), 'bytes': vlib.hx(imgs[5])}, {'length': len(imgs[-1])}],
        'exhaustive': False,
        'distribution': {'lengths': len(ls), 'max_length': ls[-1], 'over_64k': sum(1 for l in ls if l > 65536)},
        'disagreements': dis, 'violations': vio,
    }
