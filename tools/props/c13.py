"""C13: every device of the table x every mnemonic and addressing form through
build_str('.device D\\n<instruction>').  Oracle: the independent feature spec (GATE) with the
device's disabled options as extracted from the code's table by execution: DENY => must fail;
ALLOW => must assemble to the same code as with no device selected (lds/sts: the one-word form
on reduced cores, judged by ENC with core=1)."""
import subprocess
from collections import Counter
from . import enc_common as E
from .enc_common import mk, R, V
import vlib

THEOREM_FILES = ['C13', 'C13b', 'Enc', 'EncOps1', 'EncOps2', 'EncOps3', 'EncOps4', 'EncDefs']
ASSUMPTIONS = ['the feature flags of each device are taken from the code\'s own device table (extracted by execution), as the property says',
               'which flags an instruction needs is the hand-written Spec.requires']

def forms():
    """one legal representative per mnemonic and addressing form"""
    f = []
    for m in E.RR: f.append(mk(m, R(3), R(20)))
    for m in E.SAME + E.ONE: f.append(mk(m, R(17)))
    for m in E.IMM: f.append(mk(m, R(18), V(0x5a)))
    f.append(mk('ser', R(19)))
    for m in ('adiw', 'sbiw'): f.append(mk(m, R(26), V(9)))
    f.append(mk('muls', R(16), R(31)))
    for m in E.MULF: f.append(mk(m, R(17), R(22)))
    f.append(mk('movw', R(2), R(30)))
    for m in ('rjmp', 'rcall'): f.append(mk(m, V(5)))
    for m in ('jmp', 'call'): f.append(mk(m, V(0x100)))
    for b in E.BRANCHES: f.append(mk('br' + b, V(3)))
    f.append(mk('brbs', V(2), V(3))); f.append(mk('brbc', V(7), V(0)))
    f.append(mk('lds', R(16), V(0x60))); f.append(mk('sts', V(0x60), R(16)))
    f.append(mk('lds', R(3), V(0x160))); f.append(mk('sts', V(0x160), R(3)))
    # every register half and both ends of the one-word form's address field (the reduced core keeps 4 register bits)
    for r, a in ((20, 0x45), (23, 0x40), (24, 0x40), (27, 0x7f), (31, 0xbf), (31, 0x40)):
        f.append(mk('lds', R(r), V(a))); f.append(mk('sts', V(a), R(r)))
    for txt, tok in E.PTR:
        for m in ('ld', 'ldd'): f.append(mk(m, R(5), (txt, tok)))
        for m in ('st', 'std'): f.append(mk(m, (txt, tok), R(5)))
    for p in 'YZ':
        for m in ('ld', 'ldd'): f.append(mk(m, R(5), (p + '+7', 'i%s+q7' % p)))
        for m in ('st', 'std'): f.append(mk(m, (p + '+7', 'i%s+q7' % p), R(5)))
    for m in ('lpm', 'elpm'):
        f.append(mk(m, )); f.append(mk(m, R(4), ('Z', 'iZ'))); f.append(mk(m, R(4), ('Z+', 'iZ+')))
    f.append(mk('in', R(1), V(0x3f))); f.append(mk('out', V(0x3f), R(1)))
    for m in E.REGBIT: f.append(mk(m, R(9), V(7)))
    for m in E.IOBIT: f.append(mk(m, V(31), V(0)))
    for m in ('bset', 'bclr'): f.append(mk(m, V(4)))
    for fl in E.FLAGS: f.append(mk('se' + fl, )); f.append(mk('cl' + fl, ))
    for m in E.NOARG:
        if m not in ('lpm', 'elpm'): f.append(mk(m, ))
    return f

def devices():
    p = subprocess.run([vlib.HARNESS, 'extract'], input='nop\n', capture_output=True, text=True)
    out = []
    for l in p.stdout.splitlines():
        x = l.split()
        if x[0] == 'DEV':
            out.append((x[1], x[6], x[7] == '1'))
    return out

def run(tier, seed, model_ok):
    fs = forms()
    devs = devices()
    trip, meta = [], []
    for f in fs:
        trip.append((str(len(trip)), 'B', vlib.hx(f.src))); meta.append((None, f))
    for dname, opts, avr8l in devs:
        for f in fs:
            trip.append((str(len(trip)), 'B', vlib.hx('.device %s\n%s' % (dname, f.src)))); meta.append(((dname, opts, avr8l), f))
    impl = vlib.run_impl(trip)
    model = vlib.run_model(trip, vlib.cwd_prelude()) if model_ok else {}
    # oracle
    lines = []
    for i, (dev, f) in enumerate(meta):
        if dev:
            lines.append('%d GATE %s %s %s' % (i, dev[1], f.mn, ' '.join(f.toks)))
            lines.append('e%d ENC %d %s 0 %s' % (i, 1 if dev[2] else 0, f.mn, ' '.join(f.toks)))
    spec, _, _ = vlib.run_lines(E.SPEC, lines, mode=None)
    base = {f.src: impl[str(i)] for i, (dev, f) in enumerate(meta) if dev is None}
    dis, vio = [], []
    denied = allowed = 0
    for i, (dev, f) in enumerate(meta):
        k = str(i)
        a = impl.get(k, 'MISSING')
        if model_ok and a != model.get(k, 'MISSING'):
            dis.append({'source': vlib.unhx(trip[i][2]).decode(), 'impl': a[:200], 'model': model.get(k, 'MISSING')[:200]})
        if dev is None:
            if not a.startswith('OK'):
                vio.append({'what': 'representative instruction does not assemble with no device selected', 'source': f.src, 'impl': a, 'expected': 'OK', 'key': f.mn})
            continue
        g = spec.get(k)
        src = '.device %s\n%s' % (dev[0], f.src)
        if g == 'DENY':
            denied += 1
            if not a.startswith('ERR'):
                vio.append({'what': 'instruction the device lacks was assembled', 'source': src, 'impl': a[:160], 'expected': 'error', 'key': dev[0] + ':' + f.mn})
        elif g == 'ALLOW':
            allowed += 1
            e = spec.get('e' + k, '')
            exp = E.expected_canon_code(e) if e.startswith('W') else None
            if f.mn in ('lds', 'sts') and dev[2]:
                # reduced core: the one-word form, or rejected by the ISA (address/register outside its fields)
                if exp is None:
                    if not a.startswith('ERR'):
                        vio.append({'what': 'reduced-core lds/sts outside the one-word form was assembled', 'source': src, 'impl': a[:160], 'expected': 'error', 'key': dev[0] + ':' + f.mn})
                elif E.code_of(a) != exp:
                    vio.append({'what': 'reduced-core lds/sts is not the one-word form', 'source': src, 'impl': a[:160], 'expected_code': exp, 'key': dev[0] + ':' + f.mn})
            else:
                b = base[f.src]
                if not a.startswith('OK') or E.code_of(a) != E.code_of(b):
                    vio.append({'what': 'instruction the device has does not assemble to the same code as with no device', 'source': src, 'impl': a[:160], 'expected_code': E.code_of(b), 'key': dev[0] + ':' + f.mn})
        else:
            vio.append({'what': 'oracle could not judge (harness bug)', 'source': src, 'impl': a[:80], 'expected': str(g), 'key': 'oracle'})
    # second stream — the gate in context: (a) an instruction the device lacks stays refused when an ALLOWED form of
    # the same mnemonic was assembled just before it (and after it); (b) the `.device` line may come after the
    # first instruction: the gate is that of the device selected for the build, wherever it is selected
    verdict = {}
    for i, (dev, f) in enumerate(meta):
        if dev: verdict[(dev[0], f.src)] = spec.get(str(i))
    ctx, cmeta = [], []
    for dname, opts, avr8l in devs:
        den = [f for f in fs if verdict.get((dname, f.src)) == 'DENY']
        alw = [f for f in fs if verdict.get((dname, f.src)) == 'ALLOW']
        for f in den:
            mates = [g for g in alw if g.mn == f.mn]
            for g in mates[:2]:
                ctx.append('.device %s\n%s\n%s' % (dname, g.src, f.src)); cmeta.append(('allowed form of the same mnemonic first', 'ERR'))
                ctx.append('.device %s\n%s\n%s\n%s' % (dname, g.src, g.src, f.src)); cmeta.append(('allowed form of the same mnemonic twice first', 'ERR'))
        # the gate reaches every place an instruction can come from: a macro body, a second code section, a taken
        # conditional branch, a labelled line, an operand written through an alias
        for j, f in enumerate(den[:: max(1, len(den) // 3)][:3]):
            wrap = [('.macro c13m\n%s\n.endm\n c13m' % f.src, 'inside a macro body'),
                    (' nop\n.dseg\n.byte 1\n.cseg\n%s' % f.src, 'in a second code section'),
                    ('.org 0x20\n%s' % f.src, 'after .org'),
                    ('.if 1\n%s\n.endif' % f.src, 'inside a taken conditional'),
                    ('.if 0\n nop\n.else\n%s\n.endif' % f.src, 'inside a taken .else'),
                    ('c13l: %s' % f.src.strip(), 'on a labelled line'),
                    ('.macro c13o\n.macro c13i\n%s\n.endm\n.endm\n c13o\n c13i' % f.src, 'inside a macro defined by a macro')]
            for t, what in wrap[j::1][:4] if '\n' not in f.src.strip() else []:
                ctx.append('.device %s\n%s' % (dname, t)); cmeta.append((what, 'ERR'))
                ctx.append('%s\n.device %s' % (t, dname)); cmeta.append((what + ', .device at the end', 'ERR'))
        for f in den[:: max(1, len(den) // 4)][:4]:
            ctx.append(' nop\n.device %s\n%s' % (dname, f.src)); cmeta.append(('.device after the first instruction', 'ERR'))
            ctx.append(' nop\n%s\n.device %s' % (f.src, dname)); cmeta.append(('.device at the end', 'ERR'))
        for g in [x for x in alw if not (x.mn.startswith('br') and x.mn != 'break') and x.mn not in ('rjmp', 'rcall')][:: max(1, len(alw) // 4)][:3]:
            if g.mn in ('lds', 'sts', 'rjmp', 'rcall', 'brbs', 'brbc') or g.mn.startswith('br') and g.mn != 'break': continue   # position-dependent words
            ctx.append(' nop\n.device %s\n%s' % (dname, g.src)); cmeta.append(('.device after the first instruction', '0000' + E.code_of(base[g.src])))
    # the reduced core changes the LENGTH of lds/sts: what follows them must still be where its label says
    for i, (dev, f) in enumerate(meta):
        if dev and dev[2] and f.mn in ('lds', 'sts') and verdict.get((dev[0], f.src)) == 'ALLOW' and impl.get(str(i), '').startswith('OK'):
            one = E.code_of(impl[str(i)])
            if len(one) == 4:      # the one-word form, already judged by the matrix
                for k in (1, 2, 3):
                    ctx.append('.device %s\n%s\nc13done: rjmp c13done\n .dw c13done' % (dev[0], '\n'.join([f.src] * k)))
                    cmeta.append(('after %d one-word lds/sts on the reduced core' % k, one * k + 'ffcf' + '%02x00' % k))
    ctrip = [('c%d' % i, 'B', vlib.hx(t)) for i, t in enumerate(ctx)]
    cimpl = vlib.run_impl(ctrip)
    cmodel = vlib.run_model(ctrip, vlib.cwd_prelude()) if model_ok else {}
    for i, t in enumerate(ctx):
        a = cimpl.get('c%d' % i, 'MISSING')
        if model_ok and a != cmodel.get('c%d' % i, 'MISSING'):
            dis.append({'source': t, 'impl': a[:200], 'model': cmodel.get('c%d' % i, 'MISSING')[:200]})
        what, want = cmeta[i]
        if want == 'ERR':
            if not a.startswith('ERR'):
                vio.append({'what': 'instruction the device lacks was assembled (%s)' % what, 'source': t, 'impl': a[:160], 'expected': 'error', 'key': 'context'})
        elif not a.startswith('OK') or E.code_of(a) != want:
            vio.append({'what': 'instruction the device has does not assemble as with no device (%s)' % what, 'source': t, 'impl': a[:160], 'expected_code': want, 'key': 'context'})
    return {
        'evaluations': len(trip) + len(ctx), 'distinct_nontrivial': len({t[2] for t in trip}) + len(set(ctx)),
        'rule': 'every device of the table (extracted by execution) x one legal representative of every mnemonic and addressing form (all 9 pointer forms and Y/Z displacement for ld/ldd/st/std, the three lpm/elpm forms, lds/sts at a reduced-core address and at a classic one), plus the same forms with no device; exhaustive over that matrix; plus the gate in context: every denied cell after one and two allowed forms of the same mnemonic, and denied/allowed cells with the .device line after the first instruction or at the end of the program; distinct = distinct programs',
        'samples': [vlib.unhx(trip[0][2]).decode(), vlib.unhx(trip[len(trip) // 2][2]).decode()],
        'exhaustive': True,
        'distribution': {'devices': len(devs), 'forms': len(fs), 'denied_cells': denied, 'allowed_cells': allowed, 'context_programs': len(ctx)},
        'disagreements': dis, 'violations': vio,
    }
