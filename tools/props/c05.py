"""C05: expressions through build_str('.dq <expr>').  Trees are generated as structures, rendered
with only the parentheses the documented precedence table requires (random spacing, radices,
letter case), and judged by the independent Lean spec (EVAL: Spec.eval on the structure)."""
import random
from collections import Counter
from . import enc_common as E
import vlib

THEOREM_FILES = ['C05', 'C05pp']
ASSUMPTIONS = ['MIN % -1 is treated as an error like MIN / -1 (Rust checked_rem; decision recorded in DESIGN.md)',
               'the parse side: C05pp.parse_print / parse_print_spaced (theorems: minimal parentheses, and any blanks and further parentheses) + the operator-table Gen obligation (op_table_documented) + this correspondence (which adds blanks, radices and letter case)']

BIN = [('lor', '||', 1), ('land', '&&', 2), ('bor', '|', 3), ('bxor', '^', 4), ('band', '&', 5), ('eq', '==', 6), ('ne', '!=', 6),
       ('lt', '<', 7), ('le', '<=', 7), ('gt', '>', 7), ('ge', '>=', 7), ('shl', '<<', 8), ('shr', '>>', 8), ('add', '+', 9), ('sub', '-', 9),
       ('mul', '*', 10), ('div', '/', 10), ('rem', '%', 10)]
UN = [('minus', '-'), ('bnot', '~'), ('lnot', '!')]
FUNCS = ['low', 'high', 'byte2', 'byte3', 'byte4', 'lwrd', 'hwrd', 'exp2', 'page', 'log2']
UNL = 11
MIN, MAX = -2**63, 2**63 - 1
GRID = sorted(set([0, 1, -1, 2, -2, 3, 7, 8, 15, 16, 31, 32, 63, 64, 65, 127, 128, 255, 256, -128, -129, 65535, 65536, 2**31 - 1, 2**31, -2**31,
                   2**32 - 1, 2**32, 2**32 + 1, 0x123456789, 2**40, -2**40, 2**62, 2**62 + 1, -2**62, MAX, MAX - 1, MIN, MIN + 1, 0xff00ff00ff00ff,
                   -0x0123456789abcdef]))

class G:
    def __init__(self, seed):
        self.r = random.Random(seed)
        self.syms = {}

    def const(self, v):
        """tree for an integer value (negatives through unary minus, MIN through MAX arithmetic)"""
        if v >= 0: return ('c', v)
        if v == MIN: return ('b', 'sub', ('u', 'minus', ('c', MAX)), ('c', 1))
        return ('u', 'minus', ('c', -v))

    def tree(self, depth):
        r = self.r
        if depth <= 0 or r.random() < .25:
            k = r.random()
            if k < .2 and self.syms:
                return ('s', r.choice(list(self.syms)))
            if k < .5:
                return ('c', r.choice([0, 1, 2, 3, 5, 7, 8, 10, 16, 63, 64, 255, 256, 1000]))
            if k < .7:
                v = r.choice(GRID)
                return ('c', abs(v) if v != MIN else MAX)
            return ('c', r.randrange(0, r.choice([16, 70, 300, 70000, 2**33, 2**63])))
        k = r.random()
        if k < .15:
            return ('u', r.choice(UN)[0], self.tree(depth - 1))
        if k < .25:
            return ('f', r.choice(FUNCS), self.tree(depth - 1))
        return ('b', r.choice(BIN)[0], self.tree(depth - 1), self.tree(depth - 1))

    def lit(self, n):
        r = self.r
        k = r.random()
        if k < .45: return str(n)
        if k < .6: return ('0x%x' if r.random() < .5 else '0x%X') % n
        if k < .7: return '$%x' % n
        if k < .8: return '0b' + bin(n)[2:]
        if k < .9 and n > 0: return '0' + oct(n)[2:]
        if 33 <= n < 127 and chr(n) not in "'\\\"": return "'%s'" % chr(n)
        return str(n)

    def ws(self):
        return self.r.choice(['', '', ' ', ' ', '\t', '  '])

    def case(self, s):
        k = self.r.random()
        if k < .5: return s
        if k < .75: return s.upper()
        return ''.join(c.upper() if self.r.random() < .5 else c for c in s)

    def render(self, t, minl=0, extra=0.05):
        lv = {n: l for n, _, l in BIN}
        tx = {n: x for n, x, _ in BIN}
        k = t[0]
        if k == 'c': s, L = self.lit(t[1]), 99
        elif k == 's': s, L = self.case(t[1]), 99
        elif k == 'f': s, L = self.case(t[1]) + self.ws() + '(' + self.ws() + self.render(t[2], 0) + self.ws() + ')', 99
        elif k == 'u': s, L = dict(UN)[t[1]] + self.render(t[2], UNL), UNL
        else:
            L = lv[t[1]]
            s = self.render(t[2], L) + self.ws() + tx[t[1]] + self.ws() + self.render(t[3], L + 1)
        if L < minl or self.r.random() < extra:
            s = '(' + self.ws() + s + self.ws() + ')'
        return s

    def toks(self, t):
        k = t[0]
        if k == 'c': return ['c%d' % t[1]]
        if k == 's':
            v = self.syms[t[1]]
            return ['s%d' % v] if v is not None else ['sx']
        if k == 'f': return ['f' + t[1]] + self.toks(t[2])
        if k == 'u': return ['u' + t[1]] + self.toks(t[2])
        return ['b' + t[1]] + self.toks(t[2]) + self.toks(t[3])

def cases(tier, seed):
    g = G(seed)
    out = []   # (source, tokens)
    # 1. every binary operator on the full boundary grid, every unary operator and function on the grid
    for name, text, _ in BIN:
        grid = GRID if tier == 'thorough' or name in ('div', 'rem', 'mul', 'add', 'sub', 'shl', 'shr') else GRID[::2] + [MIN, MAX]
        for a in grid:
            for b in grid:
                t = ('b', name, g.const(a), g.const(b))
                out.append(('.dq ' + g.render(t, 0, 0), g.toks(t)))
    for name, _ in UN:
        for a in GRID:
            t = ('u', name, g.const(a))
            out.append(('.dq ' + g.render(t, 0, 0), g.toks(t)))
    for f in FUNCS:
        for a in GRID + list(range(60, 68)):
            t = ('f', f, g.const(a))
            out.append(('.dq ' + g.render(t, 0, 0), g.toks(t)))
    # 2. every ordered pair of binary operators without parentheses (precedence and associativity)
    for n1, _, _ in BIN:
        for n2, _, _ in BIN:
            for (a, b, c) in ((5, 3, 2), (2, 2, 0), (0, 3, 2), (7, 1, 1)):
                t1 = ('b', n2, ('b', n1, ('c', a), ('c', b)), ('c', c))     # (a n1 b) n2 c
                t2 = ('b', n1, ('c', a), ('b', n2, ('c', b), ('c', c)))     # a n1 (b n2 c)
                out.append(('.dq ' + g.render(t1, 0, 0), g.toks(t1)))
                out.append(('.dq ' + g.render(t2, 0, 0), g.toks(t2)))
    for u, _ in UN:
        for n2, _, _ in BIN:
            t1 = ('b', n2, ('u', u, ('c', 5)), ('c', 3))
            t2 = ('u', u, ('b', n2, ('c', 5), ('c', 3)))
            out.append(('.dq ' + g.render(t1, 0, 0), g.toks(t1)))
            out.append(('.dq ' + g.render(t2, 0, 0), g.toks(t2)))
        for u2, _ in UN:
            t = ('u', u, ('u', u2, ('c', 6)))
            out.append(('.dq ' + g.render(t, 0, 0), g.toks(t)))
    # 2a. two operators of one level in a row, no parentheses, on operands where only the left-to-right grouping
    #     gives the documented result (the other grouping overflows, or does not, or divides by another value)
    lv = {n: l for n, _, l in BIN}
    wide = [MAX, MIN, MIN + 1, 1, -1, 2, 0, 63, 64, -5]
    narrow = [0, 1, -1, MAX, 2]
    for n1, _, l1 in BIN:
        for n2, _, l2 in BIN:
            if l1 != l2: continue
            pts = wide if l1 >= 8 else narrow
            for a in pts:
                for b in pts:
                    for c in pts:
                        t = ('b', n2, ('b', n1, g.const(a), g.const(b)), g.const(c))
                        out.append(('.dq ' + g.render(t, 0, 0), g.toks(t)))
    # 2c. deep but legal expressions: long chains of one operator, stacked unary operators, nested functions,
    #     with a symbol (defined by an expression of its own) at the bottom; chains of definitions
    g.syms = {'base': 16}
    for depth in (30, 99, 100, 101, 150, 400):
        t = ('s', 'base')
        for i in range(depth): t = ('b', 'add', t, ('c', 1))
        out.append(('.equ base = 2*8\n.dq ' + g.render(t, 0, 0), g.toks(t)))
        t = ('s', 'base')
        for i in range(depth): t = ('b', 'bor', ('c', 1 << (i % 60)), t)
        out.append(('.equ base = 2*8\n.dq ' + g.render(t, 0, 0), g.toks(t)))
        t = ('s', 'base')
        for i in range(depth): t = ('u', ['minus', 'bnot'][i % 2], t)
        out.append(('.dq ' + g.render(t, 0, 0) + '\n.equ base = 2*8', g.toks(t)))
        t = ('s', 'base')
        for i in range(depth): t = ('f', ['lwrd', 'low', 'byte2'][0 if i % 3 else 1 if i % 2 else 0], t)
        out.append(('.equ base = 2*8\n.dq ' + g.render(t, 0, 0), g.toks(t)))
    for links in (5, 49, 50, 51, 90, 99):
        g.syms = {'a%d' % links: links}
        src = ['.equ a0 = 0*1'] + ['.equ a%d = a%d + 1' % (i, i - 1) for i in range(1, links + 1)]
        g.r.shuffle(src)
        t = ('s', 'a%d' % links)
        out.append(('\n'.join(src + ['.dq a%d' % links]), g.toks(t)))
    g.syms = {}
    # 2d. character literals: the value is the character's code point, ASCII or not
    for ch in ['A', ' ', ';', '"', ',', '~', '\x7f', '\u00e9', '\u00ff', '\u03a9', '\u20ac', '\U0001f600']:
        v = ord(ch)
        for txt, tk in (("'%s'" % ch, ['c%d' % v]), ("'%s' - 1" % ch, ['bsub', 'c%d' % v, 'c1']), ("high('%s')" % ch, ['fhigh', 'c%d' % v]), ("'%s'<<8|low('%s')" % (ch, ch), ['bbor', 'bshl', 'c%d' % v, 'c8', 'flow', 'c%d' % v])):
            out.append(('.dq ' + txt, tk))
    # 2b. a failing operand fails the whole expression whatever the operator and the other operand
    #     (in particular && and || evaluate BOTH operands: a deciding left operand does not hide a fault on the right)
    g.syms = {'nosuch': None}
    bad = [('b', 'div', ('c', 1), ('c', 0)), ('s', 'nosuch'), ('f', 'exp2', ('c', 64)), ('b', 'shl', ('c', 1), ('c', 64)), ('b', 'rem', ('c', 7), ('c', 0))]
    for name, _, _ in BIN:
        for f in bad:
            for a in (0, 1, 5):
                for t in (('b', name, ('c', a), f), ('b', name, f, ('c', a))):
                    out.append(('.dq ' + g.render(t, 0, 0), g.toks(t)))
    for u, _ in UN:
        for f in bad:
            t = ('u', u, f); out.append(('.dq ' + g.render(t, 0, 0), g.toks(t)))
    for fn in FUNCS:
        for f in bad:
            t = ('f', fn, f); out.append(('.dq ' + g.render(t, 0, 0), g.toks(t)))
    g.syms = {}
    # 3. random trees with symbols (.equ before/after, labels), spacing, radices
    n = 3000 if tier == 'quick' else 40000
    for _ in range(n):
        g.syms = {}
        pre, post = [], []
        for i in range(g.r.randrange(0, 4)):
            nm = g.r.choice(['Sy%d', 'k_%d', '_t%d', 'Val%dx']) % i
            v = g.r.choice([0, 1, 5, 255, 256, 65536, 2**40, MAX, g.r.randrange(0, 1000)])
            g.syms[nm] = v
            (pre if g.r.random() < .5 else post).append('.equ %s = %s' % (g.case(nm), g.lit(v)))
        k = g.r.random()
        if k < .3:
            g.syms['Lbl'] = 100 + len(g.syms)
            post.append('.org %d\n%s:' % (g.syms['Lbl'], g.r.choice(['Lbl', 'lbl', 'LBL'])))
        elif k < .4:
            # the label right behind the .dq line: its value is the four words the line occupies
            g.syms['Lbl'] = 4
            post.insert(0, '%s:' % g.r.choice(['Lbl', 'lbl', 'LBL']))
        if g.r.random() < .05:
            g.syms['nosuch'] = None
        t = g.tree(g.r.randrange(1, 7))
        out.append(('\n'.join(pre + ['.dq ' + g.render(t)] + post), g.toks(t)))
    return out

def run(tier, seed, model_ok):
    cs = cases(tier, seed)
    trip = [(str(i), 'B', vlib.hx(c[0])) for i, c in enumerate(cs)]
    impl = vlib.run_impl(trip)
    model = vlib.run_model(trip, vlib.cwd_prelude()) if model_ok else {}
    spec, _, _ = vlib.run_lines(E.SPEC, ['%d EVAL %s' % (i, ' '.join(c[1])) for i, c in enumerate(cs)], mode=None)
    dis, vio = [], []
    vals = fails = 0
    for i, (src, toks) in enumerate(cs):
        k = str(i)
        a = impl.get(k, 'MISSING')
        if model_ok and a != model.get(k, 'MISSING'):
            dis.append({'source': src, 'impl': a[:120], 'model': model.get(k, 'MISSING')[:120]})
        s = spec.get(k, 'NOSPEC')
        if s.startswith('V '):
            vals += 1
            v = int(s[2:])
            exp = (v % 2**64).to_bytes(8, 'little').hex()
            code = E.code_of(a) if a.startswith('OK') else None
            if code is None or code[:16] != exp:
                vio.append({'what': 'expression does not evaluate to the value of the operator table', 'source': src, 'impl': a[:100],
                            'expected_value': v, 'expected_code': exp, 'tree': ' '.join(toks), 'key': toks[0]})
        elif s == 'FAIL':
            fails += 1
            if not a.startswith('ERR'):
                vio.append({'what': 'expression that must fail the build (division by zero / overflow / shift count / unknown symbol) produced a value',
                            'source': src, 'impl': a[:100], 'expected': 'error', 'tree': ' '.join(toks), 'key': toks[0]})
        else:
            vio.append({'what': 'oracle could not judge (harness bug)', 'source': src, 'impl': a[:60], 'expected': s, 'key': 'oracle'})
    return {
        'evaluations': len(cs), 'distinct_nontrivial': len({c[0] for c in cs}),
        'rule': 'every binary operator on the boundary grid (0, +-1, small, powers of two +-1, i64 min/max; full grid for arithmetic and shifts, every second point plus the extremes for the others in the quick tier), every unary operator and function on the grid, every ordered pair of binary operators in both groupings rendered with minimal parentheses, unary x binary and unary x unary, every two operators of one level in a row on boundary triples (10^3 for shifts and arithmetic, 5^3 for the others) where the groupings differ by overflow, deep legal expressions (chains, stacked unary operators, nested functions of depth 30..400 over a symbol; definition chains of 5..99 links), character literals ASCII and not, and seeded random trees (depth <= 6) over all operators/functions with .equ symbols before/after use, labels, random spacing, radix and letter case; distinct = distinct source texts',
        'samples': [cs[3][0], cs[len(cs) // 2][0], cs[-1][0]],
        'exhaustive': False,
        'distribution': {'values': vals, 'must_fail': fails, 'root_ops': Counter(c[1][0] for c in cs).most_common(8)},
        'disagreements': dis, 'violations': vio,
    }
