"""C08: conditional assembly.  Trees of .if/.ifdef/.ifndef/.elif/.else/.endif are generated with a
known truth assignment (conditions on literals, .equ constants, .define flags, comparisons);
bounded-exhaustive over shapes (0..2 .elif arms, with/without .else, every truth assignment, one
nested construct in every branch position) plus random deeper ones.  Oracle (metamorphic, as the
property says): build(src) must equal build(src with every line of every unselected branch — and
the conditional directive lines themselves — blanked), images, sizes and messages included."""
import itertools, random
from collections import Counter
import vlib

THEOREM_FILES = ['C08', 'C08b']
ASSUMPTIONS = ['the generator knows which branch is selected because it chose the truth value of every condition and tracks .define lines of selected branches',
               'blanking (not removing) keeps line numbers, so that messages compare equal']

class T:
    def __init__(self, rng):
        self.rng = rng; self.n = 0; self.defined = set(); self.equs = {}
    def uid(self):
        self.n += 1; return self.n

    def cond_text(self, kind, truth):
        r = self.rng
        if kind == 'if':
            k = r.randrange(8)
            if k == 7:
                # every comparison on equal and on adjacent sides, literal and symbolic (KT = 1, KF = 0)
                a = r.choice([0, 1, 3, 5, 255])
                T_ = ['%d >= %d' % (a, a), '%d <= %d' % (a, a), '%d == %d' % (a, a), '%d > %d' % (a + 1, a), '%d < %d' % (a, a + 1), '%d != %d' % (a, a + 1), '%d >= %d' % (a + 1, a), 'KT >= 1', 'KT <= 1', 'KF >= 0', 'KT > KF', 'KF < KT', 'KT >= KT']
                F_ = ['%d > %d' % (a, a), '%d < %d' % (a, a), '%d != %d' % (a, a), '%d >= %d' % (a, a + 1), '%d <= %d' % (a + 1, a), '%d == %d' % (a, a + 1), 'KT > 1', 'KT < 1', 'KF >= 1', 'KF > KF', 'KT < KT', 'KT <= KF']
                return '.if %s' % r.choice(T_ if truth else F_)
            if k == 0: return '.if %d' % (r.choice([1, 2, 255]) if truth else 0)
            # any non-zero value holds: negative values, all-ones, large values
            if k == 5: return '.if %s' % (r.choice(['-1', '2 - 5', '~0', '0 - KT', '-KT', '0x7fffffffffffffff', '~0xff', '1 << 40']) if truth else r.choice(['0', '5 - 5', '~(-1)', 'KT - KT', '-0', '0 * -3']))
            if k == 6: return '.if %s' % (r.choice(['low(256) + 1', 'KT * -1', '3 - 4', '!(1 - 1)']) if truth else r.choice(['low(256)', 'KF * -1', '4 - 4', '!(1 - 2)']))
            if k == 1: return '.if %s' % (r.choice(['2 > 1', '1 == 1', '3 != 2', '1 && 1', '!0']) if truth else r.choice(['1 > 2', '1 == 2', '2 != 2', '1 && 0', '!1']))
            if k == 2:
                nm = r.choice(['KT', 'Kt', 'kt']) if truth else r.choice(['KF', 'kf'])
                return '.if %s' % nm
            if k == 3 and r.random() < .5:
                # a .define flag inside an expression is the constant 0, under the name exactly as written
                return '.if %s' % (r.choice(['!DEFD', 'DEFD == 0', 'DEFD + 1', 'KT - DEFD']) if truth else r.choice(['DEFD', 'DEFD * 5', 'DEFD != 0', 'KF + DEFD']))
            if k == 3: return '.if %s - %d' % ('KT' if truth else 'KF', 0)
            return r.choice(['.if (%d)', '.if(%d)', '.if\t%d', '.if(%d) ; glued']) % (1 if truth else 0)     # no blank is needed before a parenthesis
        # .ifdef/.ifndef look at .define flags only: an .equ constant (KT, KF), a label or a macro of that name is not a flag
        if kind == 'ifdef':
            return '.ifdef %s' % ('DEFD' if truth else r.choice(['UNDEFD', 'UNDEFD', 'KT', 'kf', 'defd', 'lab_fwd']))
        return '.ifndef %s' % (r.choice(['UNDEFD', 'UNDEFD', 'KT', 'kt', 'Defd', 'lab_fwd']) if truth else 'DEFD')

    def payload(self, selected, n=None):
        r = self.rng
        out = []
        for _ in range(r.randrange(0, 3) if n is None else n):
            u = self.uid()
            k = r.random()
            if selected:
                if k < .08: out.append(r.choice(['  .db ".endif", 0', '  nop ; .else', '  nop // .endif', '  .db ".else"', '  nop /* .elif 0 */', '; .endif', '  .db ".if 0", 0']))   # directive words in strings and comments are text
                elif k < .4: out.append('  ldi r16, %d' % (u % 256))
                elif k < .55: out.append('lab%d: nop' % u)
                elif k < .7: out.append('  .db %d, %d' % (u % 256, (u * 7) % 256))
                elif k < .8: out.append('  .message "m%d"' % u)
                elif k < .9: out.append('  .equ e%d = %d' % (u, u))
                else: out.append('  .dw lab_fwd')
            else:
                if k < .1: out.append(r.choice(['  .db ".endif"', '; .endif', '  // .else', '  /* .elif 1 */', '  .message ".endif"', '  .db ".else", 0', '  nop ; .endif', '.endif_not_a_directive:', '  .dw 1 ; .elif 1']))
                elif k < .2: out.append('  ldi r17, %d' % (u % 256))
                elif k < .3: out.append('lab_fwd: nop')            # duplicate of the label defined at the end
                elif k < .4: out.append('  garbage here (( %d' % u)
                elif k < .5: out.append('  .error "must not be seen %d"' % u)
                elif k < .6: out.append('  .message "hidden %d"' % u)
                elif k < .7: out.append('  .dw nosuchsymbol%d' % u)
                elif k < .8: out.append('  .define UNDEFD')
                elif k < .85: out.append('  .equ KT = 0')
                elif k < .9: out.extend(['  .macro hid%d' % u, '    nop', '  .endm'])
                elif k < .95: out.append('  .device ATtiny11')
                else: out.append('  ") unbalanced "')
        return out

    def construct(self, shape, truths, nest_at=None, nested=None, selected=True):
        """shape = (n_elif, has_else, kinds); truths = tuple of booleans per condition.
        returns list of (line, keep) ; keep = the line is payload of a selected branch"""
        n_elif, has_else, kind = shape
        lines = []
        taken = None
        conds = [(kind, truths[0])] + [('elif', t) for t in truths[1:]]
        branches = len(conds) + (1 if has_else else 0)
        for i in range(branches):
            if i < len(conds):
                k, t = conds[i]
                text = self.cond_text(k, t) if k != 'elif' else self.rng.choice(['.elif ', '.elif ', '.elif\t', '.elif']) .rstrip(' ') * 0 + '.elif' + (lambda c: (c if c[:1] in '(' else ' ' + c))(__import__('re').sub(r'^\.if[ \t]*', '', self.cond_text('if', t)))
                lines.append((text, False))
                sel = selected and taken is None and t
                if t and taken is None: taken = i
            else:
                lines.append(('.else', False))
                sel = selected and taken is None
                if taken is None: taken = i
            body = [(l, sel) for l in self.payload(sel)]
            if nest_at == i and nested is not None:
                body += self.construct(nested[0], nested[1], selected=sel)
                body += [(l, sel) for l in self.payload(sel, 1)]
            lines += body
        lines.append(('.endif', False))
        # a label may stand on a directive line.  Inside skipped text it is never assembled, but the directive still
        # counts for the nesting; on the head of an assembled construct it is assembled like any label
        if not selected and self.rng.random() < .35:
            lines = [(('sk%d: %s' % (self.uid(), l)) if (l.startswith('.') and l.split()[0][1:] in ('if', 'ifdef', 'ifndef', 'else', 'elif', 'endif') and self.rng.random() < .6) else l, k) for l, k in lines]
        elif selected and self.rng.random() < .1:
            lines[0] = ('hd%d: %s' % (self.uid(), lines[0][0]), lines[0][1])
        # the grammar reads `#name` like `.name`: spell a construct with '#' now and then
        mode = self.rng.random()
        if mode < .25:
            lines = [((('#' + l[1:]) if l.startswith('.') and l.split()[0][1:] in ('if', 'ifdef', 'ifndef', 'elif', 'else', 'endif') and
                       (mode < .12 or self.rng.random() < .5) else l), k) for l, k in lines]
        return lines

def programs(tier, seed):
    rng = random.Random(seed)
    shapes = [(ne, he, k) for ne in (0, 1, 2) for he in (False, True) for k in ('if', 'ifdef', 'ifndef')]
    out = []
    def wrap(t, lines):
        pre = [('.equ KT = 1', True), ('.equ KF = 0', True), ('.define DEFD', True), ('  nop', True)]
        post = [('lab_fwd: ret', True), ('  .dw 0x1234', True)]
        return pre + lines + post
    # bounded-exhaustive: every shape x every truth assignment, alone
    for sh in shapes:
        for truths in itertools.product([False, True], repeat=1 + sh[0]):
            t = T(rng)
            out.append(wrap(t, t.construct(sh, truths)))
            # with one nested construct in every branch position
            nshapes = shapes if tier == 'thorough' else shapes[::2]
            for pos in range(1 + sh[0] + (1 if sh[1] else 0)):
                for nsh in nshapes:
                    for ntruths in itertools.product([False, True], repeat=1 + nsh[0]):
                        t = T(rng)
                        out.append(wrap(t, t.construct(sh, truths, pos, (nsh, ntruths))))
    # a taken branch whose LAST line is the `.endif` of an inner construct that was left by skipping (no arm taken),
    # with the outer `.elif`/`.else` on the very next line: the outer chain is closed, its later conditions are not even
    # evaluated
    for inner in (['.if 0', '  ldi r17, 2', '.endif'], ['.ifdef UNDEFD', '  garbage ((', '.endif'], ['.if KF', '  nop', '.elif 0', '  nop', '.endif'],
                  ['.ifndef DEFD', '  .error "no"', '.endif']):
        for tail in (['.elif 1', '  ldi r18, 3', '.else', '  ldi r19, 4', '.endif'], ['.elif 0', '  ldi r18, 3', '.else', '  ldi r19, 4', '.endif'],
                     ['.elif 1 / KF', '  ldi r18, 3', '.endif'], ['.elif nosuch_symbol_c08', '  .error "dead"', '.elif 1', '  ldi r20, 5', '.endif'],
                     ['.else', '  ldi r19, 4', '.endif']):
            for head in (['.if 1'], ['.if 0', '  ldi r21, 9', '.elif KT']):
                t = T(rng)
                sel_head = [(head[0], False)] + [(l, False) for l in head[1:]]
                out.append(wrap(t, sel_head + [('  ldi r16, 1', True)] + [(l, False) for l in inner] + [(l, False) for l in tail] + [('  nop', True)]))
    # random sequences and deeper nesting
    n = 600 if tier == 'quick' else 6000
    for _ in range(n):
        t = T(rng)
        lines = []
        for _ in range(rng.randrange(1, 4)):
            sh = rng.choice(shapes); truths = tuple(rng.random() < .5 for _ in range(1 + sh[0]))
            nsh = rng.choice(shapes); ntr = tuple(rng.random() < .5 for _ in range(1 + nsh[0]))
            lines += t.construct(sh, truths, rng.randrange(0, 1 + sh[0] + (1 if sh[1] else 0)), (nsh, ntr))
            lines += [(l, True) for l in t.payload(True)]
        out.append(wrap(t, lines))
    return out

def run(tier, seed, model_ok):
    progs = programs(tier, seed)
    trip = []
    for i, p in enumerate(progs):
        full = '\n'.join(l for l, _ in p)
        blank = '\n'.join(l if keep else '' for l, keep in p)
        trip.append(('%df' % i, 'B', vlib.hx(full)))
        trip.append(('%db' % i, 'B', vlib.hx(blank)))
    impl = vlib.run_impl(trip)
    model = vlib.run_model(trip, vlib.cwd_prelude()) if model_ok else {}
    dis, vio = [], []
    okc = 0
    for i, p in enumerate(progs):
        a, b = impl.get('%df' % i, 'MISSING'), impl.get('%db' % i, 'MISSING')
        for k in ('%df' % i, '%db' % i):
            if model_ok and impl.get(k) != model.get(k, 'MISSING'):
                dis.append({'source': vlib.unhx([t for t in trip if t[0] == k][0][2]).decode(), 'impl': impl.get(k, '')[:160], 'model': model.get(k, 'MISSING')[:160]})
        if a.startswith('OK'): okc += 1
        if a != b:
            vio.append({'what': 'the build differs from the build of the program with the unselected lines blanked',
                        'source': '\n'.join(l for l, _ in p), 'impl': a[:200], 'expected(blanked program)': b[:200], 'key': 'metamorphic'})
        elif not b.startswith('OK'):
            vio.append({'what': 'generator bug: the blanked program does not build', 'source': '\n'.join(l if k else '' for l, k in p), 'impl': b[:100], 'expected': 'OK', 'key': 'generator'})
    return {
        'evaluations': len(trip), 'distinct_nontrivial': len({t[2] for t in trip}),
        'rule': 'every shape (0..2 .elif arms x with/without .else x .if/.ifdef/.ifndef head) x every truth assignment, alone and with one nested construct (every second shape in the quick tier, every truth assignment) in every branch position, plus seeded random sequences of constructs with nesting; conditions on literals, comparisons, .equ constants (in several letter cases) and .define flags (also inside .if expressions, where a flag is the constant 0); unselected branches filled with valid code, a duplicate label, garbage, .error, .message, undefined symbols, .define/.equ/.device lines and macro definitions; every program is built twice (full / unselected lines blanked); distinct = distinct program texts',
        'samples': ['\n'.join(l for l, _ in progs[5]), '\n'.join(l for l, _ in progs[-1])],
        'exhaustive': False,
        'distribution': {'programs': len(progs), 'full_programs_that_build': okc},
        'disagreements': dis[:50], 'violations': vio,
    }
