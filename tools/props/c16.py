"""C16: no panic, no stack exhaustion, no hang, no disproportionate allocation.

Streams (all run in an isolated worker process under a watchdog and an address-space limit; a
worker that dies is bisected down to the single input):
 (1) bounded-exhaustive single-line programs: every mnemonic, every directive and a macro call,
     with 0..3 operands from a dictionary of valid, boundary and hostile operand texts
     (quick: all heads x all 0/1/2-operand lists over the dictionary + 3-operand lists over the
     hostile core; thorough: 3-operand lists over the whole dictionary);
 (2) the same lines inside a context (after .dseg / .eseg / inside a macro body / inside .if 0);
 (3) a hostile multi-line corpus: recursion (macro, include, symbols), unbalanced directives,
     huge sizes, long lists, long operator chains, nesting;
 (4) random multi-line programs and byte/token mutations of valid programs (up to 64 KiB).
Oracle: the result is OK or ERR — never PANIC, a dead worker, a time-out; and impl = model
(the model is total: its only non-result outcome is OOF, which must not occur either)."""
import os, random, resource, subprocess, tempfile, shutil, time
from collections import Counter
import vlib, genprog
from . import c14

THEOREM_FILES = ['C16']
ASSUMPTIONS = ['arithmetic-overflow panics of debug builds are not a notion of the model (it computes on unbounded integers): they are found by the correspondence run, which compares every dictionary line with the model, not by the no_panic theorem',
               'stack depth and allocation are properties of the compiled Rust code; the model bounds recursion by explicit depth constants extracted from the source (limits_pinned) and the run observes the real process']

MNEMONICS = open(os.path.join(os.path.dirname(__file__), '..', 'isa_mnemonics.txt')).read().split()
DIRECTIVES = ['byte', 'cseg', 'csegsize', 'db', 'def', 'device', 'dseg', 'dw', 'endm', 'endmacro', 'equ', 'eseg', 'exit', 'include',
              'includepath', 'list', 'listmac', 'macro', 'nolist', 'org', 'set', 'define', 'else', 'elif', 'endif', 'error', 'if', 'ifdef',
              'ifndef', 'message', 'dd', 'dq', 'undef', 'warning', 'overlap', 'nooverlap', 'pragma', 'nosuchdirective']
VALID = ['r0', 'r15', 'r16', 'r31', 'X', 'Y+', '-Z', 'Y+63', 'Z+0', '0', '1', '7', '63', '255', '65535', 'lbl', 'K', '"str"', "'c'", 'low(K)', 'ATmega8']
BOUNDARY = ['r32', 'R99', 'r00', 'Y+64', 'Z+-1', '-1', '8', '64', '256', '-129', '65536', '4194303', '4194304', '0x7fffffff', '0x80000000', '0xffffffff',
            '0x100000000', '0x7fffffffffffffff', '-0x7fffffffffffffff-1', '0xffffffffffffffff', 'pc', 'PC+1', 'name = 1', 'name = nosuch']
HOSTILE = ['1<<63', '1<<64', '-1<<63', '1/0', '1%0', '(-0x7fffffffffffffff-1)/-1', '(-0x7fffffffffffffff-1)%-1', '-(-0x7fffffffffffffff-1)', '0x7fffffffffffffff+1',
           '0x7fffffffffffffff*2', 'exp2(64)', 'exp2(-1)', 'log2(0)', 'log2(-1)', 'abs(-0x7fffffffffffffff-1)', 'nosuch', 'nosuch(1)', 'low()', '""', "''", '"unterminated',
           '@0', '@9', '(((1)))', ')', '(', ',', '=', '= 1', 'x = ', '1 2', '-', '~', '!', 'r1:r0', 'lbl:', '.', '#', ';', '/*', '$', '0x', '0b', '08', '1e5', 'Y+', 'Y+Y', 'X+X+', '-X+',
           'r16, r17, r18, r19', 'lbl-lbl', 'K*K*K*K*K*K*K*K', '-9223372036854775808', '9223372036854775808', '99999999999999999999', '0b' + '1' * 64, '0' + '7' * 22, '\t', 'é', '\x00', '\x7f']
DICT = VALID + BOUNDARY + HOSTILE
CORE = ['r16', 'X', '0', 'lbl', '"str"', 'r32', '-1', '0xffffffff', '0x7fffffffffffffff', '1<<63', '1/0', 'nosuch', '@0', ')', ',', 'name = 1', '-0x7fffffffffffffff-1', '']

PRELUDE = 'lbl:\n.equ K = 3\n'

def heads():
    hs = [(m, ' ' + m) for m in MNEMONICS] + [(m.upper(), ' ' + m.upper()) for m in ('ldi', 'brbs', 'sts')]
    hs += [('.' + d, '.' + d) for d in DIRECTIVES] + [('#' + d, '#' + d) for d in ('define', 'pragma', 'include', 'if', 'endif')]
    hs += [('macrocall', ' mymac'), ('label+', 'l2: nop'), ('nothing', '')]
    return hs

def single_lines(tier):
    """generator: memory stays flat in the thorough tier (12 M lines)"""
    for name, h in heads():
        yield h
        for a in DICT:
            yield h + ' ' + a
        for a in DICT:
            for b in (DICT if (tier == 'thorough') else CORE + VALID[:6]):
                yield h + ' ' + a + ', ' + b
        three = DICT[:30] if tier == 'thorough' else CORE[:10]
        for a in three:
            for b in three:
                for c in three:
                    yield h + ' ' + a + ', ' + b + ', ' + c

CONTEXTS = {
    'plain': ('', ''),
    'dseg': ('.dseg\n', '\n'),
    'eseg': ('.eseg\n', '\n'),
    'macro-body': ('.macro mymac\n', '\n.endm\n mymac 1, r16\n'),
    'untaken': ('.if 0\n', '\n.endif\n'),
    'after-device': ('.device ATtiny10\n', '\n'),
}

def hostile_corpus():
    big = 60000
    c = {
        'macro self recursion': '.macro m\n m\n.endm\n m',
        'macro mutual recursion': '.macro a\n b\n.endm\n.macro b\n a\n.endm\n a',
        'macro recursion with growing argument': '.macro m\n m @0+1\n.endm\n m 1',
        'macro recursion with doubling argument': '.macro m\n m @0+@0\n.endm\n m 1',
        'macro recursion with doubling string': '.macro m\n m @0, @0\n.endm\n m "abcdefgh"',
        'macro fan-out': '.macro m\n m @0+@0+@0+@0\n m @0\n.endm\n m 1',
        'equ fan-out 14': '\n'.join(['.equ a%d = a%d + a%d' % (i, i + 1, i + 1) for i in range(14)] + ['.equ a14 = 1', ' .dw a0']),
        'symbol cycle': '.equ a = b\n.equ b = a\n ldi r16, a',
        'symbol cycle through function': '.equ a = low(a)\n ldi r16, a',
        # a definition cycle through every kind of expression node (the depth guard must be handed down through each)
        'symbol cycle through unary minus': '.equ a = -a\n ldi r16, a',
        'symbol cycle through ~ and +': '.equ a = ~b\n.equ b = a + 1\n .dw a',
        'symbol cycle through ! in .if': '.equ ready = !ready\n.if ready\n nop\n.endif',
        'symbol cycle through unary in .org': '.equ base = -base\n.org base\n nop',
        'symbol cycle through a right operand': '.equ a = 1 - (2 * a)\n ldi r16, a',
        'symbol cycle through function argument expression': '.equ a = high(b << 1)\n.equ b = low(-a)\n .db a',
        # … and through BOTH operands of one operator (the depth guard bounds the depth; the work must stay bounded too)
        'symbol cycle on both sides': '.equ a = a + a\n ldi r16, a',
        'symbol cycle on both sides, functions': '.equ w = low(w) | high(w) << 8\n .dw w',
        'symbol cycle on both sides, mutual': '.equ size = count*2\n.equ count = size/2 + size%2\n .db size',
        'symbol cycle through .set of an .equ': '.equ a = -c\n.equ c = ~a\n.set v = a\n ldi r16, v',
        'symbol chain 200': '\n'.join(['.equ s0 = 1'] + ['.equ s%d = s%d + 1' % (i, i - 1) for i in range(1, 200)] + [' .dw s199']),
        'set self reference': '.set v = v + 1\n .dw v',
        'unbalanced endif': '.endif\n nop',
        'unbalanced else': '.else\n nop',
        'unbalanced elif': '.elif 1\n nop',
        'open if': '.if 1\n nop',
        'open if 0': '.if 0\n nop',
        'open macro': '.macro m\n nop',
        'endm alone': '.endm\n nop',
        'macro in macro': '.macro a\n.macro b\n nop\n.endm\n.endm\n a\n b',
        'exit in if': '.if 1\n.exit\n.endif',
        'huge byte dseg': '.dseg\n.byte 0xffffffff\n.byte 0xffffffff',
        'huge byte eseg': '.eseg\n.byte 0xffffffff',
        'huge org': '.org 0xffffffff\n nop\n.org 0xffffffff\n nop',
        'org then data': '.eseg\n.org 0xfffffff0\n.db 1,2,3,4,5,6,7,8,9,10,11,12,13,14,15,16,17',
        'dseg org wrap': '.dseg\n.org 0xfffffff0\nv: .byte 0x20\n.cseg\n.dw v',
        'many db': ' .db ' + ','.join(['1'] * 30000),
        'long chain': ' .dw ' + '+'.join(['1'] * 20000),
        'long string': ' .db "' + 'a' * big + '"',
        'long line of spaces': ' ' * big + 'nop',
        'long comment': ' nop ;' + 'x' * big,
        'long identifier': ' .dw ' + 'a' * big,
        'many lines': '\n'.join([' nop'] * 16000),
        'many labels': '\n'.join(['l%d:' % i for i in range(8000)]),
        'many equ': '\n'.join(['.equ e%d = %d' % (i, i) for i in range(4000)]),
        'many segments': '\n'.join(['.dseg\n.byte 1\n.cseg\n nop'] * 2000),
        'many macros calls': '.macro m\n nop\n.endm\n' + '\n'.join([' m'] * 5000),
        'parens 2000': ' ldi r16, ' + '(' * 2000 + '1' + ')' * 2000,
        'unary 2000': ' ldi r16, ' + '-' * 2000 + '1',
        'functions 1000': ' ldi r16, ' + 'low(' * 1000 + '1' + ')' * 1000,
        'crlf only': '\r\n\r\n\r\n',
        'cr only': ' nop\r nop\r',
        'nul bytes': ' nop\x00\n\x00',
        'utf8': ' .db "é€😀"\n ; ü\nß: nop',
        'bom': '﻿ nop',
        'empty': '',
        'device twice': '.device ATmega8\n.device ATmega8',
        'device tiny then big program': '.device ATtiny11\n' + '\n'.join([' nop'] * 2000),
        'cseg size': '.csegsize 11\n.csegsize 0xffffffffff',
        'def r99': '.def a = r99\n mov a, a',
        'include nothing': '.include ""',
        'include dir': '.include "/"',
        'includepath odd': '.includepath ""\n.includepath "/"\n.includepath "\x01"\n.include "x"',
        'pragma six': '#pragma a b c d e f\n#pragma a b c d e f g h',
        'pragma part': '#pragma AVRPART MEMORY PROG_FLASH 0xffffffffffff',
    }
    # '@' of a macro body next to text that is not ASCII, in a comment, a string and an operand; with and without call operands
    for nm, body in (('comment', ' nop ; keep in the @\u00b5C RAM'), ('string', ' .db "@\u20ac", 1'), ('operand', ' ldi r16, @\u00e9'), ('at end', ' nop ; @'), ('emoji', ' .db "\U0001f600@\U0001f600@0\U0001f600"')):
        c['macro @ before non-ascii in %s, call with operand' % nm] = '.macro m\n' + body + '\n.endm\n m 1'
        c['macro @ before non-ascii in %s, call without' % nm] = '.macro m\n' + body + '\n.endm\n m'
    # recursion that continues after a segment switch or an .org inside the macro body (the later segments of an expansion)
    c['macro recursion after .org'] = '.macro m\nnop\n.org 0x10\nm\n.endm\nm'
    c['macro recursion after segment switch'] = '.macro m\nnop\n.dseg\n.byte 1\n.cseg\nm\n.endm\nm'
    c['macro mutual recursion across segments'] = '.macro a\n.eseg\n.db 1\n.cseg\nb\n.endm\n.macro b\nnop\n.dseg\n.byte 1\n.cseg\na\n.endm\na'
    # every pair of defining constructs on one name, in both orders, then a use (the second definition meets state the first left)
    defs = {'label': 'nm:', 'equ': '.equ nm = 1', 'set': '.set nm = 2', 'def': '.def nm = r16', 'define': '.define nm', 'macro': '.macro nm\nnop\n.endm',
            'undef': '.undef nm', 'dseg label': '.dseg\nnm: .byte 1\n.cseg', 'set self': '.set nm = nm + 1'}
    for a, ta in defs.items():
        for b, tb in defs.items():
            for use in ('ldi r17, nm', 'mov nm, r1', 'nm', '.ifdef nm\nnop\n.endif'):
                c['clash %s / %s / %s' % (a, b, use.split()[0])] = ta + '\n' + tb + '\n ' + use
    for special in ('pc', 'PC', 'r16', 'X', 'low', 'defined'):
        for ta in defs.values():
            c['special name %s in %s' % (special, ta.split()[0] + ta[-3:])] = ta.replace('nm', special) + '\n nop'
    # the recorded finding: nesting deep enough to exhaust the 8 MiB main-thread stack in the PEG parser
    known = {
        'parens 30000': ' ldi r16, ' + '(' * 30000 + '1' + ')' * 30000,
        'unary 30000': ' ldi r16, ' + '-' * 30000 + '1',
    }
    return c, known

def mutate(rng, text):
    b = bytearray(text.encode('utf-8', 'replace'))
    for _ in range(rng.randrange(1, 6)):
        if not b: break
        k = rng.randrange(8)
        i = rng.randrange(len(b))
        if k == 0: b[i] = rng.randrange(256)
        elif k == 1: del b[i]
        elif k == 2: b.insert(i, rng.choice(b'(),;:.#"\'@+-*/<>=!~ \t\n\r0123456789rRxXyYzZ'))
        elif k == 3:
            j = min(len(b), i + rng.randrange(1, 40)); b[i:j] = b[i:j] * rng.randrange(2, 4)
        elif k == 4:
            j = min(len(b), i + rng.randrange(1, 40)); del b[i:j]
        elif k == 5:
            tok = rng.choice(DICT).encode('utf-8'); b[i:i] = b' ' + tok + b' '
        elif k == 7:
            b[i:i] = rng.choice(['\u00e9', '\u00b5', '\u20ac', '\U0001f600', '@\u00e9', '\u00e9@', "'\u20ac'"]).encode('utf-8')     # text that is not ASCII, anywhere
        else:
            nl = b.find(b'\n', i)
            if nl > 0: b[nl:nl + 1] = b'\n' + rng.choice(['.endif', '.else', '.endm', '.macro q', '.if 0', '.exit', '.dseg', '.org 0xffffffff']).encode() + b'\n'
    # build_str takes a &str: keep the text valid UTF-8 (invalid bytes are covered through a file, tree 'binary')
    return bytes(b[:65536]).decode('utf-8', 'replace').encode('utf-8')[:65536].decode('utf-8', 'ignore').encode('utf-8')

LIMIT_AS = 4 << 30

def _limits():
    resource.setrlimit(resource.RLIMIT_AS, (LIMIT_AS, LIMIT_AS))

def run_worker(cases, timeout):
    """one isolated worker; returns (results, status) with status in ok|died|timeout"""
    env = dict(vlib.ENV)
    scratch = tempfile.mkdtemp(prefix='avra-c16-')
    env['HARNESS_SCRATCH'] = scratch
    try:
        p = subprocess.run([vlib.HARNESS, 'run'], input=('\n'.join('%s %s %s' % c for c in cases) + '\n').encode(), capture_output=True,
                           timeout=timeout, env=env, preexec_fn=_limits, cwd=scratch)
        res = {}
        for l in p.stdout.decode('utf-8', 'replace').splitlines():
            i = l.find(' ')
            if i > 0: res[l[:i]] = l[i + 1:]
        return res, ('ok' if p.returncode == 0 else 'died rc=%d %s' % (p.returncode, p.stderr.decode('utf-8', 'replace')[-160:].replace('\n', ' ')))
    except subprocess.TimeoutExpired:
        return {}, 'timeout'
    finally:
        shutil.rmtree(scratch, ignore_errors=True)

def run_isolated(cases, per_case_s=0.02, floor_s=20):
    """run all cases; on a dead/timed-out worker bisect to the single culprits"""
    res, bad = {}, {}
    stack = [cases]
    while stack:
        chunk = stack.pop()
        r, st = run_worker(chunk, floor_s + per_case_s * len(chunk))
        if st == 'ok':
            res.update(r); continue
        if len(chunk) == 1:
            bad[chunk[0][0]] = st; continue
        # keep what was answered before the death, bisect the rest
        res.update(r)
        rest = [c for c in chunk if c[0] not in r]
        if len(rest) == len(chunk) or not rest:
            rest = chunk
        if len(rest) == 1:
            bad[rest[0][0]] = st; continue
        h = len(rest) // 2
        stack.append(rest[h:]); stack.append(rest[:h])
    return res, bad

BATCH = 250000

def run(tier, seed, model_ok):
    rng = random.Random(seed)
    t0 = time.time()
    dist, results = Counter(), Counter()
    vio, dis = [], []
    distinct = set()
    total = [0]
    batch, src = [], {}

    def judge(cases, impl, bad):
        for tid, st in bad.items():
            vio.append({'what': 'the assembler did not return: worker ' + st[:200], 'source': src[tid][:2000].decode('utf-8', 'replace'), 'source_len': len(src[tid]), 'key': 'abort'})
        for tid, _, _ in cases:
            r = impl.get(tid)
            results[(r or 'none').split()[0]] += 1
            if r is None and tid not in bad:
                vio.append({'what': 'no answer from the worker', 'source': src[tid][:500].decode('utf-8', 'replace'), 'key': 'noanswer'})
            elif r is not None and not (r.startswith('OK') or r.startswith('ERR')):
                vio.append({'what': 'the assembler panicked (caught unwind): ' + r[:60], 'source': src[tid][:2000].decode('utf-8', 'replace'), 'key': 'panic'})

    def flush():
        if not batch: return
        impl, bad = run_isolated(batch)
        judge(batch, impl, bad)
        if model_ok:
            plain = [c for c in batch if len(src[c[0]]) <= 20000]     # the model is quadratic on very long inputs
            model = vlib.run_model(plain, vlib.cwd_prelude())
            for tid, _, _ in plain:
                if tid in bad: continue
                a, b = impl.get(tid), model.get(tid, 'MISSING')
                if a != b and len(dis) < 200:
                    dis.append({'input': src[tid][:1500].decode('utf-8', 'replace'), 'impl': (a or '')[:160], 'model': b[:160]})
            if '__died__' in model:
                dis.append({'input': 'model driver died', 'impl': '', 'model': model['__died__']})
        total[0] += len(batch)
        batch.clear(); src.clear()

    def add(tid, text, kind):
        if isinstance(text, str): text = text.encode('utf-8', 'surrogateescape')
        batch.append((tid, 'B', text.hex() if text else '-'))
        src[tid] = text
        dist[kind] += 1
        distinct.add(hash(text))
        if len(batch) >= BATCH: flush()

    samples = []
    n = 0
    for l in single_lines(tier):
        if n in (5, 1000): samples.append(PRELUDE + l)
        add('s%d' % n, PRELUDE + l, 'single line'); n += 1
        if n % (7 if tier == 'thorough' else 23) == 1:
            for cname, (pre, post) in CONTEXTS.items():
                if cname == 'plain': continue
                add('c_%s_%d' % (cname, n), PRELUDE + pre + l + post, 'line in context ' + cname)
    corpus, known = hostile_corpus()
    for k, v in corpus.items():
        add('h_' + k.replace(' ', '_'), v, 'hostile corpus')
    nrand = 1500 if tier == 'quick' else 30000
    bases = [b for _, b in c14.base_programs(rng, 60)]
    for i in range(nrand):
        if i % 3 == 0:
            g = genprog.Gen(rng.randrange(1 << 30))
            try: text = '\n'.join(g.program(n_lines=rng.choice([5, 20, 60])))
            except Exception: continue
            add('r%d' % i, text, 'random program')
        else:
            base = '\n'.join(rng.choice(bases))
            if i % 50 == 1: base = (base + '\n') * rng.randrange(2, 40)
            add('m%d' % i, mutate(rng, base), 'mutated program')
    flush()
    # include cycle and friends need files
    root = tempfile.mkdtemp(prefix='avra-c16f-')
    fcases = []
    try:
        def tree(name, files, main):
            d = os.path.join(root, name); os.makedirs(d)
            for f, t in files.items(): open(os.path.join(d, f), 'w').write(t)
            fcases.append(('f_' + name, 'F', '%s -' % vlib.hx(os.path.join(d, main))))
            src['f_' + name] = repr(files).encode()
        tree('selfinclude', {'a.asm': ' nop\n.include "a.asm"\n'}, 'a.asm')
        tree('mutualinclude', {'a.asm': '.include "b.asm"\n', 'b.asm': '.include "a.asm"\n'}, 'a.asm')
        tree('chain70', dict([('f%d.asm' % i, ' nop\n.include "f%d.asm"\n' % (i + 1)) for i in range(70)] + [('f70.asm', ' ret\n')]), 'f0.asm')
        tree('chain60', dict([('f%d.asm' % i, ' nop\n.include "f%d.asm"\n' % (i + 1)) for i in range(60)] + [('f60.asm', ' ret\n')]), 'f0.asm')
        tree('includedir', {'a.asm': '.include "."\n'}, 'a.asm')
        tree('missingmain', {'a.asm': ''}, 'nosuch.asm')
        tree('binary', {'a.asm': ''}, 'a.asm')
        open(os.path.join(root, 'binary', 'a.asm'), 'wb').write(bytes(range(256)) * 8)
        dist['file trees'] += len(fcases)
        impl, bad = run_isolated(fcases)
        judge(fcases, impl, bad)
        total[0] += len(fcases)
        kimpl, kbad = run_isolated([('k_' + k.replace(' ', '_'), 'B', v.encode().hex()) for k, v in known.items()])
    finally:
        shutil.rmtree(root, ignore_errors=True)
    # what the tool does after a successful build: the two file writers, on images up to the whole default flash
    wsrc = {'2 bytes': ' nop', '64 KiB': '.org 0x7fff\n nop', '64 KiB + 2': '.org 0x8000\n nop', '1 MiB': '.org 0x7ffff\n nop', '1 MiB + 2': '.org 0x80000\n nop',
            '2 MiB + 2, eeprom 64 KiB': '.org 0x100000\n nop\n.eseg\n.org 0xffff\n.db 1', 'whole default flash, 8 MiB': '.org 0x3fffff\n nop', 'eeprom only': '.eseg\n.db 1, 2, 3', 'nothing': ''}
    wcases = [('w_' + k.replace(' ', '_'), 'W', v.encode().hex() if v else '-') for k, v in wsrc.items()]
    for (tid, _, _), v in zip(wcases, wsrc.values()): src[tid] = v.encode()
    wimpl, wbad = run_isolated(wcases, floor_s=60)
    for tid, st in wbad.items():
        vio.append({'what': 'writing the built images did not return: worker ' + st[:200], 'source': src[tid].decode(), 'key': 'abort'})
    for tid, _, _ in wcases:
        r = wimpl.get(tid)
        results['write ' + (r or 'none').split()[0]] += 1
        if tid not in wbad and not (r or '').startswith(('OK', 'ERR')):
            vio.append({'what': 'building and then writing the images panicked or gave no answer: ' + str(r)[:60], 'source': src[tid].decode(), 'key': 'panic'})
        elif r and r.startswith('OK') and ('wcode=err' in r or 'wee=err' in r):
            vio.append({'what': 'a writer refused an image the build returned: ' + r[:120], 'source': src[tid].decode(), 'key': 'writer'})
    dist['build then write'] += len(wcases); total[0] += len(wcases)
    # the second recorded finding: evaluation time doubles with every level of an .equ chain that uses the next
    # definition twice (no memoisation).  Criterion independent of the machine: 22 levels take more than 8 times as
    # long as 17 levels (2^5 = 32 expected) and more than 0.3 s.
    def fan_time(n):
        fan = '\n'.join(['.equ a%d = a%d + a%d' % (i, i + 1, i + 1) for i in range(n)] + ['.equ a%d = 1' % n, ' .dw a0'])
        t = time.time(); fr, fst = run_worker([('k_fan', 'B', fan.encode().hex())], 120); return time.time() - t, fst
    t17, _ = fan_time(17); t22, st22 = fan_time(22)
    if st22 != 'ok' or (t22 > 0.3 and t22 > 8 * max(t17, 0.005)):
        vio.append({'what': 'evaluation of a chain of .equ definitions that each use the next one twice takes time 2^n', 'input': 'equ fan-out 17 vs 22',
                    'result': '17 levels %.2f s, 22 levels %.2f s' % (t17, t22), 'key': 'equ-fanout'})
    for k in known:
        tid = 'k_' + k.replace(' ', '_')
        if tid in kbad or not (kimpl.get(tid, '').startswith(('OK', 'ERR'))):
            vio.append({'what': 'expression nesting deep enough to exhaust the stack of the recursive-descent parser', 'input': k, 'result': kbad.get(tid, kimpl.get(tid, ''))[:120], 'key': 'deep-nesting:' + k})
    return {
        'evaluations': total[0] + len(known), 'distinct_nontrivial': len(distinct),
        'rule': 'bounded-exhaustive single-line programs: %d heads (every mnemonic, every directive in . and # form, a macro call, a labelled line, nothing) x operand lists of length 0, 1, 2 (dictionary of %d valid/boundary/hostile texts; second operand over %s) and 3 (over %d texts); %s in 5 contexts (.dseg, .eseg, macro body, untaken .if, small device); a hostile multi-line corpus (%d programs: recursion, unbalanced directives, huge sizes, long lists/lines/chains, nesting, odd bytes); %d random programs and byte/token mutations of valid programs (up to 64 KiB); file trees (include cycles, chains of 60 and 70 includes, directory as file, binary file); build-then-write of images from 2 bytes to the whole 8 MiB default flash through the two file writers. Every input runs in a worker process with a %d GiB address-space limit and a watchdog; a dead or timed-out worker is bisected to the single input; inputs are processed in batches of %d' % (
            len(heads()), len(DICT), 'the whole dictionary' if tier == 'thorough' else 'a core of %d' % len(CORE + VALID[:6]), 30 if tier == 'thorough' else 10,
            'every 7th of the same lines' if tier == 'thorough' else 'every 23rd of the same lines', len(corpus), nrand, LIMIT_AS >> 30, BATCH),
        'samples': samples[:2],
        'exhaustive': False,
        'distribution': dict(dist, wall_s=round(time.time() - t0, 1), results=dict(results)),
        'disagreements': dis[:30], 'violations': vio[:40],
    }

def matches_known(k, v):
    if k.get('id') == 'equ-fanout-exponential':
        return v.get('key') == 'equ-fanout' and v.get('input') in k.get('inputs', [])
    return k.get('id') == 'deep-expression-nesting' and v.get('key', '').startswith('deep-nesting:') and v.get('input') in k.get('inputs', [])
