"""Enumerators and runner shared by the encoding properties C01 / C03 / C04 / C13.

A case = (source text, core, mnemonic, address of the instruction, operand tokens for the oracle).
The oracle is the independent Lean spec (`avra_spec`, command ENC): Isa.surface + Isa.encode.
"""
import os, sys, subprocess
sys.path.insert(0, os.path.dirname(os.path.dirname(os.path.abspath(__file__))))
import vlib

SPEC = os.path.join(vlib.LEAN, '.lake', 'build', 'bin', 'avra_spec')

RR = ['add', 'adc', 'sub', 'sbc', 'and', 'or', 'eor', 'cpse', 'cp', 'cpc', 'mov', 'mul']
SAME = ['tst', 'clr', 'lsl', 'rol']
ONE = ['com', 'neg', 'inc', 'dec', 'push', 'pop', 'lsr', 'ror', 'asr', 'swap']
IMM = ['subi', 'sbci', 'andi', 'ori', 'sbr', 'cbr', 'cpi', 'ldi']
MULF = ['mulsu', 'fmul', 'fmuls', 'fmulsu']
BRANCHES = ['eq', 'ne', 'cs', 'cc', 'sh', 'lo', 'mi', 'pl', 'ge', 'lt', 'hs', 'hc', 'ts', 'tc', 'vs', 'vc', 'ie', 'id']
NOARG = ['ijmp', 'eijmp', 'icall', 'eicall', 'ret', 'reti', 'spm', 'break', 'nop', 'sleep', 'wdr', 'lpm', 'elpm']
FLAGS = 'cznvshti'
REGBIT = ['sbrc', 'sbrs', 'bst', 'bld']
IOBIT = ['sbi', 'cbi', 'sbis', 'sbic']
PTR = [('X', 'iX'), ('X+', 'iX+'), ('-X', 'i-X'), ('Y', 'iY'), ('Y+', 'iY+'), ('-Y', 'i-Y'), ('Z', 'iZ'), ('Z+', 'iZ+'), ('-Z', 'i-Z')]

def num(v):
    """text of an integer operand (negative: unary minus)"""
    return str(v) if v >= 0 else '-' + str(-v)

class Case:
    __slots__ = ('src', 'core', 'mn', 'addr', 'toks', 'dev', 'prefix')
    def __init__(self, mn, ops_text, toks, core=0, addr=0, dev=None):
        self.prefix = ''      # bytes (hex) the program emits before the instruction under test
        line = mn + (' ' + ', '.join(ops_text) if ops_text else '')
        self.src = ('.device %s\n' % dev if dev else '') + line
        self.core, self.mn, self.addr, self.toks, self.dev = core, mn, addr, toks, dev

def R(n): return ('r%d' % n, 'r%d' % n)
def V(v): return (num(v), 'v%d' % v)

def mk(mn, *ops, **kw):
    return Case(mn, [o[0] for o in ops], [o[1] for o in ops], **kw)

def mk_sym(mn, *ops, **kw):
    """the same instruction with every register written through a `.def` alias and every value
    through an `.equ` symbol (or, for odd operand positions, a compound expression)"""
    pre, texts, toks = [], [], []
    for j, (txt, tok) in enumerate(ops):
        if tok.startswith('r'):
            name = 'Al%d' % j
            pre.append('.def %s = %s' % (name, txt))
            texts.append(name.lower() if j % 2 else name)
        elif tok.startswith('v'):
            if j % 2 == 0:
                name = 'Kc%d' % j
                pre.append('.equ %s = %s' % (name, txt))
                texts.append(name.upper() if j else name)
            else:
                texts.append('(%s + 7) - 7' % txt if not txt.startswith('-') else '0 %s' % txt.replace('-', '- '))
        else:
            texts.append(txt)
        toks.append(tok)
    c = Case(mn, texts, toks, **kw)
    head, line = (c.src.split('\n', 1) if c.dev else ('', c.src))
    c.src = (head + '\n' if head else '') + '\n'.join(pre + [line])
    return c

def legal_cases(tier):
    """every legal operand tuple of every one-word form (exhaustive), lds/sts and jmp/call
    stratified (quick) / denser (thorough)"""
    for m in RR:
        for d in range(32):
            for r in range(32):
                yield mk(m, R(d), R(r))
    for m in SAME + ONE:
        for d in range(32):
            yield mk(m, R(d))
    for m in IMM:
        for d in range(16, 32):
            for k in range(-128, 256):
                yield mk(m, R(d), V(k))
    for d in range(16, 32):
        yield mk('ser', R(d))
    for m in ('adiw', 'sbiw'):
        for d in (24, 26, 28, 30):
            for k in range(64):
                yield mk(m, R(d), V(k))
    for d in range(16, 32):
        for r in range(16, 32):
            yield mk('muls', R(d), R(r))
    for m in MULF:
        for d in range(16, 24):
            for r in range(16, 24):
                yield mk(m, R(d), R(r))
    for d in range(0, 32, 2):
        for r in range(0, 32, 2):
            yield mk('movw', R(d), R(r))
    for m in ('rjmp', 'rcall'):
        for d in range(-2048, 2048):
            yield mk(m, V(d + 1))
    for b in BRANCHES:
        for d in range(-64, 64):
            yield mk('br' + b, V(d + 1))
    for m in ('brbs', 'brbc'):
        for s in range(8):
            for d in range(-64, 64):
                yield mk(m, V(s), V(d + 1))
    step = 1 if tier == 'thorough' else 97
    addrs = sorted(set(list(range(0, 65536, step)) + [0, 1, 0x5f, 0x60, 0xff, 0x100, 0x7fff, 0x8000, 0xfffe, 0xffff]))
    for r in (0, 17, 31):
        for k in addrs:
            yield mk('lds', R(r), V(k))
            yield mk('sts', V(k), R(r))
    for r in range(32):
        for k in (0, 0x1234, 0xffff):
            yield mk('lds', R(r), V(k))
            yield mk('sts', V(k), R(r))
    lows = [0, 1, 0x7fff, 0x8000, 0xffff] + ([0x1234, 0xfffe, 0x5555, 0xaaaa] if tier == 'thorough' else [])
    for m in ('jmp', 'call'):
        for h in range(64):
            for l in lows:
                yield mk(m, V(h * 65536 + l))
    for r in range(32):
        for txt, tok in PTR:
            for m in ('ld', 'ldd'):
                yield mk(m, R(r), (txt, tok))
            for m in ('st', 'std'):
                yield mk(m, (txt, tok), R(r))
        for p in 'YZ':
            for q in range(64):
                for m in ('ld', 'ldd'):
                    yield mk(m, R(r), ('%s+%d' % (p, q), 'i%s+q%d' % (p, q)))
                for m in ('st', 'std'):
                    yield mk(m, ('%s+%d' % (p, q), 'i%s+q%d' % (p, q)), R(r))
        for m in ('lpm', 'elpm'):
            yield mk(m, R(r), ('Z', 'iZ'))
            yield mk(m, R(r), ('Z+', 'iZ+'))
        for a in range(64):
            yield mk('in', R(r), V(a))
            yield mk('out', V(a), R(r))
        for m in REGBIT:
            for b in range(8):
                yield mk(m, R(r), V(b))
    for m in IOBIT:
        for a in range(32):
            for b in range(8):
                yield mk(m, V(a), V(b))
    for m in ('bset', 'bclr'):
        for s in range(8):
            yield mk(m, V(s))
    for f in FLAGS:
        yield mk('se' + f, )
        yield mk('cl' + f, )
    for m in NOARG:
        yield mk(m, )
    # reduced core: one-word lds/sts
    for r in range(16, 32):
        for k in range(0x40, 0xc0):
            yield mk('lds', R(r), V(k), core=1, dev='ATtiny20')
            yield mk('sts', V(k), R(r), core=1, dev='ATtiny20')

def spec_expect(cases):
    """ask the independent spec; returns list of 'W ....' / 'ILLEGAL'"""
    lines = ['%d ENC %d %s %d %s' % (i, c.core, c.mn, c.addr, ' '.join(c.toks)) for i, c in enumerate(cases)]
    res, rc, err = vlib.run_lines(SPEC, lines, mode=None)
    return [res.get(str(i), 'NOSPEC') for i in range(len(cases))]

def expected_canon_code(spec):
    """'W 940c 1234' -> little-endian byte hex"""
    ws = spec.split()[1:]
    return ''.join(w[2:4] + w[0:2] for w in ws)

def code_of(canon):
    """code field of an 'OK code=.. ee=..' line; prefix bytes of a .device line do not exist"""
    for f in canon.split():
        if f.startswith('code='):
            return '' if f[5:] == '-' else f[5:]
    return None

def run_enc(cases, model_ok=True, prop='C01'):
    """runs impl, model, spec on the cases; returns (disagreements, violations)"""
    trip = [(str(i), 'B', vlib.hx(c.src)) for i, c in enumerate(cases)]
    impl = vlib.run_impl(trip)
    model = vlib.run_model(trip, vlib.cwd_prelude()) if model_ok else {}
    spec = spec_expect(cases)
    dis, vio = [], []
    for i, c in enumerate(cases):
        k = str(i)
        a = impl.get(k, 'MISSING')
        if model_ok and a != model.get(k, 'MISSING'):
            dis.append({'source': c.src, 'impl': a, 'model': model.get(k, 'MISSING')})
        s = spec[i]
        if s.startswith('W'):
            exp = c.prefix + expected_canon_code(s)
            if not a.startswith('OK') or code_of(a) != exp:
                vio.append({'what': 'valid instruction not assembled to its ISA encoding' if not a.startswith('OK') or True else '',
                            'source': c.src, 'impl': a[:200], 'expected_code': exp, 'key': c.mn})
        elif s == 'ILLEGAL':
            if a.startswith('OK'):
                vio.append({'what': 'operands the ISA cannot encode were assembled', 'source': c.src, 'impl': a[:200],
                            'expected': 'error', 'key': c.mn})
            elif a.startswith('PANIC'):
                vio.append({'what': 'panic instead of an error', 'source': c.src, 'impl': a, 'expected': 'error', 'key': c.mn})
        else:
            vio.append({'what': 'oracle could not judge the case (harness bug)', 'source': c.src, 'impl': a[:100], 'expected': s, 'key': c.mn})
    if '__died__' in impl:
        vio.append({'what': 'the implementation process died', 'source': '?', 'impl': impl['__died__'], 'expected': 'results', 'key': 'died'})
    return dis, vio
