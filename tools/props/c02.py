"""C02: layout.  Programs are generated as item lists (labels, 1- and 2-word instructions, .db with
odd/even byte counts and strings, .dw/.dd/.dq, .byte reservations, .org gaps, interleaved
.cseg/.dseg/.eseg blocks, several devices incl. a reduced core); the reference layout is the
naive sequential placement computed by the generator (an address->byte map per memory, gaps = 0),
instruction words from the independent ISA spec (ENC).  Label values are observed as the property
prescribes: through trailing `.dw <label>` tables."""
import random, subprocess
from collections import Counter
from . import enc_common as E
import vlib

THEOREM_FILES = ['C02', 'C02b', 'C06']
ASSUMPTIONS = ['the reference placement is computed by the generator (sequential placement, zero gaps); instruction words come from the Lean ISA spec, data bytes from plain little-endian arithmetic',
               'labels are kept below 65536 so that `.dw <label>` shows their full value']
DEVS = [None, 'ATmega8', 'ATmega328P', 'ATtiny20', 'ATmega2560', 'ATtiny13']

def devinfo():
    p = subprocess.run([vlib.HARNESS, 'extract'], input='nop\n', capture_output=True, text=True)
    d = {}
    for l in p.stdout.splitlines():
        x = l.split()
        if x[0] == 'DEV': d[x[1]] = dict(ram_start=int(x[3]), avr8l=x[7] == '1', flash=int(x[2]), ram=int(x[4]), ee=int(x[5]))
        if x[0] == 'DEFAULTDEV': d[None] = dict(ram_start=int(x[2]), avr8l=False, flash=int(x[1]), ram=int(x[3]), ee=int(x[4]))
    return d

def gen_program(rng, devs):
    dev = rng.choice(DEVS)
    info = devs[dev]
    lines = ['.device %s' % dev] if dev else []
    lines += ['.macro c02nop', '  nop', '.endm', '.macro c02pair', '  nop', '  .db 7', '.endm',      # one-word and two-word expansions between labels
              '.macro c02at', '  .org @0', '  .dw 0x1234', '.endm']    # a body that BEGINS with an .org
    off = {'c': 0, 'd': info['ram_start'], 'e': 0}
    code, ee = {}, {}          # address(byte) -> byte
    labels = {}
    reqs = []                  # (byte address, mnemonic, word address, toks, core) to be filled from ENC
    seg = 'c'
    nlab = 0
    for _ in range(rng.randrange(1, 7)):
        k = rng.random()
        newseg = rng.choice('cccde')
        if newseg == 'e' and info['ee'] < 64: newseg = 'c'
        if newseg == 'd' and info['ram'] < 64: newseg = 'c'
        if newseg != seg or k < .3:
            seg = newseg
            lines.append({'c': '.cseg', 'd': '.dseg', 'e': '.eseg'}[seg])
        nitems = rng.randrange(0, 6)
        if rng.random() < .35 and nitems > 0:
            gap = rng.choice([0, 0, 1, 2, 5, 16])
            tgt = off[seg] + gap
            if tgt != 0:          # `.org 0` after items is a recorded finding; an .org to 0 at offset 0 adds nothing
                lines.append('.org %s' % rng.choice(['%d', '0x%x', '%d + 0']) % tgt)
                off[seg] = tgt
                # a redundant directive for the SAME memory right after the .org must not lose it
                if rng.random() < .25:
                    lines.append({'c': '.cseg', 'd': '.dseg', 'e': '.eseg'}[seg])
        for _ in range(nitems):
            r = rng.random()
            if r < .3:
                nlab += 1
                nm = 'L%d' % nlab
                spell = rng.choice([nm, nm.lower(), nm.upper()])
                labels[nm] = off[seg]
                if seg == 'c' and rng.random() < .5:
                    lines.append('%s: nop' % spell)
                    reqs.append((2 * off['c'], 'nop', off['c'], [], 0)); off['c'] += 1
                else:
                    lines.append('%s:' % spell)
            elif seg == 'c':
                if r < .5:
                    ins = rng.choice([('nop', [], []), ('ldi', ['r16', '%d' % rng.randrange(256)], None), ('mov', ['r1', 'r2'], None), ('ret', [], [])])
                    mn, ops, _ = ins
                    toks = [o if o.startswith('r') else 'v' + o for o in ops]
                    lines.append('  %s %s' % (mn, ', '.join(ops)))
                    reqs.append((2 * off['c'], mn, off['c'], toks, 0)); off['c'] += 1
                elif r < .65:
                    two = rng.choice(['lds', 'sts', 'jmp', 'call'])
                    if dev in ('ATtiny13', 'ATtiny20', 'ATmega8') and two in ('jmp', 'call'):
                        two = 'lds'
                    if two in ('lds', 'sts'):
                        a = rng.randrange(0x40, 0xc0)
                        rg = rng.randrange(16, 32)
                        core = 1 if info['avr8l'] else 0
                        lines.append('  lds r%d, 0x%x' % (rg, a) if two == 'lds' else '  sts 0x%x, r%d' % (a, rg))
                        reqs.append((2 * off['c'], two, off['c'], ['r%d' % rg, 'v%d' % a] if two == 'lds' else ['v%d' % a, 'r%d' % rg], core))
                        off['c'] += 1 if core else 2
                    else:
                        a = rng.randrange(0, 4096)
                        lines.append('  %s %d' % (two, a))
                        reqs.append((2 * off['c'], two, off['c'], ['v%d' % a], 0)); off['c'] += 2
                elif r < .72:
                    # macro calls: the expansion's items land like written items (1 word; 1 word + a padded .db)
                    kk = rng.random()
                    if kk < .3 and off['c'] > 0:
                        tgt = off['c'] + rng.choice([0, 1, 2, 8])
                        lines.append('  c02at %s' % rng.choice(['%d', '0x%x']) % tgt)
                        code[2 * tgt] = 0x34; code[2 * tgt + 1] = 0x12; off['c'] = tgt + 1
                    elif kk < .7:
                        lines.append('  c02nop'); reqs.append((2 * off['c'], 'nop', off['c'], [], 0)); off['c'] += 1
                    else:
                        lines.append('  C02PAIR'); reqs.append((2 * off['c'], 'nop', off['c'], [], 0)); off['c'] += 1
                        code[2 * off['c']] = 7; code[2 * off['c'] + 1] = 0; off['c'] += 1
                else:
                    bs, text = gen_data(rng)
                    if text.startswith('.db') and len(bs) % 2 == 1: bs = bs + [0]
                    for j, b in enumerate(bs): code[2 * off['c'] + j] = b
                    pre = '  '
                    if rng.random() < .25:
                        nlab += 1; nm = 'L%d' % nlab; labels[nm] = off['c']; pre = '%s: ' % rng.choice([nm, nm.lower()])    # label on the data line
                    lines.append(pre + text); off['c'] += len(bs) // 2
            elif seg == 'd':
                n = rng.choice([0, 1, 2, 3, 7, 16])
                pre = '  '
                if rng.random() < .3:
                    nlab += 1; nm = 'L%d' % nlab; labels[nm] = off['d']; pre = '%s: ' % rng.choice([nm, nm.upper()])
                lines.append(pre + '.byte %s' % rng.choice(['%d' % n, '%d + %d' % (n // 2, n - n // 2), '0x%x' % n])); off['d'] += n
            else:
                if r < .6:
                    bs, text = gen_data(rng)
                    for j, b in enumerate(bs): ee[off['e'] + j] = b
                    pre = '  '
                    if rng.random() < .25:
                        nlab += 1; nm = 'L%d' % nlab; labels[nm] = off['e']; pre = '%s: ' % nm
                    lines.append(pre + text); off['e'] += len(bs)
                else:
                    n = rng.choice([0, 1, 2, 5])
                    for j in range(n): ee[off['e'] + j] = 0
                    lines.append('  .byte %d' % n); off['e'] += n
    # label table at the end of flash
    if seg != 'c':
        lines.append('.cseg'); seg = 'c'
    names = list(labels)
    rng.shuffle(names)
    for nm in names:
        v = labels[nm]
        lines.append('  .dw %s' % rng.choice([nm, nm.lower()]))
        code[2 * off['c']] = v % 256; code[2 * off['c'] + 1] = v // 256 % 256
        off['c'] += 1
    fits = off['c'] <= info['flash'] and off['e'] <= info['ee'] and off['d'] - info['ram_start'] <= info['ram'] and all(v < 65536 for v in labels.values())
    return dict(src='\n'.join(lines), code=code, ee=ee, reqs=reqs, code_len=2 * off['c'], ee_len=off['e'],
                rf=off['d'] - info['ram_start'], fits=fits, dev=dev)

def gen_data(rng):
    d = rng.choice(['db', 'db', 'dw', 'dd', 'dq'])
    w = {'db': 1, 'dw': 2, 'dd': 4, 'dq': 8}[d]
    bs, ops = [], []
    for _ in range(rng.randrange(1, 5)):
        if d == 'db' and rng.random() < .3:
            s = rng.choice(['a', 'ab', 'abc', 'é', ''])
            ops.append('"%s"' % s); bs += list(s.encode('utf-8'))
        else:
            v = rng.randrange(0, 256 ** w if w < 8 else 2 ** 62)
            ops.append(str(v)); bs += list(v.to_bytes(w, 'little'))
    return bs, '.%s %s' % (d, ', '.join(ops))

KNOWN_PROBES = [
    # (source, expected description) — exact inputs of the recorded findings
    ('.dseg\n.set size = 2\nv: .byte size\nw: .byte 1\n.cseg\n.dw w', 'byte-size-unknown-at-parse'),
    ('nop\nnop\n.org 0\nlate: ret\n.dw late', 'org-zero-continues'),
]

def run(tier, seed, model_ok):
    rng = random.Random(seed)
    devs = devinfo()
    n = 1500 if tier == 'quick' else 20000
    progs = [gen_program(rng, devs) for _ in range(n)]
    progs = [p for p in progs if p['fits']]
    trip = [(str(i), 'B', vlib.hx(p['src'])) for i, p in enumerate(progs)]
    probes = [('k%d' % i, 'B', vlib.hx(s)) for i, (s, _) in enumerate(KNOWN_PROBES)]
    impl = vlib.run_impl(trip + probes)
    model = vlib.run_model(trip + probes, vlib.cwd_prelude()) if model_ok else {}
    lines = []
    for i, p in enumerate(progs):
        for j, (ba, mn, wa, toks, core) in enumerate(p['reqs']):
            lines.append('%d.%d ENC %d %s %d %s' % (i, j, core, mn, wa, ' '.join(toks)))
    spec, _, _ = vlib.run_lines(E.SPEC, lines, mode=None)
    dis, vio = [], []
    for i, p in enumerate(progs):
        a = impl.get(str(i), 'MISSING')
        if model_ok and a != model.get(str(i), 'MISSING'):
            dis.append({'source': p['src'], 'impl': a[:200], 'model': model.get(str(i), 'MISSING')[:200]})
        code = dict(p['code'])
        okspec = True
        for j, (ba, mn, wa, toks, core) in enumerate(p['reqs']):
            s = spec.get('%d.%d' % (i, j), '')
            if not s.startswith('W'):
                okspec = False; break
            hexs = E.expected_canon_code(s)
            for t in range(len(hexs) // 2): code[ba + t] = int(hexs[2 * t:2 * t + 2], 16)
        if not okspec:
            vio.append({'what': 'oracle could not judge (generator bug)', 'source': p['src'], 'impl': a[:60], 'expected': 'ENC', 'key': 'oracle'}); continue
        exp_code = ''.join('%02x' % code.get(k, 0) for k in range(p['code_len']))
        exp_ee = ''.join('%02x' % p['ee'].get(k, 0) for k in range(p['ee_len']))
        got_c = E.code_of(a) if a.startswith('OK') else None
        got_e = got_rf = None
        if a.startswith('OK'):
            for f in a.split():
                if f.startswith('ee='): got_e = '' if f[3:] == '-' else f[3:]
                if f.startswith('rf='): got_rf = int(f[3:])
        if got_c != exp_code or got_e != exp_ee or got_rf != p['rf']:
            vio.append({'what': 'images / label values / RAM usage differ from the sequential placement of the items',
                        'source': p['src'], 'impl': a[:300], 'expected_code': exp_code, 'expected_eeprom': exp_ee, 'expected_ram_filling': p['rf'], 'key': 'layout'})
    # recorded findings: exact inputs
    exp_known = {0: '0000', 1: None}
    a0 = impl.get('k0', '')
    # finding 1: w must be ram_start + 2 = 0x62 (default device)
    if not (a0.startswith('OK') and E.code_of(a0) == '6200'):
        vio.append({'what': 'label after `.byte <size from a .set variable>` is not at the reserved position', 'source': KNOWN_PROBES[0][0], 'impl': a0[:120], 'expected_code': '6200', 'key': 'known-probe'})
    a1 = impl.get('k1', '')
    if not a1.startswith('ERR'):
        vio.append({'what': '`.org 0` after code neither lands the next item at 0 nor fails', 'source': KNOWN_PROBES[1][0], 'impl': a1[:120], 'expected': 'error (overlap) — the next item cannot land at 0', 'key': 'known-probe'})
    for k in ('k0', 'k1'):
        if model_ok and impl.get(k) != model.get(k):
            dis.append({'source': dict((('k0', KNOWN_PROBES[0][0]), ('k1', KNOWN_PROBES[1][0])))[k], 'impl': impl.get(k, '')[:100], 'model': model.get(k, '')[:100]})
    return {
        'evaluations': len(progs) + 2, 'distinct_nontrivial': len({p['src'] for p in progs}),
        'rule': 'seeded random programs: 1..6 blocks over .cseg/.dseg/.eseg with optional .org (also as the FIRST line of a macro body, the target passed as argument) (0..16 units past the running offset, literal/hex/expression), labels in every segment (three letter cases), 1-word and 2-word instructions (lds/sts one word on the reduced core), .db with odd/even counts and strings incl. empty/non-ASCII, .dw/.dd/.dq, .byte, six device choices, and a trailing .dw table of all labels; programs exceeding a capacity are dropped; plus the exact inputs of the two recorded findings; distinct = distinct programs',
        'samples': [progs[0]['src'], progs[1]['src']],
        'exhaustive': False,
        'distribution': {'programs': len(progs), 'devices': Counter(str(p['dev']) for p in progs).most_common(), 'with_labels': sum(1 for p in progs if '.dw L' in p['src'] or '.dw l' in p['src'])},
        'disagreements': dis, 'violations': vio,
    }

def matches_known(k, v):
    return v.get('key') == 'known-probe' and v.get('source') in k.get('inputs', [])
