"""C01: every legal operand tuple of every mnemonic through build_str — impl vs model (correspondence)
and impl vs the independent ISA spec (oracle).  Exhaustive for all one-word forms."""
from collections import Counter
from . import enc_common as E

THEOREM_FILES = ['C01', 'Enc', 'EncOps1', 'EncOps2', 'EncOps3', 'EncOps4', 'EncDefs']

ASSUMPTIONS = [
    'AVR instruction patterns in Avra/Isa/Isa.lean are transcribed by hand from the Instruction Set Manual',
    'process-level theorems assume operands resolve (no evaluator fuel exhaustion) and that registers are r0..r31 (grammar guarantee, tied by the reg8 Gen table)',
]

def run(tier, seed, model_ok):
    cases = list(E.legal_cases(tier))
    dis, vio = E.run_enc(cases, model_ok, 'C01')
    dist = Counter(c.mn for c in cases)
    return {
        'evaluations': len(cases), 'distinct_nontrivial': len({c.src for c in cases}),
        'rule': 'every legal operand tuple of every one-word instruction form (exhaustive), lds/sts over a stride of the 16-bit address space for 3 registers plus boundary addresses for all registers, jmp/call over all 64 high fields x boundary low words, reduced-core lds/sts exhaustive; each a one-line program through build_str; distinct = distinct source texts (all are non-trivial: each denotes a different instruction/operand tuple)',
        'samples': [cases[0].src, cases[len(cases) // 2].src, cases[-1].src],
        'exhaustive': True,
        'distribution': {'cases_per_mnemonic_top': dist.most_common(12), 'mnemonics': len(dist)},
        'disagreements': dis, 'violations': vio,
    }

def search(breaks, tier, seed):
    # the oracle stream of run() is already exhaustive over the legal tuples; nothing further
    return None
