"""C01: every legal operand tuple of every mnemonic through build_str — impl vs model (correspondence)
and impl vs the independent ISA spec (oracle).  Exhaustive for all one-word forms."""
from collections import Counter
from . import enc_common as E

THEOREM_FILES = ['C01', 'Enc', 'EncOps1', 'EncOps2', 'EncOps3', 'EncOps4', 'EncDefs']

ASSUMPTIONS = [
    'AVR instruction patterns in Avra/Isa/Isa.lean are transcribed by hand from the Instruction Set Manual',
    'process-level theorems assume operands resolve (no evaluator fuel exhaustion) and that registers are r0..r31 (grammar guarantee, tied by the reg8 Gen table)',
]

def program_cases(tier, seed, pool):
    """random programs of legal instructions: the image must be the concatenation of the ISA
    words of every instruction at its real address (relative ones get numeric targets)"""
    import random
    rng = random.Random(seed)
    progs = []
    n = 400 if tier == 'quick' else 4000
    nonrel = [c for c in pool if c.core == 0 and c.mn not in ('rjmp', 'rcall', 'brbs', 'brbc') and not c.mn.startswith('br') or c.mn == 'break']
    for _ in range(n):
        lines, reqs, addr = [], [], 0
        # a third of the programs do not start at 0: `.org N` (zero words before), so that an address taken
        # from the wrong counter (`pc`, relative distances) shows
        org = rng.choice([0, 0, 1, 16, rng.randrange(2, 300)])
        if len(progs) % 40 == 7:
            # a few programs far up in the flash: addresses that no longer fit 12, 15, 16 or 17 bits
            org = rng.choice([0x7ff, 0x800, 0x1000, 0x7fff, 0x8000, 0xffff, 0x10000, 0x1ffff, 0x20000])
        if org:
            lines.append('.org %s' % E.num(org)); addr = org
        for _ in range(rng.randrange(2, 40)):
            k = rng.random()
            if k < .25:
                mn = rng.choice(['rjmp', 'rcall'] + ['br' + b for b in E.BRANCHES] + ['brbs', 'brbc'])
                lim = 2048 if mn in ('rjmp', 'rcall') else 64
                d = rng.choice([-lim, lim - 1, rng.randrange(-lim, lim), rng.randrange(-8, 8)])
                t = addr + 1 + d
                pre = ['v%d' % 3] if mn in ('brbs', 'brbc') else []
                # the target as a number, or relative to the `pc` symbol (address of this instruction)
                tgt = E.num(t) if rng.random() < .65 or t < 0 else rng.choice(['pc%+d' % (t - addr), 'PC %s %d' % ('+' if t >= addr else '-', abs(t - addr)), '%d + pc' % (t - addr) if t >= addr else 'pc - %d' % (addr - t)])
                lines.append('%s %s%s' % (mn, '3, ' if pre else '', tgt))
                reqs.append((mn, addr, pre + ['v%d' % t], 1))
                addr += 1
            else:
                c = rng.choice(nonrel)
                lines.append(c.src)
                w = 2 if c.mn in ('jmp', 'call', 'lds', 'sts') else 1
                reqs.append((c.mn, addr, c.toks, w))
                addr += w
        progs.append(('\n'.join(lines), reqs, org))
    return progs

def run_programs(progs, model_ok):
    import vlib
    trip = [(str(i), 'B', vlib.hx(p[0])) for i, p in enumerate(progs)]
    impl = vlib.run_impl(trip)
    model = vlib.run_model(trip, vlib.cwd_prelude()) if model_ok else {}
    lines = []
    for i, (src, reqs, org) in enumerate(progs):
        for j, (mn, addr, toks, w) in enumerate(reqs):
            lines.append('%d.%d ENC 0 %s %d %s' % (i, j, mn, addr, ' '.join(toks)))
    spec, _, _ = vlib.run_lines(E.SPEC, lines, mode=None)
    dis, vio = [], []
    for i, (src, reqs, org) in enumerate(progs):
        a = impl.get(str(i), 'MISSING')
        if model_ok and a != model.get(str(i), 'MISSING'):
            dis.append({'source': src, 'impl': a[:200], 'model': model.get(str(i), 'MISSING')[:200]})
        exp = '0000' * org
        for j in range(len(reqs)):
            s = spec.get('%d.%d' % (i, j), 'NOSPEC')
            exp += E.expected_canon_code(s) if s.startswith('W') else '????'
        if not a.startswith('OK') or E.code_of(a) != exp:
            vio.append({'what': 'image of a program of valid instructions is not the concatenation of their ISA encodings at their addresses',
                        'source': src, 'impl': a[:300], 'expected_code': exp, 'key': 'program'})
    return dis, vio

def run(tier, seed, model_ok):
    cases = list(E.legal_cases(tier))
    # the same instructions written through .def aliases / .equ symbols / expressions (thinned)
    sym = [E.mk_sym(c.mn, *zip(c.src.split('\n')[-1].split(' ', 1)[1].split(', ') if ' ' in c.src.split('\n')[-1] else [], c.toks), core=c.core, dev=c.dev) for c in cases[::7]]
    cases += sym
    dis, vio = E.run_enc(cases, model_ok, 'C01')
    progs = program_cases(tier, seed, cases[:108000:13])
    d2, v2 = run_programs(progs, model_ok)
    dis += d2; vio += v2
    dist = Counter(c.mn for c in cases)
    return {
        'evaluations': len(cases) + len(progs), 'distinct_nontrivial': len({c.src for c in cases}),
        'rule': 'every legal operand tuple of every one-word instruction form (exhaustive), lds/sts over a stride of the 16-bit address space for 3 registers plus boundary addresses for all registers, jmp/call over all 64 high fields x boundary low words, reduced-core lds/sts exhaustive; each a one-line program through build_str; the same written through .def aliases/.equ symbols/expressions (every 7th); plus seeded random programs of 2..40 legal instructions (relative ones with numeric targets) whose image must be the concatenation of the ISA words at the real addresses; distinct = distinct source texts (all are non-trivial: each denotes a different instruction/operand tuple)',
        'samples': [cases[0].src, cases[len(cases) // 2].src, cases[-1].src],
        'exhaustive': True,
        'distribution': {'cases_per_mnemonic_top': dist.most_common(12), 'mnemonics': len(dist)},
        'disagreements': dis, 'violations': vio,
    }

def search(breaks, tier, seed):
    # the oracle stream of run() is already exhaustive over the legal tuples; nothing further
    return None
