"""C01: every legal operand tuple of every mnemonic through build_str — impl vs model (correspondence)
and impl vs the independent ISA spec (oracle).  Exhaustive for all one-word forms."""
from collections import Counter
from . import enc_common as E

THEOREM_FILES = ['C01', 'C01b', 'Enc', 'EncOps1', 'EncOps2', 'EncOps3', 'EncOps4', 'EncDefs']

ASSUMPTIONS = [
    'AVR instruction patterns in Avra/Isa/Isa.lean are transcribed by hand from the Instruction Set Manual',
    'process-level theorems assume operands resolve (no evaluator fuel exhaustion) and that registers are r0..r31 (grammar guarantee, tied by the reg8 Gen table)',
]

SMALL_DEVICES = ['ATmega48', 'ATtiny2313', 'ATtiny13', 'ATmega8']      # 2K, 1K, 512 and 4K words of flash

def program_cases(tier, seed, pool):
    """random programs of legal instructions: the image must be the concatenation of the ISA
    words of every instruction at its real address.  Targets of relative instructions are numbers,
    distances from `pc`, labels (before and behind, also at the very end) or `.set`/`.equ` symbols
    captured from `pc` (`.set` only: an `.equ` keeps its expression and `pc` in it means the place of use,
    which no property speaks about); some programs select a small device or the reduced core (one-word lds/sts)."""
    import random
    rng = random.Random(seed)
    progs = []
    n = 400 if tier == 'quick' else 4000
    nonrel = [c for c in pool if c.core == 0 and c.mn not in ('rjmp', 'rcall', 'brbs', 'brbc') and not c.mn.startswith('br') or c.mn == 'break']
    R, V, mk = E.R, E.V, E.mk
    basic = [mk('nop'), mk('ret'), mk('ldi', R(16), V(1)), mk('mov', R(18), R(19)), mk('add', R(20), R(21)), mk('inc', R(17)), mk('cpi', R(22), V(200)),
             mk('out', V(0x3f), R(16)), mk('in', R(16), V(0x3d)), mk('sbi', V(5), V(1)), mk('sei'), mk('subi', R(31), V(255)), mk('sbrc', R(16), V(7))]
    small = basic + [mk('lds', R(16), V(0x100)), mk('sts', V(0x60), R(17)), mk('push', R(0)), mk('pop', R(31)), mk('mov', R(0), R(15))]
    red = [c for c in pool if c.core == 1]
    for pi in range(n):
        k = rng.random()
        dev, core = None, 0
        if k < .12 and red: dev, core = 'ATtiny20', 1
        elif k < .3: dev = rng.choice(SMALL_DEVICES)
        # a third of the programs do not start at 0: `.org N` (zero words before), so that an address taken
        # from the wrong counter (`pc`, relative distances) shows
        org = rng.choice([0, 0, 1, 16, rng.randrange(2, 300)])
        if pi % 40 == 7 and dev is None:
            # a few programs far up in the flash: addresses that no longer fit 12, 15, 16 or 17 bits
            org = rng.choice([0x7ff, 0x800, 0x1000, 0x7fff, 0x8000, 0xffff, 0x10000, 0x1ffff, 0x20000])
        # 1. the slots and their addresses
        slots, addr = [], org
        for _ in range(rng.randrange(2, 40)):
            k = rng.random()
            if k < .25:
                mn = rng.choice(['rjmp', 'rcall'] + ['br' + b for b in E.BRANCHES] + ['brbs', 'brbc'])
                slots.append(dict(kind='rel', mn=mn, addr=addr, w=1))
            elif k < .32:
                slots.append(dict(kind='ldilabel', addr=addr, w=1))
            elif k < .36 and pi % 3 == 0:
                # a constant table between the instructions (words, double words, an even or odd number of bytes): the
                # address of what follows — and `pc` there — moves on by the table's words
                dt = rng.choice(['dw', 'dw', 'db', 'dd', 'dq'])
                cnt = rng.randrange(1, 5)
                vals = [rng.randrange(0, 256) for _ in range(cnt)]
                width = {'db': 1, 'dw': 2, 'dd': 4, 'dq': 8}[dt]
                raw = b''.join(v.to_bytes(width, 'little') for v in vals)
                if len(raw) % 2: raw += b'\0'
                slots.append(dict(kind='table', addr=addr, w=len(raw) // 2, text='.%s %s' % (dt, ', '.join(str(v) for v in vals)), raw=raw.hex()))
            elif k < .4:
                form = rng.choice([('pc', 0), ('pc', 0), ('PC + 2', 2), ('pc - 1', -1), ('pc+1', 1)])
                slots.append(dict(kind='capture', addr=addr, w=0, name='h%d' % len(slots), dirv='.set', text=form[0], value=addr + form[1]))
            else:
                c = rng.choice(red + basic if core else small if dev else nonrel)
                w = 2 if c.mn in ('jmp', 'call') or (c.mn in ('lds', 'sts') and not core) else 1
                slots.append(dict(kind='ins', c=c, addr=addr, w=w))
            addr += slots[-1]['w']
        end = addr
        addr_of = [s_['addr'] for s_ in slots] + [end]
        labelled = set()
        lines, reqs = [], []
        if dev: lines.append('.device %s' % dev)
        if org: lines.append('.org %s' % E.num(org))
        body = []
        for i, s_ in enumerate(slots):
            a = s_['addr']
            if s_['kind'] == 'rel':
                mn = s_['mn']
                lim = 2048 if mn in ('rjmp', 'rcall') else 64
                mode = rng.random()
                inrange = [j for j in range(len(addr_of)) if -lim <= addr_of[j] - (a + 1) < lim]
                caps = [x for x in slots[:i] if x['kind'] == 'capture' and -lim <= x['value'] - (a + 1) < lim and x['value'] >= 0] + \
                       [x for x in slots[i:] if x['kind'] == 'capture' and x['dirv'] == '.equ' and -lim <= x['value'] - (a + 1) < lim and x['value'] >= 0]
                if mode < .35 and inrange:
                    j = rng.choice(inrange); labelled.add(j); t = addr_of[j]
                    tgt = rng.choice(['L%d', 'l%d', 'L%d']) % j
                elif mode < .5 and caps:
                    x = rng.choice(caps); t = x['value']; tgt = x['name']
                else:
                    d = rng.choice([-lim, lim - 1, rng.randrange(-lim, lim), rng.randrange(-8, 8)])
                    t = a + 1 + d
                    # the target as a number, or relative to the `pc` symbol (address of this instruction)
                    tgt = E.num(t) if rng.random() < .65 or t < 0 else rng.choice(['pc%+d' % (t - a), 'PC %s %d' % ('+' if t >= a else '-', abs(t - a)), '%d + pc' % (t - a) if t >= a else 'pc - %d' % (a - t)])
                pre = ['v%d' % 3] if mn in ('brbs', 'brbc') else []
                body.append((i, '%s %s%s' % (mn, '3, ' if pre else '', tgt)))
                reqs.append((mn, a, pre + ['v%d' % t], 1, 0))
            elif s_['kind'] == 'ldilabel':
                j = rng.randrange(len(addr_of)); labelled.add(j)
                fn = rng.choice(['low', 'high', 'LOW'])
                v = addr_of[j] & 0xff if fn.lower() == 'low' else (addr_of[j] >> 8) & 0xff
                body.append((i, 'ldi r%d, %s(L%d)' % (16 + i % 16, fn, j)))
                reqs.append(('ldi', a, ['r%d' % (16 + i % 16), 'v%d' % v], 1, 0))
            elif s_['kind'] == 'capture':
                body.append((i, '%s %s = %s' % (s_['dirv'], s_['name'], s_['text'])))
            elif s_['kind'] == 'table':
                body.append((i, s_['text']))
                reqs.append(('.table', a, [s_['raw']], s_['w'], 0))
            else:
                c = s_['c']
                body.append((i, c.src.split('\n')[-1]))
                reqs.append((c.mn, a, c.toks, s_['w'], c.core))
        for i, text in body:
            if i in labelled:
                if rng.random() < .5: lines.append('L%d:' % i); lines.append(text)
                else: lines.append('L%d: %s' % (i, text))
            else:
                lines.append(text)
        if len(slots) in labelled: lines.append('L%d:' % len(slots))
        progs.append(('\n'.join(lines), reqs, org))
    return progs

def run_programs(progs, model_ok):
    import vlib
    trip = [(str(i), 'B', vlib.hx(p[0])) for i, p in enumerate(progs)]
    impl = vlib.run_impl(trip)
    model = vlib.run_model(trip, vlib.cwd_prelude()) if model_ok else {}
    lines = []
    for i, (src, reqs, org) in enumerate(progs):
        for j, (mn, addr, toks, w, core) in enumerate(reqs):
            if mn == '.table': continue
            lines.append('%d.%d ENC %d %s %d %s' % (i, j, core, mn, addr, ' '.join(toks)))
    spec, _, _ = vlib.run_lines(E.SPEC, lines, mode=None)
    dis, vio = [], []
    for i, (src, reqs, org) in enumerate(progs):
        a = impl.get(str(i), 'MISSING')
        if model_ok and a != model.get(str(i), 'MISSING'):
            dis.append({'source': src, 'impl': a[:200], 'model': model.get(str(i), 'MISSING')[:200]})
        exp = '0000' * org
        for j in range(len(reqs)):
            if reqs[j][0] == '.table':
                exp += reqs[j][2][0]; continue
            s = spec.get('%d.%d' % (i, j), 'NOSPEC')
            exp += E.expected_canon_code(s) if s.startswith('W') else '????'
        if not a.startswith('OK') or E.code_of(a) != exp:
            vio.append({'what': 'image of a program of valid instructions is not the concatenation of their ISA encodings at their addresses',
                        'source': src, 'impl': a[:300], 'expected_code': exp, 'key': 'program'})
    return dis, vio

def run(tier, seed, model_ok):
    cases = list(E.legal_cases(tier))
    # the same instructions written through .def aliases / .equ symbols / expressions (thinned)
    sym = [E.mk_sym(c.mn, *zip(c.src.split('\n')[-1].split(' ', 1)[1].split(', ') if ' ' in c.src.split('\n')[-1] else [], c.toks), core=c.core, dev=c.dev) for c in cases[::7]]
    cases += sym
    dis, vio = E.run_enc(cases, model_ok, 'C01')
    progs = program_cases(tier, seed, cases[:108000:13])
    d2, v2 = run_programs(progs, model_ok)
    dis += d2; vio += v2
    # fixed programs: registers and values that reach the instruction through `.def/.undef/.set` lines written while
    # the DATA segment is current (they count like everywhere else)
    import vlib
    fx = [('.def tmp = r16\n.dseg\n.undef tmp\n.def tmp = r20\n.cseg\n ldi tmp, 2', '42e0'),
          ('.set n = 1\n.dseg\n.set n = n + 1\nbuf: .byte 2\n.cseg\n ldi r17, n', '12e0'),
          ('.dseg\n.def acc = r18\nv: .byte 1\n.cseg\n lds acc, v\n inc acc', '209160002395'),
          ('.eseg\n.def ptr = r26\n.set k = 63\n.db 1\n.cseg\n adiw ptr, k', 'df96')]
    ftrip = [('fx%d' % i, 'B', vlib.hx(t)) for i, (t, _) in enumerate(fx)]
    fr = vlib.run_impl(ftrip)
    if model_ok:
        fm = vlib.run_model(ftrip, vlib.cwd_prelude())
        for k, _, h in ftrip:
            if fr.get(k) != fm.get(k, 'MISSING'):
                dis.append({'source': vlib.unhx(h).decode(), 'impl': fr.get(k, '')[:120], 'model': fm.get(k, 'MISSING')[:120]})
    for i, (t, want) in enumerate(fx):
        a = fr.get('fx%d' % i, '')
        if not a.startswith('OK') or E.code_of(a) != want:
            vio.append({'what': 'instruction whose register/value comes from symbol directives written in another segment is not the ISA word', 'source': t, 'impl': a[:120], 'expected_code': want, 'key': 'program'})
    dist = Counter(c.mn for c in cases)
    return {
        'evaluations': len(cases) + len(progs), 'distinct_nontrivial': len({c.src for c in cases}),
        'rule': 'every legal operand tuple of every one-word instruction form (exhaustive), lds/sts over a stride of the 16-bit address space for 3 registers plus boundary addresses for all registers, jmp/call over all 64 high fields x boundary low words, reduced-core lds/sts exhaustive; each a one-line program through build_str; the same written through .def aliases/.equ symbols/expressions (every 7th); plus seeded random programs of 2..40 legal instructions, on the default device, four small devices and the reduced core, starting at 0 or behind an .org, relative ones aimed at numbers, distances from pc, labels before/behind/at the end, and .set/.equ symbols captured from pc, ldi of low/high(label), whose image must be the concatenation of the ISA words at the real addresses; distinct = distinct source texts (all are non-trivial: each denotes a different instruction/operand tuple)',
        'samples': [cases[0].src, cases[len(cases) // 2].src, cases[-1].src],
        'exhaustive': True,
        'distribution': {'cases_per_mnemonic_top': dist.most_common(12), 'mnemonics': len(dist)},
        'disagreements': dis, 'violations': vio,
    }

def search(breaks, tier, seed):
    # the oracle stream of run() is already exhaustive over the legal tuples; nothing further
    return None
