"""C17: determinism and independence of builds.

Reference: every case is built ALONE in a fresh process.  Then the same cases are built in one
process in several orders (as given, reversed, seeded permutations, each case three times in a
row) and concurrently (8 threads x 3 rounds, every thread starting elsewhere): every single
result — images, sizes, messages, and for failures the FULL error text — must equal the
reference.  Cases share names on purpose: the same symbols, aliases, macros, flags and labels
with different meanings, different .device selections, failing builds that define things before
they fail, file trees in which the same include name resolves to different files.
The model is a pure function of (source, file system, include directories); the reference
results are also compared with it."""
import os, random, shutil, tempfile
from collections import Counter
import vlib
from . import c09, c10, c11

THEOREM_FILES = ['C17']
ASSUMPTIONS = ['interleavings are those the OS scheduler produces in 8 threads x 3 rounds per run (sampled, not enumerated); the inventory theorems (no mutable process-wide state, no iteration over unordered containers, one ambient input) are what makes the sample representative',
               'env::current_dir() is an input of parse_str (resolution of includes from a string); the harness does not change directory during a run']

SHARED = [
    # same names, different meanings
    '.equ LIMIT = 10\n.def tmp = r16\n ldi tmp, LIMIT\nloop: rjmp loop\n.message "ten"',
    '.equ LIMIT = 20\n.def tmp = r17\n ldi tmp, LIMIT\n nop\nloop: rjmp loop\n.warning "twenty"',
    '.set LIMIT = 1\n.set LIMIT = LIMIT + 1\n .dw LIMIT',
    '.define FLAG\n.ifdef FLAG\n .db 1, 2\n.else\n .db 3, 4\n.endif',
    '.ifdef FLAG\n .db 1, 2\n.else\n .db 3, 4\n.endif',
    '.macro put\n ldi r16, @0\n.endm\n put 1\n put 2',
    '.macro put\n ldi r17, @0+1\n nop\n.endm\n put 1',
    ' put 1',                                   # fails unless a macro leaked
    ' ldi tmp, LIMIT',                          # fails unless symbols leaked
    # device selection
    '.device ATtiny11\n nop\n rjmp 0',
    '.device ATmega328P\n push r1\n jmp 0x100',
    ' push r1\n jmp 0x100',                     # default device: allowed
    '.device ATtiny11\n push r1',               # fails: not on this device
    '.device ATmega8\n.dseg\nbuf: .byte 1024\n.cseg\n ldi r16, low(buf)',
    '.dseg\nbuf: .byte 1024\n.cseg\n ldi r16, low(buf)',
    # failing builds that define things first
    '.equ LIMIT = 10\n.def tmp = r16\n.device ATtiny11\n.macro put\n nop\n.endm\n.define FLAG\n.message "before"\n bogus r1',
    '.equ LIMIT = 10\n.def tmp = r16\n.device ATtiny11\n ldi tmp, 300',
    '.equ LIMIT = 10\nlab: nop\nlab: nop',
    '.macro a\n nop\n.endm\n.macro b\n nop\n.endm\n.macro c\n nop\n.endm\n.macro d\n nop\n.endm\n nosuchmacro 1',
    # an unknown macro whose name is equally close to several defined ones (any "did you mean" must not depend on hash order)
    '.macro delay_a\n nop\n.endm\n.macro delay_b\n nop\n.endm\n.macro delay_c\n nop\n.endm\n.macro delay_d\n nop\n.endm\n.macro delay_e\n nop\n.endm\n delay_x',
    '.equ sym_a = 1\n.equ sym_b = 2\n.equ sym_c = 3\n.equ sym_d = 4\n .dw sym_x',
    '.def rg_a = r16\n.def rg_b = r17\n.def rg_c = r18\n.def rg_d = r19\n mov rg_x, r1',
    'lab_a: nop\nlab_b: nop\nlab_c: nop\nlab_d: nop\n rjmp lab_x',
    # an include that exists nowhere among the build's directories: the user's configuration directory must not be consulted by the library
    '.include "c17_cfgpart.inc"\n nop',
    '.equ e1 = 1\n.equ e2 = 2\n.equ e3 = 3\n.equ e4 = 4\n .dw nosuch',
    '.error "stop"', '', ' nop',
    # builds that fail deep inside a definition chain, next to builds that use definitions of the same shape
    '.equ a = a + 1\n ldi r16, a', '.equ x = y * 2\n.equ y = x + 1\n .dw x', '.equ b = 2 * 8\n.equ c = b + 1\n ldi r16, c', '.equ a = 3 * 3\n ldi r16, a',
    # rarely used directives: whatever they report, they report it in every build
    '.csegsize 11\n nop', '.csegsize 12\n ret\n.message "after"', '.dseg\n.byte 2\n.cseg\n#pragma AVRPART CORE CORE_VERSION V2\n nop', '.listmac\n.list\n.nolist\n nop',
    # a macro with more than ten parameters: `@1` is a prefix of `@10`, so the ORDER in which the parameters are substituted
    # decides the text; it must be the same order in every build
    '.macro wide\n .db @0, @1, @2, @3, @4, @5, @6, @7, @8, @9, @10, @11\n.endm\n wide 1, 2, 3, 4, 5, 6, 7, 8, 9, 10, 11, 12',
    '.macro wide\n ldi r16, @12\n ldi r17, @1\n ldi r18, @10 + @2\n.endm\n wide 1, 2, 3, 4, 5, 6, 7, 8, 9, 10, 11, 12, 13\n wide 9, 8, 7, 6, 5, 4, 3, 2, 1, 0, 1, 2, 3',
    # a macro defined several times under names that differ in letter case only: ONE of them serves a call, the same one
    # in every build (never whichever a hash map happens to yield first)
    '.macro Setup\n ldi r16, 1\n.endm\n.macro setup\n ldi r16, 2\n.endm\n.macro SETUP\n ldi r16, 3\n nop\n.endm\n.macro sEtUp\n .dw 4\n.endm\n setup\n Setup',
    '.macro Init\n bogus r1\n.endm\n.macro INIT\n nop\n.endm\n.macro init\n ret\n.endm\n.macro iNit\n .error "x"\n.endm\n init',
    # a build that selects the reduced core and then FAILS, next to builds that use lds/sts on the default device and on
    # another device: nothing of the failed build (not even a core flag) may reach the next build on the same thread
    '.device ATtiny20\n mul r0, r1', '.device ATtiny20\n nop\n bogus r1', '.device ATtiny20\n lds r16, 0x40\n.error "stop"',
    ' lds r16, 0x0123\n sts 0x0060, r17\n rjmp pc', '.device ATmega8\n lds r16, 0x0123\n sts 0x0060, r17', '.device ATtiny20\n lds r16, 0x40\n sts 0x41, r17',
    # data, eeprom, messages
    '.eseg\n.db 1, 2, 3\n.cseg\n nop\n.message "a"\n.message "b"',
    '.eseg\n.db 9\n.cseg\n ret\n.message "b"\n.message "a"',
]

def run(tier, seed, model_ok):
    rng = random.Random(seed)
    cases, src = [], {}
    def add(tid, kind, payload, text):
        cases.append((tid, kind, payload)); src[tid] = text
    for i, t in enumerate(SHARED): add('s%d' % i, 'B', vlib.hx(t) if t else '-', t)
    nrand = 24 if tier == 'quick' else 200
    for i in range(nrand):
        if i % 2 == 0:
            p = c10.gen(rng); lines = p[0]
        else:
            p = c09.gen_program(rng); lines = p[0]
        t = '\n'.join(lines)
        add('g%d' % i, 'B', vlib.hx(t), t)
    root = tempfile.mkdtemp(prefix='avra-c17-')
    dis, vio = [], []
    dist = Counter()
    try:
        # file trees: the same include name in different projects / include directories
        for i in range(4):
            d = os.path.join(root, 'proj%d' % i); os.makedirs(os.path.join(d, 'inc'))
            open(os.path.join(d, 'main.asm'), 'w').write('.include "board.inc"\n ldi r16, BOARD\n.include "inc/more.inc"\n')
            open(os.path.join(d, 'board.inc'), 'w').write('.equ BOARD = %d\n.message "board %d"\n' % (i + 1, i))
            open(os.path.join(d, 'inc', 'more.inc'), 'w').write(' nop\n' * (i + 1))
            add('f%d' % i, 'F', '%s -' % vlib.hx(os.path.join(d, 'main.asm')), 'project %d: main.asm includes its own board.inc (BOARD=%d) and inc/more.inc' % (i, i + 1))
        # one source, different caller-supplied directories
        lib = [os.path.join(root, 'lib%d' % i) for i in range(3)]
        for i, l in enumerate(lib):
            os.makedirs(l); open(os.path.join(l, 'cfg.inc'), 'w').write('.equ CFG = %d\n' % (7 * (i + 1)))
        os.makedirs(os.path.join(root, 'app')); open(os.path.join(root, 'app', 'app.asm'), 'w').write('.include "cfg.inc"\n .dw CFG\n')
        for i, l in enumerate(lib):
            add('fl%d' % i, 'F', '%s %s' % (vlib.hx(os.path.join(root, 'app', 'app.asm')), vlib.hx(l)), 'app.asm includes cfg.inc found through include directory lib%d' % i)
        # the same name in TWO of the directories a build is given: which copy is taken must not depend on what an
        # earlier build (with fewer or other directories) found
        for i, ls_ in enumerate([(0, 1), (1,), (0, 1), (1, 2), (2,), (0, 2), (0, 1, 2), (2, 1)]):
            add('fm%d' % i, 'F', '%s %s' % (vlib.hx(os.path.join(root, 'app', 'app.asm')), ','.join(vlib.hx(lib[j]) for j in ls_)),
                'app.asm includes cfg.inc with include directories %s' % ', '.join('lib%d' % j for j in ls_))
        add('fl_none', 'F', '%s -' % vlib.hx(os.path.join(root, 'app', 'app.asm')), 'app.asm includes cfg.inc with no include directory: must fail')
        # failures whose text comes from the operating system: a file that is not UTF-8 (as main file, as an include two
        # levels down), a directory in place of a file, a missing include.  The text must name the file, not anything
        # that depends on what else the process has open at that moment
        for i in range(3):
            d = os.path.join(root, 'odd%d' % i); os.makedirs(os.path.join(d, 'adir'))
            open(os.path.join(d, 'bin.asm'), 'wb').write(b' nop\n\xff\xfe\x80 bad\n' * (i + 1))
            open(os.path.join(d, 'bin.inc'), 'wb').write(b'; \xc3\x28\n nop\n')
            open(os.path.join(d, 'mid.inc'), 'w').write(' nop\n.include "bin.inc"\n')
            open(os.path.join(d, 'main.asm'), 'w').write('.equ A = %d\n.include "mid.inc"\n' % i)
            open(os.path.join(d, 'dir.asm'), 'w').write(' nop\n.include "adir"\n')
            open(os.path.join(d, 'gone.asm'), 'w').write(' nop\n.include "gone%d.inc"\n' % i)
            add('ob%d' % i, 'F', '%s -' % vlib.hx(os.path.join(d, 'bin.asm')), 'main file that is not UTF-8')
            add('oi%d' % i, 'F', '%s -' % vlib.hx(os.path.join(d, 'main.asm')), 'include, two levels down, of a file that is not UTF-8')
            add('od%d' % i, 'F', '%s -' % vlib.hx(os.path.join(d, 'dir.asm')), 'include of a directory')
            add('og%d' % i, 'F', '%s -' % vlib.hx(os.path.join(d, 'gone.asm')), 'include of a missing file')
        envt = {'HARNESS_ERRTEXT': '1'}
        # reference: alone, fresh process each
        ref = {}
        for c in cases:
            r = vlib.run_impl([c], envt)
            ref[c[0]] = r.get(c[0], 'NOANSWER ' + r.get('__died__', ''))
        dist['reference builds (fresh process each)'] = len(cases)
        # the same, alone, under two other environments (HOME / XDG_CONFIG_HOME pointing at a configuration directory
        # that holds include files of the names the cases use): the library's result must not depend on it
        for tag in ('envA', 'envB'):
            home = os.path.join(root, tag); cfg = os.path.join(home, '.config', 'avra-rs', 'includes'); os.makedirs(cfg)
            for nm, val in (('c17_cfgpart.inc', 1), ('cfg.inc', 2), ('board.inc', 3), ('part.inc', 4)):
                open(os.path.join(cfg, nm), 'w').write('.equ CFG = %d\n.equ BOARD = %d\n.message "from %s"\n' % (val, val, tag))
            e2 = dict(envt, HOME=home, XDG_CONFIG_HOME=os.path.join(home, '.config'))
            for c in cases:
                r = vlib.run_impl([c], e2)
                got = r.get(c[0], 'NOANSWER')
                if got != ref[c[0]]:
                    vio.append({'what': 'the result of a build depends on the environment (HOME / XDG_CONFIG_HOME)', 'source': src[c[0]], 'reference': ref[c[0]][:300], 'under_' + tag: got[:300], 'key': 'environment'})
                    break
            dist['builds under another environment'] += len(cases)
        def compare(label, order, res):
            for c in order:
                got = res.get(c[0])
                if got != ref[c[0]]:
                    vio.append({'what': 'a build gives a different result than the same build alone in a fresh process (%s)' % label, 'source': src[c[0]], 'alone': ref[c[0]][:300], 'in_history': (got or 'none')[:300],
                                'history': [src[x[0]][:80] for x in order[:order.index(c) + 1]][-6:], 'key': label})
                    return
        orders = {'as listed': list(cases), 'reversed': list(reversed(cases)), 'each three times': [c for c in cases for _ in range(3)]}
        for k in range(3 if tier == 'quick' else 12):
            o = list(cases); rng.shuffle(o); orders['permutation %d' % k] = o
        for label, order in orders.items():
            # ids must be unique per line for the result map: suffix the position
            lines = [('%s#%d' % (c[0], i), c[1], c[2]) for i, c in enumerate(order)]
            res = vlib.run_impl(lines, envt)
            dist['sequential builds'] += len(lines)
            for i, c in enumerate(order):
                got = res.get('%s#%d' % (c[0], i))
                if got != ref[c[0]]:
                    vio.append({'what': 'a build gives a different result than the same build alone in a fresh process (one process, order: %s)' % label, 'source': src[c[0]], 'alone': ref[c[0]][:300], 'in_history': (got or 'none')[:300],
                                'built_before_it': [src[x[0]][:100] for x in order[max(0, i - 5):i]], 'key': 'sequential'})
                    break
        # concurrent
        import subprocess
        env = dict(vlib.ENV); env.update(envt); env['HARNESS_SCRATCH'] = root
        threads, rounds = (8, 3) if tier == 'quick' else (16, 10)
        p = subprocess.run([vlib.HARNESS, 'history', str(threads), str(rounds)], input='\n'.join('%s %s %s' % c for c in cases) + '\n', capture_output=True, text=True, env=env, timeout=3600)
        if p.returncode != 0:
            vio.append({'what': 'concurrent builds crashed the process', 'stderr': p.stderr[-300:], 'key': 'concurrent'})
        n = 0
        for l in p.stdout.splitlines():
            t, tid, res = l.split(' ', 2)
            n += 1
            if res != ref[tid]:
                vio.append({'what': 'a build running concurrently with others gives a different result than alone in a fresh process', 'source': src[tid], 'alone': ref[tid][:300], 'concurrent': res[:300], 'thread': t, 'key': 'concurrent'})
                break
        dist['concurrent builds (%d threads x %d rounds)' % (threads, rounds)] = n
        # model: pure function
        if model_ok:
            plain = vlib.run_impl(cases)
            lines = vlib.cwd_prelude()
            lines += ['FSCLEAR']
            dirs = set()
            for dp, dn, fn in os.walk(root):
                dirs.add(dp)
                for f in fn:
                    if f.startswith('bin.'): continue     # not UTF-8: the model's files are texts; those cases are impl only
                    lines.append('FSFILE %s %s' % (vlib.hx(os.path.join(dp, f)), vlib.hx(open(os.path.join(dp, f)).read())))
            d = root
            while len(d) > 1: dirs.add(d); d = os.path.dirname(d)
            for d in sorted(dirs): lines.append('FSDIR ' + vlib.hx(d))
            mcases = [c for c in cases if not c[0].startswith(('ob', 'oi'))]
            lines += ['%s %s %s' % c for c in mcases]
            mres, rc, err = vlib.run_lines(vlib.DRIVER, lines, mode=None)
            for c in mcases:
                if plain.get(c[0]) != mres.get(c[0], 'MISSING'):
                    dis.append({'input': src[c[0]], 'impl': (plain.get(c[0]) or '')[:200], 'model': mres.get(c[0], 'MISSING')[:200]})
    finally:
        shutil.rmtree(root, ignore_errors=True)
    return {
        'evaluations': sum(v for k, v in dist.items()), 'distinct_nontrivial': len(set(src.values())),
        'rule': '%d fixed programs that share symbol, alias, macro, flag and label names with different meanings, select different devices, or fail after defining things; %d seeded random symbol and macro programs (shared name pools); 4 project trees with their own board.inc and one source built with 3 different include directories; 12 file builds that fail inside the operating system (file that is not UTF-8, directory in place of a file, missing include). Each case is built alone in a fresh process (reference), then all are built in one process in %d orders (as listed, reversed, each three times in a row, seeded permutations) and concurrently; every result incl. the full error text must equal the reference' % (len(SHARED), nrand, len(orders)),
        'samples': [SHARED[0], SHARED[15]],
        'exhaustive': False,
        'distribution': dict(dist, reference_results=dict(Counter(r.split()[0] for r in ref.values()))),
        'disagreements': dis[:30], 'violations': vio[:20],
    }

def matches_known(k, v):
    return False
