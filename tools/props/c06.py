"""C06: data directives.  Programs of data lines in flash and EEPROM (operand lists mixing
expressions, symbols and strings incl. empty and non-ASCII, every width, values at and beyond
both ends of each range, several odd .db lines in a row, .byte in EEPROM, wrong segments).
Oracle: the independent Lean spec (DATA: Spec.placedLine) line by line; the image must be the
concatenation."""
import random
from collections import Counter
from . import enc_common as E
import vlib

THEOREM_FILES = ['C06', 'C06b']
ASSUMPTIONS = ['operand values are computed by the generator (literals, simple sums, .equ symbols); their evaluation is C05',
               'Rust String::as_bytes is UTF-8 (modelled by Model.utf8)']
RANGES = {'db': (-128, 255), 'dw': (-32768, 65535), 'dd': (-2**31, 2**32 - 1), 'dq': (-2**63, 2**63 - 1)}
STRINGS = ['', 'a', 'ab', 'abc', 'Hello, World', 'é', 'ñandú', '日本', 'x;y', '/* c */', "it's", 'tab\there', '€', 'a,b', ' ',
           # a backslash is a character like any other: two bytes for backslash-n, the string may end on one
           'a\\nb', 'c:\\temp\\new', '\\0', '\\', 'a\\', '\\t\\r\\n', '\\\\', '\\x41', '%d\\n']

def val_text(rng, v, syms):
    k = rng.random()
    if v == -2**63:
        return '(-9223372036854775807 - 1)'
    # a character literal stands for its code point, whatever the element width (beyond the width it is an error like any value)
    if 32 <= v < 0x110000 and not (0xD800 <= v < 0xE000) and chr(v) not in "'\\\"" and chr(v).isprintable() and k < .12:
        return "'%s'" % chr(v)
    if k < .2 and 0 <= v < 2**62:
        nm = 'K%d' % len(syms)
        syms.append('.equ %s = %d' % (nm, v))
        return nm if rng.random() < .5 else nm.lower()
    if k < .35 and -2**62 < v < 2**62:
        d = rng.randrange(1, 9)
        return '%s+%d' % (E.num(v - d) if v - d >= 0 else '(%s)' % E.num(v - d), d)
    if k < .5 and v >= 0:
        return '0x%x' % v
    if k < .75 and -2**62 < v < 2**62:
        return spell(rng.randrange(1, 7), v)
    return E.num(v)

def spell(k, v):
    """the same value written through an operator: the range check looks at the value, not at how it is written"""
    par = lambda x: E.num(x) if x >= 0 else '(%s)' % E.num(x)
    if k == 1: return '~' + par(-v - 1)
    if k == 2: return '-' + par(-v)
    if k == 3: return '%s | 0' % par(v)
    if k == 4: return '1 * %s' % par(v)
    if k == 5: return '~~' + par(v)
    if k == 6: return '(%s)' % E.num(v)
    return E.num(v)

def gen_line(rng, seg, syms):
    dt = rng.choice(['db', 'db', 'db', 'dw', 'dd', 'dq'])
    lo, hi = RANGES[dt]
    ops, toks = [], []
    for _ in range(rng.randrange(1, 6)):
        k = rng.random()
        if k < .25 and (dt == 'db' or rng.random() < .04):
            s = rng.choice(STRINGS)
            ops.append('"%s"' % s); toks.append('s' + s.encode('utf-8').hex())
        else:
            if k < .965:
                v = rng.choice([lo, hi, 0, 1, -1, rng.randrange(lo, hi + 1), rng.randrange(lo, hi + 1), rng.randrange(0, 256)])
            else:
                v = rng.choice([lo - 1, hi + 1, lo - 2, hi + 2, hi + 256, lo - 1000]) if dt != 'dq' else rng.choice([lo, hi])
            if rng.random() < .008:
                ops.append('nosuchsym'); toks.append('bad')
            else:
                ops.append(val_text(rng, v, syms)); toks.append('v%d' % v)
    sep = rng.choice([',', ', ', ' , ', ',\t'])
    return '.%s %s' % (dt, sep.join(ops)), dt, toks

def cases(tier, seed):
    rng = random.Random(seed)
    out = []
    n = 2500 if tier == 'quick' else 30000
    for _ in range(n):
        syms, lines, reqs = [], [], []
        seg = 'c'
        for _ in range(rng.randrange(1, 7)):
            if rng.random() < .25:
                seg = rng.choice('ce' if rng.random() < .97 else 'd')
                lines.append({'c': '.cseg', 'e': '.eseg', 'd': '.dseg'}[seg])
            if seg == 'e' and rng.random() < .15:
                k = rng.randrange(0, 6)
                lines.append('.byte %d' % k); reqs.append(('e', None, k))
                continue
            text, dt, toks = gen_line(rng, seg, syms)
            lines.append(text); reqs.append((seg, dt, toks))
        if rng.random() < .15:
            # the same lines as the body of a macro called once: a body may begin with a segment directive
            lines = ['.macro blk%d' % len(out)] + lines + ['.endm', 'blk%d' % len(out)]
        src = '\n'.join((syms if rng.random() < .5 else []) + lines + ([] if syms and lines and lines[0] in syms else []))
        if syms and not src.startswith('.equ'):
            src = src + '\n' + '\n'.join(syms)
        out.append((src, reqs))
    # boundary sweep: every width x both range ends +-2, flash and eeprom, single operand
    for dt, (lo, hi) in RANGES.items():
        for v in [lo - 2, lo - 1, lo, lo + 1, -1, 0, 1, hi - 1, hi, hi + 1, hi + 2]:
            if dt == 'dq' and not (-2**63 <= v <= 2**63 - 1):
                continue
            for seg in 'ce':
                t = E.num(v) if v != -2**63 else '(-9223372036854775807 - 1)'
                out.append(('%s\n.%s %s' % ('.cseg' if seg == 'c' else '.eseg', dt, t), [(seg, dt, ['v%d' % v])]))
                if -2**62 < v < 2**62:
                    for k in range(1, 7):     # the same boundary value written through ~, -, |, *, parentheses; alone and second in a list
                        out.append(('%s\n.%s %s' % ('.cseg' if seg == 'c' else '.eseg', dt, spell(k, v)), [(seg, dt, ['v%d' % v])]))
                    out.append(('%s\n.%s 1, %s' % ('.cseg' if seg == 'c' else '.eseg', dt, spell(1, v)), [(seg, dt, ['v1', 'v%d' % v])]))
    # character literals of one to four UTF-8 bytes in every width: the value is the code point, not a byte of its encoding
    for ch in ['A', '~', 'é', 'ÿ', 'Ā', 'ſ', '€', '日', '😀']:
        for dt in RANGES:
            for seg in 'ce':
                out.append(("%s\n.%s '%s'" % ('.cseg' if seg == 'c' else '.eseg', dt, ch), [(seg, dt, ['v%d' % ord(ch)])]))
                out.append(("%s\n.%s 1, '%s'+0, 2" % ('.cseg' if seg == 'c' else '.eseg', dt, ch), [(seg, dt, ['v1', 'v%d' % ord(ch), 'v2'])]))
    # the caller's data lines behind a macro whose body ENDS in another segment: padded (flash) or not (EEPROM) by the
    # segment they land in
    out.append(('.macro toee\n.eseg\n.endm\n toee\n.db 1, 2, 3\n.db "abc"\n.db 7', [('e', 'db', ['v1', 'v2', 'v3']), ('e', 'db', ['v97', 'v98', 'v99']), ('e', 'db', ['v7'])]))
    out.append(('.macro sw\n.if @0\n.eseg\n.else\n.cseg\n.endif\n.endm\n sw 0\n.db 8\n sw 1\n.db 9\n.dw 7\n.db 6', [('c', 'db', ['v8']), ('e', 'db', ['v9']), ('e', 'dw', ['v7']), ('e', 'db', ['v6'])]))
    for k in range(1, 5):   # k odd .db lines in a row
        out.append(('\n'.join('.db %d' % (i + 1) for i in range(k)), [('c', 'db', ['v%d' % (i + 1)]) for i in range(k)]))
    return out

def run(tier, seed, model_ok):
    cs = cases(tier, seed)
    trip = [(str(i), 'B', vlib.hx(c[0])) for i, c in enumerate(cs)]
    impl = vlib.run_impl(trip)
    model = vlib.run_model(trip, vlib.cwd_prelude()) if model_ok else {}
    lines = []
    for i, (src, reqs) in enumerate(cs):
        for j, (seg, dt, toks) in enumerate(reqs):
            if dt is not None:
                lines.append('%d.%d DATA %s %s %s' % (i, j, seg, dt, ' '.join(toks)))
    spec, _, _ = vlib.run_lines(E.SPEC, lines, mode=None)
    dis, vio = [], []
    ok = bad = 0
    for i, (src, reqs) in enumerate(cs):
        a = impl.get(str(i), 'MISSING')
        if model_ok and a != model.get(str(i), 'MISSING'):
            dis.append({'source': src, 'impl': a[:160], 'model': model.get(str(i), 'MISSING')[:160]})
        code, ee, fail = '', '', False
        for j, (seg, dt, toks) in enumerate(reqs):
            if dt is None:
                ee += '00' * toks
                continue
            s = spec.get('%d.%d' % (i, j), 'NOSPEC')
            if s.startswith('B '):
                if seg == 'c': code += s[2:]
                else: ee += s[2:]
            elif s == 'B':
                pass
            elif s == 'FAIL':
                fail = True
            else:
                vio.append({'what': 'oracle could not judge (harness bug)', 'source': src, 'impl': a[:60], 'expected': s, 'key': 'oracle'}); fail = None
        if fail is None:
            continue
        if fail:
            bad += 1
            if not a.startswith('ERR'):
                vio.append({'what': 'a data line that must fail (value outside the element width, string in a word directive, wrong segment, unknown symbol) was assembled',
                            'source': src, 'impl': a[:160], 'expected': 'error', 'key': 'must-fail'})
        else:
            ok += 1
            got_c = E.code_of(a) if a.startswith('OK') else None
            got_e = None
            if a.startswith('OK'):
                for f in a.split():
                    if f.startswith('ee='): got_e = '' if f[3:] == '-' else f[3:]
            if got_c != code or got_e != ee:
                vio.append({'what': 'images are not the operands\' bytes in source order, little-endian, exact width (odd flash .db lines padded by one zero byte)',
                            'source': src, 'impl': a[:200], 'expected_code': code, 'expected_eeprom': ee, 'key': 'bytes'})
    return {
        'evaluations': len(cs), 'distinct_nontrivial': len({c[0] for c in cs}),
        'rule': 'seeded random programs of 1..6 data lines over .cseg/.eseg (a few in .dseg), 1..5 operands per line mixing values (at/inside/just beyond the range ends of the element width; written as literals, sums, .equ symbols, character literals of 1..4 UTF-8 bytes, through ~ - | * and parentheses), strings (empty, ASCII, non-ASCII, with comment/quote characters and backslashes), unknown symbols, .byte in EEPROM; one program in seven as the body of a macro called once (bodies beginning with .eseg/.cseg/.dseg); plus the single-operand boundary sweep of every width x both range ends +-2 x both segments x 7 ways of writing the value and 1..4 odd .db lines in a row; distinct = distinct programs',
        'samples': [cs[0][0], cs[1][0]],
        'exhaustive': False,
        'distribution': {'programs_that_build': ok, 'programs_that_must_fail': bad, 'widths': Counter(r[1] for c in cs for r in c[1] if r[1]).most_common()},
        'disagreements': dis, 'violations': vio,
    }
