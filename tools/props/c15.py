"""C15: error attribution and message order.  The generator builds valid structured programs
(plain lines, labels, symbols, data, macro definitions and calls, nested conditionals whose taken
branch it knows), then (a) injects exactly ONE faulty line of every kind at every kind of assembled
position and expects the build to fail naming that line, (b) sprinkles .message / .warning /
.error over assembled and unassembled positions and expects: images unchanged by messages, the
message list = the generator's own list (source order, own line numbers, kind prefix), .error
fatal exactly when assembled."""
import random
from collections import Counter
import os, shutil, tempfile
import vlib
from . import c11

THEOREM_FILES = ['C15', 'C15b']
ASSUMPTIONS = ['faults are injected at top level or in taken branches only (a fault inside a macro body has two candidate lines, definition and call; the property does not say which)',
               'a duplicate label is injected after the original definition, so the injected line is the offending one',
               'the error text names a line when it contains "line: N" (the format of every located error of this code base)']

FAULTS = {
    'syntax': ['  ldi r16,, 1', '  ???', '  ldi r16, (1', '  .db 1,', '  lbl 1:', '  mov r1 r2', '  .equ = 3', '  ldi r16, 1 1'],
    'unknown-mnemonic-or-macro': ['  frobnicate r1', '  nosuchmacro', '  NOPE 1, 2'],
    'operand-kind': ['  ldi 5, 1', '  mov r1, 300+nolabel*0', '  ld r1, r2', '  push 7', '  ldi r16', '  nop r1', '  mov r1'],
    'operand-range': ['  ldi r16, 300', '  ldi r3, 1', '  sbi 40, 1', '  adiw r24, 64', '  sbi 3, 8', '  ldd r0, Y+64', '  cbr r16, 256', '  adiw r23, 1', '  ldi r16, -129'],
    'undefined-in-instruction': ['  ldi r16, nosuch', '  rjmp nosuch', '  breq nosuch', '  sts nosuch, r1', '  ldi r16, low(nosuch)'],
    'undefined-in-data': ['  .db nosuch', '  .dw 1, nosuch+1', '  .dd nosuch', '  .dq 1, 2, nosuch', '  .dw low(nosuch)'],
    'undefined-in-set': ['.set sv_x = nosuch', '.set sv_y = 1 + nosuch'],
    'undefined-in-if': [['.if nosuch', '.endif'], ['.if 1 + nosuch', '  nop', '.endif']],
    'data-range': ['  .db 256', '  .db -129', '  .dw 65536', '  .dw "ab"'],
    'error-directive': ['.error "stop here"'],
    'fault-behind-deciding-operand': ['  .dw 0 && nosuch', '  ldi r16, 1 || nosuch', ['.if 0 && nosuch', '.endif'], '.set sv_z = 0 && nosuch', '  .dw 1 || 1/0', '  .db 0 && exp2(64)', ['.if 1 || nosuch', '.endif']],
    'misplaced': [['.dseg', '  nop', '.cseg'], ['.dseg', '  .db 1', '.cseg'], ['.dseg', '  .dw 1', '.cseg'], ['  .byte 2'], ['.eseg', '  ldi r16, 1', '.cseg']],
    'branch-to-far-label': [['  breq c15_far', '  .org 0x3000', 'c15_far:']],
    'macro-argument-missing': [['.macro c15_m2', '  ldi @0, @1', '.endm', '  c15_m2 r16']],
    'alias-errors': [['.def c15_a = r20', '.def c15_a = r21'], ['.def c15_b = r40'], ['.undef c15_never']],
    'directive-operands': ['.org', '.byte 1, 2', '.device', '.equ 5', '.undef nodef_alias', '.device NoSuchChip', '.include'],
}

class P:
    """structured program: list of (text, assembled?) lines; knows where a line may be inserted"""
    def __init__(self, rng):
        self.r = rng
        self.lines = []      # (text, assembled, in_macro_def)
        self.labels = []
        self.n = 0

    def add(self, t, asm=True, mac=False): self.lines.append((t, asm, mac))

    def plain(self, asm, mac=False):
        r = self.r
        k = r.randrange(11)
        self.n += 1
        if k == 0: self.add('  nop', asm, mac)
        elif k >= 9:
            # lines that assemble to nothing but count as lines: comments in column 0 and indented, in all styles, blank lines
            self.add(r.choice(['; comment in column 0', ';', '// comment in column 0', '/* block */', '  ; indented comment', '', '   ', '\t// tabbed']), asm, mac)
        elif k == 1: self.add('  ldi r%d, %d' % (r.randrange(16, 32), r.randrange(256)), asm, mac)
        elif k == 2 and not mac and asm:
            l = 'lb%d' % self.n; self.labels.append((l, len(self.lines))); self.add(l + ':', asm, mac)
        elif k == 3 and not mac and asm: self.add('.equ eq%d = %d' % (self.n, r.randrange(1000)), asm, mac)
        elif k == 4: self.add('  .dw %d, %d' % (r.randrange(65536), r.randrange(100)), asm, mac)
        elif k == 5 and self.labels and asm and not mac: self.add('  rjmp ' + r.choice(self.labels)[0], asm, mac)
        elif k == 6: self.add('  .db %d, %d' % (r.randrange(256), r.randrange(256)), asm, mac)
        elif k == 7 and not mac and asm: self.add('.set sv%d = %d' % (self.n % 3, r.randrange(100)), asm, mac)
        else: self.add('  mov r%d, r%d' % (r.randrange(32), r.randrange(32)), asm, mac)

    def block(self, depth, asm):
        r = self.r
        k = r.random()
        if k < .6 or depth >= 3:
            self.plain(asm)
        elif k < .9:
            # conditional: n arms, exactly one (or none) taken
            arms = r.randrange(1, 4)
            taken = r.randrange(-1, arms + 1)      # -1/arms: none of the .if/.elif arms
            has_else = r.random() < .6
            for a in range(arms):
                cond = '1' if a == taken else '0'
                if a == 0:
                    form = r.randrange(3)
                    if form == 0: self.add('.if %s' % cond, asm)
                    elif form == 1: self.add('.ifdef %s' % ('never_defined' if cond == '0' else 'FLAGX'), asm)
                    else: self.add('.ifndef %s' % ('FLAGX' if cond == '0' else 'never_defined'), asm)
                else:
                    self.add('.elif %s' % cond, asm)
                for _ in range(r.randrange(0, 3)): self.block(depth + 1, asm and a == taken)
            if has_else:
                self.add('.else', asm)
                for _ in range(r.randrange(0, 3)): self.block(depth + 1, asm and not (0 <= taken < arms))
            self.add('.endif', asm)
        else:
            self.n += 1
            name = 'mac%d' % self.n
            self.add('.macro ' + name, asm, False)
            for _ in range(r.randrange(1, 3)): self.plain(False, True)
            self.add('.endm', False, True)
            if asm and r.random() < .8: self.add('  ' + name, asm)

def gen(rng):
    p = P(rng)
    # now and then a long preamble of lines that assemble to nothing: line numbers with three and four digits
    k = rng.random()
    if k < .15:
        for _ in range(rng.choice([95, 120, 990, 1100])): p.add(rng.choice(['', '; filler', '  // filler', '.equ pre%d = %d' % (len(p.lines), len(p.lines))]))
    p.add('.define FLAGX')
    for _ in range(rng.randrange(3, 12)): p.block(0, True)
    return p

def src_of(tid, payload):
    try: return bytes.fromhex(payload).decode()
    except Exception: return tid

# which line(s) of a multi-line fault block may be named (1-based within the block); default: the first
OFFSETS = {('.dseg', '  nop', '.cseg'): [2], ('.dseg', '  .db 1', '.cseg'): [2], ('.dseg', '  .dw 1', '.cseg'): [2], ('.eseg', '  ldi r16, 1', '.cseg'): [2],
           ('.macro c15_m2', '  ldi @0, @1', '.endm', '  c15_m2 r16'): [2, 4],      # the body line or the call: the property does not say which
           ('.def c15_a = r20', '.def c15_a = r21'): [2]}

def with_inserted(lines, pos, new):
    new = new if isinstance(new, list) else [new]
    return lines[:pos] + new + lines[pos:]

def run(tier, seed, model_ok):
    rng = random.Random(seed)
    nprog = 60 if tier == 'quick' else 800
    trip, exp = [], {}
    kinds = Counter()
    progs = []
    for pi in range(nprog):
        p = gen(rng)
        text = [l for l, _, _ in p.lines]
        eol = '\r\n' if rng.random() < .2 else '\n'        # line numbers must not depend on the line-end convention
        progs.append(p)
        trip.append(('b%d' % pi, 'B', vlib.hx('\n'.join(text))))
        # insertion points: before line i, for i such that the new line is assembled: i.e. the line before it and
        # after it are in the same assembled region; we use "after an assembled non-macro line that is not a
        # directive opening something unassembled"
        okpos = []
        for i in range(1, len(p.lines) + 1):
            prev = p.lines[i - 1]
            if not prev[1] or prev[2]: continue
            t = prev[0].strip()
            if t.startswith('.macro'): continue
            if t.startswith(('.if', '.elif', '.else')):
                # inside the branch that follows: assembled iff the next line (if a body line) is assembled
                if i < len(p.lines) and not p.lines[i][0].strip().startswith(('.elif', '.else', '.endif')):
                    if not p.lines[i][1]: continue
                else:
                    # empty branch: assembled iff this arm is the taken one -- decide from the condition text
                    if t in ('.if 0', '.elif 0', '.ifdef never_defined', '.ifndef FLAGX'): continue
                    if t == '.else' or t.startswith('.elif'):
                        continue    # cannot tell locally; skip
            okpos.append(i)
        # (a) one fault of each kind at a random assembled position
        for kind, variants in FAULTS.items():
            if not okpos: break
            for rep in range(2 if tier == 'quick' else 3):
                pos = rng.choice(okpos)
                v = rng.choice(variants)
                tid = 'f%d_%s_%d' % (pi, kind, rep)
                trip.append((tid, 'B', vlib.hx(eol.join(with_inserted(text, pos, v)))))
                offs = OFFSETS.get(tuple(v), [1]) if isinstance(v, list) else [1]
                exp[tid] = ('fault', kind, [pos + o for o in offs], v, pi)
                kinds[kind] += 1
        # duplicate label, after its original
        for (l, at) in p.labels[:2]:
            later = [i for i in okpos if i > at]
            if later:
                pos = rng.choice(later)
                tid = 'd%d_%s' % (pi, l)
                trip.append((tid, 'B', vlib.hx(eol.join(with_inserted(text, pos, l.upper() + ':' if rng.random() < .5 else l + ':')))))
                exp[tid] = ('fault', 'duplicate-label', pos + 1, l + ':', pi)
                kinds['duplicate-label'] += 1
        # (b) messages everywhere
        for rep in range(3):
            out, expected, fatal = [], [], None
            for i, (l, asm, mac) in enumerate(p.lines):
                out.append(l)
                nxt_ok = (i + 1) in okpos
                unasm_spot = (not asm) and not mac and not l.strip().startswith(('.if', '.elif', '.else', '.macro'))
                if (nxt_ok or unasm_spot) and rng.random() < .3:
                    kind = rng.choice(['message', 'message', 'warning', 'error'] if rep == 2 else ['message', 'warning'])
                    txt = 'm%d %s' % (len(out), rng.choice(['hello', 'a, b', 'x ; y', '']))
                    out.append('.%s "%s"' % (kind, txt))
                    if nxt_ok and fatal is None:
                        expected.append('%s: %s in line: %d' % ({'message': 'info', 'warning': 'warning', 'error': 'error'}[kind], txt, len(out)))
                        if kind == 'error': fatal = len(out)
                    kinds['.%s %s' % (kind, 'assembled' if nxt_ok else 'unassembled')] += 1
            tid = 'm%d_%d' % (pi, rep)
            trip.append((tid, 'B', vlib.hx(eol.join(out) + (eol if rng.random() < .5 else ''))))
            exp[tid] = ('msgs', expected, fatal, '\n'.join(out), pi)
    # (c) .error / .message inside macro bodies: fatal exactly when the macro is called
    for i in range(20 if tier == 'quick' else 200):
        called = rng.random() < .6
        kind = rng.choice(['error', 'error', 'message'])
        guard = rng.random() < .5
        body = ['.macro chk', '  nop'] + (['  .if @0 > 10', '  .%s "too big"' % kind, '  .endif'] if guard else ['  .%s "always"' % kind]) + ['.endm']
        arg = rng.choice([5, 50])
        t = ['  nop'] + body + (['  chk %d' % arg] if called else []) + ['  ret']
        tid = 'x%d' % i
        trip.append((tid, 'B', vlib.hx('\n'.join(t))))
        exp[tid] = ('macro', kind, called and (not guard or arg > 10), '\n'.join(t), None)
        kinds['.%s in a macro body (%s)' % (kind, 'assembled' if exp[tid][2] else 'not assembled')] += 1
    # (c3) one faulty line INSIDE a macro body, behind what the body did before it (a segment switch, an .org, a nested
    #      call, a taken conditional): the build must fail, naming the body line or a call line (the property does not
    #      say which of the candidates)
    for i in range(60 if tier == 'quick' else 600):
        fault = rng.choice(['  frobnicate r1', '  nosuchmacro', '  ldi r1, 5', '  ldi r16, c15_undefined_sym', '  .error "stop"',
                            '  .db 1, c15_undefined_sym', '  rjmp 99999', '  .set c15_v = c15_undefined_sym'])
        before = rng.choice([[], ['  nop'], ['  nop', '.org 0x%x' % rng.choice([0x10, 0x40, 0x100])],
                             ['.dseg', 'c15_buf%d: .byte 2' % i, '.cseg'], ['  nop', '.eseg', '  .db 1, 2', '.cseg'],
                             ['  nop', '.dseg', '.org 0x%x' % rng.choice([0x80, 0x90]), '.cseg', '  nop'],
                             ['.if 1', '  nop', '.endif'], ['  nop', '.cseg', '.org 0x20', '  nop', '.org 0x30']])
        after = rng.choice([[], ['  nop'], ['.org 0x200', '  ret']])
        nested = rng.random() < .4
        t = ['  nop', '.macro c15_in'] + before + [fault] + after + ['.endm']
        fl = 2 + len(before) + 1                                  # 1-based line of the faulty body line
        cands = [fl]
        if nested:
            pre2 = rng.choice([[], ['  nop'], ['  nop', '.org 0x8', '  nop'], ['.dseg', '.byte 1', '.cseg']])
            t += ['.macro c15_out'] + pre2 + ['  c15_in'] + ['.endm']
            cands.append(len(t) - 1)
        t += ['  nop'] * rng.randrange(0, 3)
        t += ['  %s' % ('c15_out' if nested else 'c15_in')]
        cands.append(len(t))
        t += ['  ret']
        tid = 'z%d' % i
        trip.append((tid, 'B', vlib.hx('\n'.join(t))))
        exp[tid] = ('macfault', fault.strip(), cands, '\n'.join(t), None)
        kinds['fault inside a macro body (%s%s)' % ('behind a segment switch/.org' if any(x.startswith(('.org', '.dseg', '.eseg', '.cseg')) for x in before) else 'plain body', ', nested call' if nested else '')] += 1
    # (c4) messages and .error behind an inner construct that was left by skipping, in the LATER arms of the outer chain
    #      (which is closed): none of them is assembled — no message, no failure
    for i, (inner, tail) in enumerate([(i_, t_) for i_ in (['.if 0', '  nop', '.endif'], ['.ifdef never_defined', '  .message "in"', '.endif'], ['.if 0', '.elif 0', '.endif'])
                                       for t_ in (['.elif 1', '  .message "dead"', '  .error "dead"', '.else', '  .warning "dead else"', '.endif'],
                                                  ['.elif 0', '  .message "dead"', '.else', '  .error "dead else"', '.endif'],
                                                  ['.elif c15_nosuch', '  .message "dead"', '.elif 1', '  .warning "dead 2"', '.endif'])]):
        t = ['  nop', '.if 1', '  .message "live"'] + inner + tail + ['  .message "after"', '  ret']
        tid = 'w%d' % i
        trip.append((tid, 'B', vlib.hx('\n'.join(t))))
        exp[tid] = ('fixedmsgs', ['info: live in line: 3', 'info: after in line: %d' % (len(t) - 1)], '\n'.join(t))
        kinds['messages behind an inner construct left by skipping'] += 1
    # (c2) the same message line assembled several times in a row (a macro called repeatedly): every time counts
    for i in range(6 if tier == 'quick' else 40):
        reps = rng.randrange(2, 5)
        kind = rng.choice(['message', 'warning'])
        nested = rng.random() < .4
        t = ['.macro say', '  .%s "again"' % kind, '.endm'] + (['.macro outer', '  say', '  say', '.endm'] if nested else []) + ['  nop'] + ['  %s' % ('outer' if nested else 'say')] * reps + ['  ret']
        tid = 'y%d' % i
        trip.append((tid, 'B', vlib.hx('\n'.join(t))))
        exp[tid] = ('repeat', reps * (2 if nested else 1), kind, '\n'.join(t), None)
        kinds['the same message line assembled repeatedly'] += 1
    # (d) messages in included files (depth 2): order = paste order, line numbers = lines of their own files
    root = tempfile.mkdtemp(prefix='avra-c15-')
    trees = []
    try:
        for i in range(15 if tier == 'quick' else 150):
            g = c11.Gen(rng, os.path.join(root, 't%d' % i))
            main = os.path.join(g.root, 'main', 'main.asm')
            expected = []
            def mk(path, depth):
                lines = []
                for _ in range(rng.choice([0, 0, 1, 3])): lines.append(rng.choice(['', '', ' ', '\t']))     # files may begin with blank lines: they count
                for j in range(rng.randrange(1, 5)):
                    k = rng.random()
                    if k < .4:
                        kind = rng.choice(['message', 'warning'])
                        txt = 'd%d_%d' % (depth, len(expected))
                        lines.append('.%s "%s"' % (kind, txt))
                        expected.append('%s: %s in line: %d' % ('info' if kind == 'message' else 'warning', txt, len(lines)))
                    elif k < .7 and depth < 2:
                        g.n += 1
                        name = 'i%d_%d.inc' % (depth, g.n)        # unique: every file is included exactly once
                        lines.append('.include "%s"' % name)
                        sub = os.path.join(os.path.dirname(path), name)
                        g.files[sub] = None
                        g.files[sub] = mk(sub, depth + 1)
                    else:
                        lines.append('  nop')
                return lines
            g.files[main] = mk(main, 0)
            if rng.random() < .4:
                # the same file twice in a row: its messages count twice
                twice = os.path.join(os.path.dirname(main), 'twice.inc')
                g.files[twice] = ['.message "twice"', '  nop']
                g.files[main] = g.files[main] + ['.include "twice.inc"', '.include "twice.inc"']
                expected += ['info: twice in line: 1', 'info: twice in line: 1']
            g.dirs.add(os.path.dirname(main))
            c11.materialise(g)
            tid = 'i%d' % i
            trees.append((tid, g, main))
            trip.append((tid, 'F', '%s -' % vlib.hx(main)))
            exp[tid] = ('incmsgs', list(expected), None, {os.path.relpath(p, g.root): l for p, l in g.files.items()}, None)
            kinds['messages across include files'] += 1
            # the same tree with ONE faulty line in one of its files: the error names that line of that file
            import copy
            g2 = c11.Gen(rng, os.path.join(root, 'u%d' % i))
            rel = {os.path.relpath(p, g.root): list(l) for p, l in g.files.items()}
            fpath = rng.choice(sorted(rel))
            k = rng.randrange(0, len(rel[fpath]) + 1)
            fault = rng.choice(['  frobnicate r1', '  ldi r16, nosuch', '  ldi r16,, 1', '  .dw nosuch', '.error "in file"', '  ldi r3, 1'])
            rel[fpath].insert(k, fault)
            for rp, l in rel.items(): g2.files[os.path.join(g2.root, rp)] = l
            main2 = os.path.join(g2.root, os.path.relpath(main, g.root))
            g2.dirs.add(os.path.dirname(main2))
            c11.materialise(g2)
            tid2 = 'u%d' % i
            trees.append((tid2, g2, main2))
            trip.append((tid2, 'F', '%s -' % vlib.hx(main2)))
            exp[tid2] = ('incfault', k + 1, fault, {rp: l for rp, l in rel.items()}, fpath)
            kinds['one fault inside an include tree'] += 1
        impl = vlib.run_impl(trip)
    finally:
        shutil.rmtree(root, ignore_errors=True)
    dis, vio = [], []
    if model_ok:
        plain = [t for t in trip if t[1] != 'F']
        model = vlib.run_model(plain)
        lines = vlib.cwd_prelude()
        for tid, g, main in trees:
            lines += c11.fs_prelude(g)
            lines.append('%s F %s -' % (tid, vlib.hx(main)))
        mres, rc, err = vlib.run_lines(vlib.DRIVER, lines, mode=None)
        model.update({tid: mres.get(tid, 'MISSING') for tid, _, _ in trees})
        for tid, _, payload in trip:
            if impl.get(tid) != model.get(tid, 'MISSING'):
                dis.append({'input': src_of(tid, payload), 'impl': impl.get(tid, '')[:200], 'model': model.get(tid, 'MISSING')[:200]})
    src = {tid: (bytes.fromhex(pl).decode() if k != 'F' else str(exp[tid][3])) for tid, k, pl in trip}
    okb = 0
    for pi in range(nprog):
        if impl.get('b%d' % pi, '').startswith('OK'): okb += 1
    for tid, e in exp.items():
        got = impl.get(tid, '')
        if e[0] == 'macro':
            _, kind, assembled, text, _ = e
            fatal = assembled and kind == 'error'
            if fatal != got.startswith('ERR'):
                vio.append({'what': '.error inside a macro body must fail the build exactly when it is assembled (macro called, guard true)', 'source': text, 'impl': got[:120], 'expected': 'ERR' if fatal else 'OK', 'key': 'error-in-macro'})
            continue
        if e[0] == 'macfault':
            _, fault, cands, text, _ = e
            want = ' or '.join('ERR line=%d' % x for x in cands)
            if not got.startswith('ERR'):
                vio.append({'what': 'a program whose only fault is a line inside a called macro body builds', 'faulty_line': fault, 'line': cands, 'source': text, 'impl': got[:120], 'expected': want, 'key': 'fault-in-macro-body'})
            elif got.split()[1] not in ['line=%d' % x for x in cands]:
                vio.append({'what': 'the error for a faulty line inside a macro body names neither that line nor a call', 'faulty_line': fault, 'line': cands, 'source': text, 'impl': got[:120], 'expected': want, 'key': 'fault-in-macro-body'})
            continue
        if e[0] == 'fixedmsgs':
            _, want, text = e
            m = got.split(' msgs=')[1] if got.startswith('OK') else None
            gotl = None if m is None else ([] if m == '-' else bytes.fromhex(m).decode().split('\n'))
            if gotl != want:
                vio.append({'what': 'lines of unassembled branches took effect (messages / failure)', 'source': text, 'impl': gotl if gotl is not None else got[:120], 'expected': want, 'key': 'dead-branch-messages'})
            continue
        if e[0] == 'repeat':
            _, count, kind, text, _ = e
            m = got.split(' msgs=')[1] if got.startswith('OK') else None
            gotl = None if m is None else ([] if m == '-' else bytes.fromhex(m).decode().split('\n'))
            if gotl is None or len(gotl) != count or any(not x.startswith(('info' if kind == 'message' else 'warning') + ': again in line: ') for x in gotl):
                vio.append({'what': 'a message line assembled %d times must give %d entries' % (count, count), 'source': text, 'impl': gotl if gotl is not None else got[:100], 'expected': '%d entries' % count, 'key': 'repeated-message'})
            continue
        if e[0] == 'incfault':
            _, line, fault, files, fpath = e
            if got.split()[:2] != ['ERR', 'line=%d' % line]:
                vio.append({'what': 'a fault inside an include tree is not reported with the number of its line in its own file', 'files': files, 'faulty_file': fpath, 'faulty_line': fault, 'impl': got[:120], 'expected': 'ERR line=%d' % line, 'key': 'include-fault'})
            continue
        if e[0] == 'incmsgs':
            m = got.split(' msgs=')[1] if got.startswith('OK') else None
            gotl = None if m is None else ([] if m == '-' else bytes.fromhex(m).decode().split('\n'))
            if gotl != e[1]:
                vio.append({'what': 'messages assembled in included files are missing from the list or out of source order', 'files': e[3], 'impl': gotl if gotl is not None else got[:100], 'expected': e[1], 'key': 'include-messages'})
            continue
        base = impl.get('b%d' % e[-1], '')
        if not base.startswith('OK'):
            vio.append({'what': 'generator error: base program does not build', 'source': src['b%d' % e[-1]], 'impl': base[:100], 'key': 'generator'})
            break
        got = impl.get(tid, '')
        if e[0] == 'fault':
            _, kind, line, v, _ = e
            lines_ok = line if isinstance(line, list) else [line]
            want = ' or '.join('ERR line=%d' % x for x in lines_ok)
            if not got.startswith('ERR'):
                vio.append({'what': 'a program with one faulty line (%s) builds' % kind, 'faulty_line': v, 'line': lines_ok, 'source': src[tid][-1500:], 'impl': got[:120], 'expected': want, 'key': kind})
            elif got.split()[1] not in ['line=%d' % x for x in lines_ok]:
                vio.append({'what': 'the error for a faulty line (%s) does not name that line' % kind, 'faulty_line': v, 'line': lines_ok, 'source': src[tid][-1500:], 'impl': got[:120], 'expected': want, 'key': kind})
        else:
            _, expected, fatal, text, _ = e
            if fatal is not None:
                if got.split()[:2] != ['ERR', 'line=%d' % fatal]:
                    vio.append({'what': 'an assembled .error does not fail the build naming its line', 'source': text, 'impl': got[:120], 'expected': 'ERR line=%d' % fatal, 'key': 'error-directive'})
            else:
                if not got.startswith('OK'):
                    vio.append({'what': 'messages / unassembled .error changed a building program into a failing one', 'source': text, 'impl': got[:120], 'expected': 'OK', 'key': 'messages'})
                    continue
                if got.split(' msgs=')[0] != base.split(' msgs=')[0]:
                    vio.append({'what': '.message/.warning changed the images or sizes', 'source': text, 'impl': got[:160], 'expected': base[:160], 'key': 'messages'})
                m = got.split(' msgs=')[1]
                gotl = [] if m == '-' else bytes.fromhex(m).decode().split('\n')
                if gotl != expected:
                    vio.append({'what': 'message list differs from the messages assembled, in source order with their own line numbers', 'source': text, 'impl': gotl, 'expected': expected, 'key': 'messages'})
    return {
        'evaluations': len(trip), 'distinct_nontrivial': len(set(src.values())),
        'rule': 'seeded random structured programs (plain instructions, labels, .equ/.set, data, macro definitions and calls, conditionals nested to depth 3 in all three opening forms with .elif/.else, of which the generator knows the taken branch); per program: one faulty line of each of %d kinds (several spellings each) inserted at a random assembled position, a duplicate of an existing label after it, and three sprinklings of .message/.warning(/.error) over assembled and unassembled positions; oracle: ERR naming the inserted line; message list = generator\'s list; images unchanged by messages; distinct = distinct texts' % (len(FAULTS) + 1),
        'samples': [src[next(iter(exp))]],
        'exhaustive': False,
        'distribution': {'base_programs': nprog, 'base_programs_that_build': okb, 'cases_by_kind': dict(kinds)},
        'disagreements': dis[:30], 'violations': vio[:40],
    }

def matches_known(k, v):
    return False
