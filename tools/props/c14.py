"""C14: surface syntax without meaning.  Base programs come from the whole-program generator
(genprog), the macro generator (c09), the symbol generator (c10) and a fixed corpus that touches
every construct.  The respeller works on TOKENS of every line independently: it strips or adds
trailing `;`, `//`, `/* */` comments (with blanks after them), inserts blank and comment-only
lines, varies blanks and tabs around operands, commas, operators (binary, unary, the `+` of an
indexed operand), parentheses and `=`, trailing and leading blanks, LF/CRLF per line, the letter
case of mnemonics, macro calls, registers, function names and symbol references, hex digits, and
the radix of every number.  Oracle (metamorphic, as the property says): build_str(respelled) must
have the same images and sizes as build_str(original); a failing original must stay failing."""
import random, re
from collections import Counter
import vlib, genprog
from . import c09, c10

THEOREM_FILES = ['C14', 'C14x', 'C14b', 'C14m']
ASSUMPTIONS = ['not varied, because the language gives them meaning or the property does not list them: directive names (lower case only in the grammar), names at their DEFINITION, .define flags and the argument of defined() (case-sensitive by design), the text of strings and character literals, blanks inside `-X` / `X+` (one token each), blanks before a label (labels start in column 0), #pragma operand lists (blank-separated)',
               'messages carry line numbers, which inserted lines change: images and sizes are compared, message lists are not']

TOK = re.compile(r'''
   (?P<str>"[^"\n]*") | (?P<chr>'[^'\n]') | (?P<par>@\d)
 | (?P<hex>0x[0-9A-Fa-f]+|\$[0-9A-Fa-f]+) | (?P<bin>0b[01]+) | (?P<num>\d+)
 | (?P<id>[A-Za-z_]\w*)
 | (?P<op>\|\||&&|==|!=|<=|>=|<<|>>|[-+*/%&|^~!<>=(),])
 | (?P<ws>[ \t]+) | (?P<other>.)''', re.X)

NOCASE_DIRS = {'.define', '.ifdef', '.ifndef', '.include', '.includepath', '.device', '.message', '.warning', '.error',
               '.macro', '.endm', '.endmacro', '.equ', '.set', '.def', '#define', '#ifdef', '#ifndef'}
DEFINING = {'.equ', '.set', '.def', '.macro', '.define'}      # `.undef NAME` REFERS to an alias: its letter case is varied

def split_comment(s):
    """(code, had_comment) — first ; // or /* outside quotes"""
    q = None
    i = 0
    while i < len(s):
        c = s[i]
        if q:
            if c == q: q = None
        elif c in '"\'':
            # a char literal is exactly 'x'
            if c == "'" and not (i + 2 < len(s) and s[i + 2] == "'"): pass
            else: q = c
        elif c == ';' or s.startswith('//', i) or s.startswith('/*', i):
            return s[:i], True
        i += 1
    return s, False

class Respeller:
    def __init__(self, rng):
        self.r = rng
        self.stats = Counter()
        self.assigned = set()

    def ws(self, need):
        k = self.r.random()
        if k < .4: return ' ' if need else ''
        if k < .6: return ' '
        if k < .75: return '\t'
        if k < .9: return '  '
        return ' \t '

    def case(self, s):
        k = self.r.random()
        if k < .4: return s
        self.stats['case'] += 1
        if k < .6: return s.upper()
        if k < .8: return s.lower()
        return ''.join(c.upper() if self.r.random() < .5 else c.lower() for c in s)

    def number(self, v, orig):
        if self.r.random() < .4: return orig
        self.stats['radix'] += 1
        k = self.r.randrange(5)
        hx = '%x' % v
        hx = ''.join(c.upper() if self.r.random() < .5 else c for c in hx)
        if k == 0: return str(v)
        if k == 1: return '0x' + hx
        if k == 2: return '$' + hx
        if k == 3: return '0b' + bin(v)[2:]
        return '0' + oct(v)[2:]

    def comment(self):
        k = self.r.random()
        text = self.r.choice(['c', 'nop', 'x = "1"', "it's", 'a ; b // c', '/* inner', ' r16, 0x10 ', '.db 1', '',
                              'see @2', 'mail@3rd.party', 'was @0, @9 unused', '@1'])
        if k < .4: return '; ' + text
        if k < .7: return '//' + text
        self.stats['c_comment'] += 1
        body = text.replace('*/', '')
        # runs of stars next to the delimiters and inside, a slash after a blank, the empty comment
        form = self.r.choice(['/* %s */', '/* %s */', '/** %s **/', '/* %s **/', '/*** %s */', '/*%s*/', '/* * / %s ** */', '/***/', '/**/', '/****/'])
        return (form % body if '%s' in form else form) + self.r.choice(['', ' ', ' \t', '  '])

    def operands(self, s, head):
        toks = [(m.lastgroup, m.group()) for m in TOK.finditer(s)]
        # drop white space, remember where it was
        items = []
        for kind, t in toks:
            if kind == 'ws':
                if items: items[-1][2] = True
            else:
                items.append([kind, t, False])
        nocase = head in NOCASE_DIRS
        out = []
        n = len(items)
        for i, (kind, t, sp_after) in enumerate(items):
            prev = items[i - 1] if i else None
            nxt = items[i + 1] if i + 1 < n else None
            txt = t
            if kind == 'id':
                low = t.lower()
                isreg = re.fullmatch(r'r\d{1,2}|[xyz]', low) is not None
                in_defined = i >= 2 and items[i - 1][1] == '(' and items[i - 2][1].lower() == 'defined'
                defining = head in DEFINING and i == 0
                reassign = False
                if defining and head == '.set':
                    # the first `.set NAME` defines the name; a later one REFERS to the variable it assigns again
                    if low in self.assigned: defining, reassign = False, True
                    else: self.assigned.add(low)
                if isreg or reassign or not (nocase or in_defined or defining) or (head in ('.equ', '.set', '.def') and i > 0 and not in_defined):
                    if not defining and not in_defined and head not in ('.define', '.ifdef', '.ifndef', '.device', '.macro'):
                        txt = self.case(t)
            elif kind in ('hex', 'bin', 'num'):
                if kind == 'hex': v = int(t[2:] if t[0] == '0' else t[1:], 16)
                elif kind == 'bin': v = int(t[2:], 2)
                elif len(t) > 1 and t[0] == '0' and all(c in '01234567' for c in t): v = int(t, 8)
                elif len(t) > 1 and t[0] == '0': v = None      # 08, 09...: decimal 0 followed by digits never parses; leave
                else: v = int(t)
                if v is not None and v < 2 ** 63:
                    txt = self.number(v, t)
            out.append(txt)
            if nxt is None: break
            wordy = lambda k: k in ('id', 'hex', 'bin', 'num', 'str', 'chr', 'par')
            need = wordy(kind) and wordy(nxt[0])
            if need and not sp_after:
                out.append('')          # cannot happen for valid text; keep as is
                continue
            # one-token forms: -X  (pre-decrement) and X+ (post-increment)
            tight = False
            if t == '-' and nxt[0] == 'id' and nxt[1].lower() in 'xyz' and len(nxt[1]) == 1 and (prev is None or prev[1] == ','):
                tight = True
            if kind == 'id' and t.lower() in ('x', 'y', 'z') and nxt[1] == '+' and (i + 2 >= n or items[i + 2][1] == ','):
                tight = True
            if tight:
                out.append('')
            elif kind == 'other' or nxt[0] == 'other':
                out.append(' ' if sp_after else '')
            else:
                w = self.ws(need)
                if (w != '') != sp_after: self.stats['blank_toggled'] += 1
                out.append(w)
        return ''.join(out)

    def line(self, l):
        code, had = split_comment(l.rstrip('\r\n'))
        m = re.match(r'([A-Za-z_]\w*:)?([ \t]*)(.*)$', code.rstrip(' \t'), re.S)
        label, rest = m.group(1) or '', m.group(3)
        if had: self.stats['comment_removed'] += 1
        out = label
        if rest:
            hm = re.match(r'([.#]?[A-Za-z_]\w*)(.*)$', rest, re.S)
            if hm is None or (not label and code[:1] not in ' \t' and False):
                out += code[len(label):]
            else:
                head, ops = hm.group(1), hm.group(2)
                isdir = head[0] in '.#'
                # after a label's colon no blank is needed
                lead = ('' if label and self.r.random() < .3 else self.ws(bool(label))) if (label or code[:1] in ' \t' or self.r.random() < .5) else ''
                if label and lead == '': self.stats['label_glued'] += 1
                if not label and re.match(r'[A-Za-z_]\w*:', lead + head): lead = ' '
                h = head if isdir else self.case(head)
                if head.lower() in ('#pragma', '.pragma'):
                    body = ops
                else:
                    o = ops.strip(' \t')
                    body = (self.ws(True) or ' ') + self.operands(o, head.lower()) if o else ''
                out += lead + h + body
        elif not label and code.strip(' \t') == '' and code:
            out += self.ws(False)
        # trailing blanks and comment
        k = self.r.random()
        if k < .35:
            out += self.ws(False) + self.comment(); self.stats['comment_added'] += 1
        elif k < .5:
            out += self.ws(False)
        return out

    def program(self, lines):
        out = []
        self.assigned = set()
        for l in lines:
            if self.r.random() < .12:
                out.append(self.r.choice(['', ' ', '\t', '; only a comment', '  // only a comment', '/* only a comment */', ' /* c */  ', '/** doc **/', '/***/']))
                self.stats['line_inserted'] += 1
            out.append(self.line(l))
        mode = self.r.choice(['lf', 'crlf', 'mixed'])
        self.stats['eol_' + mode] += 1
        text = ''
        for i, l in enumerate(out):
            eol = '\n' if mode == 'lf' else '\r\n' if mode == 'crlf' else self.r.choice(['\n', '\r\n'])
            text += l + (eol if i + 1 < len(out) or self.r.random() < .7 else '')
        return text

CORPUS = [
    ['.device ATmega328P', '.equ K = 10', '.set V = K*2', '.def tmp = r16', 'start: ldi tmp, low(K+1) ; load', ' ldd r0, Y+2', ' std Z+K, r1', ' ld r2, X+', ' st -Y, r3', ' lpm r4, Z+',
     ' sbi 5, 1', ' .db low(K), high(V), "ab", \'c\'', ' .dw start, K<<2, -1, ~K & 0xff, !0', ' rjmp start', ' breq start', ' jmp start', ' lds r5, 0x100', ' sts 0x101, r5',
     '.undef tmp', '.dseg', 'buf: .byte 4', '.cseg', ' ldi r17, byte2(buf)', '.eseg', ' .db 1, 2, 3', '.cseg', ' .org 0x40', ' nop',
     # the built-in symbol, relative to it, in every kind of operand
     ' rjmp pc', ' brne pc-1', ' rcall pc+2', ' .dw pc, pc+1', ' ldi r16, low(pc)', ' sbrc r0, 1', ' rjmp pc - 1', ' breq pc + 1', ' ret'],
    ['.macro load', '  ldi @0, @1', '  .if @1 > 5', '  .dw @1 * 2', '  .else', '  .dw 0', '  .endif', '.endm', ' load r16, 7', ' LOAD r17, 2+1', '.ifdef NOPE', ' nop', '.elif 1 == 1', ' ret', '.else', ' sei', '.endif',
     '.define FLAG', '.ifdef FLAG', ' .db 1', '.endif', '.ifndef OTHER', ' .db 2', '.endif', ' .dd 0x12345678, -2', ' .dq 1', ' .db exp2(3), log2(8), abs(-3), lwrd(0x12345), hwrd(0x12345), page(0x12345)'],
]
# labels on the lines that end skipped text and macro definitions
CORPUS.append(['.if 0', ' ldi r16, 1', 'done: .endif', ' ldi r17, 2', '.if 0', ' nop', 'alt: .else', ' ldi r18, 3', 'fin: .endif', '.ifdef NOPE', ' nop', 'e1: .elif 1', ' ret', 'e2: .endif',
               '.macro mm', ' inc r0', 'em: .endm', ' mm', '.ifndef NOPE', 'w1: sei', 'w2: .else', ' cli', 'w3: .endif', ' .dw w1'])

def base_programs(rng, n):
    out = []
    for c in CORPUS: out.append(('corpus', list(c)))
    for i in range(n):
        k = i % 4
        if k == 0 or k == 3:
            g = genprog.Gen(rng.randrange(1 << 30))
            try:
                lines = g.program(n_lines=rng.choice([8, 15, 25]))
            except Exception:
                continue
            out.append(('genprog', [l for l in lines]))
        elif k == 1:
            p = c09.gen_program(rng)
            text = p[0] if isinstance(p, tuple) else p
            out.append(('macros', text.split('\n') if isinstance(text, str) else list(text)))
        else:
            p = c10.gen(rng)
            text = p[0] if isinstance(p, tuple) else p
            out.append(('symbols', text.split('\n') if isinstance(text, str) else [x for l in text for x in l.split('\n')]))   # c10 elements may hold several lines
    return out

def images(res):
    return res.split(' msgs=')[0] if res.startswith('OK') else 'ERR'

def run(tier, seed, model_ok):
    rng = random.Random(seed)
    n = 300 if tier == 'quick' else 5000
    per = 3 if tier == 'quick' else 4
    bases = base_programs(rng, n)
    rs = Respeller(rng)
    per_of = lambda kind: 4 * per if kind == 'corpus' else per      # the fixed corpus is small and dense: respell it more often
    trip, meta = [], {}
    for i, (kind, lines) in enumerate(bases):
        base = '\n'.join(lines)
        trip.append(('%db' % i, 'B', vlib.hx(base)))
        for j in range(per_of(kind)):
            t = rs.program(lines)
            trip.append(('%dr%d' % (i, j), 'B', vlib.hx(t)))
            meta[(i, j)] = t
    impl = vlib.run_impl(trip)
    dis, vio = [], []
    if model_ok:
        model = vlib.run_model(trip)
        for tid, kind, payload in trip:
            if impl.get(tid) != model.get(tid, 'MISSING'):
                dis.append({'input': bytes.fromhex(payload).decode('utf-8', 'replace'), 'impl': impl.get(tid, '')[:200], 'model': model.get(tid, 'MISSING')[:200]})
    okb = 0
    kinds = Counter()
    for i, (kind, lines) in enumerate(bases):
        b = images(impl.get('%db' % i, ''))
        if b != 'ERR': okb += 1; kinds[kind] += 1
        for j in range(per_of(kind)):
            r = images(impl.get('%dr%d' % (i, j), ''))
            if r != b:
                # localise: which single line's respelling changes the result
                vio.append({'what': 'a respelling changed the build result', 'original': '\n'.join(lines), 'respelled': meta[(i, j)],
                            'impl(original)': impl.get('%db' % i, '')[:160], 'impl(respelled)': impl.get('%dr%d' % (i, j), '')[:160]})
    # shrink the first violation to one respelled line
    if vio:
        v = vio[0]
        ol = v['original'].split('\n')
        best = None
        for _ in range(300):
            k = rng.randrange(len(ol))
            cand = list(ol); cand[k] = rs.line(ol[k])
            rr = vlib.run_impl([('a', 'B', vlib.hx('\n'.join(ol))), ('b', 'B', vlib.hx('\n'.join(cand)))])
            if images(rr['a']) != images(rr['b']):
                best = {'line_index': k, 'original_line': ol[k], 'respelled_line': cand[k], 'impl(original)': rr['a'][:120], 'impl(respelled)': rr['b'][:120]}
                break
        if best: v['single_line_witness'] = best
    return {
        'evaluations': len(trip), 'distinct_nontrivial': len({t for t in meta.values()}),
        'rule': 'base programs: a fixed corpus touching every construct, seeded random whole programs (genprog), macro programs (c09 generator) and symbol programs (c10 generator); each is respelled %d times by the token-level respeller (comments stripped/added in all three styles with blanks after them, blank and comment-only lines inserted, blanks/tabs toggled at every token boundary incl. unary operators and the + of indexed operands, leading/trailing blanks, LF/CRLF/mixed, letter case of mnemonics, macro calls, registers, function names and symbol references, hex digit case, radix of every number); oracle: same images and sizes as the original, failing originals stay failing; distinct = distinct respelled texts' % per,
        'samples': [meta[(0, 0)], meta[(2, 0)] if (2, 0) in meta else ''],
        'exhaustive': False,
        'distribution': {'base_programs': len(bases), 'base_programs_that_build': okb, 'building_by_generator': dict(kinds), 'rewrites_applied': dict(rs.stats)},
        'disagreements': dis[:30], 'violations': vio[:30],
    }

def matches_known(k, v):
    return False
