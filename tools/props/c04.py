"""C04: every mnemonic x every register 0..31 in each register position x values in a window well
beyond both ends of the legal range (negatives included), operand-kind and operand-count
confusions, default core and a reduced core.  Oracle: the independent legality spec
(Isa.surface): ILLEGAL => the build must fail; legal => the bytes must be the ISA encoding."""
from collections import Counter
from . import enc_common as E
from .enc_common import mk, mk_sym, R, V, Case

THEOREM_FILES = ['C04', 'C01b', 'C01', 'Enc', 'EncOps1', 'EncOps2', 'EncOps3', 'EncOps4', 'EncDefs']
ASSUMPTIONS = [
    'legality (operand kinds, register classes, ranges, aliases) is the hand-written Isa.surface',
    'process-level theorems assume operands resolve and registers are r0..r31 (grammar guarantee)',
]
BIG = [2**31 - 1, 2**31, -2**31, 2**32, 2**40, -2**40, 2**63 - 1, -(2**63 - 1), 255, 256, 257, 261, 319, 65535, 65536, 65541]
W = 130

def win(lo, hi):
    return list(range(lo - W, hi + W + 1))

def window_cases(tier):
    for m in E.RR + ['muls', 'movw'] + E.MULF:
        for d in range(32):
            for r in range(32):
                yield mk(m, R(d), R(r))
    for m in E.SAME + E.ONE + ['ser']:
        for d in range(32):
            yield mk(m, R(d))
    for m in E.IMM:
        for d in range(32):
            for k in win(-128, 255) + (BIG if d in (0, 15, 16, 31) else []):
                yield mk(m, R(d), V(k))
    for m in ('adiw', 'sbiw'):
        for d in range(32):
            for k in win(0, 63) + list(range(250, 330)) + (BIG if d == 24 else []):
                yield mk(m, R(d), V(k))
    for m in ('rjmp', 'rcall'):
        for d in win(-2048, 2047) + BIG:
            yield mk(m, V(d + 1))
    for b in E.BRANCHES:
        for d in win(-64, 63) + (BIG if b == 'eq' else []):
            yield mk('br' + b, V(d + 1))
    for m in ('brbs', 'brbc'):
        for s in range(-3, 11):
            for d in win(-64, 63):
                yield mk(m, V(s), V(d + 1))
    for r in range(32):
        ks = list(range(-W, W + 1)) + list(range(65535 - W, 65535 + W + 1)) + (BIG if r in (0, 31) else [])
        for k in ks:
            yield mk('lds', R(r), V(k))
            yield mk('sts', V(k), R(r))
        for k in win(0x40, 0xbf) + ([65535, 65536, 2**40] if r in (3, 16) else []):
            yield mk('lds', R(r), V(k), core=1, dev='ATtiny20')
            yield mk('sts', V(k), R(r), core=1, dev='ATtiny20')
    for m in ('jmp', 'call'):
        for k in list(range(-W, W + 1)) + list(range(4194303 - W, 4194303 + W + 1)) + BIG:
            yield mk(m, V(k))
    for r in range(32):
        for p in 'XYZ':
            for q in win(0, 63) + (list(range(250, 330)) if r in (0, 31) else []):
                for m in ('ld', 'ldd'):
                    yield mk(m, R(r), ('%s+%s' % (p, E.num(q)), 'i%s+q%d' % (p, q)))
                for m in ('st', 'std'):
                    yield mk(m, ('%s+%s' % (p, E.num(q)), 'i%s+q%d' % (p, q)), R(r))
        for txt, tok in E.PTR:
            for m in ('ld', 'ldd', 'lpm', 'elpm'):
                yield mk(m, R(r), (txt, tok))
            for m in ('st', 'std'):
                yield mk(m, (txt, tok), R(r))
        for a in win(0, 63) + list(range(250, 330)):
            yield mk('in', R(r), V(a))
            yield mk('out', V(a), R(r))
        for m in E.REGBIT:
            for b in win(0, 7) + (BIG if r == 1 else []):
                yield mk(m, R(r), V(b))
    for m in E.IOBIT:
        for a in win(0, 31) + list(range(250, 300)):
            for b in range(-10, 18):
                yield mk(m, V(a), V(b))
    for m in ('bset', 'bclr'):
        for s in win(0, 7) + BIG:
            yield mk(m, V(s))

def wrap(lo, hi):
    """values that are in range only after truncation to a common integer width: v + s*2^w for v at
    the ends and the middle of the field, w in 8, 16, 32, s in +1, -1, +2 (a cast before the range check
    lets exactly these through)"""
    vs = sorted({lo, lo + 1, (lo + hi) // 2, hi - 1, hi, 0 if lo <= 0 <= hi else lo})
    return [v + sgn * (1 << w) for v in vs for w in (8, 16, 32) for sgn in (1, -1, 2)]

def wrap_cases(tier):
    for m in E.IMM: 
        for k in wrap(-128, 255): yield mk(m, R(17), V(k))
    for m in ('adiw', 'sbiw'):
        for k in wrap(0, 63): yield mk(m, R(26), V(k))
    for m in ('rjmp', 'rcall'):
        for d in wrap(-2048, 2047): yield mk(m, V(d + 1))
    for b in E.BRANCHES:
        for d in wrap(-64, 63): yield mk('br' + b, V(d + 1))
    for m in ('brbs', 'brbc'):
        for d in wrap(-64, 63): yield mk(m, V(1), V(d + 1))
        for s_ in wrap(0, 7): yield mk(m, V(s_), V(3))
    for k in wrap(0, 65535):
        yield mk('lds', R(9), V(k)); yield mk('sts', V(k), R(9))
    for k in wrap(0x40, 0xbf):
        yield mk('lds', R(17), V(k), core=1, dev='ATtiny20'); yield mk('sts', V(k), R(17), core=1, dev='ATtiny20')
    for m in ('jmp', 'call'):
        for k in wrap(0, 4194303) + [4194304 + 5, 2**22 + 2**16, 2**32 + 7]: yield mk(m, V(k))
    for p in 'YZ':
        for q in wrap(0, 63):
            yield mk('ldd', R(4), ('%s+%s' % (p, E.num(q)), 'i%s+q%d' % (p, q)) if q >= 0 else ('%s+(%d)' % (p, q), 'i%s+q%d' % (p, q)))
            yield mk('std', ('%s+%s' % (p, E.num(q)), 'i%s+q%d' % (p, q)) if q >= 0 else ('%s+(%d)' % (p, q), 'i%s+q%d' % (p, q)), R(4))
    for a in wrap(0, 63):
        yield mk('in', R(16), V(a)); yield mk('out', V(a), R(16))
    for m in E.REGBIT:
        for b in wrap(0, 7): yield mk(m, R(5), V(b))
    for m in E.IOBIT:
        for a in wrap(0, 31): yield mk(m, V(a), V(2))
        for b in wrap(0, 7): yield mk(m, V(5), V(b))
    for m in ('bset', 'bclr'):
        for s_ in wrap(0, 7): yield mk(m, V(s_))

def symbolic_cases(tier):
    """registers through .def aliases (all 32 in each position), values through .equ symbols and
    compound expressions at and around the range ends"""
    for m in E.RR + ['muls', 'movw'] + E.MULF:
        for d in range(32):
            for r in range(32):
                yield mk_sym(m, R(d), R(r))
    for m in E.SAME + E.ONE + ['ser']:
        for d in range(32):
            yield mk_sym(m, R(d))
    edge8 = [-129, -128, -1, 0, 255, 256, 300, 511]
    for m in E.IMM:
        for d in range(32):
            for k in edge8:
                yield mk_sym(m, R(d), V(k))
    edge6 = [-1, 0, 63, 64, 255, 256, 256 + 5, 319, 320]
    for m in ('adiw', 'sbiw'):
        for d in range(32):
            for k in edge6:
                yield mk_sym(m, R(d), V(k))
    for r in range(32):
        for k in (-1, 0, 0x3f, 0x40, 0xbf, 0xc0, 65535, 65536):
            yield mk_sym('lds', R(r), V(k)); yield mk_sym('sts', V(k), R(r))
            yield mk_sym('lds', R(r), V(k), core=1, dev='ATtiny20'); yield mk_sym('sts', V(k), R(r), core=1, dev='ATtiny20')
        for a in edge6:
            yield mk_sym('in', R(r), V(a)); yield mk_sym('out', V(a), R(r))
        for m in E.REGBIT:
            for b in (-1, 0, 7, 8, 256, 263):
                yield mk_sym(m, R(r), V(b))
        for txt, tok in E.PTR[:4]:
            yield mk_sym('ld', R(r), (txt, tok)); yield mk_sym('st', (txt, tok), R(r))
        yield mk_sym('lpm', R(r), ('Z+', 'iZ+'))
    for m in E.IOBIT:
        for a in (-1, 0, 31, 32, 255, 256, 258, 287, 288, 512):
            for b in (-1, 0, 7, 8, 256):
                yield mk_sym(m, V(a), V(b))
    for m in ('rjmp', 'rcall'):
        for d in (-2049, -2048, 2047, 2048, 65536, 65536 + 5, -65536 - 17):
            yield mk_sym(m, V(d + 1))
    for b in E.BRANCHES[:4]:
        for d in (-65, -64, 63, 64, 128 + 3, 65536):
            yield mk_sym('br' + b, V(d + 1))
    for m in ('jmp', 'call'):
        for k in (-1, 0, 0x10000, 0x3fffff, 0x400000):
            yield mk_sym(m, V(k))

def computed_cases(tier):
    """the value operand is not written but COMPUTED: through a `.set` symbol captured from `pc` behind some
    code, and through a macro argument that is an expression whose grouping matters (a-(b-c), x/(y/z)); values at
    and just beyond the range ends.  What is checked is the value the expression denotes, wherever it is written."""
    PRE_SRC, PRE_HEX, PRE_WORDS = 'nop\nlds r0, 0x100\n', '0000' + '0090' + '0001', 3
    fams = []
    edge8 = [-129, -128, 0, 255, 256]
    for m in E.IMM: fams += [(m, (R(17), None), k) for k in edge8]
    for m in ('adiw', 'sbiw'): fams += [(m, (R(26), None), k) for k in (-1, 0, 63, 64)]
    for k in (-1, 0, 65535, 65536): fams += [('lds', (R(5), None), k), ('sts', (None, R(5)), k)]
    for a in (-1, 0, 63, 64): fams += [('in', (R(5), None), a), ('out', (None, R(5)), a)]
    for m in E.REGBIT: fams += [(m, (R(5), None), b) for b in (-1, 0, 7, 8)]
    for m in E.IOBIT:
        fams += [(m, (None, V(3)), a) for a in (-1, 0, 31, 32)] + [(m, (V(5), None), b) for b in (-1, 0, 7, 8)]
    for m in ('bset', 'bclr'): fams += [(m, (None,), b) for b in (-1, 0, 7, 8)]
    for m in ('jmp', 'call'): fams += [(m, (None,), k) for k in (-1, 0, 0x3fffff, 0x400000)]
    rel = [(m, (None,), d) for m in ('rjmp', 'rcall') for d in (-2049, -2048, 2047, 2048)] + \
          [('br' + b, (None,), d) for b in E.BRANCHES[:6] for d in (-65, -64, 63, 64)] + [(m, (V(3), None), d) for m in ('brbs', 'brbc') for d in (-65, -64, 63, 64)]
    def build(m, shape, v, vtext, pre_src, addr, prefix):
        ops = [(vtext, 'v%d' % v) if o is None else o for o in shape]
        c = E.mk(m, *ops, addr=addr)
        c.src = pre_src + c.src
        c.prefix = prefix
        return c
    for m, shape, v in fams + rel:
        isrel = (m, shape, v) in rel
        # (a) .set captured from pc, behind three words of code
        val = v if not isrel else PRE_WORDS + 1 + v
        n = val - PRE_WORDS
        yield build(m, shape, val, 'c04q', PRE_SRC + '.set c04q = %s\n' % ('pc+%d' % n if n >= 0 else 'pc-%d' % -n), PRE_WORDS, PRE_HEX)
        # (b) macro argument a-(b-c) / x/(y/z): the macro body holds the instruction, the value comes in as @0
        val = v if not isrel else 1 + v
        texts = ['%d-(10-4)' % (val + 6)] if val >= -6 else ['0-(%d-1)' % (1 - val)]
        if val >= 0: texts.append('%d/(20/10)' % (2 * val))
        if val >= 0 and val % 4 == 0: texts.append('%d>>(4>>1)' % (val * 4))
        for t in texts:
            ops = [('@0', 'v%d' % val) if o is None else o for o in shape]
            c = E.mk(m, *ops)
            c.src = '.macro c04m\n' + c.src + '\n.endm\nc04m ' + t
            yield c
    # index displacement through a macro argument
    for q in (-1, 0, 63, 64):
        for m, ops in (('ldd', [R(16), ('Y+(@0)', 'iY+q%d' % q)]), ('std', [('Z+(@0)', 'iZ+q%d' % q), R(16)])):
            c = E.mk(m, *ops)
            c.src = '.macro c04m\n' + c.src + '\n.endm\nc04m ' + ('%d-(10-4)' % (q + 6))
            yield c

SHAPES = {}
for m in E.RR + ['muls', 'movw'] + E.MULF: SHAPES[m] = 'rr'
for m in E.SAME + E.ONE + ['ser']: SHAPES[m] = 'r'
for m in E.IMM + ['adiw', 'sbiw', 'lds', 'in'] + E.REGBIT: SHAPES[m] = 'rv'
for m in ['sts', 'out']: SHAPES[m] = 'vr'
for m in ['rjmp', 'rcall', 'jmp', 'call', 'bset', 'bclr'] + ['br' + b for b in E.BRANCHES]: SHAPES[m] = 'v'
for m in ['brbs', 'brbc'] + E.IOBIT: SHAPES[m] = 'vv'
for m in ['ld', 'ldd']: SHAPES[m] = 'ri'
for m in ['st', 'std']: SHAPES[m] = 'ir'
for m in ['lpm', 'elpm']: SHAPES[m] = 'ri'
for m in [x for x in E.NOARG if x not in ('lpm', 'elpm')] + ['se' + f for f in E.FLAGS] + ['cl' + f for f in E.FLAGS]: SHAPES[m] = ''

OPERANDS = {'r': [R(0), R(16), R(24), R(31)], 'v': [V(0), V(1), V(5), V(40), V(-1)],
            'i': [('X', 'iX'), ('Y+', 'iY+'), ('-Z', 'i-Z'), ('Z', 'iZ'), ('Y+3', 'iY+q3'), ('Z+', 'iZ+')]}

def confusion_cases(tier):
    """every mnemonic x every list of 0..3 operands drawn from representatives of each kind"""
    import itertools
    for m in SHAPES:
        for n in range(0, 4):
            for kinds in itertools.product('rvi', repeat=n):
                pools = [OPERANDS[k] if tier == 'thorough' else OPERANDS[k][:3] for k in kinds]
                for ops in itertools.product(*pools):
                    yield mk(m, *ops)
                    if n <= 2:
                        yield mk(m, *ops, core=1, dev='ATtiny20')
                    # the same confusion with the registers written as `.def` aliases and the values as symbols: an
                    # alias where a value is required is as wrong as the register itself
                    if 1 <= n <= 2 and 'r' in kinds:
                        yield mk_sym(m, *ops)

def judge_device(cases, vio):
    """under a selected device the gate may reject legal instructions (that is C13): only
    'assembled although illegal' and 'assembled to other bytes' count"""
    return [v for v in vio if not (v['source'].startswith('.device') and v['what'].startswith('valid instruction') and v['impl'].startswith('ERR'))]

def core_cases(model_ok):
    """the reduced cores of the device table: pointer operands with a displacement (spelled ld/st or
    ldd/std), in and beyond the field, on every device - a core without displacement addressing must
    refuse them (verdict of the independent device-requirement table), any other core must give the
    reference word or refuse what is outside the field"""
    from . import c13
    import vlib
    devs = c13.devices()
    fs = []
    for p in 'YZ':
        for q in (0, 1, 7, 63, 64, -1):
            for r in (0, 5, 31):
                for m in ('ld', 'ldd'): fs.append(mk(m, R(r), ('%s+%d' % (p, q), 'i%s+q%d' % (p, q))))
                for m in ('st', 'std'): fs.append(mk(m, ('%s+%d' % (p, q), 'i%s+q%d' % (p, q)), R(r)))
    trip, meta, lines = [], [], []
    for dname, opts, avr8l in devs:
        for f in fs:
            i = len(trip)
            trip.append((str(i), 'B', vlib.hx('.device %s\n%s' % (dname, f.src)))); meta.append((dname, f))
            lines.append('%d GATE %s %s %s' % (i, opts, f.mn, ' '.join(f.toks)))
            lines.append('e%d ENC %d %s 0 %s' % (i, 1 if avr8l else 0, f.mn, ' '.join(f.toks)))
    impl = vlib.run_impl(trip)
    model = vlib.run_model(trip, vlib.cwd_prelude()) if model_ok else {}
    spec, _, _ = vlib.run_lines(E.SPEC, lines, mode=None)
    dis, vio = [], []
    for i, (dname, f) in enumerate(meta):
        k = str(i); a = impl.get(k, 'MISSING'); src = '.device %s\n%s' % (dname, f.src)
        if model_ok and a != model.get(k, 'MISSING'):
            dis.append({'source': src, 'impl': a[:200], 'model': model.get(k, 'MISSING')[:200]})
        e = spec.get('e' + k, '')
        exp = E.expected_canon_code(e) if e.startswith('W') else None
        if spec.get(k) == 'DENY' or exp is None:
            if not a.startswith('ERR'):
                vio.append({'what': 'operand the selected core cannot encode was assembled', 'source': src, 'impl': a[:160], 'expected': 'error', 'key': dname + ':' + f.mn})
        elif a.startswith('OK') and E.code_of(a) != exp:
            vio.append({'what': 'assembled to other bytes than the reference encoding', 'source': src, 'impl': a[:160], 'expected_code': exp, 'key': dname + ':' + f.mn})
    return len(trip), dis, vio

def run(tier, seed, model_ok):
    cases = list(window_cases(tier)) + list(wrap_cases(tier)) + list(confusion_cases(tier)) + list(symbolic_cases(tier)) + list(computed_cases(tier))
    dis, vio = E.run_enc(cases, model_ok, 'C04')
    vio = judge_device(cases, vio)
    n_core, dis2, vio2 = core_cases(model_ok)
    dis += dis2; vio += vio2
    # fixed programs that must FAIL: an operand outside its field written behind a top-level `~` / `-` / `!` (the range
    # check looks at the value, not at the shape of the expression), and a wrong-class register reached through a second
    # `.def` of a live alias (which is itself refused)
    import vlib
    mf = []
    for m in ('andi', 'ori', 'sbr', 'cbr', 'ldi', 'subi', 'cpi'):
        for t in ('~0x1234', '~(0x0180)', '-(300)', '~(~256)', '~FLAGS', '-(-256)', '~(1 << 9)'):
            mf.append('.equ FLAGS = 0x0180\n %s r16, %s' % (m, t))
    for m, t in (('adiw', 'r24, ~(-65)'), ('in', 'r16, ~(-65)'), ('sbi', '~(-33), 1'), ('sbrc', 'r1, ~(-9)'), ('ldd', 'r0, Y+~(-65)')):
        mf.append(' %s %s' % (m, t))
    for bad, use in (('r3', 'ldi tmp, 1'), ('r17', 'movw tmp, r0'), ('r20', 'adiw tmp, 1'), ('r5', 'muls tmp, r16'), ('r24', 'fmul tmp, r16')):
        mf.append('.def tmp = r16\n.def tmp = %s\n %s' % (bad, use))
        mf.append('.def tmp = %s\n %s' % (bad, use))
    ok_ctrl = [' andi r16, ~0x0f', ' ori r17, ~(-256)', ' ldi r18, -(128)', '.def tmp = r16\n.undef tmp\n.def tmp = r17\n ldi tmp, 1']
    trip = [('mf%d' % i, 'B', vlib.hx(t)) for i, t in enumerate(mf)] + [('ok%d' % i, 'B', vlib.hx(t)) for i, t in enumerate(ok_ctrl)]
    r_impl = vlib.run_impl(trip)
    if model_ok:
        r_model = vlib.run_model(trip, vlib.cwd_prelude())
        for k, _, h in trip:
            if r_impl.get(k) != r_model.get(k, 'MISSING'):
                dis.append({'source': vlib.unhx(h).decode(), 'impl': r_impl.get(k, '')[:120], 'model': r_model.get(k, 'MISSING')[:120]})
    for i, t in enumerate(mf):
        if not r_impl.get('mf%d' % i, '').startswith('ERR'):
            vio.append({'what': 'operands the ISA cannot encode for the mnemonic are accepted', 'source': t, 'impl': r_impl.get('mf%d' % i, '')[:120], 'expected': 'ERR', 'key': 'fixed-must-fail'})
    for i, t in enumerate(ok_ctrl):
        if not r_impl.get('ok%d' % i, '').startswith('OK'):
            vio.append({'what': 'generator error: control program does not build', 'source': t, 'impl': r_impl.get('ok%d' % i, '')[:120], 'expected': 'OK', 'key': 'generator'})
    import subprocess
    dist = Counter(c.mn for c in cases)
    illegal = None
    return {
        'evaluations': len(cases) + n_core + len(trip), 'distinct_nontrivial': len({c.src for c in cases}),
        'rule': 'every mnemonic x all registers 0..31 in each register position x every value in [lo-130, hi+130] of each value field (plus the byte-wrap zone 250..330, i64 extremes, and for every value field the values that come into range only after truncation to 8, 16 or 32 bits: v ± 2^w, v + 2·2^w), all index forms incl. X/Y/Z displacements in the window; every mnemonic x every list of 0..3 operands over the kinds register/value/index (kind and count confusions), default core and ATtiny20; the register/value families again with every register written through a .def alias (all 32 in each position) and values through .equ symbols / compound expressions at the range ends; the value families once more with the value computed (a .set symbol captured from pc behind code; a macro argument whose grouping matters: a-(b-c), x/(y/z), x>>(y>>z)); every device of the table x ld/ldd/st/std with Y/Z displacements in and beyond the field (cores without displacement addressing must refuse them); distinct = distinct source texts',
        'samples': [cases[0].src, cases[len(cases) // 3].src, cases[-1].src],
        'exhaustive': True,
        'distribution': {'cases_per_mnemonic_top': dist.most_common(10), 'mnemonics': len(dist)},
        'disagreements': dis, 'violations': vio,
    }
