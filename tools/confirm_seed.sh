#!/bin/bash
# usage: confirm_seed.sh <seed dir under /verif/seeded> <scratch worktree>
# Confirms: patch applies, crate compiles, the 67 existing tests pass with the patch, the demo fails with
# the patch and passes without.  Writes <seed dir>/confirm.txt
set -u
seed="$1"; wt="$2"
export CARGO_NET_OFFLINE=true
cd "$wt" || exit 2
git checkout -q -- . ; git clean -fdq tests/ 2>/dev/null
out="$seed/confirm.txt"; : > "$out"
demo=$(ls "$seed"/demo.rs 2>/dev/null | head -1)
[ -z "$demo" ] && { echo "no demo.rs" >> "$out"; exit 1; }
cp "$demo" tests/zz_seed_demo.rs
r0=$(cargo test --offline --test zz_seed_demo 2>&1 | grep -E "^test result" | tail -1)
echo "demo without patch: $r0" >> "$out"
git apply "$seed/patch.diff" || { echo "patch does not apply" >> "$out"; exit 1; }
r1=$(cargo test --offline --test zz_seed_demo 2>&1 | grep -E "^test result|error\[" | tail -1)
echo "demo with patch: $r1" >> "$out"
rm tests/zz_seed_demo.rs
r2=$(cargo test --offline 2>&1 | grep -E "^test result" | head -1)
echo "existing suite with patch: $r2" >> "$out"
git checkout -q -- . ; git clean -fdq tests/ 2>/dev/null
cat "$out"
