#!/usr/bin/env python3
"""Regenerates section 12 of DESIGN.md from tools/design_asbuilt.tmpl.md, known_findings.json and seeded/*/meta.json."""
import json, glob, os
V = os.path.dirname(os.path.dirname(os.path.abspath(__file__)))
kf = json.load(open(os.path.join(V, 'known_findings.json')))['findings']
fixed = [f for f in kf if f['status'] == 'fixed']; known = [f for f in kf if f['status'] == 'known']
ft = '| Prop | fix commit | what failed |\n|---|---|---|\n' + '\n'.join('| %s | `%s` | %s |' % (f['property'], f.get('commit', '?'), f['what'].replace('|', '\\|')[:230]) for f in fixed)
kt = '| Prop | id | what fails, and why it is recorded rather than repaired |\n|---|---|---|\n' + '\n'.join('| %s | `%s` | %s |' % (f['property'], f['id'], f['what'].replace('|', '\\|')[:600]) for f in known)
rows = []
def key(d):
    b = os.path.basename(d); p, n = b.split('-'); return (p, int(n))
for d in sorted(glob.glob(os.path.join(V, 'seeded', 'C*-*')), key=key):
    m = json.load(open(d + '/meta.json'))
    wb = (m.get('what_breaks') or '').split('. ')[0][:200].replace('|', '\\|').replace('\n', ' ')
    rows.append('| %s | %s | %s | %s | %s |' % (os.path.basename(d), m.get('round', 1), wb, ', '.join(m.get('caught_by') or []), (m.get('detection_note') or '').replace('|', '\\|')[:300]))
st = '| seed | round | change (first sentence of the author\'s description) | caught by | note |\n|---|---|---|---|---|\n' + '\n'.join(rows)
sec = open(os.path.join(V, 'tools', 'design_asbuilt.tmpl.md')).read().replace('@@FIXED@@', ft).replace('@@KNOWN@@', kt).replace('@@SEEDS@@', st)
sec = sec.replace('@@NSEEDS@@', str(len(rows))).replace('@@NMISSED@@', str(sum(1 for d in glob.glob(os.path.join(V, 'seeded', 'C*-*')) if 'MISSED' in (json.load(open(d + '/meta.json')).get('detection_note') or ''))))
p = os.path.join(V, 'DESIGN.md'); s = open(p).read()
i = s.index('\n---------------------------------------------------------------------------------------\n\n## 12. As built')
open(p, 'w').write(s[:i] + sec)
print('DESIGN.md section 12 regenerated: %d fixed, %d known, %d seeds' % (len(fixed), len(known), len(rows)))
