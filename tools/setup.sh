#!/bin/bash
# Builds the framework from files on disk only (offline): harness (against /repo's working tree),
# Gen files, Lean library + driver.
set -e
cd "$(dirname "$0")/.."
export CARGO_NET_OFFLINE=true
(cd harness && cargo build 2>&1 | tail -3)
python3 tools/gen.py
(cd lean && lake build Avra avra_driver 2>&1 | tail -3)
