#!/bin/bash
# Builds the framework from files on disk only (offline): harness (against /repo's working tree),
# the real command-line binary (C18), Gen files, Lean library, both executables and every property
# module — so that each check afterwards only re-checks what the tree changed.
set -e
cd "$(dirname "$0")/.."
export CARGO_NET_OFFLINE=true
(cd harness && cargo build 2>&1 | tail -1)
(cd /repo && cargo build --offline --bin avra-rs --target-dir /verif/.cache/repo-target 2>&1 | tail -1)
python3 tools/gen.py
cd lean
lake build Avra avra_driver avra_spec 2>&1 | tail -1
mods=$(ls Avra/Props/C*.lean | sed 's|/|.|g; s|\.lean$||')
lake build $mods 2>&1 | tail -1
