#!/usr/bin/env python3
"""Writes /verif/MANIFEST.json from the table below (keeps it valid and in one place)."""
import json, os
VERIF = os.path.dirname(os.path.dirname(os.path.abspath(__file__)))
ALL = ['C%02d' % i for i in range(1, 19)]

CLAIMED = {
 'C01': dict(
   text='Machine-checked proof (Lean 4): for every mnemonic, every operand list, every i64 operand value, both cores and every address, the model of instruction::process emits exactly the ISA words of the instruction the independent legality spec assigns (Props.Enc.model_eq_spec, C01.process_complete); the finite bit-packing tables are evaluated completely in the kernel (decide +kernel over allIn), opcode/length rows are re-extracted from the code on every run. Tie to the code: Gen tables by execution + exhaustive differential run of all ~108k legal tuples through build_str (impl vs model vs independent spec).',
   note='Trusted: Lean kernel (axioms propext, Classical.choice, Quot.sound only), hand transcription of the ISA patterns, the hand-written model tied by Gen extraction and exhaustive correspondence, harness/driver/generators. Model assumption: operands resolve (no fuel exhaustion) and registers are r0..r31.',
   technique='Lean 4 theorem (model = ISA spec, all operands) + kernel-evaluated finite tables + Gen re-extraction + exhaustive differential correspondence', ref='6/C01'),
 'C02': dict(
   text='Machine-checked proof (Lean 4): code_lockstep — for EVERY item list of a code segment (instructions of both lengths incl. one-word lds/sts on reduced cores, .db lines odd/even/strings, .dw/.dd/.dq, .set/.def/.undef, labels, pragmas), any start address, any contexts with the same device: what pass 1 booked is what pass 2 emits (even byte count, end offset = start + emitted/2) — pass 1 and pass 2 are separate code and this is where they could disagree; process_len (bytes = 2 x table length, via encodeR_second and the kernel-decided Gen obligation info_len_table over the re-extracted opcode table); label_is_next_position, duplicate_label_error, org_lands / org_gap_zero (an .org segment starts at byte 2N, the gap is zeros). Tie: differential run over random layouts (6 devices incl. reduced core, interleaved segments, .org gaps, labels read back through .dw tables) against the generator\'s naive sequential placement with instruction words from the Lean ISA spec. Two recorded findings (.byte with a size unknown at parse time — pinned by tests/builder_simple.asm; .org 0 after items) are exercised by exact inputs and reported as KNOWN-FINDING.',
   note='Trusted: Lean kernel, model of pass1/pass2 tied by correspondence, generator\'s reference placement. The multi-segment composition (running offsets across interleaved segments) and the EEPROM/data lockstep are covered by the correspondence run, not yet by a theorem.',
   technique='Lean 4 theorem (pass-1/pass-2 lockstep by induction over item lists) + Gen obligation + differential correspondence against sequential placement', ref='6/C02'),
 'C03': dict(
   text='Machine-checked proof (Lean 4): for all 20 branch forms, rjmp and rcall, every address and every i64 target, the model accepts iff the displacement fits (-64..63 / -2048..2047) and then emits the ISA word whose field sign-extends to exactly target-(address+1) (C03.branch_exact, brb_exact, rjmp_exact, signExt_twos7/12, branch_field_position). Tie: Gen tables + differential run over programs with labels/pc expressions at all distances around both limits with fillers and .org gaps.',
   note='Trusted base as C01. The instruction address itself (labels, pc) is the subject of C02.',
   technique='Lean 4 theorem over all addresses/targets + differential correspondence on generated programs', ref='6/C03'),
 'C04': dict(
   text='Machine-checked proof (Lean 4): process_sound / process_rejects — for ALL operand lists (any count, any kinds) and all i64 values, on both cores: if the model of process succeeds, the independent legality spec accepts the operands and the bytes are its ISA encoding; what the spec rejects is an error; process never panics. Tie: Gen tables + 627k-case window/confusion enumeration (all registers x values 130 beyond both range ends, kind and count confusions, default core and ATtiny20) through build_str against model and spec.',
   note='Trusted base as C01; legality spec (Isa.surface) hand-written from the manual.',
   technique='Lean 4 theorem (soundness for all operand lists) + exhaustive window enumeration through the real library', ref='6/C04'),
 'C05': dict(
   text='Machine-checked proof (Lean 4): eval_eq_spec — for EVERY expression tree over the 18 binary and 3 unary operators and the byte/word functions, and every assignment of i64 values or failure to its symbols, the model of Expr::run yields exactly the value of the independent operator table (Spec.eval: exact arithmetic with failure on overflow, division/remainder by zero, shift counts outside 0..63; comparisons/logical ops 0/1; ~ = -a-1; bit operations via the textbook unsigned representation, proven equal to the BitVec-based mirror of the Rust operators), never runs out of fuel (evalWith_total: no fuel exists), results stay in i64; op_table_documented — the precedence!{} block re-extracted from document.rs on every run is the documented table (levels, left associativity, unary tightest and nestable, atom order). Tie: Gen grammar scan + differential run through build_str(\'.dq <expr>\') on the full operator x boundary grid, all operator pairs in both groupings with minimal parentheses, and random trees with symbols/labels/radices/spacing, judged by the Lean spec on the structured tree.',
   note='Trusted: Lean kernel, Spec.eval (hand-written operator table), static scan of the precedence block, model of the peg climbing algorithm tied by correspondence. parse(print(e)) = e as a theorem is not yet proved (staged); the parse side rests on the table obligation plus correspondence. MIN % -1 counted as overflow (decision).',
   technique='Lean 4 theorem (evaluator = operator table, all trees) + kernel-decided operator-table obligation over the re-extracted grammar + differential correspondence', ref='6/C05'),
 'C06': dict(
   text='Machine-checked proof (Lean 4): line_spec / operand_spec — for EVERY operand list (any length, any mix of expressions, symbols, strings), every element width and every context, the model of the data emission (Operand::get_bytes/words/double_words/quad_words and the Vec<Operand> folds) yields exactly the operands\' bytes in source order, each value as its two\'s-complement little-endian bytes of the exact width (independent spec Spec.Data: byte i = floor(v/256^i) mod 256; accepted iff -2^(8w-1) <= v <= 2^(8w)-1, any i64 for .dq; strings = their UTF-8 bytes, only in .db), and fails exactly when one operand must fail; pad_byte (the constant pass 1 appends to an odd flash .db line becomes exactly one zero byte); db_length / word_length (pass-1 size = pass-2 byte count). Tie: differential run over random data programs in flash and EEPROM and the boundary sweep of every width, judged line by line by the Lean spec.',
   note='Trusted: Lean kernel, Spec.Data, model of directive.rs/pass1/pass2 data paths tied by correspondence; operand evaluation itself is C05.',
   technique='Lean 4 theorem (induction over operand lists, all widths) + differential correspondence with spec oracle', ref='6/C06'),
 'C07': dict(
   text='Machine-checked proof (Lean 4): hex_roundtrip — for EVERY image of at most 2^32 bytes with arbitrary contents (empty image included) the text the writer model produces splits into lines that all parse as well-formed Intel HEX records under an independent reader that verifies length field and checksum, ends in the single EOF record, and decodes (types 00/01/02/04, segment/linear base) to exactly byte i at address i, nothing else (proof by induction over 16-byte chunks and 64 KiB blocks, core Lean, no finite bound). Tie: write_code_hex / write_eeprom_hex run on every length < 600 and every length within a record of each 64 KiB boundary up to the largest flash of the table; file bytes compared with the model and fed to the same independent reader.',
   note='Trusted: Lean kernel; the ihex crate (a dependency) is modelled, tied by correspondence only; OS file writes assumed faithful; the reader spec (Spec.Hex) is a hand-written statement of the Intel HEX format.',
   technique='Lean 4 theorem (reader o writer = identity, unbounded length) + differential correspondence on real files', ref='6/C07'),
 'C08': dict(
   text='Machine-checked proof (Lean 4): conditional_selects — for EVERY well-formed conditional tree (any number of .elif arms, with or without .else, nested to any depth in taken and untaken branches, arbitrary payload text including text that does not parse), followed by any lines, from every state, the model of parse_iter/skip on the text of the tree ends in exactly the state (or failure) of the reference semantics that assembles only the plain lines of the first branch whose condition holds (or of .else), in order — by mutual structural induction over the tree with lemmas for every way skip moves over a tree (skip_block…, finish_construct); loop-bound irrelevance of the line loop is proved (fuel_irrelevant). Tie: differential run (impl vs model) and the metamorphic oracle the property names (build(src) = build(src with unselected lines blanked)) over all shapes x truth assignments x nesting positions and random deeper trees.',
   note='Trusted: Lean kernel; well-formedness restricts construct directive lines to carry no label and plain lines in SELECTED positions not to be .macro/.exit lines (outcome "scope": no claim); the last step to "program with the lines deleted" is exercised by the metamorphic run, not yet a theorem.',
   technique='Lean 4 theorem (simulation by mutual structural induction over conditional trees) + metamorphic differential correspondence', ref='6/C08'),
 'C09': dict(
   text='Machine-checked proof (Lean 4) of the steps of macro handling on the model of pass0.rs / parser.rs: macro_definition_lowercases + macro_body_stored + call_lowercases (definition and call meet under the lower-cased name, whatever the letter case), undefined_macro_error (names the call line), compound_argument_parenthesised (the text pasted for a compound expression argument is parenthesised), register/index argument text, no_arguments_no_substitution. The whole-expansion statement (pass0 of a program = parse of its hand expansion) is NOT yet a theorem (it needs parse(print(e)) = e at character level, staged): it is decided by the differential/metamorphic run — random macro sets (up to ten parameters, holes next to tighter/unary operators, conditionals on parameters, nested calls, segment switches) called with registers, index forms and random expression trees; build(P) must equal build(hand-expanded P), where the generator expands on the structure. A genuine defect found by this check was repaired (body ending with a segment switch).',
   note='Trusted: Lean kernel, the generator\'s structural hand expansion, model of pass0 tied by correspondence. Partial: theorem coverage is of the individual steps only.',
   technique='Lean 4 theorems on the macro steps + metamorphic differential correspondence (program vs hand expansion)', ref='6/C09'),
 'C10': dict(
   text='Machine-checked proof (Lean 4) of the binding rules on the model of context.rs / pass 1 / pass 2 / get_r8: lookup_case and alias_case (labels, .equ, .set, pc and .def aliases are matched without regard to letter case), set_latest (after an assignment every spelling of the name yields the value just assigned), def_binds / undef_unbinds (alias is the register from .def to .undef), alias_same_bytes (for EVERY mnemonic, operand position and context an instruction using a live alias is byte-identical to one using the register), undefined_is_error (an unknown name never evaluates — in particular not to 0), dead_alias_is_bad, and (C02) the label step: a name already taken fails with its line. Tie: differential run of random symbol programs; oracle = the generator\'s independent binder: build(P) must equal build(hand-resolved P), and every mutant (single definition deleted, duplicate label, alias after .undef, label/.equ clash) must fail. Two genuine defects found by this check were repaired (label vs .equ clash, duplicate .equ).',
   note='Trusted: Lean kernel, the generator\'s binder (documented rules), model tied by correspondence. The global statement (every reference of every program resolves to its unique definition) is not one theorem; it is the composition of the step theorems plus the differential/mutant run. .define flags are case-sensitive by design of the tool (outside the property).',
   technique='Lean 4 theorems on the symbol-table steps + differential correspondence with hand-resolved programs and must-fail mutants', ref='6/C10'),
 'C11': dict(
   text='Machine-checked proof (Lean 4): file_step (processing a path = reading the first documented candidate that exists and running THE SAME line loop over its lines from the includer\'s state; the resulting state is what the includer continues with), include_step, resolvePath_spec (the opened path is the first existing one of: as written, dir/path over the include set in order), missing_file_named, found_when_present, own_directory_searched, caller_directories_searched, includepath_step (relative to the file containing the directive), writeBack_keeps, exit_step / exit_ends_this_file. Tie: differential run on generated directory trees (written to a scratch directory, and handed to the model as an abstract file system); oracle: build_file(tree) = build_str(flattened text), a missing file fails naming it. One genuine defect repaired (.includepath inside an included file was lost), one recorded (constructs left open across the boundary).',
   note='Trusted: Lean kernel; OS behaviour (exists/open/relative paths, no symlinks) is a parameter of the model (Model.Fs) and is exercised only through the correspondence run. The global paste statement (tree = flattened text for every split) is not one theorem — it does not hold for splits that leave a conditional or macro open across a file boundary (known finding); it is the composition of the step theorems plus the differential run over balanced splits.',
   technique='Lean 4 theorems on the include/file steps and path resolution + differential correspondence on generated directory trees (tree build vs flattened build)', ref='6/C11'),
 'C12': dict(
   text='Machine-checked proof (Lean 4): Gen obligation devices_match_partdefs (every shipped includes/*def.inc that names a device of the table declares exactly the four capacities the table enforces; table re-extracted by executing DEVICES, part files re-parsed, on every run); build_fits / limits_exact (a build succeeds iff code <= 2*flash words, eeprom <= eeprom bytes, RAM extent <= RAM size of the device selected, and reports that device\'s sizes); pass1_within; unknown/second device are errors; documented defaults. Tie: exhaustive differential run over every device x 3 memories x {-1,0,+1} x ways of filling.',
   note='Trusted: Lean kernel, static parser of the part files, hand-written model of builder/mod.rs + pass1 tied by correspondence; for devices without a part file the expected capacity is the code\'s own row.',
   technique='Lean 4 theorems + kernel-decided Gen obligation over re-extracted device table and part files + exhaustive boundary correspondence', ref='6/C12'),
 'C13': dict(
   text='Machine-checked proof (Lean 4): gate_exact — for EVERY device (any set of disabled options), every operation and every operand list the model of check_instruction admits the instruction iff none of the flags the independent feature statement (Spec.requires: multiply family, jmp/call, movw, lpm/elpm/spm forms, break, eijmp/eicall, smallest-core word/stack instructions, X/Y pointer and displacement forms) lists is disabled; gate_matches_model (the 54 x 115 matrix extracted by executing Device::check_operation equals the model, kernel-decided); device_frame (every instruction except lds/sts assembles to the same words whatever the device). Tie: exhaustive differential run of every device x every mnemonic/addressing form through build_str against model and spec.',
   note='Trusted: Lean kernel, Spec.requires (hand-written from the property text), model of device.rs tied by the extracted matrix and exhaustive correspondence.',
   technique='Lean 4 theorem for all devices/forms + kernel-decided extracted gate matrix + exhaustive device x form correspondence', ref='6/C13'),
 'C14': dict(
   text='Machine-checked proof (Lean 4), token level, each for EVERY text of its class: space_absorbs / blanks_irrelevant (any run of blanks and tabs where space() is read), asm_comment_any / slash_comment_any / c_comment_any / comment_ends_line (any comment text in the three styles, blanks after */), operation_case, reg8_case, reg16_case, function_case, symbol_case, alias_case, radix_irrelevant (for every n < 2^63 the decimal, 0x, $, 0b and 0-octal spellings, hex digits in any case, read as the constant n), lines_eol (any mixture of LF and CRLF yields the same lines), grammar_pinned (the grammar rules the hand-written PEG mirror was written against are the rules of this tree). Tie and composition: metamorphic + differential run — base programs from four generators respelled by a token-level respeller; build_str(respelled) must equal build_str(original). Three genuine defects repaired (blanks after */, around the + of Y+q, after unary operators).',
   note='Trusted: Lean kernel, the respeller (which spellings count as meaningless follows the property text; exclusions listed in the evidence assumptions), the PEG mirror tied by correspondence and by grammar_pinned (a digest computed by tools/gen.py). The whole-line statement parse(l ++ comment) = parse(l) needs a locality lemma over the whole PEG mirror and is not proved; it is exercised by the metamorphic run.',
   technique='Lean 4 token-level theorems (blanks, comments, letter case, radix for all values, line ends) + metamorphic/differential correspondence with a token-level respeller', ref='6/C14'),
}

def main():
    checks = []
    for p in ALL:
        if p in CLAIMED:
            c = CLAIMED[p]
            checks.append({
                'property_id': p,
                'quick_cmd': f'python3 tools/check.py {p} --tier quick',
                'thorough_cmd': f'python3 tools/check.py {p} --tier thorough',
                'evidence_file': f'/verif/evidence/{p}.json',
                'replay_cmd_template': f'python3 tools/check.py {p} --replay {{path}}',
                'engine': 'lean4-proof+correspondence',
                'level_claimed': {'category': 'proof', 'text': c['text'], 'design_ref': 'DESIGN.md §' + c['ref']},
                'level_note': c['note'],
                'technique': c['technique'],
            })
    m = {
        'version': 1,
        'setup_cmd': 'bash tools/setup.sh',
        'hooks': {
            'guard': 'avra_verif',
            'enable': "no hooks are needed: every observation point of avra_lib is pub (reserved: RUSTFLAGS='--cfg avra_verif')",
            'baseline_off_cmd': 'cd /repo && cargo test --workspace --no-fail-fast --offline',
            'source_commits': [],
            'add_only': True,
        },
        'engines': [{'name': 'lean4-proof+correspondence', 'path': '/verif/tools/check.py',
                     'serves_properties': sorted(CLAIMED),
                     'kind_free_text': 'Lean 4 theorems about a hand-written executable model (lean/Avra), tied to /repo on every run by re-extracted Gen tables and a differential correspondence run (Rust harness calling avra_lib in-process vs compiled Lean driver), with an independent Lean spec executable as property oracle'}],
        'checks': checks,
        'not_applicable': [{'property_id': p, 'reason': 'check not built yet (work in progress; DESIGN.md work order) — will be claimed, the technique applies'} for p in ALL if p not in CLAIMED],
        'notes': 'see DESIGN.md; known_findings.json lists repaired defects (fixed: ...) and recorded findings',
    }
    json.dump(m, open(os.path.join(VERIF, 'MANIFEST.json'), 'w'), indent=1)
    print('manifest: %d checks' % len(checks))

if __name__ == '__main__':
    main()
