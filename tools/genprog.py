"""Structured random generators (one PRNG, seeded): expressions, instructions, whole programs.
Everything is built as a structured object first and rendered to text, so that spellings can be
varied independently of the structure (C14) and oracles can use the structure."""
import random

BINOPS = [  # (text, level) ; higher level binds tighter (documented table)
    ('||', 1), ('&&', 2), ('|', 3), ('^', 4), ('&', 5), ('==', 6), ('!=', 6),
    ('<', 7), ('<=', 7), ('>', 7), ('>=', 7), ('<<', 8), ('>>', 8), ('+', 9), ('-', 9),
    ('*', 10), ('/', 10), ('%', 10)]
UNOPS = ['-', '~', '!']
UN_LEVEL = 11
FUNCS = ['low', 'high', 'byte2', 'byte3', 'byte4', 'lwrd', 'hwrd', 'page', 'exp2', 'log2']

RR = ['add', 'adc', 'sub', 'sbc', 'and', 'or', 'eor', 'cpse', 'cp', 'cpc', 'mov', 'mul']
RI = ['subi', 'sbci', 'andi', 'ori', 'sbr', 'cbr', 'cpi', 'ldi']
R1 = ['com', 'neg', 'inc', 'dec', 'push', 'pop', 'lsr', 'ror', 'asr', 'swap', 'tst', 'clr', 'lsl', 'rol']
NOARG = ['ijmp', 'eijmp', 'icall', 'eicall', 'ret', 'reti', 'spm', 'break', 'nop', 'sleep', 'wdr', 'lpm', 'elpm']
FLAGS = 'cznvshti'
BRANCHES = ['eq', 'ne', 'cs', 'cc', 'sh', 'lo', 'mi', 'pl', 'ge', 'lt', 'hs', 'hc', 'ts', 'tc', 'vs', 'vc', 'ie', 'id']
DEVICES = ['ATtiny13', 'ATtiny20', 'ATmega8', 'ATmega328P', 'ATmega2560', 'AT90S1200', 'ATtiny10', 'ATmega103', 'AT90S2313']

class Gen:
    def __init__(self, seed):
        self.r = random.Random(seed)

    # ---------- literals / expressions (structured: tuples) ----------
    def lit_text(self, n, radix=None):
        r = self.r
        radix = radix or r.choice(['d', 'd', 'x', '$', 'b', 'o', 'c'])
        if radix == 'x': return '0x%x' % n if r.random() < .5 else '0x%X' % n
        if radix == '$': return '$%x' % n
        if radix == 'b': return '0b' + bin(n)[2:]
        if radix == 'o' and n > 0: return '0' + oct(n)[2:]
        if radix == 'c' and 33 <= n < 127 and chr(n) not in "'\\": return "'%s'" % chr(n)
        return str(n)

    def expr(self, depth, idents=(), small=False):
        """('c', n) | ('i', name) | ('f', fname, e) | ('b', op, l, r) | ('u', op, e)"""
        r = self.r
        if depth <= 0 or r.random() < .3:
            if idents and r.random() < .3:
                return ('i', r.choice(list(idents)))
            if small:
                return ('c', r.choice([0, 1, 2, 3, 5, 7, 8, 15, 16, 31, 63, 100, 255]))
            return ('c', r.choice([0, 1, 2, 3, 7, 8, 10, 16, 63, 64, 100, 127, 128, 255, 256, 1000, 0xffff, 0x10000,
                                   0x7fffffff, 0xffffffff, 2**62, 2**63 - 1, r.randrange(0, 70000), r.randrange(0, 2**40)]))
        k = r.random()
        if k < .12:
            return ('u', r.choice(UNOPS), self.expr(depth - 1, idents, small))
        if k < .2:
            return ('f', r.choice(FUNCS), self.expr(depth - 1, idents, small))
        op = r.choice(BINOPS)[0]
        return ('b', op, self.expr(depth - 1, idents, small), self.expr(depth - 1, idents, small))

    def render(self, e, sp=True, redundant=0.0):
        """minimal parentheses under the documented table; random spacing around binary ops"""
        r = self.r
        def lvl(x):
            if x[0] == 'b': return dict(BINOPS)[x[1]]
            if x[0] == 'u': return UN_LEVEL
            return 99
        def go(x, minlvl):
            t = x[0]
            if t == 'c': s = self.lit_text(x[1])
            elif t == 'i': s = self.case(x[1])
            elif t == 'f':
                a, b, c = (self.ws(), self.ws(), self.ws()) if sp else ('', '', '')
                s = self.case(x[1]) + a + '(' + b + go(x[2], 0) + c + ')'
            elif t == 'u':
                s = x[1] + go(x[2], UN_LEVEL)
            else:
                L = lvl(x)
                a, b = (self.ws(), self.ws()) if sp else ('', '')
                s = go(x[2], L) + a + x[1] + b + go(x[3], L + 1)
            if lvl(x) < minlvl or (redundant and r.random() < redundant):
                a, b = (self.ws(), self.ws()) if sp else ('', '')
                s = '(' + a + s + b + ')'
            return s
        return go(e, 0)

    def ws(self):
        return self.r.choice(['', '', ' ', ' ', '\t', '  '])

    def case(self, s):
        k = self.r.random()
        if k < .6: return s
        if k < .8: return s.upper()
        return ''.join(c.upper() if self.r.random() < .5 else c for c in s)

    # ---------- instructions ----------
    def reg(self, lo=0, hi=31):
        return 'r%d' % self.r.randrange(lo, hi + 1)

    def instr(self, labels=(), here=None, valid=0.9):
        """returns text of one instruction (mostly valid)"""
        r = self.r
        ok = r.random() < valid
        k = r.randrange(22)
        lab = lambda: (r.choice(list(labels)) if labels and r.random() < .8 else str(r.randrange(0, 64)))
        if k == 0: return '%s %s, %s' % (r.choice(RR), self.reg(), self.reg())
        if k == 1: return '%s %s, %s' % (r.choice(RI), self.reg(16 if ok else 0), self.imm(-128, 255, ok))
        if k == 2: return '%s %s' % (r.choice(R1), self.reg())
        if k == 3: return r.choice(NOARG)
        if k == 4: return '%s %s, %s' % (r.choice(['adiw', 'sbiw']), 'r%d' % r.choice([24, 26, 28, 30] if ok else range(32)), self.imm(0, 63, ok))
        if k == 5: return 'ser ' + self.reg(16 if ok else 0)
        if k == 6: return 'muls %s, %s' % (self.reg(16 if ok else 0), self.reg(16 if ok else 0))
        if k == 7: return '%s %s, %s' % (r.choice(['mulsu', 'fmul', 'fmuls', 'fmulsu']), self.reg(16, 23 if ok else 31), self.reg(16 if ok else 0, 23))
        if k == 8: return '%s %s' % (r.choice(['rjmp', 'rcall']), lab())
        if k == 9: return '%s %s' % (r.choice(['jmp', 'call']), lab() if r.random() < .5 else self.imm(0, 4194303, ok))
        if k == 10: return 'br%s %s' % (r.choice(BRANCHES), lab())
        if k == 11: return '%s %s, %s' % (r.choice(['brbs', 'brbc']), self.imm(0, 7, ok), lab())
        if k == 12: return 'movw %s, %s' % ('r%d' % (r.randrange(16) * 2 + (0 if ok else r.randrange(2))), 'r%d' % (r.randrange(16) * 2))
        if k == 13:
            return 'lds %s, %s' % (self.reg(), self.imm(0, 65535, ok)) if r.random() < .5 else 'sts %s, %s' % (self.imm(0, 65535, ok), self.reg())
        if k == 14:
            idx = r.choice(['X', 'Y', 'Z', 'X+', 'Y+', 'Z+', '-X', '-Y', '-Z', 'x', 'y+', '-z'])
            m = r.choice(['ld', 'ldd']) if r.random() < .5 else r.choice(['st', 'std'])
            return '%s %s, %s' % (m, self.reg(), idx) if m in ('ld', 'ldd') else '%s %s, %s' % (m, idx, self.reg())
        if k == 15:
            idx = '%s+%s' % (r.choice(['Y', 'Z', 'y', 'z'] if ok else ['X', 'Y', 'Z']), self.imm(0, 63, ok))
            m = r.choice(['ld', 'ldd', 'st', 'std'])
            return '%s %s, %s' % (m, self.reg(), idx) if m in ('ld', 'ldd') else '%s %s, %s' % (m, idx, self.reg())
        if k == 16: return '%s %s, %s' % (r.choice(['lpm', 'elpm']), self.reg(), r.choice(['Z', 'Z+', 'z'] if ok else ['Y', '-Z', 'X+']))
        if k == 17:
            return 'in %s, %s' % (self.reg(), self.imm(0, 63, ok)) if r.random() < .5 else 'out %s, %s' % (self.imm(0, 63, ok), self.reg())
        if k == 18: return '%s %s, %s' % (r.choice(['sbrc', 'sbrs', 'bst', 'bld']), self.reg(), self.imm(0, 7, ok))
        if k == 19: return '%s %s, %s' % (r.choice(['sbi', 'cbi', 'sbis', 'sbic']), self.imm(0, 31, ok), self.imm(0, 7, ok))
        if k == 20: return '%s %s' % (r.choice(['bset', 'bclr']), self.imm(0, 7, ok))
        return r.choice(['se', 'cl']) + r.choice(FLAGS)

    def imm(self, lo, hi, ok=True):
        r = self.r
        if ok:
            v = r.choice([lo, hi, r.randrange(lo, hi + 1), r.randrange(lo, hi + 1)])
        else:
            v = r.choice([lo - 1, hi + 1, lo - 2, hi + 2, hi + 100, -1, -200, 2**31, 2**40])
        if v < 0:
            return '-' + self.lit_text(-v, 'd')
        return self.lit_text(v)

    def comment(self):
        r = self.r
        k = r.random()
        if k < .7: return ''
        if k < .8: return ' ; c ' + r.choice(['', 'nop', '"x"', '/* */'])
        if k < .9: return ' // x'
        return ' /* c */'

    # ---------- programs ----------
    def program(self, n_lines=20, features=None):
        """list of lines (text).  features: set of enabled constructs."""
        r = self.r
        f = features or {'instr', 'data', 'label', 'equ', 'set', 'def', 'org', 'seg', 'cond', 'macro', 'device', 'msg', 'bad', 'comment', 'byte'}
        lines = []
        labels = ['l%d' % i for i in range(r.randrange(1, 6))]
        equs = ['c%d' % i for i in range(r.randrange(0, 4))]
        macros = []
        free = list(labels)
        if 'device' in f and r.random() < .4:
            lines.append('.device ' + r.choice(DEVICES))
        for q in equs:
            if 'equ' in f:
                lines.append('.equ %s = %s' % (self.case(q), self.render(self.expr(2, equs[:equs.index(q)], small=True))))
        seg = 'c'
        for _ in range(n_lines):
            k = r.random()
            ind = r.choice(['', ' ', '\t', '    '])
            if seg != 'c' and k < .5:
                if seg == 'd':
                    lines.append(ind + '.byte ' + str(r.randrange(0, 9)))
                else:
                    lines.append(ind + self.data(equs + labels))
                continue
            if k < .4 and 'instr' in f:
                pre = ''
                if free and r.random() < .25 and 'label' in f:
                    pre = free.pop() + ':' + r.choice([' ', '', '\t'])
                if seg != 'c' and r.random() < .9:
                    lines.append(ind + '.cseg'); seg = 'c'
                lines.append(('' if pre else ind) + pre + self.case_mn(self.instr(labels)) + self.comment())
            elif k < .5 and 'data' in f:
                if seg == 'd':
                    lines.append('.cseg'); seg = 'c'
                lines.append(ind + self.data(equs + labels) + self.comment())
            elif k < .55 and free and 'label' in f:
                lines.append(free.pop() + ':' + self.comment())
            elif k < .6 and 'set' in f:
                lines.append(ind + '.set %s = %s' % (self.case('v%d' % r.randrange(2)), self.render(self.expr(1, equs, small=True))))
                if r.random() < .5:
                    lines.append(ind + '.dw ' + self.case('v%d' % r.randrange(2)))
            elif k < .65 and 'def' in f:
                a = 'a%d' % r.randrange(2)
                lines.append(ind + '.def %s = %s' % (self.case(a), self.case(self.reg())))
                if r.random() < .7: lines.append(ind + 'mov %s, r1' % self.case(a))
                if r.random() < .6: lines.append(ind + '.undef ' + self.case(a))
            elif k < .7 and 'org' in f:
                lines.append(ind + '.org ' + self.lit_text(r.choice([0, 1, 2, 5, 8, 16, 40, 100, 0x60, 0x100])))
            elif k < .76 and 'seg' in f:
                seg = r.choice('cde')
                lines.append(ind + {'c': '.cseg', 'd': '.dseg', 'e': '.eseg'}[seg])
            elif k < .84 and 'cond' in f:
                lines += self.cond(labels, equs, 2)
            elif k < .9 and 'macro' in f:
                if not macros or r.random() < .4:
                    name = 'm%d' % len(macros)
                    nargs = r.randrange(0, 3)
                    body = []
                    for _ in range(r.randrange(1, 4)):
                        kk = r.random()
                        if nargs and kk < .3: body.append('ldi r16, @0')
                        elif nargs > 1 and kk < .5: body.append('mov @1, r2')
                        elif nargs and kk < .6: body.append('.dw @0*2')
                        elif macros and kk < .7: body.append(self.call(r.choice(macros)))
                        else: body.append(self.instr(()))
                    lines.append('.macro ' + self.case(name))
                    lines += ['  ' + b for b in body]
                    lines.append(r.choice(['.endm', '.endmacro']))
                    macros.append((name, nargs))
                else:
                    lines.append(ind + self.call(r.choice(macros)))
            elif k < .93 and 'msg' in f:
                lines.append(ind + r.choice(['.message', '.warning', '.message']) + ' "m%d"' % r.randrange(9))
            elif k < .935 and 'bad' in f:
                lines.append(r.choice(['foo bar', '.nosuch', 'add r1', 'ldi r1, 1', '.db "x', 'nop nop', ') (', '.error "e"', '.dw nosym',
                                       'rjmp 99999', '.endif', '.else', '.byte', '.org', '.if', '.endm', 'r1 r2', '.equ', '.def q = w', '.device Foo']))
            else:
                lines.append(r.choice(['', ' ', '; only comment', '\t// c', '/* c */']))
        for l in free:
            lines.append(l + ':')
        return lines

    def case_mn(self, ins):
        # vary the letter case of the mnemonic and registers
        if self.r.random() < .3:
            parts = ins.split(' ', 1)
            return self.case(parts[0]) + (' ' + parts[1] if len(parts) > 1 else '')
        return ins

    def call(self, m):
        name, nargs = m
        args = []
        for i in range(nargs):
            args.append(self.render(self.expr(1, (), small=True)) if i == 0 else self.reg())
        return self.case(name) + (' ' + ', '.join(args) if args else '')

    def data(self, idents):
        r = self.r
        d = r.choice(['.db', '.db', '.dw', '.dd', '.dq'])
        ops = []
        for _ in range(r.randrange(1, 5)):
            if d == '.db' and r.random() < .3:
                ops.append('"' + r.choice(['', 'a', 'ab', 'abc', 'Hello, World', 'é', 'x;y', '/*', "'"]) + '"')
            else:
                rng = {'.db': (-128, 255), '.dw': (-32768, 65535), '.dd': (-2**31, 2**32 - 1), '.dq': (-2**62, 2**62)}[d]
                if idents and r.random() < .3:
                    ops.append(self.case(r.choice(list(idents))))
                else:
                    ops.append(self.imm(rng[0], rng[1], r.random() < .93))
        sep = r.choice([',', ', ', ' , ', ',\t'])
        return d + ' ' + sep.join(ops)

    def cond(self, labels, equs, depth):
        r = self.r
        out = []
        def condtext():
            k = r.random()
            if k < .4: return '.if ' + self.render(self.expr(1, equs, small=True))
            if k < .7: return '.ifdef ' + r.choice(['D0', 'D1', 'd0'])
            return '.ifndef ' + r.choice(['D0', 'D1'])
        def body():
            b = []
            for _ in range(r.randrange(0, 3)):
                k = r.random()
                if k < .5: b.append('  ' + self.instr(labels))
                elif k < .6: b.append('  .define ' + r.choice(['D0', 'D1']))
                elif k < .7 and depth > 0: b.extend(self.cond(labels, equs, depth - 1))
                elif k < .63: b.append('  garbage here ((')
                elif k < .9: b.append('  .message "in"')
                else: b.append('  .db 1, 2')
            return b
        out.append(condtext())
        out += body()
        for _ in range(r.randrange(0, 3)):
            out.append('.elif ' + self.render(self.expr(1, equs, small=True)))
            out += body()
        if r.random() < .5:
            out.append('.else')
            out += body()
        out.append('.endif')
        return out
