#!/usr/bin/env python3
"""usage: seedmeta.py <seed id> <round> <caught_by,comma> <detection note>  — records confirmation and detection in seeded/<id>/meta.json"""
import json, sys, os
sid, rnd, by, note = sys.argv[1], int(sys.argv[2]), sys.argv[3].split(','), sys.argv[4]
d = os.path.join(os.path.dirname(os.path.dirname(os.path.abspath(__file__))), 'seeded', sid)
m = json.load(open(os.path.join(d, 'meta.json')))
m['property'] = sid.split('-')[0]
c = os.path.join(d, 'confirm.txt')
if os.path.exists(c): m['confirmed'] = [l.strip() for l in open(c) if l.strip()]
m['round'] = rnd; m['caught_by'] = by; m['detection_note'] = note
m['checks_run'] = 'tools/seedtest.sh seeded/%s/patch.diff %s (quick tier)' % (sid, ' '.join(by))
json.dump(m, open(os.path.join(d, 'meta.json'), 'w'), indent=1)
