#!/bin/bash
# usage: tools/seedtest.sh <patch.diff> <prop> [<prop>...]   — applies a seeded change to /repo, runs the
# quick checks, restores /repo.  Never commits anything in /repo.
set -u
patch="$1"; shift
cd /repo || exit 2
if ! git diff --quiet; then echo "/repo is dirty"; exit 2; fi
git apply "$patch" || { echo "patch does not apply"; exit 2; }
cd /verif
for p in "$@"; do
  echo "== $p on $(basename $(dirname $patch))"
  timeout 1800 python3 tools/check.py $p --tier quick 2>&1 | grep -E "^(VIOLATION|OK|KNOWN|CHECK-BROKEN)" 
done
git -C /repo checkout -- .
