#!/usr/bin/env python3
"""One-off writer of the repetitive per-mnemonic lemma text in lean/Avra/Props/EncOps*.lean and
Enc.lean (the output is committed and maintained as ordinary source; this script only saves
typing).  Base opcodes written here are the ISA's (transcribed from the manual), NOT read from
/repo: each lemma states `info b op = some (len, base)` against the Gen table extracted from the
code and fails to check when the code's table says otherwise."""
import os
OUT = os.path.join(os.path.dirname(os.path.dirname(os.path.abspath(__file__))), 'lean', 'Avra', 'Props')

HEAD = '''/-
  Per-mnemonic encoding lemmas (text produced once by tools/mk_enc_props.py, maintained as source).
  For every mnemonic: the opcode/length row extracted from the code (Gen.infoTable) is the ISA's,
  the arm's bit packing equals the ISA pattern on its WHOLE finite operand table (kernel
  evaluation, `decide +kernel` over `allIn`), hence — by the family lemmas, for all operand lists
  and all i64 values — model words = ISA encoding of what the legality spec says.
-/
import Avra.Props.EncDefs
namespace Avra.Props.Enc
open Avra Avra.Model Avra.Isa Avra.Lemmas
set_option maxRecDepth 1000000

'''

def lean_name(op):
    return {'in': '«in»', 'break': '«break»'}.get(op, op)

def info_lemma(op, ctor, len_, base, both=True):
    if both:
        return f'theorem info_{op} (b : Bool) : info b {ctor} = some ({len_}, {base}) := by cases b <;> decide\n'
    return ''

def arity(n):
    return n

files = {1: [], 2: [], 3: [], 4: []}
final_cases = []   # (pattern, lemma name)

def emit(fid, text):
    files[fid].append(text)

def enc_lemma(op, ctor, body):
    """theorem enc_<op> : mWords b ctor args addr = sWords b ctor args addr"""
    return (f'theorem enc_{op} (b : Bool) (args : List AArg) (addr : Nat) (hr : regsOk args) :\n'
            f'    mWords b {ctor} args addr = sWords b {ctor} args addr := by\n' + body + '\n')

def std_body(op, fam_call, len_lemma, n_args, lenval=1):
    # unfold to family function by rfl-steps
    return (f'  unfold mWords sWords\n'
            f'  rw [info_{op} b]\n'
            f'  exact with_arity _ _ _ _ _ ({fam_call}) (fun h => by have := {len_lemma} h; simp [allowedArgs, this])')

# ---- rr family
RR = {'add': '0x0c00', 'adc': '0x1c00', 'sub': '0x1800', 'sbc': '0x0800', 'and': '0x2000', 'or': '0x2800', 'eor': '0x2400',
      'cpse': '0x1000', 'cp': '0x1400', 'cpc': '0x0400', 'mov': '0x2c00', 'mul': '0x9c00'}
for op, base in RR.items():
    c = '.' + lean_name(op)
    emit(1, info_lemma(op, c, 1, base))
    emit(1, f'theorem pack_{op} : ∀ d r, d < 32 → r < 32 → packRR {base} d r = word (rrPat {c}) [(fld!"d", d), (fld!"r", r)] := by\n'
            f'  have h := allIn2 (fun (d r : Nat) => decide (packRR {base} d r = word (rrPat {c}) [(fld!"d", d), (fld!"r", r)])) 5 5 (by decide +kernel)\n'
            f'  intro d r hd hr; simpa using h d r hd hr\n')
    emit(1, enc_lemma(op, c, std_body(op, f'fam_rr {base} {c} pack_{op} args hr', 'sRR_len', 2)))
SAME = {'tst': ('and', '0x2000'), 'clr': ('eor', '0x2400'), 'lsl': ('add', '0x0c00'), 'rol': ('adc', '0x1c00')}
for op, (o, base) in SAME.items():
    c = '.' + op
    emit(1, info_lemma(op, c, 1, base))
    emit(1, enc_lemma(op, c, std_body(op, f'fam_same {base} .{lean_name(o)} pack_{o} args hr', 'sRRsame_len', 1)))

# ---- one family
ONE = {'com': '0x9400', 'neg': '0x9401', 'inc': '0x9403', 'dec': '0x940a', 'push': '0x920f', 'pop': '0x900f', 'lsr': '0x9406',
       'ror': '0x9407', 'asr': '0x9405', 'swap': '0x9402'}
for op, base in ONE.items():
    c = '.' + op
    emit(2, info_lemma(op, c, 1, base))
    emit(2, f'theorem pack_{op} : ∀ d, d < 32 → packOne {base} d = word (onePat {c}) [(fld!"d", d)] := by\n'
            f'  have h := allIn1 (fun (d : Nat) => decide (packOne {base} d = word (onePat {c}) [(fld!"d", d)])) 5 (by decide +kernel)\n'
            f'  intro d hd; simpa using h d hd\n')
    emit(2, enc_lemma(op, c, std_body(op, f'fam_one {base} {c} pack_{op} args hr', 'sOne_len', 1)))

# ---- imm family
IMM = {'subi': ('subi', '0x5000', False), 'sbci': ('sbci', '0x4000', False), 'andi': ('andi', '0x7000', False),
       'ori': ('ori', '0x6000', False), 'sbr': ('ori', '0x6000', False), 'cbr': ('andi', '0x7000', True),
       'cpi': ('cpi', '0x3000', False), 'ldi': ('ldi', '0xe000', False)}
for op, (o, base, cbr) in IMM.items():
    c = '.' + op
    f = '(255 - ·)' if cbr else 'id'
    fk = '(255 - k)' if cbr else 'k'
    cb = 'true' if cbr else 'false'
    emit(2, info_lemma(op, c, 1, base))
    emit(2, f'theorem pack_{op} : ∀ d k, 16 ≤ d → d < 32 → k < 256 →\n'
            f'    packImm {base} d (if {cb} then 0xff - k else k) = word (immPat .{o}) [(fld!"d", d - 16), (fld!"K", {f} k)] := by\n'
            f'  have h := allIn2 (fun (d k : Nat) => decide (16 ≤ d → packImm {base} d (if {cb} then 0xff - k else k) = word (immPat .{o}) [(fld!"d", d - 16), (fld!"K", {f} k)])) 5 8 (by decide +kernel)\n'
            f'  intro d k h16 hd hk; have h2 := h d k hd hk; simp only [decide_eq_true_eq] at h2; exact h2 h16\n')
    emit(2, enc_lemma(op, c, std_body(op, f'fam_imm {base} .{o} {cb} {f} pack_{op} args hr', 'sImm_len', 2)))
emit(2, info_lemma('ser', '.ser', 1, '0xef0f'))
emit(2, 'theorem pack_ser : ∀ d, 16 ≤ d → d < 32 → packSer 0xef0f d = word (immPat .ldi) [(fld!"d", d - 16), (fld!"K", 255)] := by\n'
        '  have h := allIn1 (fun (d : Nat) => decide (16 ≤ d → packSer 0xef0f d = word (immPat .ldi) [(fld!"d", d - 16), (fld!"K", 255)])) 5 (by decide +kernel)\n'
        '  intro d h16 hd; have h2 := h d hd; simp only [decide_eq_true_eq] at h2; exact h2 h16\n')
emit(2, enc_lemma('ser', '.ser', std_body('ser', 'fam_ser 0xef0f pack_ser args hr', 'sSer_len', 1)))

# ---- adiw / sbiw
for op, base, sub in (('adiw', '0x9600', 'false'), ('sbiw', '0x9700', 'true')):
    c = '.' + op
    emit(3, info_lemma(op, c, 1, base))
    emit(3, f'theorem pack_{op} : ∀ d k, (d = 24 ∨ d = 26 ∨ d = 28 ∨ d = 30) → k < 64 →\n'
            f'    packAdiw {base} d k = word (if {sub} then pat!"1001 0111 KKdd KKKK" else pat!"1001 0110 KKdd KKKK") [(fld!"d", (d - 24) / 2), (fld!"K", k)] := by\n'
            f'  have h := allIn2 (fun (d k : Nat) => decide ((d = 24 ∨ d = 26 ∨ d = 28 ∨ d = 30) → packAdiw {base} d k = word (if {sub} then pat!"1001 0111 KKdd KKKK" else pat!"1001 0110 KKdd KKKK") [(fld!"d", (d - 24) / 2), (fld!"K", k)])) 5 6 (by decide +kernel)\n'
            f'  intro d k hd hk; have hx := h d k (by omega) hk; simp only [decide_eq_true_eq] at hx; exact hx hd\n')
    emit(3, enc_lemma(op, c, std_body(op, f'fam_adiw {base} {sub} pack_{op} args hr', 'sAdiw_len', 2)))

# ---- muls / mulf / movw
emit(3, info_lemma('muls', '.muls', 1, '0x0200'))
emit(3, 'theorem pack_muls : ∀ d r, 16 ≤ d → d < 32 → 16 ≤ r → r < 32 →\n'
        '    packMuls 0x0200 d r = word (pat!"0000 0010 dddd rrrr") [(fld!"d", d - 16), (fld!"r", r - 16)] := by\n'
        '  have h := allIn2 (fun (d r : Nat) => decide (16 ≤ d → 16 ≤ r → packMuls 0x0200 d r = word (pat!"0000 0010 dddd rrrr") [(fld!"d", d - 16), (fld!"r", r - 16)])) 5 5 (by decide +kernel)\n'
        '  intro d r h1 hd h2 hr; have hx := h d r hd hr; simp only [decide_eq_true_eq] at hx; exact hx h1 h2\n')
emit(3, enc_lemma('muls', '.muls', std_body('muls', 'fam_muls 0x0200 pack_muls args hr', 'sMuls_len', 2)))
for op, base in (('mulsu', '0x0300'), ('fmul', '0x0308'), ('fmuls', '0x0380'), ('fmulsu', '0x0388')):
    c = '.' + op
    emit(3, info_lemma(op, c, 1, base))
    emit(3, f'theorem pack_{op} : ∀ d r, 16 ≤ d → d < 24 → 16 ≤ r → r < 24 →\n'
            f'    packMulf {base} d r = word (mulfPat {c}) [(fld!"d", d - 16), (fld!"r", r - 16)] := by\n'
            f'  have h := allIn2 (fun (d r : Nat) => decide (16 ≤ d → d < 24 → 16 ≤ r → r < 24 → packMulf {base} d r = word (mulfPat {c}) [(fld!"d", d - 16), (fld!"r", r - 16)])) 5 5 (by decide +kernel)\n'
            f'  intro d r h1 hd h2 hr; have hx := h d r (by omega) (by omega); simp only [decide_eq_true_eq] at hx; exact hx h1 hd h2 hr\n')
    emit(3, enc_lemma(op, c, std_body(op, f'fam_mulf {base} {c} pack_{op} args hr', 'sMulf_len', 2)))
emit(3, info_lemma('movw', '.movw', 1, '0x0100'))
emit(3, 'theorem pack_movw : ∀ d r, d < 32 → r < 32 → d % 2 = 0 → r % 2 = 0 →\n'
        '    packMovw 0x0100 d r = word (pat!"0000 0001 dddd rrrr") [(fld!"d", d / 2), (fld!"r", r / 2)] := by\n'
        '  have h := allIn2 (fun (d r : Nat) => decide (d % 2 = 0 → r % 2 = 0 → packMovw 0x0100 d r = word (pat!"0000 0001 dddd rrrr") [(fld!"d", d / 2), (fld!"r", r / 2)])) 5 5 (by decide +kernel)\n'
        '  intro d r hd hr h1 h2; have hx := h d r hd hr; simp only [decide_eq_true_eq] at hx; exact hx h1 h2\n')
emit(3, enc_lemma('movw', '.movw', std_body('movw', 'fam_movw 0x0100 pack_movw args hr', 'sMovw_len', 2)))

# ---- rel / abs
for op, base, call in (('rjmp', '0xc000', 'false'), ('rcall', '0xd000', 'true')):
    c = '.' + op
    emit(3, info_lemma(op, c, 1, base))
    emit(3, f'theorem pack_{op} : ∀ f, f < 4096 →\n'
            f'    {base} ||| f = word (if {call} then pat!"1101 kkkk kkkk kkkk" else pat!"1100 kkkk kkkk kkkk") [(fld!"k", f)] := by\n'
            f'  have h := allIn1 (fun (f : Nat) => decide ({base} ||| f = word (if {call} then pat!"1101 kkkk kkkk kkkk" else pat!"1100 kkkk kkkk kkkk") [(fld!"k", f)])) 12 (by decide +kernel)\n'
            f'  intro f hf; simpa using h f hf\n')
    emit(3, enc_lemma(op, c, std_body(op, f'fam_rel {base} addr {call} pack_{op} args hr', 'sRel_len', 1)))
for op, base, call in (('jmp', '0x940c', 'false'), ('call', '0x940e', 'true')):
    c = '.' + op
    emit(3, info_lemma(op, c, 2, base))
    emit(3, f'theorem pack_{op} : ∀ m, m < 512 →\n'
            f'    {base} ||| (m &&& 0x1f0) ||| ((m / 8 % 2) &&& 1) = word (if {call} then pat!"1001 010k kkkk 111k" else pat!"1001 010k kkkk 110k") [(fld!"k", m / 8)] := by\n'
            f'  have h := allIn1 (fun (m : Nat) => decide ({base} ||| (m &&& 0x1f0) ||| ((m / 8 % 2) &&& 1) = word (if {call} then pat!"1001 010k kkkk 111k" else pat!"1001 010k kkkk 110k") [(fld!"k", m / 8)])) 9 (by decide +kernel)\n'
            f'  intro m hm; simpa using h m hm\n')
    emit(3, enc_lemma(op, c, std_body(op, f'fam_abs {base} {call} pack_{op} args hr', 'sAbs_len', 1)))

# ---- branches
BR = {'eq': ('false', 1), 'ne': ('true', 1), 'cs': ('false', 0), 'cc': ('true', 0), 'lo': ('false', 0), 'sh': ('true', 0),
      'mi': ('false', 2), 'pl': ('true', 2), 'lt': ('false', 4), 'ge': ('true', 4), 'hs': ('false', 5), 'hc': ('true', 5),
      'ts': ('false', 6), 'tc': ('true', 6), 'vs': ('false', 3), 'vc': ('true', 3), 'ie': ('false', 7), 'id': ('true', 7)}
for b, (clear, s) in BR.items():
    op = 'br' + b
    c = f'(.br .{b})'
    num = s + (0x400 if clear == 'true' else 0)
    emit(4, info_lemma(op, c, 1, '0xf000'))
    emit(4, f'theorem num_{op} : lookupOp {c} Gen.brNum = some {num} := by decide\n')
    emit(4, f'theorem pack_{op} : ∀ f, f < 128 →\n'
            f'    packBr 0xf000 0 {num} f = word (if {clear} then pat!"1111 01kk kkkk ksss" else pat!"1111 00kk kkkk ksss") [(fld!"s", {s}), (fld!"k", f)] := by\n'
            f'  have h := allIn1 (fun (f : Nat) => decide (packBr 0xf000 0 {num} f = word (if {clear} then pat!"1111 01kk kkkk ksss" else pat!"1111 00kk kkkk ksss") [(fld!"s", {s}), (fld!"k", f)])) 7 (by decide +kernel)\n'
            f'  intro f hf; simpa using h f hf\n')
    body = (f'  unfold mWords sWords\n'
            f'  rw [info_{op} b]\n'
            f'  show (if !(allowedArgs {c}).contains args.length then none else wordsOf (eBr 0xf000 addr (lookupOp {c} Gen.brNum) args)) = _\n'
            f'  rw [num_{op}]\n'
            f'  exact with_arity _ _ _ _ _ (fam_br 0xf000 addr .{b} {clear} {s} {num} rfl pack_{op} args hr) (fun h => by have := sBr_len (b := .{b}) (a := addr) (args := args) h; simp [allowedArgs, this])')
    emit(4, enc_lemma(op, c, body))
for b, clear, num in (('bs', 'false', 0), ('bc', 'true', 0x400)):
    op = 'br' + b
    c = f'(.br .{b})'
    emit(4, info_lemma(op, c, 1, '0xf000'))
    emit(4, f'theorem num_{op} : lookupOp {c} Gen.brNum = some {num} := by decide\n')
    emit(4, f'theorem pack_{op} : ∀ s f, s < 8 → f < 128 →\n'
            f'    packBr 0xf000 s {num} f = word (if {clear} then pat!"1111 01kk kkkk ksss" else pat!"1111 00kk kkkk ksss") [(fld!"s", s), (fld!"k", f)] := by\n'
            f'  have h := allIn2 (fun (s f : Nat) => decide (packBr 0xf000 s {num} f = word (if {clear} then pat!"1111 01kk kkkk ksss" else pat!"1111 00kk kkkk ksss") [(fld!"s", s), (fld!"k", f)])) 3 7 (by decide +kernel)\n'
            f'  intro s f hs hf; simpa using h s f hs hf\n')
    body = (f'  unfold mWords sWords\n'
            f'  rw [info_{op} b]\n'
            f'  show (if !(allowedArgs {c}).contains args.length then none else wordsOf (eBrb 0xf000 addr (lookupOp {c} Gen.brNum) args)) = _\n'
            f'  rw [num_{op}]\n'
            f'  exact with_arity _ _ _ _ _ (fam_brb 0xf000 addr {clear} {num} pack_{op} args hr) (fun h => by have := sBrb_len (c := {clear}) (a := addr) (args := args) h; simp [allowedArgs, this])')
    emit(4, enc_lemma(op, c, body))

# ---- lds / sts (the row depends on the core)
for op, b32, b16, p32, p16, fam, lenl in (('lds', '0x9000', '0xa000', '"1001 000d dddd 0000"', '"1010 0kkk dddd kkkk"', 'fam_lds', 'sLds_len'),
                                      ('sts', '0x9200', '0xa800', '"1001 001d dddd 0000"', '"1010 1kkk dddd kkkk"', 'fam_sts', 'sSts_len')):
    c = '.' + op
    emit(4, f'theorem info_{op}_classic : info false {c} = some (2, {b32}) := by decide\n')
    emit(4, f'theorem info_{op}_reduced : info true {c} = some (1, {b16}) := by decide\n')
    emit(4, f'theorem pack_{op}32 : ∀ d, d < 32 → packOne {b32} d = word (pat!{p32}) [(fld!"d", d)] := by\n'
            f'  have h := allIn1 (fun (d : Nat) => decide (packOne {b32} d = word (pat!{p32}) [(fld!"d", d)])) 5 (by decide +kernel)\n'
            f'  intro d hd; simpa using h d hd\n')
    emit(4, f'theorem pack_{op}16 : ∀ d a, 16 ≤ d → d < 32 → 0x40 ≤ a → a ≤ 0xbf →\n'
            f'    packLds16 {b16} d a = word (pat!{p16}) [(fld!"d", d - 16), (fld!"k", (a / 16 % 4) * 32 + (a / 64 % 2) * 16 + a % 16)] := by\n'
            f'  have h := allIn2 (fun (d a : Nat) => decide (16 ≤ d → 0x40 ≤ a → a ≤ 0xbf → packLds16 {b16} d a = word (pat!{p16}) [(fld!"d", d - 16), (fld!"k", (a / 16 % 4) * 32 + (a / 64 % 2) * 16 + a % 16)])) 5 8 (by decide +kernel)\n'
            f'  intro d a h1 hd h2 h3; have hx := h d a hd (by omega); simp only [decide_eq_true_eq] at hx; exact hx h1 h2 h3\n')
    body = (f'  unfold mWords sWords\n'
            f'  cases b\n'
            f'  · rw [info_{op}_classic]\n'
            f'    exact with_arity _ _ _ _ _ ({fam} false {b32} (fun _ => pack_{op}32) (fun h => by cases h) args hr) (fun h => by have := {lenl} h; simp [allowedArgs, this])\n'
            f'  · rw [info_{op}_reduced]\n'
            f'    exact with_arity _ _ _ _ _ ({fam} true {b16} (fun h => by cases h) (fun _ => pack_{op}16) args hr) (fun h => by have := {lenl} h; simp [allowedArgs, this])')
    emit(4, enc_lemma(op, c, body))

# ---- ld/st family
emit(4, 'theorem idx_ld : idxPackOk 0x8000 false := idxPackOk_of_check 0x8000 false (by decide +kernel)\n')
emit(4, 'theorem idx_st : idxPackOk 0x8200 true := idxPackOk_of_check 0x8200 true (by decide +kernel)\n')
for op, base, fam, lenl, idx in (('ld', '0x8000', 'fam_ld', 'sLd_len', 'idx_ld'), ('ldd', '0x8000', 'fam_ld', 'sLd_len', 'idx_ld'),
                                 ('st', '0x8200', 'fam_st', 'sSt_len', 'idx_st'), ('std', '0x8200', 'fam_st', 'sSt_len', 'idx_st')):
    c = '.' + op
    emit(4, info_lemma(op, c, 1, base))
    emit(4, enc_lemma(op, c, std_body(op, f'{fam} {base} {idx} args hr', lenl, 2)))

# ---- lpm / elpm
for op, ext in (('lpm', 'false'), ('elpm', 'true')):
    c = '.' + op
    emit(2, info_lemma(op, c, 1, '0x9000'))
    emit(2, f'theorem pack_{op} : ∀ d, d < 32 → ∀ inc : Bool,\n'
            f'    [packOne 0x9000 d ||| (if inc then 0b101 else 0b100) ||| (if {ext} then 0b10 else 0)] = encode (.lpm {ext} d inc) := by\n'
            f'  have h := allIn1 (fun (d : Nat) => decide (∀ inc : Bool, [packOne 0x9000 d ||| (if inc then 0b101 else 0b100) ||| (if {ext} then 0b10 else 0)] = encode (.lpm {ext} d inc))) 5 (by decide +kernel)\n'
            f'  intro d hd; simpa using h d hd\n')
    body = (f'  unfold mWords sWords\n'
            f'  rw [info_{op} b]\n'
            f'  exact with_arity _ _ _ _ _ (fam_lpm 0x9000 {ext} (by decide) pack_{op} args hr) (fun h => by have := sLpm_len h; rcases this with h | h <;> simp [allowedArgs, h])')
    emit(2, enc_lemma(op, c, body))

# ---- in / out
for op, base, pat, fam, lenl in (('in', '0xb000', '"1011 0AAd dddd AAAA"', 'fam_in', 'sIn_len'), ('out', '0xb800', '"1011 1AAd dddd AAAA"', 'fam_out', 'sOut_len')):
    c = '.' + lean_name(op)
    emit(2, info_lemma(op, c, 1, base))
    emit(2, f'theorem pack_{op} : ∀ r a, r < 32 → a < 64 → packIo {base} r a = word (pat!{pat}) [(fld!"d", r), (fld!"A", a)] := by\n'
            f'  have h := allIn2 (fun (r a : Nat) => decide (packIo {base} r a = word (pat!{pat}) [(fld!"d", r), (fld!"A", a)])) 5 6 (by decide +kernel)\n'
            f'  intro r a hr ha; simpa using h r a hr ha\n')
    emit(2, enc_lemma(op, c, std_body(op, f'{fam} {base} pack_{op} args hr', lenl, 2)))

# ---- reg/bit
for op, base, mk in (('sbrc', '0xfc00', '(Instr.sbr false)'), ('sbrs', '0xfe00', '(Instr.sbr true)'), ('bst', '0xfa00', '(Instr.bt false)'), ('bld', '0xf800', '(Instr.bt true)')):
    c = '.' + op
    emit(1, info_lemma(op, c, 1, base))
    emit(1, f'theorem pack_{op} : ∀ r b, r < 32 → b < 8 → [packOne {base} r ||| b] = encode ({mk} r b) := by\n'
            f'  have h := allIn2 (fun (r b : Nat) => decide ([packOne {base} r ||| b] = encode ({mk} r b))) 5 3 (by decide +kernel)\n'
            f'  intro r b hr hb; simpa using h r b hr hb\n')
    emit(1, enc_lemma(op, c, std_body(op, f'fam_regbit {base} {mk} pack_{op} args hr', 'sRegBit_len', 2)))
for op, base in (('sbi', '0x9a00'), ('cbi', '0x9800'), ('sbis', '0x9b00'), ('sbic', '0x9900')):
    c = '.' + op
    emit(1, info_lemma(op, c, 1, base))
    emit(1, f'theorem pack_{op} : ∀ a b, a < 32 → b < 8 → {base} ||| (a <<< 3) ||| b = word (iobPat {c}) [(fld!"A", a), (fld!"b", b)] := by\n'
            f'  have h := allIn2 (fun (a b : Nat) => decide ({base} ||| (a <<< 3) ||| b = word (iobPat {c}) [(fld!"A", a), (fld!"b", b)])) 5 3 (by decide +kernel)\n'
            f'  intro a b ha hb; simpa using h a b ha hb\n')
    emit(1, enc_lemma(op, c, std_body(op, f'fam_iobit {base} {c} pack_{op} args hr', 'sIoBit_len', 2)))
for op, base, clear in (('bset', '0x9408', 'false'), ('bclr', '0x9488', 'true')):
    c = '.' + op
    emit(1, info_lemma(op, c, 1, base))
    emit(1, f'theorem pack_{op} : ∀ s, s < 8 → {base} ||| (s <<< 4) = word (if {clear} then pat!"1001 0100 1sss 1000" else pat!"1001 0100 0sss 1000") [(fld!"s", s)] := by\n'
            f'  have h := allIn1 (fun (s : Nat) => decide ({base} ||| (s <<< 4) = word (if {clear} then pat!"1001 0100 1sss 1000" else pat!"1001 0100 0sss 1000") [(fld!"s", s)])) 3 (by decide +kernel)\n'
            f'  intro s hs; simpa using h s hs\n')
    emit(1, enc_lemma(op, c, std_body(op, f'fam_flagv {base} {clear} pack_{op} args hr', 'sFlagV_len', 1)))
FL = {'c': 0, 'z': 1, 'n': 2, 'v': 3, 's': 4, 'h': 5, 't': 6, 'i': 7}
for kind, base, clear in (('se', '0x9408', 'false'), ('cl', '0x9488', 'true')):
    for f, n in FL.items():
        op = kind + f
        c = f'(.{kind} .{f})'
        emit(1, info_lemma(op, c, 1, base))
        emit(1, f'theorem num_{op} : lookupOp {c} Gen.sfNum = some {n} := by decide\n')
        body = (f'  unfold mWords sWords\n'
                f'  rw [info_{op} b]\n'
                f'  show (if !(allowedArgs {c}).contains args.length then none else wordsOf (eFlag {base} (lookupOp {c} Gen.sfNum) args)) = _\n'
                f'  rw [num_{op}]\n'
                f'  exact with_arity _ _ _ _ _ (fam_flag {base} {n} (.flag {clear} (flagNum .{f})) (by decide) args) (fun h => by have := sNone_len h; simp [allowedArgs, this])')
        emit(1, f'theorem enc_{op} (b : Bool) (args : List AArg) (addr : Nat) (_hr : regsOk args) :\n'
                f'    mWords b {c} args addr = sWords b {c} args addr := by\n' + body + '\n')
NO = {'ijmp': '0x9409', 'eijmp': '0x9419', 'icall': '0x9509', 'eicall': '0x9519', 'ret': '0x9508', 'reti': '0x9518', 'spm': '0x95e8',
      'break': '0x9598', 'nop': '0x0', 'sleep': '0x9588', 'wdr': '0x95a8'}
for op, base in NO.items():
    c = '.' + lean_name(op)
    emit(1, info_lemma(op, c, 1, base))
    body = (f'  unfold mWords sWords\n'
            f'  rw [info_{op} b]\n'
            f'  exact with_arity _ _ _ _ _ (fam_none {base} (.noarg {c}) (by decide) args) (fun h => by have := sNone_len h; simp [allowedArgs, this])')
    emit(1, f'theorem enc_{op} (b : Bool) (args : List AArg) (addr : Nat) (_hr : regsOk args) :\n'
            f'    mWords b {c} args addr = sWords b {c} args addr := by\n' + body + '\n')

for fid, parts in files.items():
    with open(os.path.join(OUT, f'EncOps{fid}.lean'), 'w') as f:
        f.write(HEAD + '\n'.join(parts) + '\nend Avra.Props.Enc\n')

# ---- final dispatch
allops = list(RR) + list(SAME) + list(ONE) + list(IMM) + ['ser', 'adiw', 'sbiw', 'muls', 'mulsu', 'fmul', 'fmuls', 'fmulsu', 'movw',
          'rjmp', 'rcall', 'jmp', 'call', 'lds', 'sts', 'ld', 'ldd', 'st', 'std', 'lpm', 'elpm', 'in', 'out', 'sbrc', 'sbrs', 'bst', 'bld',
          'sbi', 'cbi', 'sbis', 'sbic', 'bset', 'bclr'] + list(NO)
lines = []
for op in allops:
    lines.append(f'  | {lean_name(op)} => exact enc_{op} b args addr hr')
lines.append('  | br t => cases t with')
for b in list(BR) + ['bs', 'bc']:
    lines.append(f'    | {b} => exact enc_br{b} b args addr hr')
for kind in ('se', 'cl'):
    lines.append(f'  | {kind} f => cases f with')
    for f in FL:
        lines.append(f'    | {f} => exact enc_{kind}{f} b args addr hr')
lines.append('  | custom n => exact absurd rfl (hstd n)')
with open(os.path.join(OUT, 'Enc.lean'), 'w') as f:
    f.write('''/-
  The encoder model agrees with the independent ISA spec on every mnemonic, every operand list
  (any count, any kinds) and every i64 operand value, on both cores.  (Dispatch text produced once
  by tools/mk_enc_props.py, maintained as source.)
-/
import Avra.Props.EncOps1
import Avra.Props.EncOps2
import Avra.Props.EncOps3
import Avra.Props.EncOps4
namespace Avra.Props.Enc
open Avra Avra.Model Avra.Isa Avra.Lemmas

/-- model words = ISA encoding of what the legality spec says the operands denote, or both
    reject — for every standard mnemonic, both cores, all resolved operand lists, all addresses -/
theorem model_eq_spec (b : Bool) (op : Op) (args : List AArg) (addr : Nat)
    (hstd : ∀ n, op ≠ .custom n) (hr : regsOk args) :
    mWords b op args addr = sWords b op args addr := by
  cases op with
''' + '\n'.join(lines) + '\n\nend Avra.Props.Enc\n')
print('written')
