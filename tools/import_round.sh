#!/bin/bash
# usage: tools/import_round.sh <round tag e.g. r4> <first new index> <count> <prop>...
# copies /tmp/wt/<tag>-<prop>/seeds/<i> to seeded/<prop>-<first+i-1>, confirms each in /tmp/wt/confirm, then runs the
# quick check of the property against each; prints one line per seed
tag="$1"; first="$2"; cnt="$3"; shift 3
cd /verif
for P in "$@"; do
  for i in $(seq 1 $cnt); do
    n=$((first+i-1)); d=seeded/$P-$n
    [ -f /tmp/wt/$tag-$P/seeds/$i/patch.diff ] || { echo "$P-$n MISSING"; continue; }
    mkdir -p $d; cp /tmp/wt/$tag-$P/seeds/$i/{patch.diff,demo.rs,meta.json} $d/
    tools/confirm_seed.sh /verif/$d /tmp/wt/confirm > /dev/null 2>&1
    c=$(grep -c "FAILED" $d/confirm.txt); s=$(grep -c "67 passed" $d/confirm.txt); o=$(grep "without patch" $d/confirm.txt | grep -c "ok\.")
    r=$(tools/seedtest.sh /verif/$d/patch.diff $P 2>&1 | grep -E "^(VIOLATION|OK|CHECK)" | cut -c1-110)
    echo "$P-$n confirm(demo fails with patch=$c suite ok=$s demo ok at head=$o) :: $r"
  done
done
