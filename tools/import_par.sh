#!/bin/bash
# usage: tools/import_par.sh <round tag e.g. r6> <first new index> <count> <prop>...
# copies /tmp/wt/<tag>-<prop>/seeds/<i> to seeded/<prop>-<first+i-1> and confirms each (tools/confirm_seed.sh) using the
# round's own scratch worktree /tmp/wt/<tag>-<prop>; the properties run in parallel.  Prints one line per seed.
tag="$1"; first="$2"; cnt="$3"; shift 3
cd /verif
for P in "$@"; do
  (
  for i in $(seq 1 $cnt); do
    n=$((first+i-1)); d=seeded/$P-$n
    [ -f /tmp/wt/$tag-$P/seeds/$i/patch.diff ] || { echo "$P-$n MISSING"; continue; }
    mkdir -p $d; cp /tmp/wt/$tag-$P/seeds/$i/{patch.diff,demo.rs,meta.json} $d/
    tools/confirm_seed.sh /verif/$d /tmp/wt/$tag-$P > /dev/null 2>&1
    c=$(grep "with patch" $d/confirm.txt | grep -c "FAILED"); s=$(grep -c "67 passed" $d/confirm.txt); o=$(grep "without patch" $d/confirm.txt | grep -c "ok\.")
    echo "$P-$n confirm(demo fails with patch=$c suite ok=$s demo ok at head=$o)"
  done
  ) &
  while [ $(jobs -r | wc -l) -ge 6 ]; do sleep 1; done
done
wait
