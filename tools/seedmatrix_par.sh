#!/bin/bash
# usage: tools/seedmatrix_par.sh <workers> [seed-dir-glob]
# Runs every stored seeded change against the quick check of its own property, in <workers> parallel
# sandboxes (copies of /repo and /verif under /tmp/mx, removed afterwards).  /repo itself is not touched.
# Output: /tmp/seedmatrix.par.log, one line per seed: <seed> <first result line>
W="${1:-4}"; GLOB="${2:-*}"
MX=/tmp/mx; rm -rf $MX; mkdir -p $MX
cd /verif
ls -d seeded/$GLOB/ | sed 's#seeded/##; s#/##' | sort -V > $MX/all.txt
split -n r/$W -d $MX/all.txt $MX/part.
for k in $(seq 0 $((W-1))); do
  part=$MX/part.$(printf '%02d' $k); [ -s $part ] || continue
  (
    w=$MX/w$k; mkdir -p $w
    git clone -q /repo $w/repo
    rsync -a --exclude .git --exclude evidence/replays /verif/ $w/verif/
    sed -i "s#path = \"/repo\"#path = \"$w/repo\"#" $w/verif/harness/Cargo.toml
    sed -i "s#/verif/.cache/harness-target#$w/verif/.cache/harness-target#" $w/verif/harness/.cargo/config.toml
    export VERIF_REPO=$w/repo
    while read s; do
      P=${s%%-*}
      if ! git -C $w/repo apply /verif/seeded/$s/patch.diff 2>/dev/null; then echo "$s DOES-NOT-APPLY"; continue; fi
      r=$(cd $w/verif && timeout 1800 python3 tools/check.py $P --tier quick 2>&1 | grep -E "^(VIOLATION|OK|CHECK-BROKEN)" | head -1 | cut -c1-120)
      echo "$s ${r:-NO-RESULT}"
      git -C $w/repo checkout -q -- .
    done < $part > $MX/out.$k 2>&1
  ) &
done
wait
cat $MX/out.* | sort -V > /tmp/seedmatrix.par.log
rm -rf $MX
echo "matrix done: $(wc -l < /tmp/seedmatrix.par.log) seeds, $(grep -c ' VIOLATION' /tmp/seedmatrix.par.log) caught, $(grep -vc ' VIOLATION' /tmp/seedmatrix.par.log) not"
