"""Shared machinery of the checks: building, running impl (Rust harness) and model (Lean driver)
side by side, theorem audit, evidence, violations, known findings."""
import binascii, fcntl, json, os, re, subprocess, sys, time, tempfile, shutil

VERIF = os.path.dirname(os.path.dirname(os.path.abspath(__file__)))
REPO = os.environ.get('VERIF_REPO', '/repo')
LEAN = os.path.join(VERIF, 'lean')
HARNESS = os.path.join(VERIF, '.cache', 'harness-target', 'debug', 'harness')
DRIVER = os.path.join(LEAN, '.lake', 'build', 'bin', 'avra_driver')
EVIDENCE = os.path.join(VERIF, 'evidence')
REPLAYS = os.path.join(EVIDENCE, 'replays')
ALLOWED_AXIOMS = {'propext', 'Classical.choice', 'Quot.sound'}
ENV = dict(os.environ, CARGO_NET_OFFLINE='true')

def hx(s):
    if isinstance(s, str):
        s = s.encode('utf-8')
    return binascii.hexlify(s).decode() if s else '-'

def unhx(h):
    return b'' if h == '-' else binascii.unhexlify(h)

class Lock:
    """serialises the shared build steps (cargo, gen, lake) between concurrently running checks"""
    def __enter__(self):
        os.makedirs(os.path.join(VERIF, '.cache'), exist_ok=True)
        self.f = open(os.path.join(VERIF, '.cache', 'build.lock'), 'w')
        fcntl.flock(self.f, fcntl.LOCK_EX)
        return self
    def __exit__(self, *a):
        fcntl.flock(self.f, fcntl.LOCK_UN)
        self.f.close()

class BuildBroken(Exception):
    pass

def sh(cmd, cwd=None, timeout=3600, inp=None):
    p = subprocess.run(cmd, cwd=cwd, capture_output=True, text=True, timeout=timeout, input=inp, env=ENV)
    return p.returncode, p.stdout, p.stderr

def build_harness():
    rc, out, err = sh(['cargo', 'build'], cwd=os.path.join(VERIF, 'harness'))
    if rc != 0:
        raise BuildBroken('cargo build of the harness against /repo failed:\n' + err[-3000:])

def build_cli():
    """the real avra-rs binary, from /repo's working tree, into /verif/.cache (C18)"""
    tgt = os.path.join(VERIF, '.cache', 'repo-target')
    rc, out, err = sh(['cargo', 'build', '--offline', '--bin', 'avra-rs', '--target-dir', tgt], cwd=REPO)
    if rc != 0:
        raise BuildBroken('cargo build of avra-rs failed:\n' + err[-3000:])
    return os.path.join(tgt, 'debug', 'avra-rs')

def run_gen():
    rc, out, err = sh([sys.executable, os.path.join(VERIF, 'tools', 'gen.py')])
    return rc, out + err

def lake_build(targets):
    """returns (ok, log)"""
    rc, out, err = sh(['lake', 'build'] + targets, cwd=LEAN, timeout=7200)
    return rc == 0, out + err

def theorems_of(prop):
    """names of the theorems stated in Avra/Props/<prop>.lean (or any Props file name)"""
    src = open(os.path.join(LEAN, 'Avra', 'Props', prop + '.lean')).read()
    # strip comments
    src_nc = re.sub(r'/-.*?-/', '', src, flags=re.S)
    src_nc = re.sub(r'--.*', '', src_nc)
    names = re.findall(r'^\s*theorem\s+([A-Za-z0-9_.\']+)', src_nc, flags=re.M)
    ns = re.search(r'^namespace\s+(\S+)', src_nc, flags=re.M)
    prefix = ns.group(1) + '.' if ns else ''
    return [prefix + n for n in names], src_nc

FORBIDDEN = re.compile(r'\b(sorry|admit|native_decide|bv_decide|implemented_by|unsafe)\b|^\s*axiom\s|maxHeartbeats\s+0\b', re.M)

def source_audit():
    """grep the whole development (outside comments) for forbidden constructs"""
    hits = []
    for root, _, files in os.walk(os.path.join(LEAN, 'Avra')):
        for f in files:
            if f.endswith('.lean'):
                p = os.path.join(root, f)
                src = open(p).read()
                src = re.sub(r'/-.*?-/', '', src, flags=re.S)
                src = re.sub(r'--.*', '', src)
                for m in FORBIDDEN.finditer(src):
                    hits.append((os.path.relpath(p, LEAN), m.group(0).strip()))
    return hits

def axiom_audit(prop, files=None):
    """#print axioms on every theorem of the property file (and of the other Props files it
    rests on); returns {theorem: [axioms]} and the list of theorems whose axioms are not allowed"""
    names = []
    for f in (files or [prop]):
        names += theorems_of(f)[0]
    audit = os.path.join(VERIF, '.cache', f'Audit{prop}.lean')
    with open(audit, 'w') as f:
        for g in (files or [prop]):
            f.write(f'import Avra.Props.{g}\n')
        for n in names:
            f.write(f'#print axioms {n}\n')
    rc, out, err = sh(['lake', 'env', 'lean', audit], cwd=LEAN, timeout=1800)
    res = {}
    text = out + err
    for m in re.finditer(r"'(\S+?)' depends on axioms: \[([^\]]*)\]", text, flags=re.S):
        res[m.group(1)] = [a.strip() for a in m.group(2).replace('\n', ' ').split(',') if a.strip()]
    for m in re.finditer(r"'(\S+?)' does not depend on any axioms", text):
        res[m.group(1)] = []
    bad = []
    for n in names:
        if n not in res:
            bad.append((n, 'not found by #print axioms'))
        else:
            extra = [a for a in res[n] if a not in ALLOWED_AXIOMS]
            if extra:
                bad.append((n, 'axioms: ' + ', '.join(extra)))
    return names, res, bad

def run_lines(binary, lines, mode='run', timeout=3600, env=None):
    """feed protocol lines; returns {id: result string}"""
    p = subprocess.run([binary] + ([mode] if mode else []), input='\n'.join(lines) + '\n', capture_output=True,
                       text=True, timeout=timeout, env=env or ENV)
    res = {}
    for l in p.stdout.splitlines():
        i = l.find(' ')
        if i > 0:
            res[l[:i]] = l[i + 1:]
    return res, p.returncode, p.stderr

def run_impl(cases, extra_env=None):
    """cases: list of (id, kind, payload)"""
    env = dict(ENV)
    scratch = tempfile.mkdtemp(prefix='avra-verif-')
    env['HARNESS_SCRATCH'] = scratch
    if extra_env:
        env.update(extra_env)
    try:
        res, rc, err = run_lines(HARNESS, [f'{i} {k} {p}' for i, k, p in cases], env=env)
    finally:
        shutil.rmtree(scratch, ignore_errors=True)
    if rc != 0:
        # the process died (stack overflow / abort): find the culprit by running one by one
        res['__died__'] = f'rc={rc} {err[-300:]}'
    return res

def run_model(cases, prelude=None):
    lines = list(prelude or []) + [f'{i} {k} {p}' for i, k, p in cases]
    res, rc, err = run_lines(DRIVER, lines, mode=None)
    if rc != 0:
        res['__died__'] = f'rc={rc} {err[-300:]}'
    return res

def cwd_prelude():
    return ['CWD ' + hx(os.getcwd())]

def write_replay(prop, name, obj):
    os.makedirs(REPLAYS, exist_ok=True)
    path = os.path.join(REPLAYS, f'{prop}-{name}.json')
    with open(path, 'w') as f:
        json.dump(obj, f, indent=1)
    return path

def load_known():
    p = os.path.join(VERIF, 'known_findings.json')
    if not os.path.exists(p):
        return []
    return json.load(open(p))['findings']

def write_evidence(prop, tier, seed, coverage, wall, violations, assumptions):
    os.makedirs(EVIDENCE, exist_ok=True)
    ev = {
        'property_id': prop, 'tier': tier, 'seed': seed, 'level': 'proof',
        'coverage': coverage, 'assumptions': assumptions, 'wall_s': round(wall, 2),
        'violations': violations,
    }
    with open(os.path.join(EVIDENCE, prop + '.json'), 'w') as f:
        json.dump(ev, f, indent=1)

TRUSTED_BASE = [
    'Lean 4.33.0 kernel; axioms allowed in property theorems: propext, Classical.choice, Quot.sound (audited by #print axioms on every theorem of the property file on every run)',
    'no sorry/admit/native_decide/bv_decide/implemented_by/unsafe/own axioms in /verif/lean (grep audit on every run)',
    'hand-written Lean model of the Rust code (Avra/Model/*), tied to /repo by (a) Gen tables re-extracted by executing the real library on every run and (b) the differential correspondence run of this check',
    'spec transcriptions (Avra/Isa, Avra/Spec): AVR instruction patterns, operator table, Intel HEX format',
    'the extractors (harness extract, tools/gen.py), the harness/driver I/O and the generators of this check',
    'Lean compiler/runtime for the driver executable; rustc/cargo for the harness',
]
