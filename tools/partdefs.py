"""Static parse of /repo/includes/*def.inc: device name and the four memory figures declared by
`#pragma AVRPART MEMORY ...`.  Used by gen.py (Gen/PartDefs.lean) -- property C12."""
import glob, os, re

def parse_int(t):
    t = t.strip()
    return int(t, 16) if t.lower().startswith('0x') else int(t)

def partdefs(repo='/repo'):
    rows = []
    for f in sorted(glob.glob(os.path.join(repo, 'includes', '*.inc'))):
        dev = None
        fig = {}
        for line in open(f, encoding='latin-1'):
            m = re.match(r'\s*\.device\s+(\w+)', line)
            if m and dev is None:
                dev = m.group(1)
            m = re.match(r'\s*#pragma\s+AVRPART\s+MEMORY\s+(PROG_FLASH|EEPROM|INT_SRAM\s+SIZE|INT_SRAM\s+START_ADDR)\s+(\S+)', line)
            if m:
                key = re.sub(r'\s+', '_', m.group(1))
                fig[key] = parse_int(m.group(2))
        if dev and len(fig) == 4:
            rows.append((os.path.basename(f), dev, fig['PROG_FLASH'], fig['EEPROM'], fig['INT_SRAM_SIZE'], fig['INT_SRAM_START_ADDR']))
    return rows

if __name__ == '__main__':
    for r in partdefs():
        print(*r)
