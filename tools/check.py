#!/usr/bin/env python3
"""check.py <Cxx> [--tier quick|thorough] [--replay FILE]

One run =
  1. rebuild the harness against /repo's working tree, re-extract Avra/Gen/*.lean,
  2. `lake build Avra.Props.<Cxx> avra_driver avra_spec` (re-checks every theorem of the property
     against what the code says now), axiom audit, forbidden-construct audit,
  3. correspondence run (impl vs model on the property's generator stream) and property oracle
     (impl vs independent spec),
  4. evidence; on any break: search for a concrete failing input; VIOLATION line; exit 1.
"""
import argparse, importlib, json, os, re, sys, time, traceback
sys.path.insert(0, os.path.dirname(os.path.abspath(__file__)))
import vlib

def enclosing_theorem(path, lineno):
    try:
        lines = open(path).read().splitlines()
    except OSError:
        return None
    for i in range(min(lineno, len(lines)) - 1, -1, -1):
        m = re.match(r'\s*(theorem|example|def|lemma)\s+([A-Za-z0-9_.\']+)?', lines[i])
        if m:
            return (m.group(2) or 'example') + f' (line {i + 1})'
    return None

def broken_obligations(log):
    out = []
    for m in re.finditer(r'error: (Avra/[^:]+\.lean):(\d+):(\d+): (.*)', log):
        f, ln, _, msg = m.groups()
        th = enclosing_theorem(os.path.join(vlib.LEAN, f), int(ln))
        out.append({'file': f, 'line': int(ln), 'theorem': th, 'message': msg[:300]})
    return out

def main():
    ap = argparse.ArgumentParser()
    ap.add_argument('prop')
    ap.add_argument('--tier', default=os.environ.get('VERIF_TIER', 'quick'))
    ap.add_argument('--replay')
    a = ap.parse_args()
    prop = a.prop
    tier = a.tier if a.tier in ('quick', 'thorough') else 'quick'
    seed = int(os.environ.get('VERIF_SEED', '1'))
    os.chdir(vlib.VERIF)
    mod = importlib.import_module('props.' + prop.lower())
    t0 = time.time()

    breaks = []          # things that no longer check (theorem / Gen obligation / correspondence)
    build_log = ''
    try:
        with vlib.Lock():
            vlib.build_harness()
            if getattr(mod, 'NEEDS_CLI', False):
                vlib.build_cli()
            rc, glog = vlib.run_gen()
            if rc != 0:
                breaks.append({'kind': 'gen', 'what': 'extraction of Gen tables from /repo failed', 'log': glog[-2000:]})
            ok, build_log = vlib.lake_build(['avra_spec'])
            if not ok:
                raise vlib.BuildBroken('the independent spec executable does not build:\n' + build_log[-3000:])
            ok_drv, log_drv = vlib.lake_build(['avra_driver'])
            if not ok_drv:
                for b in broken_obligations(log_drv):
                    breaks.append({'kind': 'model-build', 'what': f"model no longer compiles against regenerated Gen: {b['file']}:{b['line']} {b['message']}"})
                if not broken_obligations(log_drv):
                    breaks.append({'kind': 'model-build', 'what': 'lake build avra_driver failed', 'log': log_drv[-2000:]})
            ok, build_log = vlib.lake_build([f'Avra.Props.{tf}' for tf in getattr(mod, 'THEOREM_FILES', [prop])])
            if not ok:
                bl = broken_obligations(build_log)
                for b in bl:
                    breaks.append({'kind': 'theorem', 'what': f"{b['theorem'] or b['file']} no longer checks ({b['file']}:{b['line']}: {b['message']})"})
                if not bl:
                    breaks.append({'kind': 'theorem', 'what': 'lake build of the property file failed', 'log': build_log[-2000:]})
            names, axioms, bad = ([], {}, [])
            if ok:
                names, axioms, bad = vlib.axiom_audit(prop, getattr(mod, 'THEOREM_FILES', None))
                for n, why in bad:
                    breaks.append({'kind': 'axiom', 'what': f'theorem {n}: {why}'})
            for f, h in vlib.source_audit():
                breaks.append({'kind': 'forbidden', 'what': f'{f}: {h}'})
            # thorough tier: the compiled property modules are replayed through Lean's independent re-checker
            if ok and tier == 'thorough':
                for tf in getattr(mod, 'THEOREM_FILES', [prop]):
                    rc, out, err = vlib.sh(['lake', 'env', 'leanchecker', f'Avra.Props.{tf}'], cwd=vlib.LEAN)
                    if rc != 0:
                        breaks.append({'kind': 'theorem', 'what': f'leanchecker rejects Avra.Props.{tf}: {(out + err)[-300:]}'})
    except vlib.BuildBroken as e:
        print('CHECK-BROKEN: ' + str(e)[:3000])
        sys.exit(2)

    if a.replay:
        rep = json.load(open(a.replay))
        mod.replay(rep)
        return

    # correspondence + oracle
    model_ok = not any(b['kind'] == 'model-build' for b in breaks)
    try:
        res = mod.run(tier, seed, model_ok)
    except Exception:
        traceback.print_exc()
        print('CHECK-BROKEN: exception in the correspondence run')
        sys.exit(2)
    # first stage of the correspondence: the corpus of source texts taken from the demonstrations of the stored seeded
    # changes of this property (tools/seedcorpus.py), impl vs model
    try:
        import seedcorpus
        if model_ok:
            ents = seedcorpus.load(prop)
            n_c, dis_c, cnt_c = seedcorpus.compare(ents)
            res['evaluations'] = res.get('evaluations', 0) + n_c
            res.setdefault('distribution', {})['seed_demo_corpus'] = {'sources': n_c, 'outcomes': dict(cnt_c), 'impl_vs_model_disagreements': len(dis_c)}
            res['disagreements'] = [{'corpus': 'seed demonstrations', **d} for d in dis_c] + list(res.get('disagreements', []))
    except Exception:
        traceback.print_exc()
        print('CHECK-BROKEN: exception in the seed-corpus stage')
        sys.exit(2)
    # res: dict(evaluations, distinct_nontrivial, rule, samples, exhaustive, distribution,
    #           disagreements=[{case, impl, model}], violations=[{what, case, impl, expected, key}])
    for d in res.get('disagreements', [])[:50]:
        breaks.append({'kind': 'correspondence', 'what': 'impl and model disagree', 'case': d})

    known = [k for k in vlib.load_known() if k['property'] == prop and k['status'] == 'known']
    viol = []
    known_hit = {}
    for v in res.get('violations', []):
        k = next((k for k in known if mod.matches_known(k, v)), None) if hasattr(mod, 'matches_known') else None
        if k is not None:
            known_hit[k['id']] = k
        else:
            viol.append(v)

    n_theorems = len(names)
    n_bad = len({b['what'] for b in breaks if b['kind'] in ('theorem', 'axiom')})
    coverage = {
        'obligations': max(n_theorems, 1) if ok else max(sum(len(vlib.theorems_of(f)[0]) for f in getattr(mod, 'THEOREM_FILES', [prop])), 1),
        'discharged': n_theorems - len(bad) if ok else 0,
        'checker_cmd': f'cd /verif/lean && lake build ' + ' '.join('Avra.Props.' + tf for tf in getattr(mod, 'THEOREM_FILES', [prop])) + f' && lake env lean /verif/.cache/Audit{prop}.lean   (kernel check of every theorem + #print axioms)',
        'trusted_base': vlib.TRUSTED_BASE + getattr(mod, 'TRUSTED_EXTRA', []),
        'theorems': names,
        'axioms_used': sorted({x for v in axioms.values() for x in v}),
        'evaluations': res.get('evaluations', 0),
        'distinct_nontrivial': res.get('distinct_nontrivial', 0),
        'rule': res.get('rule', ''),
        'samples': res.get('samples', []),
        'exhaustive': bool(res.get('exhaustive', False)),
        'distribution': res.get('distribution', {}),
        'impl_vs_model_disagreements': len(res.get('disagreements', [])),
        'impl_vs_spec_violations': len(res.get('violations', [])),
        'known_findings_seen': sorted(known_hit),
        'broken_obligations': [b['what'] for b in breaks][:20],
    }
    rc = 0
    for kid, k in sorted(known_hit.items()):
        print(f"KNOWN-FINDING: property={prop} {k['what']}")
    if viol:
        v = viol[0]
        path = vlib.write_replay(prop, 'violation', {'property': prop, 'kind': 'impl-violates-spec', 'violation': v,
                                                     'broken': [b['what'] for b in breaks][:10], 'seed': seed, 'tier': tier,
                                                     'others': viol[1:10]})
        print(f"VIOLATION property={prop} replay={path}")
        rc = 1
    elif breaks:
        # something no longer checks; search for a concrete failing input
        found = None
        if hasattr(mod, 'search'):
            try:
                found = mod.search(breaks, tier, seed)
            except Exception:
                traceback.print_exc()
        if found and not (hasattr(mod, 'matches_known') and any(mod.matches_known(k, found) for k in known)):
            path = vlib.write_replay(prop, 'violation', {'property': prop, 'kind': 'impl-violates-spec', 'violation': found,
                                                         'broken': [b['what'] for b in breaks][:10], 'seed': seed, 'tier': tier})
            print(f"VIOLATION property={prop} replay={path}")
        else:
            path = vlib.write_replay(prop, 'unproved', {'property': prop, 'kind': 'no-longer-shown-to-hold',
                                                        'no_longer_checks': breaks[:20], 'seed': seed, 'tier': tier})
            print(f"VIOLATION property={prop} replay={path} no-failing-input-found")
        rc = 1
    vlib.write_evidence(prop, tier, seed, coverage, time.time() - t0, len(viol) + (1 if (breaks and not viol) else 0),
                        getattr(mod, 'ASSUMPTIONS', []))
    if rc == 0:
        print(f'OK property={prop} theorems={n_theorems} evaluations={coverage["evaluations"]} wall={time.time()-t0:.1f}s')
    sys.exit(rc)

if __name__ == '__main__':
    main()
