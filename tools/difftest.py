#!/usr/bin/env python3
"""ad-hoc whole-program differential run (model vs impl) used while developing the model"""
import sys, os, time
sys.path.insert(0, os.path.dirname(__file__))
import vlib
from genprog import Gen
seed = int(sys.argv[1]) if len(sys.argv) > 1 else 1
n = int(sys.argv[2]) if len(sys.argv) > 2 else 2000
g = Gen(seed)
cases = []
srcs = {}
for i in range(n):
    nl = g.r.choice(['\n', '\n', '\r\n'])
    src = nl.join(g.program(g.r.randrange(1, 25))) + g.r.choice(['', nl])
    srcs[str(i)] = src
    cases.append((str(i), 'B', vlib.hx(src)))
t = time.time()
a = vlib.run_impl(cases)
t1 = time.time()
b = vlib.run_model(cases, vlib.cwd_prelude())
t2 = time.time()
bad = [i for i in srcs if a.get(i) != b.get(i)]
from collections import Counter
print('impl %.1fs model %.1fs' % (t1 - t, t2 - t1), 'cases', n, 'disagree', len(bad), Counter(v.split()[0] for v in a.values()))
for i in bad[:int(os.environ.get('SHOW', '3'))]:
    print('-----', i); print(srcs[i]); print('impl :', a.get(i, '?')[:300]); print('model:', b.get(i, '?')[:300])
if '__died__' in a: print('impl died', a['__died__'])
if '__died__' in b: print('model died', b['__died__'])
