#!/bin/bash
# usage: tools/seedmatrix.sh [pattern]  — runs every stored seeded change against the quick check of its own property
# (apply, check, restore) and prints one line per seed.  Never commits anything in /repo.
cd /verif
for d in $(ls -d seeded/${1:-C}*-* | sort -t- -k1,1 -k2,2n); do
  b=$(basename $d); p=${b%%-*}
  r=$(bash tools/seedtest.sh /verif/$d/patch.diff $p 2>&1 | grep -E "^(VIOLATION|OK|CHECK|patch)" | head -1 | cut -c1-60)
  echo "$b $r"
done
