#!/usr/bin/env python3
"""Regenerates /verif/lean/Avra/Gen/*.lean from /repo's current working tree.

 * tables extracted BY EXECUTION of the real library (harness `extract`): opcode/length table,
   branch/flag numbers, mnemonic keyword recognition, device table, device gate matrix, reg8
   recognition;
 * facts that are about the text itself, by static scan: the `precedence!{}` block and the
   keyword lists of document.rs, the part definition files includes/*def.inc.

Files are rewritten only when their content changes (keeps lake's cache warm).
Exit status 0 = generated; 3 = extraction itself failed (reported by check.py as a broken tie).
"""
import os, re, subprocess, sys
sys.path.insert(0, os.path.dirname(__file__))
from partdefs import partdefs

REPO = os.environ.get('VERIF_REPO', '/repo')
VERIF = os.path.dirname(os.path.dirname(os.path.abspath(__file__)))
GEN = os.path.join(VERIF, 'lean', 'Avra', 'Gen')
HARNESS = os.path.join(VERIF, '.cache', 'harness-target', 'debug', 'harness')

LEAN_KW = {'in', 'break', 'def', 'include', 'macro', 'else', 'if', 'set', 'end', 'at', 'from', 'do', 'then', 'open', 'or', 'and'}

def chars(s):
    def one(c):
        if c == "'": return "'\\''"
        if c == '\\': return "'\\\\'"
        return "'" + c + "'"
    return '[' + ', '.join(one(c) for c in s) + ']' if s else '([] : List Char)'

def ctor(prefix, name):
    n = name[0].lower() + name[1:]
    n = n.lower() if prefix in ('Op', 'BranchT', 'SFlag') else n
    if n in ('in', 'break'):
        return f'{prefix}.«{n}»'
    return f'{prefix}.{n}'

def op_lean(dbg):
    m = re.match(r'^(Br|Se|Cl)\((\w+)\)$', dbg)
    if m:
        inner = ctor('BranchT' if m.group(1) == 'Br' else 'SFlag', m.group(2))
        return f'(Op.{m.group(1).lower()} {inner})'
    m = re.match(r'^Custom\("(.*)"\)$', dbg)
    if m:
        return f'(Op.custom {chars(m.group(1))})'
    return ctor('Op', dbg)

def disopt_lean(n):
    return 'DisOpt.' + n[0].lower() + n[1:]

def scan_grammar():
    """static scan of document.rs: keyword lists and the precedence block"""
    src = open(os.path.join(REPO, 'src', 'document.rs')).read()
    def rule_strings(name):
        m = re.search(r'rule\s+%s\(\)[^=]*=\s*\$\((.*?)\)\s*\n\s*\n' % name, src, re.S)
        if not m:
            raise SystemExit(f'gen: cannot find rule {name} in document.rs')
        return re.findall(r'"([^"]+)"', m.group(1))
    kws = {'op': rule_strings('op'), 'branc_op': rule_strings('branc_op'), 'flag_op': rule_strings('flag_op')}
    m = re.search(r'precedence!\s*\{(.*?)\n\s*\}\s*\n\s*\n\s*rule branc_op', src, re.S)
    if not m:
        raise SystemExit('gen: cannot find precedence block')
    levels = [[]]
    atoms = []
    prefix_space = []
    for line in m.group(1).splitlines():
        t = line.strip()
        if not t or t.startswith('//'):
            continue
        if t == '--':
            levels.append([])
            continue
        mi = re.match(r'x:(\(@\)|@)\s+space\(\)\s+"([^"]+)"\s+space\(\)\s+y:(\(@\)|@)\s*\{.*BinaryOperator::(\w+).*\}$', t)
        mp = re.match(r'"([^"]+)"\s+(space\(\)\s+)?v:(\(@\)|@)\s*\{.*UnaryOperator::(\w+).*\}$', t)
        if mi:
            la, text, ra, name = mi.groups()
            if (la, ra) == ('(@)', '@'):
                kind = 'infixL'
            elif (la, ra) == ('@', '(@)'):
                kind = 'infixR'
            else:
                raise SystemExit('gen: unsupported associativity markers: ' + t)
            levels[-1].append((kind, text, name))
        elif mp:
            text, sp, mark, name = mp.groups()
            prefix_space.append(bool(sp))
            levels[-1].append(('prefixSame' if mark == '(@)' else 'prefixUp', text, name))
        else:
            atoms.append(re.sub(r'\s+', ' ', t))
            levels[-1].append(('atom', t, ''))
    if len(set(prefix_space)) > 1:
        raise SystemExit('gen: prefix operators differ in whether blanks may follow them; the model has one flag')
    kws['prefix_space'] = bool(prefix_space and prefix_space[0])
    import hashlib
    g = re.search(r'parser!\s*\{(.*?)\n\}\s*\n\s*#\[cfg\(test\)\]', src, re.S)
    if not g:
        raise SystemExit('gen: cannot delimit the parser! block')
    body = g.group(1).replace(m.group(1), '')
    for nm in ('op', 'branc_op', 'flag_op'):
        body = re.sub(r'rule\s+%s\(\)[^=]*=\s*\$\((.*?)\)\s*\n\s*\n' % nm, '', body, flags=re.S)
    body = re.sub(r'//[^\n"]*\n', '\n', body)
    body = re.sub(r'\s+', '', body)
    kws['digest'] = int(hashlib.sha256(body.encode()).hexdigest()[:15], 16)
    return kws, levels, atoms

BINOPS = {'Add': 'add', 'Sub': 'sub', 'Mul': 'mul', 'Div': 'div', 'Rem': 'rem', 'BitwiseAnd': 'band',
          'BitwiseXor': 'bxor', 'BitwiseOr': 'bor', 'ShiftLeft': 'shl', 'ShiftRight': 'shr', 'LessThan': 'lt',
          'LessOrEqual': 'le', 'GreaterThan': 'gt', 'GreaterOrEqual': 'ge', 'Equal': 'eq', 'NotEqual': 'ne',
          'LogicalAnd': 'land', 'LogicalOr': 'lor'}
UNOPS = {'Minus': 'minus', 'BitwiseNot': 'bnot', 'LogicalNot': 'lnot'}

EXPECTED_ATOMS = [
    'n:e_ident() space() "(" space() args:expr() space() ")" { Expr::Func(Box::new(n), Box::new(args)) }',
    '"(" space() be:expr() space() ")" { be }',
    'c:e_const() { c }',
    'c:ch() { Expr::Const(c as i64) }',
    'i:e_ident() { i }',
]

GLOBAL_PATTERNS = [r'\bstatic\s+(mut\s+)?\w+\s*:', r'lazy_static!', r'thread_local!', r'\bOnce(Lock|Cell)\b', r'\bLazy(Lock|Cell)?\s*<',
                   r'\bAtomic[A-Z]\w*', r'\b(Mutex|RwLock)\s*<', r'static\s+ref\b', r'\bunsafe\b']
AMBIENT_PATTERNS = [r'SystemTime', r'Instant::', r'\brand::', r'thread_rng', r'env::vars?\b', r'env::args', r'process::id', r'env::current_dir',
                    r'RandomState', r'getrandom', r'DefaultHasher', r'thread::spawn', r'available_parallelism',
                    r'config_dir\s*\(', r'home_dir\s*\(', r'\bdirs::', r'get_standard_includes\s*\(', r'temp_dir\s*\(', r'hostname', r'\bgetenv\b']
ITER_METHODS = r'\.(iter|keys|values|into_iter|drain|iter_mut|values_mut|retain|into_keys|into_values)\('

def rust_sources():
    out = []
    for root, _, files in os.walk(os.path.join(REPO, 'src')):
        for f in sorted(files):
            if f.endswith('.rs'):
                out.append(os.path.join(root, f))
    bp = os.path.join(REPO, 'build.rs')
    return sorted(out) + ([bp] if os.path.exists(bp) else [])

def strip_rust(text):
    """drop the unit-test module and comments (string contents are kept)"""
    k = text.find('#[cfg(test)]')
    if k >= 0:
        text = text[:k]
    text = re.sub(r'/\*.*?\*/', '', text, flags=re.S)
    return '\n'.join(re.sub(r'//.*$', '', l) for l in text.splitlines())

def scan_globals():
    """inventory for C17: process-wide state, ambient inputs, iteration over unordered containers"""
    glob, amb, iters = [], [], []
    for path in rust_sources():
        rel = os.path.relpath(path, REPO)
        text = strip_rust(open(path).read())
        names = set()
        for m in re.finditer(r'(\w+)\s*:\s*[^,;\n(){}]*\bHash(Map|Set)\s*<', text): names.add(m.group(1))
        for m in re.finditer(r'let\s+(?:mut\s+)?(\w+)[^=;\n]*=\s*[^;\n]*(HashMap|HashSet|hashmap!|hashset!)', text): names.add(m.group(1))
        for l in text.splitlines():
            t = ' '.join(l.split())
            if not t: continue
            if any(re.search(p, t) for p in GLOBAL_PATTERNS): glob.append((rel, t))
            if any(re.search(p, t) for p in AMBIENT_PATTERNS): amb.append((rel, t))
        # iteration: on the text with all white space collapsed, so that a method chain broken over lines is one piece;
        # within one statement (no ; { } in between)
        flat = ' '.join(text.split())
        for n in sorted(names):
            for m in re.finditer(r'\b%s\b[^;{}]{0,120}?%s' % (re.escape(n), ITER_METHODS), flat):
                iters.append((rel, flat[max(0, m.start() - 20):m.end() + 20]))
            for m in re.finditer(r'\bfor\b[^;{}]{0,80}?\bin\b[^;{}]{0,80}?\b%s\b' % re.escape(n), flat):
                iters.append((rel, flat[max(0, m.start() - 5):m.end() + 20]))
    return glob, amb, iters

def lean_str(s):
    return '"' + s.replace('\\', '\\\\').replace('"', '\\"') + '"'

def write_globals():
    import hashlib
    glob, amb, iters = scan_globals()
    def dig(l): return int(hashlib.sha256(repr(l).encode()).hexdigest()[:15], 16)
    out = ['/- GENERATED by tools/gen.py from /repo/src (static scan, unit-test modules and comments removed). DO NOT EDIT. -/',
           'namespace Avra.Gen', '',
           '/-- process-wide state: `static`, lazy_static!, thread_local!, Once*/Lazy*, atomics, locks, unsafe -/',
           'def globalState : List (String × String) := [' + ', '.join('(%s, %s)' % (lean_str(a), lean_str(b)) for a, b in glob) + ']',
           f'def globalStateDigest : Nat := {dig(glob)}', '',
           '/-- ambient inputs: time, randomness, environment, hashing state, threads -/',
           'def ambientInputs : List (String × String) := [' + ', '.join('(%s, %s)' % (lean_str(a), lean_str(b)) for a, b in amb) + ']',
           f'def ambientInputsDigest : Nat := {dig(amb)}', '',
           '/-- iteration over HashMap / HashSet values (the only unordered containers of std) -/',
           'def unorderedIterations : List (String × String) := [' + ', '.join('(%s, %s)' % (lean_str(a), lean_str(b)) for a, b in iters) + ']',
           f'def unorderedIterationsDigest : Nat := {dig(iters)}', '',
           'end Avra.Gen']
    write_if_changed(os.path.join(GEN, 'Globals.lean'), '\n'.join(out) + '\n')
    return glob, amb, iters

def write_if_changed(path, text):
    old = open(path).read() if os.path.exists(path) else None
    if old != text:
        with open(path, 'w') as f:
            f.write(text)

def main():
    os.makedirs(GEN, exist_ok=True)
    kws, levels, atoms = scan_grammar()
    cand = set(kws['op'])
    cand |= {'br' + b for b in kws['branc_op']} | {'se' + f for f in kws['flag_op']} | {'cl' + f for f in kws['flag_op']}
    # ISA mnemonics the spec knows (so a keyword dropped from the grammar is noticed), plus decoys
    isa = open(os.path.join(VERIF, 'tools', 'isa_mnemonics.txt')).read().split()
    cand |= set(isa)
    cand |= {'foo', 'addx', 'subx', 'brxx', 'sex', 'clx', 'b', 'se', 'cl', 'br', 'ldx', 'stx', 'inx', 'r', 'r1', 'x'}
    cand = sorted(cand)
    # directive names: every variant of `enum Directive` (static scan), lower-cased as strum serialises them,
    # plus the names the model was written with and decoys
    dsrc = open(os.path.join(REPO, 'src', 'directive.rs')).read()
    m = re.search(r'pub enum Directive\s*\{(.*?)\n\}', dsrc, re.S)
    if not m:
        raise SystemExit('gen: cannot find enum Directive')
    body = re.sub(r'///[^\n]*', '', m.group(1))
    body = re.sub(r'#\[[^\]]*\]', '', body)
    variants = re.findall(r'\b([A-Z][A-Za-z0-9]*)\b\s*(?:\([^)]*\))?\s*,', body)
    dcand = {v.lower() for v in variants} | set('''byte cseg csegsize db def device dseg dw endm endmacro equ eseg exit include includepath list
        listmac macro nolist org set define else elif endif error if ifdef ifndef message dd dq undef warning overlap nooverlap pragma'''.split())
    dcand |= {'custom', 'nosuch', 'b', 'dbx', 'elseif', 'endmac', 'ifdefined', 'incl', 'mac', 'msg'}
    cand += ['@dir ' + d for d in sorted(dcand)]
    p = subprocess.run([HARNESS, 'extract'], input='\n'.join(cand) + '\n', capture_output=True, text=True)
    if p.returncode != 0:
        sys.stderr.write(p.stderr)
        raise SystemExit(3)
    rows = [l.split() for l in p.stdout.splitlines()]

    out = ['/- GENERATED by tools/gen.py from /repo (by executing the real library). DO NOT EDIT. -/',
           'import Avra.Ast', 'namespace Avra.Gen', 'open Avra', '']
    # keyword recognition
    out.append('/-- `document::operation(text)` for candidate spellings (lower and upper case). -/')
    out.append('def kwTable : List (Str × Op) := [')
    kw = [r for r in rows if r[0] == 'KW']
    out.append(',\n'.join(f'  ({chars(r[1])}, {op_lean(r[2])})' for r in kw if r[2] != '-'))
    out.append(']')
    out.append('')
    # directive names
    dirs = [r for r in rows if r[0] == 'DIR']
    dot = {r[1][1:]: r[2] for r in dirs if r[1][0] == '.'}
    hsh = {r[1][1:]: r[2] for r in dirs if r[1][0] == '#'}
    out.append('/-- `document::directive(".name")` for every candidate name that is a standard directive (the others parse to `Custom`) -/')
    out.append('def directiveTable : List (Str × Directive) := [')
    def dlean(v):
        n = v.lower()
        return 'Directive.«%s»' % n
    out.append(',\n'.join(f'  ({chars(k)}, {dlean(v)})' for k, v in sorted(dot.items()) if v not in ('Custom', '-')))
    out.append(']')
    out.append('')
    out.append('/-- `#name` reads like `.name` for every candidate -/')
    out.append(f'def hashLikeDot : Bool := {"true" if dot == hsh else "false"}')
    out.append('')
    out.append('/-- `Operation::info` : (operation, reduced core?, length in words, base opcode). -/')
    out.append('def infoTable : List (Op × Bool × Nat × Nat) := [')
    out.append(',\n'.join(f'  ({op_lean(r[1])}, {"true" if r[2]=="1" else "false"}, {r[3]}, {r[4]})' for r in rows if r[0] == 'INFO'))
    out.append(']')
    out.append('')
    out.append('def brNum : List (Op × Nat) := [')
    out.append(',\n'.join(f'  ({op_lean(r[1])}, {r[2]})' for r in rows if r[0] == 'BRNUM'))
    out.append(']')
    out.append('def sfNum : List (Op × Nat) := [')
    out.append(',\n'.join(f'  ({op_lean(r[1])}, {r[2]})' for r in rows if r[0] == 'SFNUM'))
    out.append(']')
    out.append('')
    out.append('/-- `document::reg8(text)`: register number, or none (rule fails). -/')
    out.append('def reg8Table : List (Str × Option Nat) := [')
    regs = [r for r in rows if r[0] == 'REG8']
    if any(r[2] == 'PANIC' for r in regs):
        out.append('  -- PANIC rows present')
    out.append(',\n'.join(f'  ({chars(r[1])}, {"none" if r[2] in ("-", "PANIC") else "some " + r[2]})' for r in regs))
    out.append(']')
    out.append(f'def reg8Panics : Nat := {sum(1 for r in regs if r[2] == "PANIC")}')
    out.append('')
    # depth limits (static scan of the constants)
    def const(path, name):
        m = re.search(r'const\s+%s\s*:\s*\w+\s*=\s*(\d+)\s*;' % name, open(os.path.join(REPO, path)).read())
        if not m:
            raise SystemExit(f'gen: constant {name} not found in {path}')
        return int(m.group(1))
    out.append('')
    out.append('/-- MAX_SYMBOL_DEPTH (expr.rs), MAX_MACRO_DEPTH (builder/pass0.rs), MAX_INCLUDE_DEPTH (parser.rs) -/')
    out.append(f'def maxSymbolDepth : Nat := {const("src/expr.rs", "MAX_SYMBOL_DEPTH")}')
    out.append(f'def maxMacroDepth : Nat := {const("src/builder/pass0.rs", "MAX_MACRO_DEPTH")}')
    out.append(f'def maxMacroLine : Nat := {const("src/builder/pass0.rs", "MAX_MACRO_LINE")}')
    out.append(f'def maxIncludeDepth : Nat := {const("src/parser.rs", "MAX_INCLUDE_DEPTH")}')
    out.append('end Avra.Gen')
    write_if_changed(os.path.join(GEN, 'Tables.lean'), '\n'.join(out) + '\n')

    # devices + gate
    out = ['/- GENERATED by tools/gen.py from /repo (by executing the real library). DO NOT EDIT. -/',
           'import Avra.Ast', 'namespace Avra.Gen', 'open Avra', '']
    def dev_lean(f):
        opts = [] if f[4] == '-' else f[4].split(',')
        return f'{{ flash := {f[0]}, ramStart := {f[1]}, ramSize := {f[2]}, eeprom := {f[3]}, opts := [{", ".join(disopt_lean(o) for o in opts)}] }}'
    dd = [r for r in rows if r[0] == 'DEFAULTDEV'][0]
    out.append(f'def defaultDevice : Device := {dev_lean(dd[1:])}')
    out.append('')
    out.append('/-- `DEVICES`, sorted by name. -/')
    out.append('def devices : List (Str × Device) := [')
    out.append(',\n'.join(f'  ({chars(r[1])}, {dev_lean(r[2:])})' for r in rows if r[0] == 'DEV'))
    out.append(']')
    out.append('')
    out.append('/-- `Device::check_operation` for every device × operation (one row list per device). -/')
    gate = {}
    for r in rows:
        if r[0] == 'GATE':
            gate.setdefault(r[1], []).append(r)
    for i, (dev, rs) in enumerate(gate.items()):
        out.append(f'def gateRow{i} : List (Op × Bool) := [')
        out.append(',\n'.join(f'  ({op_lean(r[2])}, {"true" if r[3]=="1" else "false"})' for r in rs))
        out.append(']')
    out.append('def gateMatrix : List (Str × List (Op × Bool)) := [')
    out.append(',\n'.join(f'  ({chars(dev)}, gateRow{i})' for i, dev in enumerate(gate)))
    out.append(']')
    out.append('def gateDefault : List (Op × Bool) := [')
    out.append(',\n'.join(f'  ({op_lean(r[1])}, {"true" if r[2]=="1" else "false"})' for r in rows if r[0] == 'GATE0'))
    out.append(']')
    out.append('')
    out.append('/-- includes/*def.inc: (file, device, flash bytes, eeprom bytes, sram size, sram start). -/')
    out.append('def partDefs : List (Str × Str × Nat × Nat × Nat × Nat) := [')
    out.append(',\n'.join(f'  ({chars(r[0])}, {chars(r[1])}, {r[2]}, {r[3]}, {r[4]}, {r[5]})' for r in partdefs(REPO)))
    out.append(']')
    out.append('')
    out.append('end Avra.Gen')
    write_if_changed(os.path.join(GEN, 'Devices.lean'), '\n'.join(out) + '\n')

    # grammar skeleton
    out = ['/- GENERATED by tools/gen.py from /repo/src/document.rs (static scan). DO NOT EDIT. -/',
           'import Avra.Ast', 'namespace Avra.Gen', 'open Avra', '']
    out.append('inductive OpKind | infixL (op : BinOp) | infixR (op : BinOp) | prefixSame (op : UnOp) | prefixUp (op : UnOp)')
    out.append('  deriving DecidableEq, Repr')
    out.append('')
    out.append('/-- the `precedence!{}` block: levels from loosest to tightest, entries in textual order. -/')
    out.append('def opLevels : List (List (Str × OpKind)) := [')
    lv = []
    for level in levels:
        ents = []
        for kind, text, name in level:
            if kind == 'atom':
                continue
            if kind.startswith('infix'):
                if name not in BINOPS:
                    raise SystemExit('gen: unknown BinaryOperator::' + name)
                ents.append(f'({chars(text)}, OpKind.{kind} BinOp.{BINOPS[name]})')
            else:
                if name not in UNOPS:
                    raise SystemExit('gen: unknown UnaryOperator::' + name)
                ents.append(f'({chars(text)}, OpKind.{kind} UnOp.{UNOPS[name]})')
        lv.append('  [' + ', '.join(ents) + ']')
    out.append(',\n'.join(lv))
    out.append(']')
    out.append('')
    out.append('/-- the atom alternatives are the five the model implements, in this order -/')
    out.append(f'def atomsAsModelled : Bool := {"true" if atoms == EXPECTED_ATOMS else "false"}')
    out.append('')
    out.append('/-- blanks may follow a prefix operator (`"-" space() v:(@)`) -/')
    out.append(f'def prefixSpace : Bool := {"true" if kws["prefix_space"] else "false"}')
    out.append('')
    out.append('/-- digest (first 60 bits of SHA-256) of the grammar text outside the precedence block and the keyword lists, comments and white space removed: the hand-written rules of Model/Peg.lean were written against the text with this digest (pinned in Props/C14.lean) -/')
    out.append(f'def grammarDigest : Nat := {kws["digest"]}')
    out.append('')
    for k in ('op', 'branc_op', 'flag_op'):
        nm = {'op': 'opKeywords', 'branc_op': 'branchKeywords', 'flag_op': 'flagKeywords'}[k]
        out.append(f'def {nm} : List Str := [')
        out.append(',\n'.join('  ' + chars(s) for s in kws[k]))
        out.append(']')
    out.append('')
    out.append('end Avra.Gen')
    write_if_changed(os.path.join(GEN, 'Grammar.lean'), '\n'.join(out) + '\n')
    write_globals()
    print('gen: ok')

if __name__ == '__main__':
    main()
