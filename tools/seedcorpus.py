#!/usr/bin/env python3
"""seedcorpus.py [extract|run]

extract: collects every assembly source text that appears as a string literal in the demonstrations of the stored
         seeded changes (seeded/*/demo.rs) into corpus/seed_demos.json — inputs that fresh sub-agents, who saw only the
         property texts, judged to be the ones a regression shows on.
run:     builds every one of them with the real library (harness, build_str) and with the Lean model (driver) and
         reports where the two differ.  On the unchanged tree there must be no difference: the model is then faithful on
         exactly the corner cases the seeded changes live in.  Used by check.py as the first stage of the
         correspondence of every property (the entries of the property's own seeds)."""
import glob, json, os, re, sys
sys.path.insert(0, os.path.dirname(os.path.abspath(__file__)))
import vlib
V = vlib.VERIF
OUT = os.path.join(V, 'corpus', 'seed_demos.json')

def rust_strings(text):
    out = []
    i = 0
    n = len(text)
    while i < n:
        c = text[i]
        if text.startswith('//', i):
            j = text.find('\n', i); i = n if j < 0 else j; continue
        m = re.match(r'b?r(#*)"', text[i:])
        if m and (i == 0 or not (text[i - 1].isalnum() or text[i - 1] == '_')):
            h = m.group(1); start = i + m.end(); end = text.find('"' + h, start)
            if end < 0: break
            out.append(text[start:end]); i = end + 1 + len(h); continue
        if c == "'":                       # char literal or lifetime
            m = re.match(r"'(\\.|[^\\'])'", text[i:])
            i += m.end() if m else 1; continue
        if c == '"':
            j = i + 1; buf = []
            while j < n and text[j] != '"':
                if text[j] == '\\' and j + 1 < n:
                    e = text[j + 1]
                    if e == 'n': buf.append('\n'); j += 2
                    elif e == 't': buf.append('\t'); j += 2
                    elif e == 'r': buf.append('\r'); j += 2
                    elif e == '0': buf.append('\0'); j += 2
                    elif e in '\\"\'': buf.append(e); j += 2
                    elif e == '\n':               # line continuation: skip the newline and leading blanks
                        j += 2
                        while j < n and text[j] in ' \t\n\r': j += 1
                    elif e == 'x': buf.append(chr(int(text[j + 2:j + 4], 16))); j += 4
                    elif e == 'u':
                        k = text.find('}', j); buf.append(chr(int(text[j + 3:k], 16))); j = k + 1
                    else: buf.append(e); j += 2
                else: buf.append(text[j]); j += 1
            out.append(''.join(buf)); i = j + 1; continue
        i += 1
    return out

ASM = re.compile(r'(^|\n)[ \t]*(\.|#)?[A-Za-z_][\w]*[ \t:]', re.M)
def looks_like_source(s):
    if '{' in s and '}' in s: return False          # format strings: the demo fills them in at run time
    if len(s) > 20000 or len(s) < 3: return False
    if '\n' not in s and not re.match(r'^[ \t]+[a-z]', s) and not s.startswith(('.', '#')): return False
    return bool(ASM.search(s)) and not s.startswith(('demo', 'test', 'expected', 'with ', 'the ', 'build'))

def extract(maxidx=None):
    res = []
    seen = set()
    for d in sorted(glob.glob(os.path.join(V, 'seeded', 'C*-*'))):
        sid = os.path.basename(d)
        if maxidx is not None and int(sid.split('-')[1]) > maxidx: continue
        try: text = open(os.path.join(d, 'demo.rs'), encoding='utf-8').read()
        except OSError: continue
        for s in rust_strings(text):
            if looks_like_source(s) and (sid.split('-')[0], s) not in seen:
                seen.add((sid.split('-')[0], s)); res.append({'seed': sid, 'property': sid.split('-')[0], 'source': s})
    json.dump(res, open(OUT, 'w'), indent=0, ensure_ascii=False)
    print('seed corpus: %d sources from %d demonstrations' % (len(res), len(glob.glob(os.path.join(V, 'seeded', 'C*-*/demo.rs')))))

def load(prop=None):
    try: c = json.load(open(OUT))
    except OSError: return []
    return [e for e in c if prop is None or e['property'] == prop]

def compare(entries):
    """-> (n, disagreements[{seed, source, impl, model}], outcome counter)"""
    from collections import Counter
    cases = [('s%d' % i, 'B', vlib.hx(e['source'])) for i, e in enumerate(entries)]
    if not cases: return 0, [], Counter()
    a = vlib.run_impl(cases)
    b = vlib.run_model(cases, vlib.cwd_prelude())
    dis = []
    for i, e in enumerate(entries):
        k = 's%d' % i
        ia, ib = a.get(k, 'MISSING'), b.get(k, 'MISSING')
        if ia != ib:
            dis.append({'seed': e['seed'], 'source': e['source'][:1500], 'impl': ia[:200], 'model': ib[:200]})
    return len(cases), dis, Counter(v.split()[0] for v in a.values() if v)

if __name__ == '__main__':
    cmd = sys.argv[1] if len(sys.argv) > 1 else 'run'
    if cmd == 'extract': extract(int(sys.argv[2]) if len(sys.argv) > 2 else None)
    else:
        ents = load(sys.argv[2] if len(sys.argv) > 2 else None)
        n, dis, cnt = compare(ents)
        print('cases', n, 'outcomes', dict(cnt), 'disagreements', len(dis))
        for d in dis[:int(os.environ.get('SHOW', '5'))]:
            print('-----', d['seed']); print(d['source']); print('impl :', d['impl']); print('model:', d['model'])
