//! Extraction of finite tables from the real library *by execution*.
//! Candidate mnemonics are read from stdin (one per line); every table row is printed as one
//! line of space-separated fields.  tools/gen.py turns the rows into Avra/Gen/*.lean.
use avra_lib::context::{CommonContext, Context};
use avra_lib::device::{Device, DEVICES};
use avra_lib::document::document;
use avra_lib::instruction::operation::Operation;
use std::io::BufRead;

fn ctx_with(dev: Option<&Device>) -> CommonContext {
    let ctx = CommonContext::new();
    if let Some(d) = dev {
        ctx.device.replace(Some(d.clone()));
    }
    ctx
}

fn dbg(op: &Operation) -> String {
    format!("{:?}", op).replace(' ', "")
}

pub fn extract() {
    let stdin = std::io::stdin();
    let mut ops: Vec<(String, Operation)> = vec![];
    for line in stdin.lock().lines() {
        let name = line.unwrap().trim().to_string();
        if name.is_empty() {
            continue;
        }
        // directive name candidates: "@dir <name>" -> what `.name` and `#name` parse to
        if let Some(cand) = name.strip_prefix("@dir ") {
            for pre in [".", "#"] {
                let text = format!("{}{}", pre, cand);
                match document::directive(&text) {
                    Ok(avra_lib::directive::Directive::Custom(_)) => println!("DIR {} Custom", text),
                    Ok(d) => println!("DIR {} {:?}", text, d),
                    Err(_) => println!("DIR {} -", text),
                }
            }
            continue;
        }
        // keyword recognition, lower and upper case
        for spelled in [name.clone(), name.to_uppercase()] {
            match document::operation(&spelled) {
                Ok(op) => {
                    println!("KW {} {}", spelled, dbg(&op));
                    if spelled == name {
                        if let Operation::Custom(_) = op {
                        } else if !ops.iter().any(|x| x.1 == op) {
                            ops.push((name.clone(), op));
                        }
                    }
                }
                Err(_) => println!("KW {} -", spelled),
            }
        }
    }
    let classic = ctx_with(None);
    let mut names: Vec<&&str> = DEVICES.keys().collect();
    names.sort();
    // a reduced-core context: first device (by name) that reports is_avr8l
    let avr8l_dev = names
        .iter()
        .map(|n| DEVICES.get(**n).unwrap())
        .find(|d| d.is_avr8l());
    for (_, op) in &ops {
        let i = op.info(&classic);
        println!("INFO {} 0 {} {}", dbg(op), i.len, i.op_code);
        if let Some(d) = avr8l_dev {
            let c = ctx_with(Some(d));
            let i = op.info(&c);
            println!("INFO {} 1 {} {}", dbg(op), i.len, i.op_code);
        }
        match op {
            Operation::Br(b) => println!("BRNUM {} {}", dbg(op), b.number()),
            Operation::Se(f) | Operation::Cl(f) => println!("SFNUM {} {}", dbg(op), f.number()),
            _ => {}
        }
    }
    let d0 = classic.get_device();
    let opts = |d: &Device| {
        let v: Vec<String> = d.disable_opts.iter().map(|o| format!("{:?}", o)).collect();
        if v.is_empty() {
            "-".to_string()
        } else {
            v.join(",")
        }
    };
    println!(
        "DEFAULTDEV {} {} {} {} {}",
        d0.flash_size,
        d0.ram_start,
        d0.ram_size,
        d0.eeprom_size,
        opts(&d0)
    );
    for n in &names {
        let d = DEVICES.get(**n).unwrap();
        println!(
            "DEV {} {} {} {} {} {} {}",
            n,
            d.flash_size,
            d.ram_start,
            d.ram_size,
            d.eeprom_size,
            opts(d),
            if d.is_avr8l() { 1 } else { 0 }
        );
        for (_, op) in &ops {
            println!("GATE {} {} {}", n, dbg(op), if d.check_operation(op) { 1 } else { 0 });
        }
    }
    for (_, op) in &ops {
        println!("GATE0 {} {}", dbg(op), if d0.check_operation(op) { 1 } else { 0 });
    }
    // register keywords
    for i in 0..100 {
        for p in ["r", "R"] {
            let s = format!("{}{}", p, i);
            let r = std::panic::catch_unwind(|| document::reg8(&s));
            match r {
                Ok(Ok(r)) => println!("REG8 {} {}", s, r.number()),
                Ok(Err(_)) => println!("REG8 {} -", s),
                Err(_) => println!("REG8 {} PANIC", s),
            }
        }
    }
}

/// C17: run the given sources (hex) concurrently in `threads` threads, `rounds` times each, and
/// print every result; the caller compares with the sequential/isolated results.
pub fn history(args: &[String]) {
    // history <threads> <rounds>: protocol lines (id kind rest) from stdin; every thread runs ALL of
    // them `rounds` times, each from a different starting point, so that builds interleave
    use std::io::BufRead;
    let threads: usize = args[0].parse().unwrap();
    let rounds: usize = args[1].parse().unwrap();
    let cases: Vec<(String, String, String)> = std::io::stdin()
        .lock()
        .lines()
        .map(|l| l.unwrap())
        .filter(|l| !l.trim().is_empty())
        .map(|l| {
            let mut it = l.trim_end().splitn(3, ' ');
            (
                it.next().unwrap().to_string(),
                it.next().unwrap_or("").to_string(),
                it.next().unwrap_or("").to_string(),
            )
        })
        .collect();
    let cases = std::sync::Arc::new(cases);
    let mut handles = vec![];
    for t in 0..threads {
        let cases = cases.clone();
        handles.push(std::thread::spawn(move || {
            let mut out = vec![];
            for r in 0..rounds {
                for k in 0..cases.len() {
                    let i = (k + t * 7 + r * 3) % cases.len();
                    let (id, kind, rest) = &cases[i];
                    out.push((id.clone(), crate::canon::dispatch(kind, rest)));
                }
            }
            out
        }));
    }
    for (t, h) in handles.into_iter().enumerate() {
        for (id, r) in h.join().unwrap() {
            println!("T{} {} {}", t, id, r);
        }
    }
}
