//! Canonicalisation of results of the real library.
use avra_lib::builder::{build_file, build_str, BuildResult};
use avra_lib::context::CommonContext;
use avra_lib::document::document;
use std::collections::BTreeSet;
use std::panic::{catch_unwind, AssertUnwindSafe};
use std::path::PathBuf;

pub fn hex(b: &[u8]) -> String {
    let mut s = String::with_capacity(b.len() * 2);
    for x in b {
        s.push_str(&format!("{:02x}", x));
    }
    s
}

pub fn unhex(s: &str) -> Vec<u8> {
    let s = s.trim();
    let b = s.as_bytes();
    let mut v = Vec::with_capacity(b.len() / 2);
    let mut i = 0;
    while i + 1 < b.len() {
        let h = (b[i] as char).to_digit(16).unwrap() as u8;
        let l = (b[i + 1] as char).to_digit(16).unwrap() as u8;
        v.push(h << 4 | l);
        i += 2;
    }
    v
}

pub fn unhex_str(s: &str) -> String {
    if s == "-" {
        return String::new();
    }
    String::from_utf8(unhex(s)).expect("utf8 payload")
}

/// `line: N` tag of an error text: for parse failures the first occurrence (the Debug print of
/// peg's ParseError that follows contains its own `line: 1`), otherwise the last occurrence.
pub fn err_line(text: &str) -> String {
    let find = |t: &str, from_start: bool| -> Option<String> {
        let pat = "line: ";
        let idxs: Vec<usize> = t.match_indices(pat).map(|x| x.0).collect();
        let idx = if from_start { idxs.first() } else { idxs.last() }?;
        let digits: String = t[idx + pat.len()..]
            .chars()
            .take_while(|c| c.is_ascii_digit())
            .collect();
        if digits.is_empty() {
            None
        } else {
            Some(digits)
        }
    };
    let r = if text.starts_with("failed to parse ") {
        find(text, true)
    } else {
        find(text, false)
    };
    r.unwrap_or_else(|| "-".to_string())
}

pub fn canon_result(r: Result<BuildResult, failure::Error>) -> String {
    match r {
        Ok(b) => format!(
            "OK code={} ee={} fs={} es={} rs={} rf={} msgs={}",
            if b.code.is_empty() { "-".to_string() } else { hex(&b.code) },
            if b.eeprom.is_empty() { "-".to_string() } else { hex(&b.eeprom) },
            b.flash_size,
            b.eeprom_size,
            b.ram_size,
            b.ram_filling,
            if b.messages.is_empty() {
                "-".to_string()
            } else {
                hex(b.messages.join("\n").as_bytes())
            }
        ),
        Err(e) => {
            let t = format!("{}", e);
            if std::env::var("HARNESS_ERRTEXT").is_ok() {
                format!("ERR line={} text={}", err_line(&t), hex(t.as_bytes()))
            } else if let Some(rest) = t.strip_prefix("Cannot read file ") {
                // the property (C11) wants the file named: keep the name, drop the OS text
                let name = rest.split(" because: ").next().unwrap_or("");
                format!("ERR line={} file={}", err_line(&t), if name.is_empty() { "-".to_string() } else { hex(name.as_bytes()) })
            } else {
                format!("ERR line={}", err_line(&t))
            }
        }
    }
}

pub fn build_canon(src: &str) -> String {
    match catch_unwind(AssertUnwindSafe(|| build_str(src))) {
        Ok(r) => canon_result(r),
        Err(_) => "PANIC".to_string(),
    }
}

fn expr_canon(text: &str) -> String {
    let r = catch_unwind(AssertUnwindSafe(|| match document::expr(text) {
        Err(_) => "PF".to_string(),
        Ok(e) => {
            let ctx = CommonContext::new();
            match e.run(&ctx) {
                Ok(v) => format!("V {}", v),
                Err(_) => "E".to_string(),
            }
        }
    }));
    r.unwrap_or_else(|_| "PANIC".to_string())
}

fn scratch_dir() -> PathBuf {
    let base = std::env::var("HARNESS_SCRATCH").unwrap_or_else(|_| {
        std::env::temp_dir().to_string_lossy().to_string()
    });
    let mut p = PathBuf::from(base);
    p.push(format!("avra-harness-{}", std::process::id()));
    std::fs::create_dir_all(&p).unwrap();
    p
}

fn hexwrite_canon(img: &[u8]) -> String {
    let r = catch_unwind(AssertUnwindSafe(|| {
        let dir = scratch_dir();
        let br = BuildResult {
            code: img.to_vec(),
            // a different image for the EEPROM writer: the image reversed (runs of 0xFF / 0x00 stay runs)
            eeprom: img.iter().rev().cloned().collect(),
            flash_size: 0,
            eeprom_size: 0,
            ram_size: 0,
            ram_filling: 0,
            messages: vec![],
        };
        let pc = dir.join("c.hex");
        let pe = dir.join("e.hex");
        // two times out of three the target files already exist and are LONGER than what will be
        // written (an earlier, bigger build): nothing of them may survive
        if img.len() % 3 != 0 {
            let stale = ":10000000FFFFFFFFFFFFFFFFFFFFFFFFFFFFFFFF00\n".repeat(img.len() / 4 + 8) + ":00000001FF\n";
            std::fs::write(&pc, &stale).unwrap();
            std::fs::write(&pe, &stale).unwrap();
        }
        let rc = avra_lib::writer::write_code_hex(pc.clone(), &br);
        let re = avra_lib::writer::write_eeprom_hex(pe.clone(), &br);
        let out = match (rc, re) {
            (Ok(()), Ok(())) => {
                let c = std::fs::read(&pc).unwrap();
                let e = std::fs::read(&pe).unwrap();
                // very large images: the EEPROM file is reported for every third length only
                if img.len() <= 70000 || img.len() % 3 == 0 {
                    format!("HEX2 {} {}", hex(&c), hex(&e))
                } else {
                    format!("HEX2 {} -", hex(&c))
                }
            }
            _ => "WERR".to_string(),
        };
        let _ = std::fs::remove_dir_all(&dir);
        out
    }));
    r.unwrap_or_else(|_| "PANIC".to_string())
}

/// build, then hand the result to the library's two file writers (what the command-line tool
/// does after a successful build); only the sizes are reported
fn buildwrite_canon(src: &str) -> String {
    let r = catch_unwind(AssertUnwindSafe(|| match build_str(src) {
        Err(_) => "ERR".to_string(),
        Ok(br) => {
            let dir = scratch_dir();
            let pc = dir.join("w.hex");
            let pe = dir.join("w.eep.hex");
            let rc = avra_lib::writer::write_code_hex(pc.clone(), &br);
            let re = avra_lib::writer::write_eeprom_hex(pe.clone(), &br);
            let len = |p: &PathBuf| std::fs::metadata(p).map(|m| m.len()).unwrap_or(0);
            let out = format!(
                "OK code={} ee={} wcode={} wee={} codefile={} eefile={}",
                br.code.len(),
                br.eeprom.len(),
                if rc.is_ok() { "ok" } else { "err" },
                if re.is_ok() { "ok" } else { "err" },
                len(&pc),
                len(&pe)
            );
            let _ = std::fs::remove_dir_all(&dir);
            out
        }
    }));
    r.unwrap_or_else(|_| "PANIC".to_string())
}

fn file_canon(rest: &str) -> String {
    let mut it = rest.split(' ');
    let main = unhex_str(it.next().unwrap_or("-"));
    let dirs = it.next().unwrap_or("-");
    let mut paths = BTreeSet::new();
    if dirs != "-" {
        for d in dirs.split(',') {
            paths.insert(PathBuf::from(unhex_str(d)));
        }
    }
    match catch_unwind(AssertUnwindSafe(|| build_file(PathBuf::from(main), paths))) {
        Ok(r) => canon_result(r),
        Err(_) => "PANIC".to_string(),
    }
}

pub fn dispatch(kind: &str, rest: &str) -> String {
    match kind {
        "B" => build_canon(&unhex_str(rest)),
        "X" => expr_canon(&unhex_str(rest)),
        "H" => hexwrite_canon(&if rest == "-" { vec![] } else { unhex(rest) }),
        "F" => file_canon(rest),
        "W" => buildwrite_canon(&unhex_str(rest)),
        "S" => {
            // history: several sources, built one after another in this thread
            let mut outs = vec![];
            for h in rest.split(' ') {
                outs.push(build_canon(&unhex_str(h)));
            }
            outs.join(" || ")
        }
        _ => "BADKIND".to_string(),
    }
}
