//! Correspondence harness: runs the real avra_lib (built from /repo's working tree) on a line
//! protocol and prints canonical results, one per line.  The same lines are fed to the Lean
//! driver and the two outputs are diffed by tools/check.py.
//!
//! Line protocol (stdin, one case per line; fields separated by one space):
//!   <id> B <hex(source)>                      build_str(source)
//!   <id> X <hex(expr text)>                   document::expr + Expr::run in an empty context
//!   <id> H <hex(image)>                       write_code_hex + write_eeprom_hex to a scratch file
//!   <id> F <hex(main)> <hex(dir)>[,<hex(dir)>...]   build_file(main, dirs)   (C11)
//!   <id> S <n> <hex(src)> ...                 history: n builds in one thread, all results
//! Output: "<id> <canonical result>".
mod canon;
mod extract;

use std::io::{BufRead, Write};

fn main() {
    let args: Vec<String> = std::env::args().collect();
    let mode = args.get(1).map(|s| s.as_str()).unwrap_or("run");
    std::panic::set_hook(Box::new(|_| {}));
    match mode {
        "run" => run(),
        "extract" => extract::extract(),
        "one" => {
            // one case from argv[2] (hex source); used by the isolated C16 runner
            let src = canon::unhex_str(&args[2]);
            println!("{}", canon::build_canon(&src));
        }
        "history" => extract::history(&args[2..]),
        other => {
            eprintln!("unknown mode {}", other);
            std::process::exit(2);
        }
    }
}

fn run() {
    let stdin = std::io::stdin();
    let stdout = std::io::stdout();
    let mut out = std::io::BufWriter::new(stdout.lock());
    for line in stdin.lock().lines() {
        let line = line.unwrap();
        let line = line.trim_end();
        if line.is_empty() {
            continue;
        }
        let mut it = line.splitn(3, ' ');
        let id = it.next().unwrap();
        let kind = it.next().unwrap_or("");
        let rest = it.next().unwrap_or("");
        let res = canon::dispatch(kind, rest);
        writeln!(out, "{} {}", id, res).unwrap();
    }
    out.flush().unwrap();
}
