/-
  Spec-side driver (`avra_spec`): imports ONLY the independent specs (Avra.Isa, Avra.Spec) — no
  Gen, no Model — so it builds whatever /repo looks like.  Used as the property oracle.
-/
import Avra.Spec.All

partial def loop (h : IO.FS.Stream) (out : IO.FS.Stream) : IO Unit := do
  let line ← h.getLine
  if line.isEmpty then return ()
  match line.trimAscii.toString.splitOn " " with
  | id :: kind :: rest =>
    match Avra.Spec.specCommand kind rest with
    | some o => out.putStrLn s!"{id} {o}"
    | none => out.putStrLn s!"{id} BADKIND"
  | _ => pure ()
  loop h out

def main : IO Unit := do
  let stdin ← IO.getStdin
  let stdout ← IO.getStdout
  loop stdin stdout
  stdout.flush
