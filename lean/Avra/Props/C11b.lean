/-
  C11, "including a file is the same as pasting it", as an equation: `include_is_paste` for the
  line loop and `build_include_is_paste` for `build_str`.  The proof shows that no line but an
  `.include`/`.includepath` line can tell which file it stands in (`directiveParse_ctxfree`,
  `lineStep_ctxfree`, `loop_ctxfree`, `completes_ctxfree`).
-/
import Avra.Props.C11
import Avra.Props.C08b
namespace Avra.Props.C11b
open Avra Avra.Model Avra.Lemmas.Iter Avra.Lemmas.Paste Avra.Props.C11

/-! ### what the skipper hands on is part of what it was given -/

def AllQ (Q : Nat × Str → Prop) (ls : List (Nat × Str)) : Prop := ∀ x ∈ ls, Q x

theorem allQ_tail {Q : Nat × Str → Prop} {x : Nat × Str} {xs : List (Nat × Str)} (h : AllQ Q (x :: xs)) : AllQ Q xs :=
  fun y hy => h y (List.mem_cons_of_mem _ hy)

theorem skipCond_keeps (Q : Nat × Str → Prop) (all : Bool) : ∀ (ls : List (Nat × Str)) (depth : Nat) (l : Nat × Str) (r : Bool)
    (rest : List (Nat × Str)) (o : Bool), AllQ Q ls →
    skipCond all depth ls = (some l, r, rest, o) → Q l ∧ AllQ Q rest := by
  intro ls
  induction ls with
  | nil => intro depth l r rest o _ h; simp [skipCond] at h
  | cons x xs ih =>
    intro depth l r rest o hq h
    obtain ⟨num, t⟩ := x
    simp only [skipCond] at h
    have step : ∀ d, skipCond all d xs = (some l, r, rest, o) → Q l ∧ AllQ Q rest :=
      fun d hd => ih d l r rest o (allQ_tail hq) hd
    split at h
    · rename_i d _ _
      split at h
      · exact step _ h
      · split at h
        · split at h
          · split at h
            · exact step _ h
            · split at h
              · simp only [Prod.mk.injEq, Option.some.injEq] at h; obtain ⟨h1, _, h3, _⟩ := h; subst h1 h3
                exact ⟨hq _ (by simp), allQ_tail hq⟩
              · split at h
                · simp at h
                · simp only [Prod.mk.injEq, Option.some.injEq] at h; obtain ⟨h1, _, h3, _⟩ := h; subst h1 h3
                  have := allQ_tail hq
                  exact ⟨this _ (by simp), allQ_tail this⟩
          · split at h
            · exact step _ h
            · exact step _ h
        · exact step _ h
    · simp at h
    · exact step _ h

theorem skipMacro_keeps (Q : Nat × Str → Prop) : ∀ (ls acc : List (Nat × Str)) (body : List (Nat × Str)) (l : Nat × Str)
    (rest : List (Nat × Str)) (o : Bool), AllQ Q ls →
    skipMacro acc ls = (body, some l, rest, o) → Q l ∧ AllQ Q rest := by
  intro ls
  induction ls with
  | nil => intro acc body l rest o _ h; simp [skipMacro] at h
  | cons x xs ih =>
    intro acc body l rest o hq h
    obtain ⟨num, t⟩ := x
    simp only [skipMacro] at h
    split at h
    · split at h
      · split at h
        · simp at h
        · simp only [Prod.mk.injEq, Option.some.injEq] at h; obtain ⟨_, h2, h3, _⟩ := h; subst h2 h3
          have := allQ_tail hq
          exact ⟨this _ (by simp), allQ_tail this⟩
      · exact ih _ _ _ _ _ (allQ_tail hq) h
    · simp at h
    · exact ih _ _ _ _ _ (allQ_tail hq) h

theorem skipStep_keeps (Q : Nat × Str → Prop) (st : PState) (ni : NextItem) (ls : List (Nat × Str)) (st' : PState)
    (l : Nat × Str) (r : Bool) (rest : List (Nat × Str)) (o : Bool) (hq : AllQ Q ls)
    (h : skipStep st ni ls = (st', some l, r, rest, o)) : Q l ∧ AllQ Q rest := by
  cases ni <;> simp only [skipStep] at h
  · cases ls with
    | nil => simp at h
    | cons x xs =>
      simp only [Prod.mk.injEq, Option.some.injEq] at h; obtain ⟨_, h2, _, h4, _⟩ := h; subst h2 h4
      exact ⟨hq _ (by simp), allQ_tail hq⟩
  · cases hs : skipCond false 0 ls with
    | mk nx t =>
      obtain ⟨re, rest', o'⟩ := t
      rw [hs] at h; simp only [Prod.mk.injEq] at h
      obtain ⟨_, h2, h3, h4, h5⟩ := h
      subst h2 h3 h4 h5
      exact skipCond_keeps Q false ls 0 l _ _ _ hq hs
  · cases hs : skipCond true 0 ls with
    | mk nx t =>
      obtain ⟨re, rest', o'⟩ := t
      rw [hs] at h; simp only [Prod.mk.injEq] at h
      obtain ⟨_, h2, h3, h4, h5⟩ := h
      subst h2 h3 h4 h5
      exact skipCond_keeps Q true ls 0 l _ _ _ hq hs
  · cases hs : skipMacro [] ls with
    | mk body t =>
      obtain ⟨nx, rest', o'⟩ := t
      rw [hs] at h; simp only [Prod.mk.injEq] at h
      obtain ⟨_, h2, _, h4, h5⟩ := h
      subst h2 h4 h5
      exact skipMacro_keeps Q ls [] _ l _ _ hq hs
  · simp at h

/-- the same outcome with another include set handed on -/
def withIncs (I : List Str) : Out (PState × List Str × NextItem) → Out (PState × List Str × NextItem)
  | .ok (st, _, ni) => .ok (st, I, ni)
  | .error e => .error e
  | .panic p => .panic p
  | .oof => .oof

/-- no directive but `.include` and `.includepath` looks at the file it stands in, at the include
    set or at the include handler -/
theorem directiveParse_ctxfree (inc inc' : IncludeFn) (cur cur' : Str) (incs incs' : List Str) (st : PState)
    (d : Directive) (ops : DirectiveOps) (ln : Nat) (h1 : d ≠ .include) (h2 : d ≠ .includepath) :
    directiveParse inc cur incs st d ops ln = withIncs incs (directiveParse inc' cur' incs' st d ops ln) := by
  unfold directiveParse
  dsimp only
  repeat' split
  all_goals first
    | rfl
    | (simp [withIncs, lineErr]; done)
    | (exact absurd rfl h1)
    | (exact absurd rfl h2)
    | (split <;> first | rfl | (simp [withIncs, lineErr]; done))
    | (simp_all [withIncs, lineErr]; done)
    | skip

/-- a line that is no `.include` and no `.includepath` line -/
def CtxFree (l : Nat × Str) : Prop :=
  ∀ lab d ops o, parseLine l.2 = (some (.directiveLine lab d ops), o) → d ≠ .include ∧ d ≠ .includepath

theorem lineStep_ctxfree (inc inc' : IncludeFn) (cur cur' : Str) (incs incs' : List Str) (st : PState)
    (idx : Nat) (text : Str) (r : Bool) (hf : CtxFree (idx, text)) :
    lineStep inc cur incs st idx text r = withIncs incs (lineStep inc' cur' incs' st idx text r) := by
  unfold lineStep
  dsimp only
  split
  · rfl
  · rfl
  · rename_i doc o _ hp
    cases doc with
    | label name => rfl
    | codeLine lab op args => rfl
    | emptyLine => rfl
    | directiveLine lab d ops =>
      have hd := hf lab d ops o hp
      dsimp only
      split
      · rfl
      · exact directiveParse_ctxfree inc inc' cur cur' incs incs' _ d ops _ hd.1 hd.2

def withIncs2 (I : List Str) : Out (PState × List Str) → Out (PState × List Str)
  | .ok (st, _) => .ok (st, I)
  | .error e => .error e
  | .panic p => .panic p
  | .oof => .oof

/-- the whole line loop over lines none of which is an `.include`/`.includepath` line does the
    same in every file context: same state, same errors; the include set is handed through -/
theorem loop_ctxfree (inc inc' : IncludeFn) (cur cur' : Str) : ∀ (lf : Nat) (incs incs' : List Str) (st : PState)
    (ni : NextItem) (ls : List (Nat × Str)), AllQ CtxFree ls →
    parseIterWith inc cur lf incs st ni ls = withIncs2 incs (parseIterWith inc' cur' lf incs' st ni ls) := by
  intro lf
  induction lf with
  | zero => intro incs incs' st ni ls _; rfl
  | succ lf ih =>
    intro incs incs' st ni ls hq
    unfold parseIterWith
    cases hs : skipStep st ni ls with
    | mk st1 t =>
      obtain ⟨nx, re, rest, o⟩ := t
      cases o with
      | true => rfl
      | false =>
        cases nx with
        | none => rfl
        | some l =>
          obtain ⟨idx, text⟩ := l
          have hk := skipStep_keeps CtxFree st ni ls st1 (idx, text) re rest false hq hs
          dsimp only
          rw [lineStep_ctxfree inc inc' cur cur' incs incs' st1 idx text re hk.1]
          cases hl : lineStep inc' cur' incs' st1 idx text re with
          | ok v =>
            obtain ⟨st2, incsX, ni2⟩ := v
            simp only [withIncs]
            exact ih incs incsX st2 ni2 rest hk.2
          | error e => rfl
          | panic p => rfl
          | oof => rfl

theorem lineStep_keeps_incs (inc : IncludeFn) (cur : Str) (incs : List Str) (st st' : PState) (idx : Nat) (text : Str)
    (r : Bool) (incs' : List Str) (ni' : NextItem) (hf : CtxFree (idx, text))
    (h : lineStep inc cur incs st idx text r = .ok (st', incs', ni')) : incs' = incs := by
  have := lineStep_ctxfree inc inc cur cur incs incs st idx text r hf
  rw [h] at this
  simp only [withIncs, Out.ok.injEq, Prod.mk.injEq] at this
  exact this.2.1

/-- a run that completes over context-free lines completes in every other file context too, to
    the same state, with the include set it was started with -/
theorem completes_ctxfree (inc inc' : IncludeFn) (cur cur' : Str) (s : PState × List Str) (ni : NextItem)
    (ls : List (Nat × Str)) (s' : PState × List Str) (h : Completes inc cur s ni ls s') :
    AllQ CtxFree ls → ∀ I', Completes inc' cur' (s.1, I') ni ls (s'.1, I') := by
  induction h with
  | done s => intro _ I'; exact Completes.done _
  | skipEnd s ni ls st' hs => intro _ I'; exact Completes.skipEnd (s.1, I') ni ls st' hs
  | step s ni ls rest st1 st' idx text re incs' ni' s'' hsk hl _ ih =>
    intro hq I'
    have hk := skipStep_keeps CtxFree s.1 ni ls st1 (idx, text) re rest false hq hsk
    have hl' : lineStep inc' cur' I' st1 idx text re = .ok (st', I', ni') := by
      rw [lineStep_ctxfree inc' inc cur' cur I' s.2 st1 idx text re hk.1, hl]; rfl
    exact Completes.step (s.1, I') ni ls rest st1 st' idx text re I' ni' _ hsk hl' (ih hk.2 I')

theorem completes_unique (inc : IncludeFn) (cur : Str) (s : PState × List Str) (ni : NextItem)
    (ls : List (Nat × Str)) (s1 s2 : PState × List Str)
    (h1 : Completes inc cur s ni ls s1) (h2 : Completes inc cur s ni ls s2) : s1 = s2 := by
  have a := run_append inc cur s ni ls s1 h1 []
  have b := run_append inc cur s ni ls s2 h2 []
  rw [a] at b
  rw [runFrom_step, runFrom_step] at b
  simp [skipStep] at b
  exact (Prod.ext b.1 b.2)

theorem completes_keeps_incs (inc : IncludeFn) (cur : Str) (s : PState × List Str) (ni : NextItem)
    (ls : List (Nat × Str)) (s' : PState × List Str) (h : Completes inc cur s ni ls s')
    (hq : AllQ CtxFree ls) : s' = (s'.1, s.2) :=
  completes_unique inc cur s ni ls _ _ h (completes_ctxfree inc inc cur cur s ni ls s' h hq s.2)

/-- **Including a file is pasting it** — as an equation between two runs of the line loop, for a
    file whose lines hold no `.include`/`.includepath` of their own (those are what the property
    says resolves differently inside a file) and leave nothing open at their end (the recorded
    finding): the line `.include "path"` followed by `post`, and the LINES OF THE FILE followed by
    `post` (each line with the number it has in its own file), give the same result — same
    segments, symbols, macros, messages, errors.  `hback` says that the include set comes back
    from the file as it went in, which is so for every sorted set (the code keeps a `BTreeSet`);
    it is decidable for any concrete set and is left as a hypothesis here. -/
theorem include_is_paste (fs : Fs) (d : Nat) (cur : Str) (incs : List Str) (st : PState) (idx : Nat) (text path : Str)
    (post : List (Nat × Str)) (src : Str) (s' : PState × List Str)
    (hp : parseLine text = (some (.directiveLine none .include (.opList [.s path])), false))
    (hread : fs.read (resolve fs path incs) = some src)
    (hfree : AllQ CtxFree (numbered (lines src)))
    (hC : Completes (parseFileAt fs (d + 1)) cur (st, incs) .newLine (numbered (lines src)) s')
    (hback : writeBack (ownDir (resolve fs path incs) incs) (insideSet (resolve fs path incs) incs) incs = incs) :
    runFrom (parseFileAt fs (d + 1)) cur (st, incs) .newLine ((idx, text) :: post) =
    runFrom (parseFileAt fs (d + 1)) cur (st, incs) .newLine (numbered (lines src) ++ post) := by
  have hC' := completes_ctxfree (parseFileAt fs (d + 1)) (parseFileAt fs d) cur (resolve fs path incs) _ _ _ _ hC hfree
    (insideSet (resolve fs path incs) incs)
  rw [included_lines fs d cur incs st idx text path post src _ hp hread hC']
  rw [pasted_lines _ _ _ _ _ post hC]
  have hs := completes_keeps_incs _ _ _ _ _ _ hC hfree
  rw [hs]
  simp only [hback]

/-- **… and for the whole build**: a program `pre ++ [.include "path"] ++ post` builds to exactly
    what the program with the file's lines in place of the `.include` line builds to (every line
    keeping the number it has in its own file: the error of a faulty line names the same number
    either way) — images, sizes, messages or the same error. -/
theorem build_include_is_paste (fs : Fs) (pre post : List (Nat × Str)) (idx : Nat) (text path src : Str)
    (s1 s' : PState × List Str)
    (hpre : Completes (parseFileAt fs includeDepth) fs.cwd (PState.init initCtx, []) .newLine pre s1)
    (hp : parseLine text = (some (.directiveLine none .include (.opList [.s path])), false))
    (hread : fs.read (resolve fs path s1.2) = some src)
    (hfree : AllQ CtxFree (numbered (lines src)))
    (hC : Completes (parseFileAt fs includeDepth) fs.cwd s1 .newLine (numbered (lines src)) s')
    (hback : writeBack (ownDir (resolve fs path s1.2) s1.2) (insideSet (resolve fs path s1.2) s1.2) s1.2 = s1.2) :
    C08b.buildLines fs (pre ++ (idx, text) :: post) = C08b.buildLines fs (pre ++ (numbered (lines src) ++ post)) := by
  have hd : includeDepth = (includeDepth - 1) + 1 := by decide
  unfold C08b.buildLines
  show (match runFrom (parseFileAt fs includeDepth) fs.cwd (PState.init initCtx, []) .newLine (pre ++ (idx, text) :: post) with
    | .ok (st, _) => buildFromParsed fs st
    | .error e => .error e
    | .panic p => .panic p
    | .oof => .oof) =
    (match runFrom (parseFileAt fs includeDepth) fs.cwd (PState.init initCtx, []) .newLine (pre ++ (numbered (lines src) ++ post)) with
    | .ok (st, _) => buildFromParsed fs st
    | .error e => .error e
    | .panic p => .panic p
    | .oof => .oof)
  rw [pasted_lines _ _ _ _ _ _ hpre, pasted_lines _ _ _ _ _ _ hpre]
  obtain ⟨st1, incs1⟩ := s1
  rw [hd] at hC ⊢
  rw [include_is_paste fs (includeDepth - 1) fs.cwd incs1 st1 idx text path post src s' hp hread hfree hC hback]

/-! non-vacuity of `hback`: the file's own directory already in the set; not yet in the set -/
example : writeBack (ownDir "/p/f.inc".toList ["/p".toList]) (insideSet "/p/f.inc".toList ["/p".toList]) ["/p".toList]
    = ["/p".toList] := by decide
example : writeBack (ownDir "/p/f.inc".toList []) (insideSet "/p/f.inc".toList []) [] = [] := by decide
example : writeBack (ownDir "/p/f.inc".toList ["/a".toList, "/z".toList]) (insideSet "/p/f.inc".toList ["/a".toList, "/z".toList])
    ["/a".toList, "/z".toList] = ["/a".toList, "/z".toList] := by decide

end Avra.Props.C11b
