/-
  C10, from the context updates to pass 2: the steps `.set`, `.def`, `.undef` as pass 2 performs
  them on the item list, and the binding rules in sequence (definition → use, `.undef` → use,
  assignment → reference).
-/
import Avra.Props.C10
import Avra.Props.C03b
namespace Avra.Props.C10b
open Avra Avra.Model Avra.Isa Avra.Lemmas Avra.Props.C10 Avra.Props.C03b

/-- `.set name = e` inside pass 2: the expression is evaluated where the line stands (with `pc`
    = the current address and every EARLIER assignment in force); the name — lower-cased — is
    bound to the VALUE, and pass 2 goes on with the next item.  A name that is something else
    already (label, `.equ`, `.def`, flag) is refused with the line. -/
theorem set_item (t : SegT) (ln : Nat) (name : Str) (e : Expr) (rest : List (Nat × Item))
    (cur : Nat) (acc : List Nat) (ctx : Ctx) (v : Int)
    (hev : eval (atPc ctx cur) e = .ok v) :
    pass2Items t ((ln, .set name e) :: rest) cur acc ctx =
      if (atPc ctx cur).exist (lower name) = true ∧ (alookup (lower name) ctx.sets).isSome = false
      then .error ⟨some ln, "set-twice"⟩
      else pass2Items t rest cur acc
        { atPc ctx cur with sets := ainsert (lower name) (.const v) ctx.sets } := by
  conv => lhs; unfold pass2Items
  show (match eval (atPc ctx cur) e with
    | .err _ => lineErr ln "set-expr"
    | .oof => .oof
    | .ok v =>
      let name := lower name
      if (atPc ctx cur).exist name then
        if (alookup name (atPc ctx cur).sets).isSome
        then pass2Items t rest cur acc { atPc ctx cur with sets := ainsert name (.const v) (atPc ctx cur).sets }
        else lineErr ln "set-twice"
      else pass2Items t rest cur acc { atPc ctx cur with sets := ainsert name (.const v) (atPc ctx cur).sets }) = _
  rw [hev]
  have hs : (atPc ctx cur).sets = ctx.sets := rfl
  simp only [hs]
  by_cases h1 : (atPc ctx cur).exist (lower name) = true
  · by_cases h2 : (alookup (lower name) ctx.sets).isSome = true
    · simp only [h1, h2, if_true]; simp
    · simp only [h1, h2, if_true]; simp [lineErr] at h2 ⊢
  · simp only [h1]; simp

/-- `.def alias = rN` inside pass 2: from here on the alias (lower-cased) is register N; an alias
    that is anything already is refused with the line -/
theorem def_item (t : SegT) (ln : Nat) (alias reg : Str) (r : Nat) (rest : List (Nat × Item))
    (cur : Nat) (acc : List Nat) (ctx : Ctx) (hreg : regOfName (lower reg) = some r) :
    pass2Items t ((ln, .def alias (.ident reg)) :: rest) cur acc ctx =
      if (atPc ctx cur).exist alias = true then .error ⟨some ln, "def-twice"⟩
      else if (atPc ctx cur).exist (lower alias) = true then pass2Items t rest cur acc (atPc ctx cur)
      else pass2Items t rest cur acc { atPc ctx cur with defs := ainsert (lower alias) r ctx.defs } := by
  conv => lhs; unfold pass2Items
  show (match regOfName (lower reg) with
    | none => lineErr ln "not-a-register"
    | some r =>
      if (atPc ctx cur).exist alias then lineErr ln "def-twice"
      else if (atPc ctx cur).exist (lower alias) then pass2Items t rest cur acc (atPc ctx cur)
      else pass2Items t rest cur acc { atPc ctx cur with defs := ainsert (lower alias) r (atPc ctx cur).defs }) = _
  rw [hreg]
  rfl

/-- `.undef alias` inside pass 2: the alias is gone from here on; removing what is no alias is an
    error naming the line -/
theorem undef_item (t : SegT) (ln : Nat) (alias : Str) (rest : List (Nat × Item))
    (cur : Nat) (acc : List Nat) (ctx : Ctx) :
    pass2Items t ((ln, .undef alias) :: rest) cur acc ctx =
      if (alookup (lower alias) ctx.defs).isSome = true
      then pass2Items t rest cur acc { atPc ctx cur with defs := aremove (lower alias) ctx.defs }
      else .error ⟨some ln, "undef-unknown"⟩ := by
  conv => lhs; unfold pass2Items
  rfl

theorem checkInstruction_alias (d : Device) (op : Op) (pre post : List IOp) (name : Str) (n : Nat) :
    checkInstruction d op (pre ++ .e (.ident name) :: post) = checkInstruction d op (pre ++ .r8 n :: post) := by
  unfold checkInstruction
  simp [List.all_append, argAllowed]

/-- an instruction LINE written with an alias assembles, inside pass 2, exactly as the same line
    written with the register — same bytes, same continuation, same errors — in every operand
    position of every mnemonic -/
theorem alias_item_same (t : SegT) (ln : Nat) (op : Op) (name : Str) (n : Nat) (pre post : List IOp)
    (rest : List (Nat × Item)) (cur : Nat) (acc : List Nat) (ctx : Ctx)
    (hdef : ctx.getDef name = some n) (hnoexpr : (atPc ctx cur).getExpr name = none) :
    pass2Items t ((ln, .instruction op (pre ++ .e (.ident name) :: post)) :: rest) cur acc ctx =
    pass2Items t ((ln, .instruction op (pre ++ .r8 n :: post)) :: rest) cur acc ctx := by
  have hd : (atPc ctx cur).getDef name = some n := hdef
  have hb := alias_same_bytes (atPc ctx cur) op name n pre post cur hd hnoexpr
  conv => lhs; unfold pass2Items
  conv => rhs; unfold pass2Items
  show (if checkInstruction (atPc ctx cur).device op (pre ++ .e (.ident name) :: post) then
      match process (atPc ctx cur) op (pre ++ .e (.ident name) :: post) cur with
        | .ok bytes => pass2Items t rest (cur + bytes.length / 2) (acc ++ bytes) (atPc ctx cur)
        | .err => lineErr ln "instruction"
        | .oof => .oof
      else lineErr ln "not-allowed-for-device") =
    (if checkInstruction (atPc ctx cur).device op (pre ++ .r8 n :: post) then
      match process (atPc ctx cur) op (pre ++ .r8 n :: post) cur with
        | .ok bytes => pass2Items t rest (cur + bytes.length / 2) (acc ++ bytes) (atPc ctx cur)
        | .err => lineErr ln "instruction"
        | .oof => .oof
      else lineErr ln "not-allowed-for-device")
  rw [hb, checkInstruction_alias]

theorem regName_reads : ∀ r, r < 32 → regOfName (lower ('r' :: natToDec r)) = some r := by decide

theorem ainsert_idem {α : Type} (k : Str) (v w : α) (m : List (Str × α)) :
    ainsert k v (ainsert k w m) = ainsert k v m := by
  simp [ainsert, List.filter_filter]

/-- `pc` is set afresh at every item; what else the context holds is kept -/
theorem atPc_atPc_defs (ctx : Ctx) (cur : Nat) (D : List (Str × Nat)) :
    atPc { atPc ctx cur with defs := D } cur = { atPc ctx cur with defs := D } := by
  simp [atPc, ainsert_idem]

/-- the binding rule "from the definition on": `.def a = rN` followed by a use of `a` (in any
    letter case) is, inside pass 2, the use of register N -/
theorem def_then_use (t : SegT) (l1 l2 : Nat) (alias ref : Str) (r : Nat) (op : Op) (pre post : List IOp)
    (rest : List (Nat × Item)) (cur : Nat) (acc : List Nat) (ctx : Ctx) (hr : r < 32)
    (hcase : lower ref = lower alias)
    (hnew : (atPc ctx cur).exist alias = false) (hnew' : (atPc ctx cur).exist (lower alias) = false)
    (hnoexpr : (atPc ctx cur).getExpr ref = none) :
    pass2Items t ((l1, .def alias (.ident ('r' :: natToDec r))) ::
                  (l2, .instruction op (pre ++ .e (.ident ref) :: post)) :: rest) cur acc ctx =
    pass2Items t ((l2, .instruction op (pre ++ .r8 r :: post)) :: rest) cur acc
      { atPc ctx cur with defs := ainsert (lower alias) r ctx.defs } := by
  rw [def_item t l1 alias _ r _ cur acc ctx (regName_reads r hr)]
  simp only [hnew, hnew', Bool.false_eq_true, if_false]
  apply alias_item_same
  · exact def_binds (atPc ctx cur) alias ref r hcase
  · rw [atPc_atPc_defs]; exact hnoexpr

/-- … "until `.undef`": `.undef a` followed by a use of `a` fails the build, naming the line of
    the USE (a one-register instruction here) -/
theorem undef_then_use (t : SegT) (l3 l4 : Nat) (alias ref : Str)
    (rest : List (Nat × Item)) (cur : Nat) (acc : List Nat) (ctx : Ctx)
    (hcase : lower ref = lower alias)
    (hlive : (alookup (lower alias) ctx.defs).isSome = true) :
    pass2Items t ((l3, .undef alias) :: (l4, .instruction .inc [.e (.ident ref)]) :: rest) cur acc ctx =
      .error ⟨some l4, "instruction"⟩ := by
  rw [undef_item, if_pos hlive]
  generalize hc : ({ atPc ctx cur with defs := aremove (lower alias) ctx.defs } : Ctx) = c
  have hdead : (atPc c cur).getDef ref = none := by
    subst hc; exact undef_unbinds (atPc ctx cur) alias ref hcase
  have hres : resolve (atPc c cur) (accessors .inc) [.e (.ident ref)] = some [.bad] := by
    simp [accessors, resolve, resolveOne, asReg, hdead]
  have hp := process_eq (atPc c cur) .inc [.e (.ident ref)] cur _ hres
  rw [Enc.model_eq_spec _ .inc [.bad] cur (by intro n h; cases h) (by simp [regsOk])] at hp
  have hs : Enc.sWords (atPc c cur).device.isAvr8l .inc [.bad] cur = none := by
    simp [Enc.sWords, surface, sOne]
  rw [hs] at hp
  conv => lhs; unfold pass2Items
  show (if checkInstruction (atPc c cur).device .inc [.e (.ident ref)] then
      match process (atPc c cur) .inc [.e (.ident ref)] cur with
        | .ok bytes => pass2Items t rest (cur + bytes.length / 2) (acc ++ bytes) (atPc c cur)
        | .err => lineErr l4 "instruction"
        | .oof => .oof
      else lineErr l4 "not-allowed-for-device") = _
  rw [hp]
  simp [checkInstruction, checkOperation, lineErr]

/-- "the latest preceding assignment": after `.set name = e` (value `v`), a reference to the name
    in any letter case, at any later address, evaluates to `v` — whatever an earlier `.set` of the
    same name had bound (`ainsert` replaces) -/
theorem set_then_read (ctx : Ctx) (cur cur' : Nat) (name ref : Str) (v : Int)
    (hcase : lower ref = lower name)
    (hd : alookup ref ctx.defines = none) (he : alookup (lower ref) ctx.equs = none) :
    eval (atPc { atPc ctx cur with sets := ainsert (lower name) (.const v) ctx.sets } cur') (.ident ref)
      = .ok v := by
  apply eval_const_symbol
  unfold Ctx.getExpr
  rw [hcase] at he
  simp only [atPc, hd, he, hcase, alookup_ainsert_same]

/-- a second assignment replaces the first: the table afterwards is the table with only the
    later value -/
theorem set_twice_latest (sets : List (Str × Expr)) (n : Str) (v1 v2 : Int) :
    ainsert n (Expr.const v2) (ainsert n (Expr.const v1) sets) = ainsert n (Expr.const v2) sets :=
  ainsert_idem n _ _ sets

/-! non-vacuity -/
def exCtx : Ctx :=
  { device := { flash := 4194304, ramStart := 96, ramSize := 8388608, eeprom := 65536, opts := [] } }

example := def_then_use .code 1 2 "Tmp".toList "TMP".toList 16 .inc [] [] [] 0 [] exCtx
  (by decide) (by decide) (by decide) (by decide) (by decide)
example := undef_then_use .code 3 4 "Tmp".toList "tMP".toList [] 0 []
  { exCtx with defs := [("tmp".toList, 16)] } (by decide) (by decide)
example := set_then_read exCtx 0 7 "Count".toList "COUNT".toList 5 (by decide) (by decide) (by decide)

end Avra.Props.C10b
