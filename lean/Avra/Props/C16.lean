/-
  C16 — the assembler returns: a result or an error value, for every input.

  What the model can carry of this property:
   * every function of the model is total (Lean accepts the definitions: structural recursion,
     or recursion on an explicit bound) — the line loop, the skipper, the three passes, the
     evaluator (`evalWith` structural, symbol expansion bounded by MAX_SYMBOL_DEPTH);
   * recursion that follows the INPUT is bounded by constants of the source: include nesting by
     MAX_INCLUDE_DEPTH, macro nesting by MAX_MACRO_DEPTH, symbol expansion by MAX_SYMBOL_DEPTH
     (`limits_pinned` ties the model's constants to the ones extracted from the tree);
   * the model marks every place where the Rust code could panic on its own (`unwrap`, missing
     table row) with the outcome `.panic`; `build_never_panics` proves that NO input — source
     text, file system, include directories — reaches one.
  Stack depth, allocation and arithmetic-overflow panics are properties of the compiled code and
  are observed by the check's isolated-worker run, not by these theorems.
-/
import Avra.Model.Build
import Avra.Lemmas.Iter
import Avra.Lemmas.Fuel
namespace Avra.Props.C16
open Avra Avra.Model

theorem limits_pinned :
    maxSymbolDepth = Gen.maxSymbolDepth ∧ macroDepth = Gen.maxMacroDepth ∧ includeDepth = Gen.maxIncludeDepth ∧
    macroLine = Gen.maxMacroLine := by
  decide

/-- "does not panic" -/
def NoPanic {α : Type} (r : Out α) : Prop := ∀ s, r ≠ .panic s

theorem noPanic_ok {α : Type} (v : α) : NoPanic (Out.ok v) := fun _ h => by cases h
theorem noPanic_error {α : Type} (e : Err) : NoPanic (Out.error e : Out α) := fun _ h => by cases h
theorem noPanic_oof {α : Type} : NoPanic (Out.oof : Out α) := fun _ h => by cases h

/-! ### parsing -/

theorem directive_no_panic (inc : IncludeFn) (hinc : ∀ p i st, NoPanic (inc p i st)) (cur : Str) (incs : List Str)
    (st : PState) (d : Directive) (ops : DirectiveOps) (ln : Nat) : NoPanic (directiveParse inc cur incs st d ops ln) := by
  intro s h
  unfold directiveParse at h
  dsimp only at h
  repeat' split at h
  all_goals first
    | (simp [lineErr] at h; done)
    | (rename_i heq; exact hinc _ _ _ _ heq)

theorem lineStep_no_panic (inc : IncludeFn) (hinc : ∀ p i st, NoPanic (inc p i st)) (cur : Str) (incs : List Str)
    (st : PState) (idx : Nat) (text : Str) (re : Bool) : NoPanic (lineStep inc cur incs st idx text re) := by
  intro s h
  unfold lineStep at h
  dsimp only at h
  repeat' split at h
  all_goals first
    | (simp [lineErr] at h; done)
    | (exact directive_no_panic inc hinc _ _ _ _ _ _ s h)

theorem loop_no_panic (inc : IncludeFn) (hinc : ∀ p i st, NoPanic (inc p i st)) (cur : Str) :
    ∀ (f : Nat) (incs : List Str) (st : PState) (ni : NextItem) (ls : List (Nat × Str)),
      NoPanic (parseIterWith inc cur f incs st ni ls) := by
  intro f
  induction f with
  | zero => intro incs st ni ls s h; simp [parseIterWith] at h
  | succ f ih =>
    intro incs st ni ls s h
    simp only [parseIterWith] at h
    repeat' split at h
    all_goals first
      | (simp at h; done)
      | (exact ih _ _ _ _ s h)
      | (rename_i heq; simp only [Out.panic.injEq] at h; subst h; exact lineStep_no_panic inc hinc _ _ _ _ _ _ _ heq)

theorem file_no_panic (fs : Fs) : ∀ (d : Nat) (p : Str) (i : List Str) (st : PState), NoPanic (parseFileAt fs d p i st) := by
  intro d
  induction d with
  | zero => intro p i st s h; simp [parseFileAt] at h
  | succ d ih =>
    intro p i st s h
    unfold parseFileAt at h
    dsimp only at h
    repeat' split at h
    all_goals first
      | (simp at h; done)
      | (rename_i heq; simp only [Out.panic.injEq] at h; subst h; exact loop_no_panic _ ih _ _ _ _ _ _ _ heq)

theorem parseIter_no_panic (fs : Fs) (cur : Str) (incs : List Str) (st : PState) (ni : NextItem)
    (ls : List (Nat × Str)) : NoPanic (parseIter fs cur incs st ni ls) :=
  loop_no_panic _ (file_no_panic fs includeDepth) _ _ _ _ _ _

theorem parseStr_no_panic (fs : Fs) (src : Str) (ctx : Ctx) : NoPanic (parseStr fs src ctx) := by
  intro s h
  unfold parseStr at h
  split at h
  all_goals first
    | (simp at h; done)
    | (rename_i heq; simp only [Out.panic.injEq] at h; subst h; exact parseIter_no_panic _ _ _ _ _ _ _ heq)

theorem parseFile_no_panic (fs : Fs) (path : Str) (incs : List Str) (ctx : Ctx) : NoPanic (parseFile fs path incs ctx) := by
  intro s h
  unfold parseFile at h
  split at h
  all_goals first
    | (simp at h; done)
    | (rename_i heq; simp only [Out.panic.injEq] at h; subst h; exact file_no_panic _ _ _ _ _ _ heq)

/-! ### pass 0 -/

theorem macroExpand_no_panic (fs : Fs) (macros : List (Str × List (Nat × Str))) (st : PState) (ln : Nat)
    (name : Str) (ops : List IOp) : NoPanic (macroExpand fs macros st ln name ops) := by
  intro s h
  unfold macroExpand at h
  dsimp only at h
  repeat' split at h
  all_goals first
    | (simp [lineErr] at h; done)
    | (rename_i heq; simp only [Out.panic.injEq] at h; subst h; exact parseIter_no_panic _ _ _ _ _ _ _ heq)

theorem pass0Segs_no_panic (inner : PState → List (Nat × Item) → Out PState) (hin : ∀ st its, NoPanic (inner st its)) :
    ∀ (segs : List Segment) (st : PState), NoPanic (pass0Segs inner st segs) := by
  intro segs
  induction segs with
  | nil => intro st s h; simp [pass0Segs] at h
  | cons x rest ih =>
    intro st s h
    unfold pass0Segs at h
    repeat' split at h
    all_goals first
      | (exact ih _ s h)
      | (exact hin _ _ s h)
      | (simp at h; done)

theorem pass0Items_no_panic (fs : Fs) (macros : List (Str × List (Nat × Str))) (allow : Bool)
    (inner : PState → List (Nat × Item) → Out PState) (hin : ∀ st its, NoPanic (inner st its)) :
    ∀ (its : List (Nat × Item)) (st : PState), NoPanic (pass0Items fs macros allow inner st its) := by
  intro its
  induction its with
  | nil => intro st s h; simp [pass0Items] at h
  | cons x rest ih =>
    obtain ⟨ln, it⟩ := x
    intro st s h
    unfold pass0Items at h
    dsimp only at h
    repeat' split at h
    all_goals first
      | (exact ih _ s h)
      | (simp [lineErr] at h; done)
      | (rename_i heq; simp only [Out.panic.injEq] at h; subst h; exact macroExpand_no_panic _ _ _ _ _ _ _ heq)
      | (exact pass0Segs_no_panic inner hin _ _ s h)
      | (exact hin _ _ s h)

theorem pass0At_no_panic (fs : Fs) (macros : List (Str × List (Nat × Str))) :
    ∀ (d : Nat) (st : PState) (its : List (Nat × Item)), NoPanic (pass0At fs macros d st its) := by
  intro d
  induction d with
  | zero => intro st its; exact pass0Items_no_panic fs macros false _ (fun _ _ => noPanic_oof) its st
  | succ d ih => intro st its; exact pass0Items_no_panic fs macros true _ ih its st

theorem pass0_no_panic (fs : Fs) (parsed : ParseResult) (ctx : Ctx) : NoPanic (pass0 fs parsed ctx) := by
  unfold pass0
  dsimp only
  generalize ({ ctx := ctx, segments := [], messages := parsed.messages } : PState) = st0
  generalize parsed.segments = segs
  induction segs generalizing st0 with
  | nil => intro s h; simp [pass0.go] at h
  | cons x rest ih =>
    intro s h
    unfold pass0.go at h
    repeat' split at h
    all_goals first
      | (exact ih _ s h)
      | (exact pass0At_no_panic _ _ _ _ _ s h)
      | (simp at h; done)

/-! ### pass 1 : the opcode table has a row for every operation on both cores -/

theorem info_total (avr8l : Bool) (op : Op) : (info avr8l op).isSome = true := by
  cases op with
  | br b => cases b <;> cases avr8l <;> decide
  | se f => cases f <;> cases avr8l <;> decide
  | cl f => cases f <;> cases avr8l <;> decide
  | custom n => rfl
  | _ => cases avr8l <;> decide

theorem info_ne_none (avr8l : Bool) (op : Op) : info avr8l op ≠ none := by
  intro h; have := info_total avr8l op; rw [h] at this; simp at this

theorem consItem_no_panic (x : Nat × Item) (r : Out (Nat × List (Nat × Item) × Ctx)) (h : NoPanic r) :
    NoPanic (consItem x r) := by
  intro s hs
  cases r with
  | ok v => obtain ⟨a, b, c⟩ := v; simp [consItem] at hs
  | error e => simp [consItem] at hs
  | panic p => exact h p rfl
  | oof => simp [consItem] at hs

theorem pass1Items_no_panic (t : SegT) (limit : Nat) : ∀ (its : List (Nat × Item)) (cur : Nat) (ctx : Ctx),
    NoPanic (pass1Items t limit its cur ctx) := by
  intro its
  induction its with
  | nil => intro cur ctx s h; unfold pass1Items at h; split at h <;> simp [noLineErr] at h
  | cons x rest ih =>
    obtain ⟨ln, it⟩ := x
    intro cur ctx s h
    unfold pass1Items at h
    repeat' split at h
    all_goals first
      | (exact ih _ _ s h)
      | (exact consItem_no_panic _ _ (ih _ _) s h)
      | (simp [lineErr] at h; done)
      | (rename_i heq; exact info_ne_none _ _ heq)

theorem pass1go_no_panic (messages : List Str) (dev : Device) : ∀ (segs : List Segment) (a b c : Nat)
    (out : List Segment) (cx : Ctx), NoPanic (pass1.go messages dev segs a b c out cx) := by
  intro segs
  induction segs with
  | nil => intro a b c out cx s h; simp [pass1.go] at h
  | cons x rest ih =>
    intro a b c out cx s h
    unfold pass1.go at h
    dsimp only at h
    repeat' split at h
    all_goals first
      | (exact ih _ _ _ _ _ s h)
      | (simp [noLineErr] at h; done)
      | (rename_i heq; simp only [Out.panic.injEq] at h; subst h; exact pass1Items_no_panic _ _ _ _ _ _ heq)

theorem pass1_no_panic (segs : List Segment) (messages : List Str) (ctx : Ctx) : NoPanic (pass1 segs messages ctx) :=
  pass1go_no_panic _ _ _ _ _ _ _ _

/-! ### pass 2 and the whole build -/

theorem pass2Items_no_panic (t : SegT) : ∀ (its : List (Nat × Item)) (cur : Nat) (acc : List Nat) (ctx : Ctx),
    NoPanic (pass2Items t its cur acc ctx) := by
  intro its
  induction its with
  | nil => intro cur acc ctx s h; simp [pass2Items] at h
  | cons x rest ih =>
    obtain ⟨ln, it⟩ := x
    intro cur acc ctx s h
    unfold pass2Items at h
    dsimp only at h
    repeat' split at h
    all_goals first
      | (exact ih _ _ _ s h)
      | (simp [lineErr] at h; done)

theorem pass2go_no_panic (p1 : Pass1Result) : ∀ (segs : List Segment) (code ee : List Nat) (ctx : Ctx),
    NoPanic (pass2.go p1 segs code ee ctx) := by
  intro segs
  induction segs with
  | nil => intro code ee ctx s h; simp [pass2.go] at h
  | cons x rest ih =>
    intro code ee ctx s h
    unfold pass2.go at h
    dsimp only at h
    repeat' split at h
    all_goals first
      | (exact ih _ _ _ s h)
      | (simp at h; done)
      | (rename_i heq; simp only [Out.panic.injEq] at h; subst h; exact pass2Items_no_panic _ _ _ _ _ _ heq)

theorem pass2_no_panic (p1 : Pass1Result) : NoPanic (pass2 p1) := pass2go_no_panic _ _ _ _ _

theorem buildFromParsed_no_panic (fs : Fs) (st : PState) : NoPanic (buildFromParsed fs st) := by
  intro s h
  unfold buildFromParsed at h
  dsimp only at h
  repeat' split at h
  all_goals first
    | (simp [noLineErr] at h; done)
    | (rename_i heq; simp only [Out.panic.injEq] at h; subst h; exact pass2_no_panic _ _ heq)
    | (rename_i heq; simp only [Out.panic.injEq] at h; subst h; exact pass1_no_panic _ _ _ _ heq)
    | (rename_i heq; simp only [Out.panic.injEq] at h; subst h; exact pass0_no_panic _ _ _ _ heq)

/-- **C16, the part a theorem can carry.**  For EVERY source text, every file system and every
    list of include directories, `build_str` and `build_file` of the model return an `Ok`, an
    `Err` — or give up on their own explicit bound (`oof`, which the correspondence run never
    observes) — and never reach one of the places where the Rust code would panic by itself. -/
theorem build_never_panics (fs : Fs) (src path : Str) (incs : List Str) :
    NoPanic (buildStr fs src) ∧ NoPanic (buildFile fs path incs) := by
  constructor
  · intro s h
    unfold buildStr at h
    split at h
    all_goals first
      | (exact buildFromParsed_no_panic _ _ s h)
      | (simp at h; done)
      | (rename_i heq; simp only [Out.panic.injEq] at h; subst h; exact parseStr_no_panic _ _ _ _ heq)
  · intro s h
    unfold buildFile at h
    split at h
    all_goals first
      | (exact buildFromParsed_no_panic _ _ s h)
      | (simp at h; done)
      | (rename_i heq; simp only [Out.panic.injEq] at h; subst h; exact parseFile_no_panic _ _ _ _ _ heq)

/-! ### termination within the explicit bounds: the only way the model gives up (`oof`) is the
    expression parser's fuel -/

theorem binEval_no_oof (op : BinOp) (l r : Int) : binEval op l r ≠ .oof := by
  unfold binEval
  cases op <;> simp only <;> (repeat' split) <;> simp [checked] <;> (repeat' split) <;> simp

theorem unEval_no_oof (op : UnOp) (v : Int) : unEval op v ≠ .oof := by
  unfold unEval
  cases op <;> simp only <;> (repeat' split) <;> simp [checked] <;> (repeat' split) <;> simp

theorem funcEval_no_oof (name : Str) (v : Int) : funcEval name v ≠ .oof := by
  unfold funcEval
  dsimp only
  repeat' split
  all_goals simp

theorem evalWith_no_oof (sym : Str → EvalRes) (h : ∀ n, sym n ≠ .oof) : ∀ e, evalWith sym e ≠ .oof := by
  intro e
  induction e with
  | ident n => simp only [evalWith]; exact h n
  | const v => simp [evalWith]
  | func f a iha ihb =>
    cases f with
    | ident name =>
      simp only [evalWith]
      cases ha : evalWith sym a with
      | ok v => simp only; exact funcEval_no_oof _ _
      | err k => simp
      | oof => exact absurd ha ihb
    | const v => simp [evalWith]
    | func a b => simp [evalWith]
    | bin o a b => simp [evalWith]
    | un o a => simp [evalWith]
  | bin op l r ihl ihr =>
    simp only [evalWith]
    cases hl : evalWith sym l with
    | ok lv =>
      simp only
      cases hr : evalWith sym r with
      | ok rv => simp only; exact binEval_no_oof _ _ _
      | err k => simp
      | oof => exact absurd hr ihr
    | err k => simp
    | oof => exact absurd hl ihl
  | un op e ih =>
    simp only [evalWith]
    cases he : evalWith sym e with
    | ok v => simp only; exact unEval_no_oof _ _
    | err k => simp
    | oof => exact absurd he ih

theorem symAt_no_oof (c : Ctx) : ∀ (k : Nat) (n : Str), symAt c k n ≠ .oof := by
  intro k
  induction k with
  | zero => intro n; simp only [symAt]; repeat' split <;> simp
  | succ k ih =>
    intro n
    simp only [symAt]
    split
    · simp
    · exact evalWith_no_oof _ ih _
    · simp

/-- expression evaluation never gives up: it is bounded by the size of the expression and by
    MAX_SYMBOL_DEPTH -/
theorem eval_no_oof (c : Ctx) (e : Expr) : eval c e ≠ .oof :=
  evalWith_no_oof _ (symAt_no_oof c maxSymbolDepth) e

/-- the fuel handed to the expression parser (`exprFuel`, linear in the length of the line) and
    to the operand lists always suffices -/
def FuelAdequate : Prop := ∀ s : Str, (parseLine s).2 = false

/-- ... and it does: `Lemmas.Fuel.line_no_oof` (what a rule leaves over is never longer than what
    it got; with `n * K` fuel every input shorter than `n` parses without running out, `K` = the
    size of the regenerated operator tables + 8; every list element costs a comma) -/
theorem fuel_adequate : FuelAdequate := by
  intro s
  have h := Avra.Lemmas.Fuel.line_no_oof s
  unfold parseLine
  split
  · rfl
  · rfl
  · rename_i heq; exact absurd heq h

def NoOof {α : Type} (r : Out α) : Prop := r ≠ .oof

theorem skipCond_flag (hF : FuelAdequate) (all : Bool) : ∀ (ls : List (Nat × Str)) (d : Nat),
    (skipCond all d ls).2.2.2 = false := by
  intro ls
  induction ls with
  | nil => intro d; rfl
  | cons x xs ih =>
    obtain ⟨num, t⟩ := x
    intro d
    have hf := hF t
    unfold skipCond
    split
    · repeat' split
      all_goals first
        | exact ih _
        | rfl
    · rename_i hp; rw [hp] at hf; simp at hf
    · exact ih _

theorem skipMacro_flag (hF : FuelAdequate) : ∀ (ls acc : List (Nat × Str)), (skipMacro acc ls).2.2.2 = false := by
  intro ls
  induction ls with
  | nil => intro acc; rfl
  | cons x xs ih =>
    obtain ⟨num, t⟩ := x
    intro acc
    have hf := hF t
    unfold skipMacro
    split
    · repeat' split
      all_goals first
        | exact ih _
        | rfl
    · rename_i hp; rw [hp] at hf; simp at hf
    · exact ih _

theorem skipStep_flag (hF : FuelAdequate) (st : PState) (ni : NextItem) (ls : List (Nat × Str)) :
    (skipStep st ni ls).2.2.2.2 = false := by
  unfold skipStep
  cases ni with
  | newLine => cases ls <;> rfl
  | endFile => rfl
  | endMacro => simp only; exact skipMacro_flag hF ls []
  | endIf => simp only; exact skipCond_flag hF false ls 0
  | endIfAll => simp only; exact skipCond_flag hF true ls 0

theorem directive_no_oof (inc : IncludeFn) (hinc : ∀ p i st, NoOof (inc p i st)) (cur : Str) (incs : List Str)
    (st : PState) (d : Directive) (ops : DirectiveOps) (ln : Nat) : NoOof (directiveParse inc cur incs st d ops ln) := by
  intro h
  unfold directiveParse at h
  dsimp only at h
  repeat' split at h
  all_goals first
    | (simp [lineErr] at h; done)
    | (rename_i heq; exact absurd heq (eval_no_oof _ _))
    | (rename_i heq; exact hinc _ _ _ heq)
    | (rename_i heq; unfold evalOut at heq; split at heq <;> first | (simp at heq; done) | (rename_i h2; exact absurd h2 (eval_no_oof _ _)))

theorem lineStep_no_oof (hF : FuelAdequate) (inc : IncludeFn) (hinc : ∀ p i st, NoOof (inc p i st)) (cur : Str)
    (incs : List Str) (st : PState) (idx : Nat) (text : Str) (re : Bool) : NoOof (lineStep inc cur incs st idx text re) := by
  intro h
  have hf := hF text
  unfold lineStep at h
  dsimp only at h
  repeat' split at h
  all_goals first
    | (simp [lineErr] at h; done)
    | (rename_i hp; rw [hp] at hf; simp at hf; done)
    | (exact directive_no_oof inc hinc _ _ _ _ _ _ h)

/-- the line loop ends within its bound of "remaining lines + 1" iterations -/
theorem loop_no_oof (hF : FuelAdequate) (inc : IncludeFn) (hinc : ∀ p i st, NoOof (inc p i st)) (cur : Str) :
    ∀ (f : Nat) (incs : List Str) (st : PState) (ni : NextItem) (ls : List (Nat × Str)), ls.length < f →
      NoOof (parseIterWith inc cur f incs st ni ls) := by
  intro f
  induction f with
  | zero => intro incs st ni ls hl; omega
  | succ f ih =>
    intro incs st ni ls hl h
    simp only [parseIterWith] at h
    have hflag := skipStep_flag hF st ni ls
    cases hs : skipStep st ni ls with
    | mk st1 t =>
      obtain ⟨nx, re, rest, o⟩ := t
      rw [hs] at h hflag
      simp only at hflag
      subst hflag
      cases nx with
      | none => simp at h
      | some line =>
        obtain ⟨idx, text⟩ := line
        simp only at h
        have hlt := Avra.Lemmas.Iter.skipStep_shrinks st ni ls st1 (idx, text) re rest false hs
        cases hl2 : lineStep inc cur incs st1 idx text re with
        | ok v =>
          obtain ⟨st', incs', ni'⟩ := v
          rw [hl2] at h
          exact ih _ _ _ _ (by omega) h
        | error e => rw [hl2] at h; simp at h
        | panic p => rw [hl2] at h; simp at h
        | oof => exact lineStep_no_oof hF inc hinc _ _ _ _ _ _ hl2

theorem file_no_oof (hF : FuelAdequate) (fs : Fs) : ∀ (d : Nat) (p : Str) (i : List Str) (st : PState), NoOof (parseFileAt fs d p i st) := by
  intro d
  induction d with
  | zero => intro p i st h; simp [parseFileAt] at h
  | succ d ih =>
    intro p i st h
    unfold parseFileAt at h
    dsimp only at h
    repeat' split at h
    all_goals first
      | (simp at h; done)
      | (have heq := ‹parseIterWith _ _ _ _ _ _ _ = Out.oof›
         refine loop_no_oof hF _ ih _ _ _ _ _ _ ?_ heq
         simp [numbered])

theorem parseIter_no_oof (hF : FuelAdequate) (fs : Fs) (cur : Str) (incs : List Str) (st : PState) (ni : NextItem)
    (ls : List (Nat × Str)) : NoOof (parseIter fs cur incs st ni ls) :=
  loop_no_oof hF _ (file_no_oof hF fs includeDepth) _ _ _ _ _ _ (Nat.lt_succ_self _)

theorem parseStr_no_oof (hF : FuelAdequate) (fs : Fs) (src : Str) (ctx : Ctx) : NoOof (parseStr fs src ctx) := by
  intro h
  unfold parseStr at h
  split at h
  all_goals first
    | (simp at h; done)
    | (rename_i heq; exact parseIter_no_oof hF _ _ _ _ _ _ heq)

theorem parseFile_no_oof (hF : FuelAdequate) (fs : Fs) (path : Str) (incs : List Str) (ctx : Ctx) :
    NoOof (parseFile fs path incs ctx) := by
  intro h
  unfold parseFile at h
  split at h
  all_goals first
    | (simp at h; done)
    | (rename_i heq; exact file_no_oof hF _ _ _ _ _ heq)

theorem macroExpand_no_oof (hF : FuelAdequate) (fs : Fs) (macros : List (Str × List (Nat × Str))) (st : PState)
    (ln : Nat) (name : Str) (ops : List IOp) : NoOof (macroExpand fs macros st ln name ops) := by
  intro h
  unfold macroExpand at h
  dsimp only at h
  repeat' split at h
  all_goals first
    | (simp [lineErr] at h; done)
    | (rename_i heq; exact parseIter_no_oof hF _ _ _ _ _ _ heq)

theorem pass0Segs_no_oof (inner : PState → List (Nat × Item) → Out PState) (hin : ∀ st its, NoOof (inner st its)) :
    ∀ (segs : List Segment) (st : PState), NoOof (pass0Segs inner st segs) := by
  intro segs
  induction segs with
  | nil => intro st h; simp [pass0Segs] at h
  | cons x rest ih =>
    intro st h
    unfold pass0Segs at h
    repeat' split at h
    all_goals first
      | (exact ih _ h)
      | (exact hin _ _ h)
      | (simp at h; done)

/-- macro calls may be expanded (`allow`): the nested level must not give up -/
theorem pass0Items_no_oof (hF : FuelAdequate) (fs : Fs) (macros : List (Str × List (Nat × Str)))
    (inner : PState → List (Nat × Item) → Out PState) (hin : ∀ st its, NoOof (inner st its)) (allow : Bool) :
    ∀ (its : List (Nat × Item)) (st : PState), NoOof (pass0Items fs macros allow inner st its) := by
  intro its
  induction its with
  | nil => intro st h; simp [pass0Items] at h
  | cons x rest ih =>
    obtain ⟨ln, it⟩ := x
    intro st h
    unfold pass0Items at h
    dsimp only at h
    repeat' split at h
    all_goals first
      | (exact ih _ h)
      | (simp [lineErr] at h; done)
      | (rename_i heq; exact macroExpand_no_oof hF _ _ _ _ _ _ heq)
      | (exact pass0Segs_no_oof inner hin _ _ h)
      | (exact hin _ _ h)

/-- at MAX_MACRO_DEPTH nothing is expanded any more, so the (absent) next level is never asked -/
theorem pass0Items_deepest_no_oof (fs : Fs) (macros : List (Str × List (Nat × Str)))
    (inner : PState → List (Nat × Item) → Out PState) :
    ∀ (its : List (Nat × Item)) (st : PState), NoOof (pass0Items fs macros false inner st its) := by
  intro its
  induction its with
  | nil => intro st h; simp [pass0Items] at h
  | cons x rest ih =>
    obtain ⟨ln, it⟩ := x
    intro st h
    unfold pass0Items at h
    dsimp only at h
    repeat' split at h
    all_goals first
      | (exact ih _ h)
      | (simp [lineErr] at h; done)
      | (exfalso; simp_all; done)

theorem pass0At_no_oof (hF : FuelAdequate) (fs : Fs) (macros : List (Str × List (Nat × Str))) :
    ∀ (d : Nat) (st : PState) (its : List (Nat × Item)), NoOof (pass0At fs macros d st its) := by
  intro d
  induction d with
  | zero => intro st its; exact pass0Items_deepest_no_oof fs macros _ its st
  | succ d ih => intro st its; exact pass0Items_no_oof hF fs macros _ ih true its st

theorem pass0_no_oof (hF : FuelAdequate) (fs : Fs) (parsed : ParseResult) (ctx : Ctx) : NoOof (pass0 fs parsed ctx) := by
  unfold pass0
  dsimp only
  generalize ({ ctx := ctx, segments := [], messages := parsed.messages } : PState) = st0
  generalize parsed.segments = segs
  induction segs generalizing st0 with
  | nil => intro h; simp [pass0.go] at h
  | cons x rest ih =>
    intro h
    unfold pass0.go at h
    repeat' split at h
    all_goals first
      | (exact ih _ h)
      | (exact pass0At_no_oof hF _ _ _ _ _ h)
      | (simp at h; done)

theorem consItem_no_oof (x : Nat × Item) (r : Out (Nat × List (Nat × Item) × Ctx)) (h : NoOof r) : NoOof (consItem x r) := by
  intro hs
  cases r with
  | ok v => obtain ⟨a, b, c⟩ := v; simp [consItem] at hs
  | error e => simp [consItem] at hs
  | panic p => simp [consItem] at hs
  | oof => exact h rfl

theorem pass1Items_no_oof (t : SegT) (limit : Nat) : ∀ (its : List (Nat × Item)) (cur : Nat) (ctx : Ctx),
    NoOof (pass1Items t limit its cur ctx) := by
  intro its
  induction its with
  | nil => intro cur ctx h; unfold pass1Items at h; split at h <;> simp [noLineErr] at h
  | cons x rest ih =>
    obtain ⟨ln, it⟩ := x
    intro cur ctx h
    unfold pass1Items at h
    repeat' split at h
    all_goals first
      | (exact ih _ _ h)
      | (exact consItem_no_oof _ _ (ih _ _) h)
      | (simp [lineErr] at h; done)

theorem pass1go_no_oof (messages : List Str) (dev : Device) : ∀ (segs : List Segment) (a b c : Nat)
    (out : List Segment) (cx : Ctx), NoOof (pass1.go messages dev segs a b c out cx) := by
  intro segs
  induction segs with
  | nil => intro a b c out cx h; simp [pass1.go] at h
  | cons x rest ih =>
    intro a b c out cx h
    unfold pass1.go at h
    dsimp only at h
    repeat' split at h
    all_goals first
      | (exact ih _ _ _ _ _ h)
      | (simp [noLineErr] at h; done)
      | (rename_i heq; exact pass1Items_no_oof _ _ _ _ _ heq)

theorem resolveOne_some (c : Ctx) (a : Acc) (o : IOp) : (resolveOne c a o).isSome = true := by
  unfold resolveOne
  cases a with
  | reg => rfl
  | val =>
    simp only
    unfold asVal
    cases o with
    | e e => simp only; cases h : eval c e with
      | ok v => rfl
      | err k => rfl
      | oof => exact absurd h (eval_no_oof c e)
    | r8 n => rfl
    | index i => rfl
  | idx =>
    simp only
    unfold asIdx
    cases o with
    | index i =>
      simp only [Option.isSome_map]
      unfold resolveIndex
      cases i with
      | postIncE r e =>
        simp only
        cases h : eval c e with
        | ok v => rfl
        | err k => rfl
        | oof => exact absurd h (eval_no_oof c e)
      | none r => rfl
      | postInc r => rfl
      | preDec r => rfl
    | e e => rfl
    | r8 n => rfl

theorem resolve_some (c : Ctx) : ∀ (accs : List Acc) (args : List IOp), (resolve c accs args).isSome = true := by
  intro accs args
  induction args generalizing accs with
  | nil => cases accs <;> rfl
  | cons o os ih =>
    cases accs with
    | nil => simp only [resolve, Option.isSome_map]; exact ih []
    | cons a as =>
      simp only [resolve]
      have h1 := resolveOne_some c a o
      have h2 := ih as
      cases hr : resolveOne c a o with
      | none => rw [hr] at h1; cases h1
      | some x =>
        cases hs : resolve c as os with
        | none => rw [hs] at h2; cases h2
        | some xs => rfl

theorem process_no_oof (c : Ctx) (op : Op) (args : List IOp) (addr : Nat) : process c op args addr ≠ .oof := by
  intro h
  unfold process at h
  repeat' split at h
  all_goals first
    | (simp at h; done)
    | (rename_i heq; have := resolve_some c (accessors op) args; rw [heq] at this; cases this)

theorem operandBytes_no_oof (c : Ctx) (dt : DataDefine) (o : Operand) : operandBytes c dt o ≠ .oof := by
  intro h
  unfold operandBytes at h
  repeat' split at h
  all_goals first
    | (simp at h; done)
    | (rename_i heq; exact absurd heq (eval_no_oof _ _))

theorem dataBytes_no_oof (c : Ctx) (dt : DataDefine) : ∀ (ops : List Operand), dataBytes c dt ops ≠ .oof := by
  intro ops
  induction ops with
  | nil => simp [dataBytes]
  | cons o more ih =>
    intro h
    unfold dataBytes at h
    cases hb : operandBytes c dt o with
    | ok b =>
      rw [hb] at h
      dsimp only at h
      cases hbs : dataBytes c dt more with
      | ok bs => rw [hbs] at h; simp at h
      | err => rw [hbs] at h; simp at h
      | oof => exact ih hbs
    | err => rw [hb] at h; simp at h
    | oof => exact operandBytes_no_oof c dt o hb

theorem pass2Items_no_oof (t : SegT) : ∀ (its : List (Nat × Item)) (cur : Nat) (acc : List Nat) (ctx : Ctx),
    NoOof (pass2Items t its cur acc ctx) := by
  intro its
  induction its with
  | nil => intro cur acc ctx h; simp [pass2Items] at h
  | cons x rest ih =>
    obtain ⟨ln, it⟩ := x
    intro cur acc ctx h
    unfold pass2Items at h
    dsimp only at h
    repeat' split at h
    all_goals first
      | (exact ih _ _ _ h)
      | (simp [lineErr] at h; done)
      | (rename_i heq; exact absurd heq (process_no_oof _ _ _ _))
      | (rename_i heq; exact absurd heq (dataBytes_no_oof _ _ _))
      | (rename_i heq; exact absurd heq (eval_no_oof _ _))

theorem pass2go_no_oof (p1 : Pass1Result) : ∀ (segs : List Segment) (code ee : List Nat) (ctx : Ctx),
    NoOof (pass2.go p1 segs code ee ctx) := by
  intro segs
  induction segs with
  | nil => intro code ee ctx h; simp [pass2.go] at h
  | cons x rest ih =>
    intro code ee ctx h
    unfold pass2.go at h
    dsimp only at h
    repeat' split at h
    all_goals first
      | (exact ih _ _ _ h)
      | (simp at h; done)
      | (rename_i heq; exact pass2Items_no_oof _ _ _ _ _ heq)

theorem buildFromParsed_no_oof (hF : FuelAdequate) (fs : Fs) (st : PState) : NoOof (buildFromParsed fs st) := by
  intro h
  unfold buildFromParsed at h
  dsimp only at h
  repeat' split at h
  all_goals first
    | (simp [noLineErr] at h; done)
    | (rename_i heq; exact pass2go_no_oof _ _ _ _ _ heq)
    | (rename_i heq; exact pass1go_no_oof _ _ _ _ _ _ _ _ heq)
    | (rename_i heq; exact pass0_no_oof hF _ _ _ heq)

/-- **Termination within the explicit bounds.**  If the expression parser's fuel is adequate
    (`FuelAdequate`, the one ingredient left to the correspondence run), then for EVERY source
    text, file system and include-directory list the model answers with a result or an error:
    the line loop ends within "number of lines + 1" iterations, includes within
    MAX_INCLUDE_DEPTH, macro expansion within MAX_MACRO_DEPTH, symbol expansion within
    MAX_SYMBOL_DEPTH (`eval_no_oof`), and the three passes are structural recursions. -/
theorem build_answers_given_fuel (hF : FuelAdequate) (fs : Fs) (src path : Str) (incs : List Str) :
    (∃ b, buildStr fs src = .ok b) ∨ (∃ e, buildStr fs src = .error e) := by
  have hp := (build_never_panics fs src path incs).1
  have ho : NoOof (buildStr fs src) := by
    intro h
    unfold buildStr at h
    split at h
    all_goals first
      | (exact buildFromParsed_no_oof hF _ _ h)
      | (simp at h; done)
      | (rename_i heq; exact parseStr_no_oof hF _ _ _ heq)
  cases hb : buildStr fs src with
  | ok b => exact Or.inl ⟨b, rfl⟩
  | error e => exact Or.inr ⟨e, rfl⟩
  | panic s => exact absurd hb (hp s)
  | oof => exact absurd hb ho

/-- **the model always answers**: for every source text, file system and include-directory list
    `buildStr` returns a result or an error — never a panic, never "out of fuel" -/
theorem build_always_answers (fs : Fs) (src path : Str) (incs : List Str) :
    (∃ b, buildStr fs src = .ok b) ∨ (∃ e, buildStr fs src = .error e) :=
  build_answers_given_fuel fuel_adequate fs src path incs

/-- the same for a build from a file: whatever the file system holds (missing files, include
    cycles, directories in place of files), `buildFile` returns a result or an error -/
theorem build_file_always_answers (fs : Fs) (src path : Str) (incs : List Str) :
    (∃ b, buildFile fs path incs = .ok b) ∨ (∃ e, buildFile fs path incs = .error e) := by
  have hp := (build_never_panics fs src path incs).2
  have ho : NoOof (buildFile fs path incs) := by
    intro h
    unfold buildFile at h
    split at h
    all_goals first
      | (exact buildFromParsed_no_oof fuel_adequate _ _ h)
      | (simp at h; done)
      | (rename_i heq; exact parseFile_no_oof fuel_adequate _ _ _ _ heq)
  cases hb : buildFile fs path incs with
  | ok b => exact Or.inl ⟨b, rfl⟩
  | error e => exact Or.inr ⟨e, rfl⟩
  | panic s => exact absurd hb (hp s)
  | oof => exact absurd hb ho

/-- expression evaluation is total and never panics: its result type has no such outcome, and
    the arithmetic the Rust code checks (`checked_*`, shift counts, division by zero) yields
    `.err` in the model — see C05.evalWith_total for the totality statement -/
theorem eval_outcomes (c : Ctx) (e : Expr) : (∃ v, eval c e = .ok v) ∨ (∃ k, eval c e = .err k) ∨ eval c e = .oof := by
  cases h : eval c e with
  | ok v => exact Or.inl ⟨v, rfl⟩
  | err k => exact Or.inr (Or.inl ⟨k, rfl⟩)
  | oof => exact Or.inr (Or.inr rfl)

end Avra.Props.C16
