/-
  C16 — the assembler returns: a result or an error value, for every input.

  What the model can carry of this property:
   * every function of the model is total (Lean accepts the definitions: structural recursion,
     or recursion on an explicit bound) — the line loop, the skipper, the three passes, the
     evaluator (`evalWith` structural, symbol expansion bounded by MAX_SYMBOL_DEPTH);
   * recursion that follows the INPUT is bounded by constants of the source: include nesting by
     MAX_INCLUDE_DEPTH, macro nesting by MAX_MACRO_DEPTH, symbol expansion by MAX_SYMBOL_DEPTH
     (`limits_pinned` ties the model's constants to the ones extracted from the tree);
   * the model marks every place where the Rust code could panic on its own (`unwrap`, missing
     table row) with the outcome `.panic`; `build_never_panics` proves that NO input — source
     text, file system, include directories — reaches one.
  Stack depth, allocation and arithmetic-overflow panics are properties of the compiled code and
  are observed by the check's isolated-worker run, not by these theorems.
-/
import Avra.Model.Build
namespace Avra.Props.C16
open Avra Avra.Model

theorem limits_pinned :
    maxSymbolDepth = Gen.maxSymbolDepth ∧ macroDepth = Gen.maxMacroDepth ∧ includeDepth = Gen.maxIncludeDepth := by
  decide

/-- "does not panic" -/
def NoPanic {α : Type} (r : Out α) : Prop := ∀ s, r ≠ .panic s

theorem noPanic_ok {α : Type} (v : α) : NoPanic (Out.ok v) := fun _ h => by cases h
theorem noPanic_error {α : Type} (e : Err) : NoPanic (Out.error e : Out α) := fun _ h => by cases h
theorem noPanic_oof {α : Type} : NoPanic (Out.oof : Out α) := fun _ h => by cases h

/-! ### parsing -/

theorem directive_no_panic (inc : IncludeFn) (hinc : ∀ p i st, NoPanic (inc p i st)) (cur : Str) (incs : List Str)
    (st : PState) (d : Directive) (ops : DirectiveOps) (ln : Nat) : NoPanic (directiveParse inc cur incs st d ops ln) := by
  intro s h
  unfold directiveParse at h
  dsimp only at h
  repeat' split at h
  all_goals first
    | (simp [lineErr] at h; done)
    | (rename_i heq; exact hinc _ _ _ _ heq)

theorem lineStep_no_panic (inc : IncludeFn) (hinc : ∀ p i st, NoPanic (inc p i st)) (cur : Str) (incs : List Str)
    (st : PState) (idx : Nat) (text : Str) (re : Bool) : NoPanic (lineStep inc cur incs st idx text re) := by
  intro s h
  unfold lineStep at h
  dsimp only at h
  repeat' split at h
  all_goals first
    | (simp [lineErr] at h; done)
    | (exact directive_no_panic inc hinc _ _ _ _ _ _ s h)

theorem loop_no_panic (inc : IncludeFn) (hinc : ∀ p i st, NoPanic (inc p i st)) (cur : Str) :
    ∀ (f : Nat) (incs : List Str) (st : PState) (ni : NextItem) (ls : List (Nat × Str)),
      NoPanic (parseIterWith inc cur f incs st ni ls) := by
  intro f
  induction f with
  | zero => intro incs st ni ls s h; simp [parseIterWith] at h
  | succ f ih =>
    intro incs st ni ls s h
    simp only [parseIterWith] at h
    repeat' split at h
    all_goals first
      | (simp at h; done)
      | (exact ih _ _ _ _ s h)
      | (rename_i heq; simp only [Out.panic.injEq] at h; subst h; exact lineStep_no_panic inc hinc _ _ _ _ _ _ _ heq)

theorem file_no_panic (fs : Fs) : ∀ (d : Nat) (p : Str) (i : List Str) (st : PState), NoPanic (parseFileAt fs d p i st) := by
  intro d
  induction d with
  | zero => intro p i st s h; simp [parseFileAt] at h
  | succ d ih =>
    intro p i st s h
    unfold parseFileAt at h
    dsimp only at h
    repeat' split at h
    all_goals first
      | (simp at h; done)
      | (rename_i heq; simp only [Out.panic.injEq] at h; subst h; exact loop_no_panic _ ih _ _ _ _ _ _ _ heq)

theorem parseIter_no_panic (fs : Fs) (cur : Str) (incs : List Str) (st : PState) (ni : NextItem)
    (ls : List (Nat × Str)) : NoPanic (parseIter fs cur incs st ni ls) :=
  loop_no_panic _ (file_no_panic fs includeDepth) _ _ _ _ _ _

theorem parseStr_no_panic (fs : Fs) (src : Str) (ctx : Ctx) : NoPanic (parseStr fs src ctx) := by
  intro s h
  unfold parseStr at h
  split at h
  all_goals first
    | (simp at h; done)
    | (rename_i heq; simp only [Out.panic.injEq] at h; subst h; exact parseIter_no_panic _ _ _ _ _ _ _ heq)

theorem parseFile_no_panic (fs : Fs) (path : Str) (incs : List Str) (ctx : Ctx) : NoPanic (parseFile fs path incs ctx) := by
  intro s h
  unfold parseFile at h
  split at h
  all_goals first
    | (simp at h; done)
    | (rename_i heq; simp only [Out.panic.injEq] at h; subst h; exact file_no_panic _ _ _ _ _ _ heq)

/-! ### pass 0 -/

theorem macroExpand_no_panic (fs : Fs) (macros : List (Str × List (Nat × Str))) (st : PState) (ln : Nat)
    (name : Str) (ops : List IOp) : NoPanic (macroExpand fs macros st ln name ops) := by
  intro s h
  unfold macroExpand at h
  dsimp only at h
  repeat' split at h
  all_goals first
    | (simp [lineErr] at h; done)
    | (rename_i heq; simp only [Out.panic.injEq] at h; subst h; exact parseIter_no_panic _ _ _ _ _ _ _ heq)

theorem pass0Segs_no_panic (inner : PState → List (Nat × Item) → Out PState) (hin : ∀ st its, NoPanic (inner st its)) :
    ∀ (segs : List Segment) (st : PState), NoPanic (pass0Segs inner st segs) := by
  intro segs
  induction segs with
  | nil => intro st s h; simp [pass0Segs] at h
  | cons x rest ih =>
    intro st s h
    unfold pass0Segs at h
    repeat' split at h
    all_goals first
      | (exact ih _ s h)
      | (exact hin _ _ s h)
      | (simp at h; done)

theorem pass0Items_no_panic (fs : Fs) (macros : List (Str × List (Nat × Str))) (allow : Bool)
    (inner : PState → List (Nat × Item) → Out PState) (hin : ∀ st its, NoPanic (inner st its)) :
    ∀ (its : List (Nat × Item)) (st : PState), NoPanic (pass0Items fs macros allow inner st its) := by
  intro its
  induction its with
  | nil => intro st s h; simp [pass0Items] at h
  | cons x rest ih =>
    obtain ⟨ln, it⟩ := x
    intro st s h
    unfold pass0Items at h
    dsimp only at h
    repeat' split at h
    all_goals first
      | (exact ih _ s h)
      | (simp [lineErr] at h; done)
      | (rename_i heq; simp only [Out.panic.injEq] at h; subst h; exact macroExpand_no_panic _ _ _ _ _ _ _ heq)
      | (exact pass0Segs_no_panic inner hin _ _ s h)
      | (exact hin _ _ s h)

theorem pass0At_no_panic (fs : Fs) (macros : List (Str × List (Nat × Str))) :
    ∀ (d : Nat) (st : PState) (its : List (Nat × Item)), NoPanic (pass0At fs macros d st its) := by
  intro d
  induction d with
  | zero => intro st its; exact pass0Items_no_panic fs macros false _ (fun _ _ => noPanic_oof) its st
  | succ d ih => intro st its; exact pass0Items_no_panic fs macros true _ ih its st

theorem pass0_no_panic (fs : Fs) (parsed : ParseResult) (ctx : Ctx) : NoPanic (pass0 fs parsed ctx) := by
  unfold pass0
  dsimp only
  generalize ({ ctx := ctx, segments := [], messages := parsed.messages } : PState) = st0
  generalize parsed.segments = segs
  induction segs generalizing st0 with
  | nil => intro s h; simp [pass0.go] at h
  | cons x rest ih =>
    intro s h
    unfold pass0.go at h
    repeat' split at h
    all_goals first
      | (exact ih _ s h)
      | (exact pass0At_no_panic _ _ _ _ _ s h)
      | (simp at h; done)

/-! ### pass 1 : the opcode table has a row for every operation on both cores -/

theorem info_total (avr8l : Bool) (op : Op) : (info avr8l op).isSome = true := by
  cases op with
  | br b => cases b <;> cases avr8l <;> decide
  | se f => cases f <;> cases avr8l <;> decide
  | cl f => cases f <;> cases avr8l <;> decide
  | custom n => rfl
  | _ => cases avr8l <;> decide

theorem info_ne_none (avr8l : Bool) (op : Op) : info avr8l op ≠ none := by
  intro h; have := info_total avr8l op; rw [h] at this; simp at this

theorem consItem_no_panic (x : Nat × Item) (r : Out (Nat × List (Nat × Item) × Ctx)) (h : NoPanic r) :
    NoPanic (consItem x r) := by
  intro s hs
  cases r with
  | ok v => obtain ⟨a, b, c⟩ := v; simp [consItem] at hs
  | error e => simp [consItem] at hs
  | panic p => exact h p rfl
  | oof => simp [consItem] at hs

theorem pass1Items_no_panic (t : SegT) (limit : Nat) : ∀ (its : List (Nat × Item)) (cur : Nat) (ctx : Ctx),
    NoPanic (pass1Items t limit its cur ctx) := by
  intro its
  induction its with
  | nil => intro cur ctx s h; unfold pass1Items at h; split at h <;> simp [noLineErr] at h
  | cons x rest ih =>
    obtain ⟨ln, it⟩ := x
    intro cur ctx s h
    unfold pass1Items at h
    repeat' split at h
    all_goals first
      | (exact ih _ _ s h)
      | (exact consItem_no_panic _ _ (ih _ _) s h)
      | (simp [lineErr] at h; done)
      | (rename_i heq; exact info_ne_none _ _ heq)

theorem pass1go_no_panic (messages : List Str) (dev : Device) : ∀ (segs : List Segment) (a b c : Nat)
    (out : List Segment) (cx : Ctx), NoPanic (pass1.go messages dev segs a b c out cx) := by
  intro segs
  induction segs with
  | nil => intro a b c out cx s h; simp [pass1.go] at h
  | cons x rest ih =>
    intro a b c out cx s h
    unfold pass1.go at h
    dsimp only at h
    repeat' split at h
    all_goals first
      | (exact ih _ _ _ _ _ s h)
      | (simp [noLineErr] at h; done)
      | (rename_i heq; simp only [Out.panic.injEq] at h; subst h; exact pass1Items_no_panic _ _ _ _ _ _ heq)

theorem pass1_no_panic (segs : List Segment) (messages : List Str) (ctx : Ctx) : NoPanic (pass1 segs messages ctx) :=
  pass1go_no_panic _ _ _ _ _ _ _ _

/-! ### pass 2 and the whole build -/

theorem pass2Items_no_panic (t : SegT) : ∀ (its : List (Nat × Item)) (cur : Nat) (acc : List Nat) (ctx : Ctx),
    NoPanic (pass2Items t its cur acc ctx) := by
  intro its
  induction its with
  | nil => intro cur acc ctx s h; simp [pass2Items] at h
  | cons x rest ih =>
    obtain ⟨ln, it⟩ := x
    intro cur acc ctx s h
    unfold pass2Items at h
    dsimp only at h
    repeat' split at h
    all_goals first
      | (exact ih _ _ _ s h)
      | (simp [lineErr] at h; done)

theorem pass2go_no_panic (p1 : Pass1Result) : ∀ (segs : List Segment) (code ee : List Nat) (ctx : Ctx),
    NoPanic (pass2.go p1 segs code ee ctx) := by
  intro segs
  induction segs with
  | nil => intro code ee ctx s h; simp [pass2.go] at h
  | cons x rest ih =>
    intro code ee ctx s h
    unfold pass2.go at h
    dsimp only at h
    repeat' split at h
    all_goals first
      | (exact ih _ _ _ s h)
      | (simp at h; done)
      | (rename_i heq; simp only [Out.panic.injEq] at h; subst h; exact pass2Items_no_panic _ _ _ _ _ _ heq)

theorem pass2_no_panic (p1 : Pass1Result) : NoPanic (pass2 p1) := pass2go_no_panic _ _ _ _ _

theorem buildFromParsed_no_panic (fs : Fs) (st : PState) : NoPanic (buildFromParsed fs st) := by
  intro s h
  unfold buildFromParsed at h
  dsimp only at h
  repeat' split at h
  all_goals first
    | (simp [noLineErr] at h; done)
    | (rename_i heq; simp only [Out.panic.injEq] at h; subst h; exact pass2_no_panic _ _ heq)
    | (rename_i heq; simp only [Out.panic.injEq] at h; subst h; exact pass1_no_panic _ _ _ _ heq)
    | (rename_i heq; simp only [Out.panic.injEq] at h; subst h; exact pass0_no_panic _ _ _ _ heq)

/-- **C16, the part a theorem can carry.**  For EVERY source text, every file system and every
    list of include directories, `build_str` and `build_file` of the model return an `Ok`, an
    `Err` — or give up on their own explicit bound (`oof`, which the correspondence run never
    observes) — and never reach one of the places where the Rust code would panic by itself. -/
theorem build_never_panics (fs : Fs) (src path : Str) (incs : List Str) :
    NoPanic (buildStr fs src) ∧ NoPanic (buildFile fs path incs) := by
  constructor
  · intro s h
    unfold buildStr at h
    split at h
    all_goals first
      | (exact buildFromParsed_no_panic _ _ s h)
      | (simp at h; done)
      | (rename_i heq; simp only [Out.panic.injEq] at h; subst h; exact parseStr_no_panic _ _ _ _ heq)
  · intro s h
    unfold buildFile at h
    split at h
    all_goals first
      | (exact buildFromParsed_no_panic _ _ s h)
      | (simp at h; done)
      | (rename_i heq; simp only [Out.panic.injEq] at h; subst h; exact parseFile_no_panic _ _ _ _ _ heq)

/-- expression evaluation is total and never panics: its result type has no such outcome, and
    the arithmetic the Rust code checks (`checked_*`, shift counts, division by zero) yields
    `.err` in the model — see C05.evalWith_total for the totality statement -/
theorem eval_outcomes (c : Ctx) (e : Expr) : (∃ v, eval c e = .ok v) ∨ (∃ k, eval c e = .err k) ∨ eval c e = .oof := by
  cases h : eval c e with
  | ok v => exact Or.inl ⟨v, rfl⟩
  | err k => exact Or.inr (Or.inl ⟨k, rfl⟩)
  | oof => exact Or.inr (Or.inr rfl)

end Avra.Props.C16
