/-
  C14 (whole lines, continued) — an instruction line with ANY list of operands the grammar reads:
  registers, numbers, and expressions written in any of the ways of `C05pp.Spaced` (any blanks
  between the tokens, any further parentheses), with any blanks around the commas and any blanks
  and any comment at the end, parses to the operation with exactly those operands.

  Built on `C05pp.parse_print_spaced`, which is why it lives in a file of its own (C05pp rests on
  C09, which rests on C14).
-/
import Avra.Props.C05pp
namespace Avra.Props.C14
open Avra Avra.Model Avra.Peg Avra.Lemmas.Fuel Avra.Props.C09 Avra.Props.C05pp
set_option linter.unusedSimpArgs false
set_option linter.unusedVariables false
set_option linter.constructorNameAsVariable false

/-! ### whole lines: instructions with any operands the grammar reads — registers, numbers, expressions -/

/-- what may follow an operand of an instruction -/
def AfterOpd (rest : Str) : Prop :=
  AfterItem rest ∧ (∀ r2, skipSpace rest ≠ '(' :: r2) ∧
    (skipSpace rest = [] ∨ ∃ x xs, skipSpace rest = x :: xs ∧ noStart x)

/-- an operand as text, with the value the grammar gives it wherever an operand may end -/
structure Opd where
  text : Str
  val : IOp

def Opd.ok (o : Opd) : Prop :=
  (∀ rest, AfterOpd rest → instructionOps (o.text ++ rest) = .ok o.val rest) ∧
  (∀ rest, skipSpace (o.text ++ rest) = o.text ++ rest)

def opdTail : List (Str × Str × Opd) → Str
  | [] => []
  | (a, b, o) :: more => a ++ ',' :: (b ++ (o.text ++ opdTail more))

def opdsOk (more : List (Str × Str × Opd)) : Prop := ∀ x ∈ more, blanks x.1 ∧ blanks x.2.1 ∧ x.2.2.ok

theorem opd_after (more : List (Str × Str × Opd)) (hm : opdsOk more) (ws2 c : Str) (hws2 : blanks ws2) (hc : lineEnd c) :
    AfterOpd (opdTail more ++ (ws2 ++ c)) := by
  cases more with
  | nil =>
    simp only [opdTail, List.nil_append]
    refine ⟨⟨?_, ?_, opEnd_end ws2 c hws2 hc⟩, ?_⟩
    · intro y hy
      have := (tail_head ws2 c hws2 hc y hy).1
      cases hd : isDigit y with
      | false => rfl
      | true => simp [isIdentChar, hd] at this
    · intro y hy; exact (tail_head ws2 c hws2 hc y hy).1
    · refine ⟨?_, ?_⟩
      · intro r2 hr
        rw [skip_tail ws2 c hws2 hc] at hr
        rcases hc with rfl | ⟨hs, _⟩
        · simp at hr
        · rw [hr] at hs; rcases hs with h | h <;> simp at h
      · rw [skip_tail ws2 c hws2 hc]
        rcases hc with rfl | ⟨hs, _⟩
        · exact Or.inl rfl
        · cases c with
          | nil => exact Or.inl rfl
          | cons y ys =>
            right
            refine ⟨y, ys, rfl, ?_⟩
            rcases hs with h | h <;> (simp at h; subst h)
            · exact Or.inl rfl
            · exact Or.inr (Or.inl rfl)
  | cons x xs =>
    obtain ⟨a, b, o⟩ := x
    have ha : blanks a := (hm _ (List.mem_cons_self ..)).1
    have hform : opdTail ((a, b, o) :: xs) ++ (ws2 ++ c) = a ++ ',' :: (b ++ (o.text ++ opdTail xs) ++ (ws2 ++ c)) := by
      simp [opdTail]
    rw [hform]
    have hhead : ∀ y, (a ++ ',' :: (b ++ (o.text ++ opdTail xs) ++ (ws2 ++ c))).head? = some y → isIdentChar y = false := by
      intro y hy
      cases a with
      | nil => simp at hy; subst hy; decide
      | cons w ws =>
        simp at hy; subst hy
        have hw : isSpace w = true := ha w (by simp)
        simp only [isSpace, Bool.or_eq_true, beq_iff_eq] at hw
        rcases hw with rfl | rfl <;> decide
    refine ⟨⟨?_, hhead, opEnd_comma a _ ha⟩, ?_⟩
    · intro y hy
      have := hhead y hy
      cases hd : isDigit y with
      | false => rfl
      | true => simp [isIdentChar, hd] at this
    · refine ⟨?_, ?_⟩
      · intro r2 hr
        rw [space_absorbs a _ ha] at hr
        simp +decide [skipSpace] at hr
      · right
        rw [space_absorbs a _ ha]
        have hsk : ∀ t : Str, skipSpace (',' :: t) = ',' :: t := fun t => by simp +decide [skipSpace]
        exact ⟨',', _, hsk _, Or.inr (Or.inr (Or.inr (Or.inl rfl)))⟩

theorem opd_len (more : List (Str × Str × Opd)) : more.length ≤ (opdTail more).length := by
  induction more with
  | nil => simp
  | cons x xs ih =>
    obtain ⟨a, b, o⟩ := x
    simp only [opdTail, List.length_cons, List.length_append]
    omega

theorem sepTail_opds : ∀ (more : List (Str × Str × Opd)), opdsOk more → ∀ (ws2 c : Str), blanks ws2 → lineEnd c →
    ∀ (f : Nat) (acc : List IOp), more.length < f →
      sepTail instructionOps f acc (opdTail more ++ (ws2 ++ c)) =
        .ok (acc.reverse ++ more.map (fun x => x.2.2.val)) (ws2 ++ c) := by
  intro more
  induction more with
  | nil =>
    intro _ ws2 c hws2 hc f acc hf
    obtain ⟨g, rfl⟩ : ∃ g, f = g + 1 := ⟨f - 1, by omega⟩
    simp only [opdTail, List.nil_append, sepTail, delimiter_end ws2 c hws2 hc, List.map_nil, List.append_nil]
  | cons x xs ih =>
    intro hm ws2 c hws2 hc f acc hf
    obtain ⟨a, b, o⟩ := x
    obtain ⟨g, rfl⟩ : ∃ g, f = g + 1 := ⟨f - 1, by omega⟩
    have hx := hm _ (List.mem_cons_self ..)
    have hxs : opdsOk xs := fun y hy => hm y (List.mem_cons_of_mem _ hy)
    have hdel : delimiter (opdTail ((a, b, o) :: xs) ++ (ws2 ++ c)) = some (o.text ++ (opdTail xs ++ (ws2 ++ c))) := by
      unfold delimiter
      simp only [opdTail, List.append_assoc, List.cons_append]
      rw [space_absorbs a _ hx.1]
      simp only [skipSpace]
      have : isSpace ',' = false := by decide
      simp only [this, Bool.false_eq_true, if_false]
      rw [space_absorbs b _ hx.2.1, hx.2.2.2]
    have hop := hx.2.2.1 (opdTail xs ++ (ws2 ++ c)) (opd_after xs hxs ws2 c hws2 hc)
    simp only [sepTail, hdel, hop]
    rw [ih hxs ws2 c hws2 hc g (o.val :: acc) (by simp only [List.length_cons] at hf; omega)]
    simp

theorem opList_opds (o : Opd) (hg : o.ok) (more : List (Str × Str × Opd)) (hm : opdsOk more)
    (ws2 c : Str) (hws2 : blanks ws2) (hc : lineEnd c) :
    opList (o.text ++ (opdTail more ++ (ws2 ++ c))) = .ok (o.val :: more.map (fun x => x.2.2.val)) (ws2 ++ c) := by
  have hop := hg.1 (opdTail more ++ (ws2 ++ c)) (opd_after more hm ws2 c hws2 hc)
  unfold opList sepList
  simp only [hop]
  rw [sepTail_opds more hm ws2 c hws2 hc _ [o.val] (by
    have := opd_len more
    simp only [List.length_append]
    omega)]
  simp

/-- **An instruction line with any list of operands the grammar reads** -/
theorem operands_instruction_line (ws1 n wsA : Str) (o : Opd) (more : List (Str × Str × Opd)) (ws2 c : Str)
    (hws1 : blanks ws1) (hn : isName n) (hwsA : blanks wsA) (hA : wsA ≠ []) (hg : o.ok) (hm : opdsOk more)
    (hws2 : blanks ws2) (hc : lineEnd c) :
    line (ws1 ++ (n ++ (wsA ++ (o.text ++ (opdTail more ++ (ws2 ++ c)))))) =
      .ok (.codeLine none (opOfWord (lower n)) (o.val :: more.map (fun x => x.2.2.val))) := by
  obtain ⟨w, ws, rfl⟩ : ∃ w ws, wsA = w :: ws := by
    cases wsA with
    | nil => exact absurd rfl hA
    | cons w ws => exact ⟨w, ws, rfl⟩
  have hw : isSpace w = true := hwsA w (by simp)
  have hwi : isIdentChar w = false ∧ w ≠ ':' := by
    simp only [isSpace, Bool.or_eq_true, beq_iff_eq] at hw
    rcases hw with rfl | rfl <;> decide
  have hol := opList_opds o hg more hm ws2 c hws2 hc
  have hsr := hg.2 (opdTail more ++ (ws2 ++ c))
  generalize hR : o.text ++ (opdTail more ++ (ws2 ++ c)) = R at hol hsr ⊢
  have hth : ∀ y, ((w :: ws) ++ R).head? = some y → isIdentChar y = false := by
    intro y hy; simp at hy; subst hy; exact hwi.1
  have hid : identText (n ++ ((w :: ws) ++ R)) = some (n, (w :: ws) ++ R) := identText_name n _ hn hth
  have hlab : label (ws1 ++ (n ++ ((w :: ws) ++ R))) = none := by
    cases ws1 with
    | nil =>
      simp only [List.nil_append, label, hid]
      split
      · rename_i heq; simp only [Option.some.injEq, Prod.mk.injEq, List.cons_append, List.cons.injEq] at heq; exact absurd heq.2.1 hwi.2
      · rfl
    | cons v vs =>
      have hv : isSpace v = true := hws1 v (by simp)
      have : isIdentStart v = false := by
        simp only [isSpace, Bool.or_eq_true, beq_iff_eq] at hv
        rcases hv with rfl | rfl <;> decide
      simp [label, identText, this]
  have hsk : skipSpace (ws1 ++ (n ++ ((w :: ws) ++ R))) = n ++ ((w :: ws) ++ R) := by
    rw [space_absorbs ws1 _ hws1, skip_name n _ hn]
  have hop := operation_name n ((w :: ws) ++ R) hn hth
  have hsA : skipSpace ((w :: ws) ++ R) = R := by
    rw [space_absorbs (w :: ws) _ hwsA]; exact hsr
  have hst := skip_tail ws2 c hws2 hc
  unfold line
  simp only [optLabel, hlab]
  simp only [hsk]
  rw [directive_name n _ hn]
  simp only [hop]
  simp only [hsA]
  simp only [hol]
  simp only [hst]
  rcases hc with rfl | ⟨_, hcom⟩
  · simp [comment]
  · simp only [hcom]; simp

/-- the same behind a label (glued to the colon or not) -/
theorem labelled_operands_instruction_line (l ws1 n wsA : Str) (o : Opd) (more : List (Str × Str × Opd)) (ws2 c : Str)
    (hl : isName l) (hws1 : blanks ws1) (hn : isName n) (hwsA : blanks wsA) (hA : wsA ≠ []) (hg : o.ok) (hm : opdsOk more)
    (hws2 : blanks ws2) (hc : lineEnd c) :
    line (l ++ ':' :: (ws1 ++ (n ++ (wsA ++ (o.text ++ (opdTail more ++ (ws2 ++ c))))))) =
      .ok (.codeLine (some (lower l)) (opOfWord (lower n)) (o.val :: more.map (fun x => x.2.2.val))) := by
  obtain ⟨w, ws, rfl⟩ : ∃ w ws, wsA = w :: ws := by
    cases wsA with
    | nil => exact absurd rfl hA
    | cons w ws => exact ⟨w, ws, rfl⟩
  have hw : isSpace w = true := hwsA w (by simp)
  have hwi : isIdentChar w = false ∧ w ≠ ':' := by
    simp only [isSpace, Bool.or_eq_true, beq_iff_eq] at hw
    rcases hw with rfl | rfl <;> decide
  have hol := opList_opds o hg more hm ws2 c hws2 hc
  have hsr := hg.2 (opdTail more ++ (ws2 ++ c))
  generalize hR : o.text ++ (opdTail more ++ (ws2 ++ c)) = R at hol hsr ⊢
  have hth : ∀ y, ((w :: ws) ++ R).head? = some y → isIdentChar y = false := by
    intro y hy; simp at hy; subst hy; exact hwi.1
  have hid : identText (n ++ ((w :: ws) ++ R)) = some (n, (w :: ws) ++ R) := identText_name n _ hn hth
  have hidl : identText (l ++ ':' :: (ws1 ++ (n ++ ((w :: ws) ++ R)))) = some (l, ':' :: (ws1 ++ (n ++ ((w :: ws) ++ R)))) :=
    identText_name l _ hl (by intro y hy; simp at hy; subst hy; decide)
  have hopt : optLabel (l ++ ':' :: (ws1 ++ (n ++ ((w :: ws) ++ R)))) = (some (lower l), ws1 ++ (n ++ ((w :: ws) ++ R))) := by
    simp only [optLabel, label, hidl]
  have hsk : skipSpace (ws1 ++ (n ++ ((w :: ws) ++ R))) = n ++ ((w :: ws) ++ R) := by
    rw [space_absorbs ws1 _ hws1, skip_name n _ hn]
  have hop := operation_name n ((w :: ws) ++ R) hn hth
  have hsA : skipSpace ((w :: ws) ++ R) = R := by
    rw [space_absorbs (w :: ws) _ hwsA]; exact hsr
  have hst := skip_tail ws2 c hws2 hc
  unfold line
  rw [hopt]
  dsimp only
  simp only [hsk]
  rw [directive_name n _ hn]
  simp only [hop]
  simp only [hsA]
  simp only [hol]
  simp only [hst]
  rcases hc with rfl | ⟨_, hcom⟩
  · simp [comment]
  · simp only [hcom]; simp


/-! #### the operands -/

/-- registers and numbers -/
def Opd.ofItem (it : Item) : Opd := ⟨it.text, it.val⟩

theorem Opd.ofItem_ok (it : Item) (hg : it.good) : (Opd.ofItem it).ok :=
  ⟨fun rest hr => item_reads it hg rest hr.1, fun rest => skip_item it hg rest⟩

/-- the first characters with which the grammar would read a register or an index form instead -/
def regLetter (y : Char) : Prop := y = 'r' ∨ y = 'R' ∨ y = 'x' ∨ y = 'X' ∨ y = 'y' ∨ y = 'Y' ∨ y = 'z' ∨ y = 'Z'

/-- a text that does not look like a register or an index operand at its start -/
def NotRegLike (s : Str) : Prop :=
  ∃ y ys, s = y :: ys ∧ ¬ regLetter y ∧ (y = '-' → ∃ z zs, ys = z :: zs ∧ ¬ regLetter z)

/-- an expression, written in any of the ways of `Spaced` -/
def Opd.ofExpr (e : Expr) (s : Str) : Opd := ⟨s, .e e⟩

theorem reg16_none (y : Char) (ys : Str) (h : ¬ regLetter y) : reg16 (y :: ys) = none := by
  have n1 : (y == 'x') = false := by cases hh : y == 'x' with | false => rfl | true => simp only [beq_iff_eq] at hh; exact absurd (Or.inr (Or.inr (Or.inl hh))) h
  have n2 : (y == 'X') = false := by cases hh : y == 'X' with | false => rfl | true => simp only [beq_iff_eq] at hh; exact absurd (Or.inr (Or.inr (Or.inr (Or.inl hh)))) h
  have n3 : (y == 'y') = false := by cases hh : y == 'y' with | false => rfl | true => simp only [beq_iff_eq] at hh; exact absurd (Or.inr (Or.inr (Or.inr (Or.inr (Or.inl hh))))) h
  have n4 : (y == 'Y') = false := by cases hh : y == 'Y' with | false => rfl | true => simp only [beq_iff_eq] at hh; exact absurd (Or.inr (Or.inr (Or.inr (Or.inr (Or.inr (Or.inl hh)))))) h
  have n5 : (y == 'z') = false := by cases hh : y == 'z' with | false => rfl | true => simp only [beq_iff_eq] at hh; exact absurd (Or.inr (Or.inr (Or.inr (Or.inr (Or.inr (Or.inr (Or.inl hh))))))) h
  have n6 : (y == 'Z') = false := by cases hh : y == 'Z' with | false => rfl | true => simp only [beq_iff_eq] at hh; exact absurd (Or.inr (Or.inr (Or.inr (Or.inr (Or.inr (Or.inr (Or.inr hh))))))) h
  simp [reg16, n1, n2, n3, n4, n5, n6]

theorem reg8_none (y : Char) (ys : Str) (h : ¬ regLetter y) : reg8 (y :: ys) = none := by
  have n1 : (y == 'r') = false := by cases hh : y == 'r' with | false => rfl | true => simp only [beq_iff_eq] at hh; exact absurd (Or.inl hh) h
  have n2 : (y == 'R') = false := by cases hh : y == 'R' with | false => rfl | true => simp only [beq_iff_eq] at hh; exact absurd (Or.inr (Or.inl hh)) h
  simp [reg8, n1, n2]

theorem Opd.ofExpr_ok (k : Nat) (e : Expr) (s : Str) (hsp : Spaced 0 k e s) (hnr : NotRegLike s) : (Opd.ofExpr e s).ok := by
  refine ⟨?_, fun rest => skip_spaced 0 k e s hsp rest⟩
  intro rest hr
  obtain ⟨⟨_, hend, hop⟩, hpar, _⟩ := hr
  have he : expr (s ++ rest) = .ok e rest :=
    parse_print_spaced k e s hsp rest ⟨hend, hpar⟩ (by
      intro x hx
      rcases hop x hx with h | h
      · exact Or.inr (Or.inl h)
      · exact Or.inr (Or.inr h))
  obtain ⟨y, ys, rfl, hy, hminus⟩ := hnr
  simp only [Opd.ofExpr]
  have hr16 : reg16 (y :: ys ++ rest) = none := reg16_none y _ hy
  have hr8 : reg8 (y :: ys ++ rest) = none := reg8_none y _ hy
  have hi : indexOps (y :: ys ++ rest) = .fail := by
    unfold indexOps
    simp only [hr16]
    split
    · rename_i v r heq
      split at heq
      · rename_i r0 hc2
        simp only [List.cons_append, List.cons.injEq] at hc2
        obtain ⟨z, zs, hz, hzr⟩ := hminus hc2.1
        rw [← hc2.2, hz] at heq
        simp [reg16_none z (zs ++ rest) hzr] at heq
      · simp at heq
    · rfl
  unfold instructionOps
  simp only [hi, hr8, he]

/-! non-vacuity: ` ldi r16 , low ( K ) + 1 // c` -/
example : ∃ toks, line " ldi r16 , low ( K ) + 1 // c".toList = .ok (.codeLine none (opOfWord (lower ['l', 'd', 'i'])) toks) := by
  have hb : ∀ w : Str, w = [] ∨ w = [' '] → blanks w := by
    intro w hw c hc; rcases hw with rfl | rfl <;> simp at hc; subst hc; decide
  have hsp : Spaced 0 (opLevel .add + 1) (.bin .add (.func (.ident ['l', 'o', 'w']) (.ident ['K'])) (.const 1)) "low ( K ) + 1".toList :=
    Spaced.bin 0 top top .add _ _ [' '] [' '] "low ( K )".toList ['1'] (by decide) (hb _ (Or.inr rfl)) (hb _ (Or.inr rfl))
      (Spaced.func _ top ['l', 'o', 'w'] (.ident ['K']) [' '] [' '] [' '] ['K'] ⟨'l', ['o', 'w'], rfl, by decide, by decide⟩
        (hb _ (Or.inr rfl)) (hb _ (Or.inr rfl)) (hb _ (Or.inr rfl)) (Spaced.ident 0 ['K'] ⟨'K', [], rfl, by decide, by decide⟩))
      (Spaced.const _ 1 1 rfl (by decide))
  have hnr : NotRegLike "low ( K ) + 1".toList :=
    ⟨'l', "ow ( K ) + 1".toList, rfl, by unfold regLetter; decide, by intro h; exact absurd h (by decide)⟩
  have := operands_instruction_line [' '] ['l', 'd', 'i'] [' '] (Opd.ofItem (.reg false 16))
    [([' '], [' '], Opd.ofExpr _ "low ( K ) + 1".toList)] [' '] "// c".toList
    (hb _ (Or.inr rfl)) ⟨'l', ['d', 'i'], rfl, by decide, by decide⟩ (hb _ (Or.inr rfl)) (by decide)
    (Opd.ofItem_ok _ (by unfold Item.good; decide))
    (by
      intro x hx
      simp only [List.mem_singleton] at hx
      subst hx
      exact ⟨hb _ (Or.inr rfl), hb _ (Or.inr rfl), Opd.ofExpr_ok _ _ _ hsp hnr⟩)
    (hb _ (Or.inr rfl)) (Or.inr ⟨Or.inr rfl, rfl⟩)
  exact ⟨_, this⟩

/-! ### whole lines: a directive with a list of expressions -/

/-- what the assignment alternative of `directive_ops` sees behind a leading identifier: nothing
    that looks like `= expression` -/
def NoAssign (u : Str) : Prop := u = [] ∨ (∃ y ys, u = y :: ys ∧ y ≠ '=') ∨ ∃ r, u = '=' :: '=' :: r

/-- a written expression either does not begin with an identifier, or it is an identifier followed
    by something that is no assignment -/
def LeadOk (s : Str) : Prop :=
  (∃ y ys, s = y :: ys ∧ isIdentStart y = false) ∨
  ∃ name t, s = name ++ t ∧ isName name ∧ (∀ y, t.head? = some y → isIdentChar y = false) ∧ NoAssign (skipSpace t)

theorem noAssign_op (w : Str) (hw : blanks w) (op : BinOp) (rest : Str) : NoAssign (skipSpace (w ++ (op.text ++ rest))) := by
  rw [space_absorbs w _ hw, skip_op]
  cases op <;> first
    | exact Or.inr (Or.inr ⟨_, rfl⟩)
    | exact Or.inr (Or.inl ⟨_, _, rfl, by decide⟩)

theorem spaced_lead (m k : Nat) (e : Expr) (s : Str) (h : Spaced m k e s) :
    ∀ rest, (∀ y, rest.head? = some y → isIdentChar y = false) → NoAssign (skipSpace rest) → LeadOk (s ++ rest) := by
  induction h with
  | ident m s hs => intro rest hr hn; exact Or.inr ⟨s, rest, rfl, hs, hr, hn⟩
  | num m v n t hv hnt =>
    intro rest _ _
    obtain ⟨y, ys, hs, hy⟩ := numText_head _ n hnt rest
    left
    refine ⟨y, ys, hs, ?_⟩
    rcases hy with h | rfl
    · cases hi : isIdentStart y with
      | false => rfl
      | true => have := (identStart_facts y hi).1; rw [h] at this; exact absurd this (by decide)
    · decide
  | chr m c hc =>
    intro rest _ _
    left
    exact ⟨'\'', _, rfl, by decide⟩
  | un m k u e w s _ _ _ =>
    intro rest _ _
    left
    cases u with
    | minus => exact ⟨'-', _, rfl, by decide⟩
    | bnot => exact ⟨'~', _, rfl, by decide⟩
    | lnot => exact ⟨'!', _, rfl, by decide⟩
  | func m k name a w0 w1 w2 s hn hw0 _ _ _ _ =>
    intro rest _ _
    right
    refine ⟨name, w0 ++ '(' :: (w1 ++ (s ++ (w2 ++ [')']))) ++ rest, by simp, hn, ?_, ?_⟩
    · intro y hy
      cases w0 with
      | nil => simp at hy; subst hy; decide
      | cons c cs =>
        simp at hy; subst hy
        have hc : isSpace c = true := hw0 c (by simp)
        simp only [isSpace, Bool.or_eq_true, beq_iff_eq] at hc
        rcases hc with rfl | rfl <;> decide
    · have : skipSpace (w0 ++ '(' :: (w1 ++ (s ++ (w2 ++ [')']))) ++ rest) = '(' :: ((w1 ++ (s ++ (w2 ++ [')']))) ++ rest) := by
        simp only [List.append_assoc, List.cons_append]
        rw [space_absorbs w0 _ hw0]; simp +decide [skipSpace]
      rw [this]
      exact Or.inr (Or.inl ⟨_, _, rfl, by decide⟩)
  | paren m k e w0 w1 s _ _ _ _ =>
    intro rest _ _
    left
    exact ⟨'(', _, rfl, by decide⟩
  | bin m kl kr op l r w1 w2 sl sr _ hw1 _ _ _ ihl _ =>
    intro rest _ _
    have := ihl (w1 ++ (op.text ++ (w2 ++ sr)) ++ rest) (by
      intro y hy
      have := (atomEndB_op w1 hw1 op ((w2 ++ sr) ++ rest)).1 y (by simpa using hy)
      exact this) (by
        have := noAssign_op w1 hw1 op ((w2 ++ sr) ++ rest)
        simpa using this)
    simpa using this

/-- with such a text in front, `directive_ops` does not take the assignment alternative -/
theorem directiveOps_noAssign (s : Str) (h : LeadOk s) : directiveOps s = directiveOps.tryN s [6, 5, 4, 3, 2] := by
  unfold directiveOps
  rcases h with ⟨y, ys, rfl, hy⟩ | ⟨name, t, rfl, hn, ht, hna⟩
  · have hid : identText (y :: ys) = none := by simp [identText, hy]
    simp only [hid]
  · have hid : identText (name ++ t) = some (name, t) := identText_name name t hn ht
    simp only [hid]
    -- the assignment alternative fails: what follows the identifier is no `= expression`
    have hfail : ∀ r1, skipSpace t = '=' :: r1 → expr (skipSpace r1) = .fail := by
      intro r1 hr1
      rcases hna with h0 | ⟨y, ys, hy, hne⟩ | ⟨r, hr⟩
      · rw [h0] at hr1; simp at hr1
      · rw [hy] at hr1; simp only [List.cons.injEq] at hr1; exact absurd hr1.1 hne
      · rw [hr] at hr1
        simp only [List.cons.injEq, true_and] at hr1
        subst hr1
        have hsk : skipSpace ('=' :: r) = '=' :: r := by simp +decide [skipSpace]
        rw [hsk]
        exact expr_fails' '=' r (Or.inr (Or.inr (Or.inr (Or.inr (Or.inr (Or.inl rfl))))))
    split
    · rename_i v r heq
      split at heq
      · rename_i r1 hr1
        rw [hfail r1 hr1] at heq
        simp at heq
      · simp at heq
    · rename_i heq
      split at heq
      · rename_i r1 hr1
        rw [hfail r1 hr1] at heq
        simp at heq
      · simp at heq
    · rfl

/-- an operand of a directive as text, with the value the grammar gives it -/
structure Dpd where
  text : Str
  val : Operand

def Dpd.ok (o : Dpd) : Prop :=
  (∀ rest, AfterOpd rest → directiveOp (o.text ++ rest) = .ok o.val rest) ∧
  (∀ rest, skipSpace (o.text ++ rest) = o.text ++ rest)

def dpdTail : List (Str × Str × Dpd) → Str
  | [] => []
  | (a, b, o) :: more => a ++ ',' :: (b ++ (o.text ++ dpdTail more))

def dpdsOk (more : List (Str × Str × Dpd)) : Prop := ∀ x ∈ more, blanks x.1 ∧ blanks x.2.1 ∧ x.2.2.ok

theorem dpd_after (more : List (Str × Str × Dpd)) (hm : dpdsOk more) (ws2 c : Str) (hws2 : blanks ws2) (hc : lineEnd c) :
    AfterOpd (dpdTail more ++ (ws2 ++ c)) := by
  cases more with
  | nil =>
    have := opd_after [] (by intro x hx; simp at hx) ws2 c hws2 hc
    simpa [opdTail, dpdTail] using this
  | cons x xs =>
    obtain ⟨a, b, o⟩ := x
    have ha : blanks a := (hm _ (List.mem_cons_self ..)).1
    have hform : dpdTail ((a, b, o) :: xs) ++ (ws2 ++ c) = a ++ ',' :: (b ++ (o.text ++ dpdTail xs) ++ (ws2 ++ c)) := by
      simp [dpdTail]
    rw [hform]
    have hhead : ∀ y, (a ++ ',' :: (b ++ (o.text ++ dpdTail xs) ++ (ws2 ++ c))).head? = some y → isIdentChar y = false := by
      intro y hy
      cases a with
      | nil => simp at hy; subst hy; decide
      | cons w ws =>
        simp at hy; subst hy
        have hw : isSpace w = true := ha w (by simp)
        simp only [isSpace, Bool.or_eq_true, beq_iff_eq] at hw
        rcases hw with rfl | rfl <;> decide
    refine ⟨⟨?_, hhead, opEnd_comma a _ ha⟩, ?_⟩
    · intro y hy
      have := hhead y hy
      cases hd : isDigit y with
      | false => rfl
      | true => simp [isIdentChar, hd] at this
    · refine ⟨?_, ?_⟩
      · intro r2 hr
        rw [space_absorbs a _ ha] at hr
        simp +decide [skipSpace] at hr
      · right
        rw [space_absorbs a _ ha]
        have hsk : ∀ t : Str, skipSpace (',' :: t) = ',' :: t := fun t => by simp +decide [skipSpace]
        exact ⟨',', _, hsk _, Or.inr (Or.inr (Or.inr (Or.inl rfl)))⟩

theorem dpd_len (more : List (Str × Str × Dpd)) : more.length ≤ (dpdTail more).length := by
  induction more with
  | nil => simp
  | cons x xs ih =>
    obtain ⟨a, b, o⟩ := x
    simp only [dpdTail, List.length_cons, List.length_append]
    omega

theorem sepTail_dpds : ∀ (more : List (Str × Str × Dpd)), dpdsOk more → ∀ (ws2 c : Str), blanks ws2 → lineEnd c →
    ∀ (f : Nat) (acc : List Operand), more.length < f →
      sepTail directiveOp f acc (dpdTail more ++ (ws2 ++ c)) =
        .ok (acc.reverse ++ more.map (fun x => x.2.2.val)) (ws2 ++ c) := by
  intro more
  induction more with
  | nil =>
    intro _ ws2 c hws2 hc f acc hf
    obtain ⟨g, rfl⟩ : ∃ g, f = g + 1 := ⟨f - 1, by omega⟩
    simp only [dpdTail, List.nil_append, sepTail, delimiter_end ws2 c hws2 hc, List.map_nil, List.append_nil]
  | cons x xs ih =>
    intro hm ws2 c hws2 hc f acc hf
    obtain ⟨a, b, o⟩ := x
    obtain ⟨g, rfl⟩ : ∃ g, f = g + 1 := ⟨f - 1, by omega⟩
    have hx := hm _ (List.mem_cons_self ..)
    have hxs : dpdsOk xs := fun y hy => hm y (List.mem_cons_of_mem _ hy)
    have hdel : delimiter (dpdTail ((a, b, o) :: xs) ++ (ws2 ++ c)) = some (o.text ++ (dpdTail xs ++ (ws2 ++ c))) := by
      unfold delimiter
      simp only [dpdTail, List.append_assoc, List.cons_append]
      rw [space_absorbs a _ hx.1]
      simp only [skipSpace]
      have : isSpace ',' = false := by decide
      simp only [this, Bool.false_eq_true, if_false]
      rw [space_absorbs b _ hx.2.1, hx.2.2.2]
    have hop := hx.2.2.1 (dpdTail xs ++ (ws2 ++ c)) (dpd_after xs hxs ws2 c hws2 hc)
    simp only [sepTail, hdel, hop]
    rw [ih hxs ws2 c hws2 hc g (o.val :: acc) (by simp only [List.length_cons] at hf; omega)]
    simp

/-- behind an operand, after the blanks: nothing, or a comma, or the start of a comment -/
theorem dpd_after_skip (more : List (Str × Str × Dpd)) (hm : dpdsOk more) (ws2 c : Str) (hws2 : blanks ws2) (hc : lineEnd c) :
    skipSpace (dpdTail more ++ (ws2 ++ c)) = [] ∨
      ∃ x xs, skipSpace (dpdTail more ++ (ws2 ++ c)) = x :: xs ∧ noStart x := by
  cases more with
  | nil =>
    simp only [dpdTail, List.nil_append]
    rw [skip_tail ws2 c hws2 hc]
    rcases hc with rfl | ⟨hs, _⟩
    · exact Or.inl rfl
    · cases c with
      | nil => exact Or.inl rfl
      | cons y ys =>
        right
        refine ⟨y, ys, rfl, ?_⟩
        rcases hs with h | h <;> (simp at h; subst h)
        · exact Or.inl rfl
        · exact Or.inr (Or.inl rfl)
  | cons x xs =>
    obtain ⟨a, b, o⟩ := x
    have ha : blanks a := (hm _ (List.mem_cons_self ..)).1
    right
    refine ⟨',', b ++ (o.text ++ dpdTail xs) ++ (ws2 ++ c), ?_, Or.inr (Or.inr (Or.inr (Or.inl rfl)))⟩
    have hform : dpdTail ((a, b, o) :: xs) ++ (ws2 ++ c) = a ++ ',' :: (b ++ (o.text ++ dpdTail xs) ++ (ws2 ++ c)) := by
      simp [dpdTail]
    rw [hform, space_absorbs a _ ha]
    simp +decide [skipSpace]

theorem spacedOps_fail_dpd (o : Dpd) (hg : o.ok) (more : List (Str × Str × Dpd)) (hm : dpdsOk more)
    (ws2 c : Str) (hws2 : blanks ws2) (hc : lineEnd c) :
    ∀ k, spacedOps (k + 2) (o.text ++ (dpdTail more ++ (ws2 ++ c))) = .fail := by
  intro k
  have hop := hg.1 _ (dpd_after more hm ws2 c hws2 hc)
  have hZ := dpd_after_skip more hm ws2 c hws2 hc
  simp only [spacedOps, hop]
  cases hrest : dpdTail more ++ (ws2 ++ c) with
  | nil => simp [neSpace]
  | cons y ys =>
    rw [hrest] at hZ
    cases hsp : isSpace y with
    | true =>
      have hsk : skipSpace (y :: ys) = skipSpace ys := by simp [skipSpace, hsp]
      rw [hsk] at hZ
      simp only [neSpace, hsp, if_true]
      rw [spacedOps_fail_at (skipSpace ys) hZ k]
    | false => simp [neSpace, hsp]

theorem directiveOps_dpds (o : Dpd) (hg : o.ok) (more : List (Str × Str × Dpd)) (hm : dpdsOk more)
    (ws2 c : Str) (hws2 : blanks ws2) (hc : lineEnd c) (hlead : LeadOk (o.text ++ (dpdTail more ++ (ws2 ++ c)))) :
    directiveOps (o.text ++ (dpdTail more ++ (ws2 ++ c))) =
      .ok (.opList (o.val :: more.map (fun x => x.2.2.val))) (ws2 ++ c) := by
  have hsp := spacedOps_fail_dpd o hg more hm ws2 c hws2 hc
  have hop := hg.1 _ (dpd_after more hm ws2 c hws2 hc)
  have hlist : sepList directiveOp (o.text ++ (dpdTail more ++ (ws2 ++ c))) =
      .ok (o.val :: more.map (fun x => x.2.2.val)) (ws2 ++ c) := by
    unfold sepList
    simp only [hop]
    rw [sepTail_dpds more hm ws2 c hws2 hc _ [o.val] (by
        have := dpd_len more
        simp only [List.length_append]
        omega)]
    simp
  rw [directiveOps_noAssign _ hlead]
  simp only [directiveOps.tryN, hsp 4, hsp 3, hsp 2, hsp 1, hsp 0, hlist]

theorem dpd_after_head (more : List (Str × Str × Dpd)) (hm : dpdsOk more) (ws2 c : Str) (hws2 : blanks ws2) (hc : lineEnd c) :
    NoAssign (skipSpace (dpdTail more ++ (ws2 ++ c))) := by
  cases more with
  | nil =>
    simp only [dpdTail, List.nil_append]
    rw [skip_tail ws2 c hws2 hc]
    rcases hc with rfl | ⟨hs, _⟩
    · exact Or.inl rfl
    · cases c with
      | nil => exact Or.inl rfl
      | cons y ys =>
        right; left
        refine ⟨y, ys, rfl, ?_⟩
        rcases hs with h | h <;> (simp at h; subst h; decide)
  | cons x xs =>
    obtain ⟨a, b, o⟩ := x
    have ha : blanks a := (hm _ (List.mem_cons_self ..)).1
    right; left
    refine ⟨',', b ++ (o.text ++ dpdTail xs) ++ (ws2 ++ c), ?_, by decide⟩
    have hform : dpdTail ((a, b, o) :: xs) ++ (ws2 ++ c) = a ++ ',' :: (b ++ (o.text ++ dpdTail xs) ++ (ws2 ++ c)) := by
      simp [dpdTail]
    rw [hform, space_absorbs a _ ha]
    simp +decide [skipSpace]

/-- an expression, written in any of the ways of `Spaced` -/
def Dpd.ofExpr (e : Expr) (s : Str) : Dpd := ⟨s, .e e⟩

theorem Dpd.ofExpr_ok (k : Nat) (e : Expr) (s : Str) (hsp : Spaced 0 k e s) : (Dpd.ofExpr e s).ok := by
  refine ⟨?_, fun rest => skip_spaced 0 k e s hsp rest⟩
  intro rest hr
  obtain ⟨⟨_, hend, hop⟩, hpar, _⟩ := hr
  have he : expr (s ++ rest) = .ok e rest :=
    parse_print_spaced k e s hsp rest ⟨hend, hpar⟩ (by
      intro x hx
      rcases hop x hx with h | h
      · exact Or.inr (Or.inl h)
      · exact Or.inr (Or.inr h))
  simp only [Dpd.ofExpr]
  unfold directiveOp
  simp only [he]

/-- **A directive followed by a list of expressions** (`.db low(K)+1 , 1<<3 ; table`, `.dw lab, lab + 2`,
    `.org base+0x10`, `.if A >= B`): indented or not, any directive name, each expression written in
    any of the ways of `C05pp.Spaced` (any blanks between its tokens, any further parentheses), any
    blanks around every comma, any blanks and any comment (or nothing) at the end — is that
    directive with exactly those expressions as its operand list -/
theorem expression_directive_line (ws1 name wsA : Str) (k : Nat) (e : Expr) (s : Str) (more : List (Str × Str × Dpd)) (ws2 c : Str)
    (hws1 : blanks ws1) (hname : name ≠ []) (hlow : ∀ ch ∈ name, isLowerAlpha ch = true)
    (hwsA : blanks wsA) (hA : wsA ≠ []) (hsp : Spaced 0 k e s) (hm : dpdsOk more)
    (hws2 : blanks ws2) (hc : lineEnd c) :
    line (ws1 ++ ('.' :: (name ++ (wsA ++ (s ++ (dpdTail more ++ (ws2 ++ c))))))) =
      .ok (.directiveLine none (directiveOfName name) (.opList (.e e :: more.map (fun x => x.2.2.val)))) := by
  obtain ⟨w, ws, rfl⟩ : ∃ w ws, wsA = w :: ws := by
    cases wsA with
    | nil => exact absurd rfl hA
    | cons w ws => exact ⟨w, ws, rfl⟩
  have hw : isSpace w = true := hwsA w (by simp)
  have hwl : isLowerAlpha w = false := by
    simp only [isSpace, Bool.or_eq_true, beq_iff_eq] at hw
    rcases hw with rfl | rfl <;> decide
  have hg := Dpd.ofExpr_ok k e s hsp
  have hlead : LeadOk (s ++ (dpdTail more ++ (ws2 ++ c))) :=
    spaced_lead 0 k e s hsp _ (dpd_after more hm ws2 c hws2 hc).1.2.1 (dpd_after_head more hm ws2 c hws2 hc)
  have hdo := directiveOps_dpds (Dpd.ofExpr e s) hg more hm ws2 c hws2 hc hlead
  have hsr := hg.2 (dpdTail more ++ (ws2 ++ c))
  simp only [Dpd.ofExpr] at hdo hsr
  generalize hR : s ++ (dpdTail more ++ (ws2 ++ c)) = R at hdo hsr ⊢
  have hlab : label (ws1 ++ ('.' :: (name ++ ((w :: ws) ++ R)))) = none := by
    cases ws1 with
    | nil => simp +decide [label, identText]
    | cons v vs =>
      have hv : isSpace v = true := hws1 v (by simp)
      have : isIdentStart v = false := by
        simp only [isSpace, Bool.or_eq_true, beq_iff_eq] at hv
        rcases hv with rfl | rfl <;> decide
      simp [label, identText, this]
  have hsk : skipSpace (ws1 ++ ('.' :: (name ++ ((w :: ws) ++ R)))) = '.' :: (name ++ ((w :: ws) ++ R)) := by
    rw [space_absorbs ws1 _ hws1]; simp +decide [skipSpace]
  have htw : takeWhileP isLowerAlpha (name ++ ((w :: ws) ++ R)) = (name, (w :: ws) ++ R) :=
    takeWhile_all isLowerAlpha name _ hlow (by intro y hy; simp at hy; subst hy; exact hwl)
  have hdir : directive ('.' :: (name ++ ((w :: ws) ++ R))) = some (directiveOfName name, (w :: ws) ++ R) := by
    have hne : name.isEmpty = false := by cases name with | nil => exact absurd rfl hname | cons _ _ => rfl
    simp only [directive, htw, hne]
    simp +decide
  have hsA : skipSpace ((w :: ws) ++ R) = R := by
    rw [space_absorbs (w :: ws) _ hwsA]; exact hsr
  have hst := skip_tail ws2 c hws2 hc
  unfold line
  simp only [optLabel, hlab]
  simp only [hsk]
  simp only [hdir]
  simp only [hsA]
  simp only [hdo]
  simp only [hst]
  rcases hc with rfl | ⟨_, hcom⟩
  · simp [comment]
  · simp only [hcom]; simp

/-- what follows an expression at the end of a line ends an operand -/
theorem afterOpd_end (ws2 c : Str) (hws2 : blanks ws2) (hc : lineEnd c) : AfterOpd (ws2 ++ c) := by
  have := dpd_after [] (by intro x hx; simp at hx) ws2 c hws2 hc
  simpa [dpdTail] using this

/-- **An assignment directive** (`.equ NAME = expression`, `.set`, `.def` with a register written as
    an expression is not meant here): indented or not, any blanks around the `=`, the expression
    written in any of the ways of `C05pp.Spaced`, any blanks and any comment at the end -/
theorem assignment_directive_line (ws1 dname wsA sym wsB wsC : Str) (k : Nat) (e : Expr) (s : Str) (ws2 c : Str)
    (hws1 : blanks ws1) (hname : dname ≠ []) (hlow : ∀ ch ∈ dname, isLowerAlpha ch = true)
    (hwsA : blanks wsA) (hA : wsA ≠ []) (hsym : isName sym) (hwsB : blanks wsB) (hwsC : blanks wsC)
    (hsp : Spaced 0 k e s) (hws2 : blanks ws2) (hc : lineEnd c) :
    line (ws1 ++ ('.' :: (dname ++ (wsA ++ (sym ++ (wsB ++ '=' :: (wsC ++ (s ++ (ws2 ++ c))))))))) =
      .ok (.directiveLine none (directiveOfName dname) (.assign (.ident sym) e)) := by
  obtain ⟨w, ws, rfl⟩ : ∃ w ws, wsA = w :: ws := by
    cases wsA with
    | nil => exact absurd rfl hA
    | cons w ws => exact ⟨w, ws, rfl⟩
  have hw : isSpace w = true := hwsA w (by simp)
  have hwl : isLowerAlpha w = false := by
    simp only [isSpace, Bool.or_eq_true, beq_iff_eq] at hw
    rcases hw with rfl | rfl <;> decide
  have hg := Dpd.ofExpr_ok k e s hsp
  have hrest := afterOpd_end ws2 c hws2 hc
  -- the expression behind the `=`
  have he : expr (s ++ (ws2 ++ c)) = .ok e (ws2 ++ c) := by
    have := hg.1 (ws2 ++ c) hrest
    simp only [Dpd.ofExpr] at this
    unfold directiveOp at this
    cases hx : expr (s ++ (ws2 ++ c)) with
    | ok e' r' => rw [hx] at this; simp only [PO.ok.injEq, Operand.e.injEq] at this; obtain ⟨rfl, rfl⟩ := this; rfl
    | fail =>
      rw [hx] at this; simp only at this
      split at this <;> simp at this
    | oof => rw [hx] at this; simp at this
  have hsks : skipSpace (s ++ (ws2 ++ c)) = s ++ (ws2 ++ c) := skip_spaced 0 k e s hsp _
  -- directive_ops takes the assignment alternative
  have hdo : directiveOps (sym ++ (wsB ++ '=' :: (wsC ++ (s ++ (ws2 ++ c))))) = .ok (.assign (.ident sym) e) (ws2 ++ c) := by
    unfold directiveOps
    have hid : identText (sym ++ (wsB ++ '=' :: (wsC ++ (s ++ (ws2 ++ c))))) = some (sym, wsB ++ '=' :: (wsC ++ (s ++ (ws2 ++ c)))) :=
      identText_name sym _ hsym (by
        intro y hy
        cases wsB with
        | nil => simp at hy; subst hy; decide
        | cons b bs =>
          simp at hy; subst hy
          have hb : isSpace b = true := hwsB b (by simp)
          simp only [isSpace, Bool.or_eq_true, beq_iff_eq] at hb
          rcases hb with rfl | rfl <;> decide)
    have hsk1 : skipSpace (wsB ++ '=' :: (wsC ++ (s ++ (ws2 ++ c)))) = '=' :: (wsC ++ (s ++ (ws2 ++ c))) := by
      rw [space_absorbs wsB _ hwsB]; simp +decide [skipSpace]
    have hsk2 : skipSpace (wsC ++ (s ++ (ws2 ++ c))) = s ++ (ws2 ++ c) := by
      rw [space_absorbs wsC _ hwsC, hsks]
    simp only [hid, hsk1, hsk2, he]
  have hsym0 : skipSpace (sym ++ (wsB ++ '=' :: (wsC ++ (s ++ (ws2 ++ c))))) = sym ++ (wsB ++ '=' :: (wsC ++ (s ++ (ws2 ++ c)))) :=
    skip_name sym _ hsym
  generalize hR : sym ++ (wsB ++ '=' :: (wsC ++ (s ++ (ws2 ++ c)))) = R at hdo hsym0 ⊢
  have hlab : label (ws1 ++ ('.' :: (dname ++ ((w :: ws) ++ R)))) = none := by
    cases ws1 with
    | nil => simp +decide [label, identText]
    | cons v vs =>
      have hv : isSpace v = true := hws1 v (by simp)
      have : isIdentStart v = false := by
        simp only [isSpace, Bool.or_eq_true, beq_iff_eq] at hv
        rcases hv with rfl | rfl <;> decide
      simp [label, identText, this]
  have hsk : skipSpace (ws1 ++ ('.' :: (dname ++ ((w :: ws) ++ R)))) = '.' :: (dname ++ ((w :: ws) ++ R)) := by
    rw [space_absorbs ws1 _ hws1]; simp +decide [skipSpace]
  have htw : takeWhileP isLowerAlpha (dname ++ ((w :: ws) ++ R)) = (dname, (w :: ws) ++ R) :=
    takeWhile_all isLowerAlpha dname _ hlow (by intro y hy; simp at hy; subst hy; exact hwl)
  have hdir : directive ('.' :: (dname ++ ((w :: ws) ++ R))) = some (directiveOfName dname, (w :: ws) ++ R) := by
    have hne : dname.isEmpty = false := by cases dname with | nil => exact absurd rfl hname | cons _ _ => rfl
    simp only [directive, htw, hne]
    simp +decide
  have hsA : skipSpace ((w :: ws) ++ R) = R := by
    rw [space_absorbs (w :: ws) _ hwsA]; exact hsym0
  have hst := skip_tail ws2 c hws2 hc
  unfold line
  simp only [optLabel, hlab]
  simp only [hsk]
  simp only [hdir]
  simp only [hsA]
  simp only [hdo]
  simp only [hst]
  rcases hc with rfl | ⟨_, hcom⟩
  · simp [comment]
  · simp only [hcom]; simp

/-! non-vacuity: `.db low ( K ) + 1 ,2 ; t` -/
example : ∃ ops, line ".db low ( K ) + 1 ,2 ; t".toList = .ok (.directiveLine none (directiveOfName ['d', 'b']) ops) := by
  have hb : ∀ w : Str, w = [] ∨ w = [' '] → blanks w := by
    intro w hw c hc; rcases hw with rfl | rfl <;> simp at hc; subst hc; decide
  have hsp : Spaced 0 (opLevel .add + 1) (.bin .add (.func (.ident ['l', 'o', 'w']) (.ident ['K'])) (.const 1)) "low ( K ) + 1".toList :=
    Spaced.bin 0 top top .add _ _ [' '] [' '] "low ( K )".toList ['1'] (by decide) (hb _ (Or.inr rfl)) (hb _ (Or.inr rfl))
      (Spaced.func _ top ['l', 'o', 'w'] (.ident ['K']) [' '] [' '] [' '] ['K'] ⟨'l', ['o', 'w'], rfl, by decide, by decide⟩
        (hb _ (Or.inr rfl)) (hb _ (Or.inr rfl)) (hb _ (Or.inr rfl)) (Spaced.ident 0 ['K'] ⟨'K', [], rfl, by decide, by decide⟩))
      (Spaced.const _ 1 1 rfl (by decide))
  have h2 : Spaced 0 top (.const 2) ['2'] := Spaced.const 0 2 2 rfl (by decide)
  have := expression_directive_line [] ['d', 'b'] [' '] _ _ "low ( K ) + 1".toList
    [([' '], [], Dpd.ofExpr (.const 2) ['2'])] [' '] "; t".toList
    (hb _ (Or.inl rfl)) (by decide) (by decide) (hb _ (Or.inr rfl)) (by decide) hsp
    (by
      intro x hx
      simp only [List.mem_singleton] at hx
      subst hx
      exact ⟨hb _ (Or.inr rfl), hb _ (Or.inl rfl), Dpd.ofExpr_ok _ _ _ h2⟩)
    (hb _ (Or.inr rfl)) (Or.inr ⟨Or.inl rfl, rfl⟩)
  exact ⟨_, this⟩

/-! ### index operands: `X`, `X+`, `-X`, `Y+q` -/

/-- a pointer register in either letter case -/
def r16Text (up : Bool) : Reg16 → Str
  | .x => [if up then 'X' else 'x']
  | .y => [if up then 'Y' else 'y']
  | .z => [if up then 'Z' else 'z']

theorem reg16_r16Text (up : Bool) (r : Reg16) (rest : Str) : reg16 (r16Text up r ++ rest) = some (r, rest) := by
  cases r <;> cases up <;> simp +decide [r16Text, reg16]

theorem skip_r16 (up : Bool) (r : Reg16) (rest : Str) : skipSpace (r16Text up r ++ rest) = r16Text up r ++ rest := by
  cases r <;> cases up <;> simp +decide [r16Text, skipSpace]

theorem afterOpd_noPlus (rest : Str) (h : AfterOpd rest) : ∀ r2, skipSpace rest ≠ '+' :: r2 := by
  intro r2 hr
  rcases h.2.2 with h0 | ⟨x, xs, hx, hns⟩
  · rw [h0] at hr; simp at hr
  · rw [hx] at hr
    simp only [List.cons.injEq] at hr
    rw [hr.1] at hns
    rcases hns with h | h | h | h | h | h | h | h | h | h <;> exact absurd h (by decide)

theorem afterOpd_head (rest : Str) (h : AfterOpd rest) : ∀ y ys, rest = y :: ys → isIdentChar y = false ∧ y ≠ '+' := by
  intro y ys hr
  subst hr
  refine ⟨h.1.2.1 y rfl, ?_⟩
  intro hy; subst hy
  have := afterOpd_noPlus _ h ys
  simp +decide [skipSpace] at this

theorem expr_fails_after (rest : Str) (h : AfterOpd rest) : expr (skipSpace rest) = .fail := by
  rcases h.2.2 with h0 | ⟨x, xs, hx, hns⟩
  · rw [h0]; exact expr_fails_nil
  · rw [hx]; exact expr_fails' x xs hns

/-- `X`, `Y`, `Z` alone -/
theorem indexOps_plain (up : Bool) (r : Reg16) (rest : Str) (h : AfterOpd rest) :
    indexOps (r16Text up r ++ rest) = .ok (.none r) rest := by
  have hnp := afterOpd_noPlus _ h
  have key : ∀ (c : Char) (r0 : Reg16), c ≠ '-' → reg16 (c :: rest) = some (r0, rest) →
      indexOps (c :: rest) = .ok (.none r0) rest := by
    intro c r0 hc hr
    unfold indexOps
    simp only [hr]
    split
    · rename_i v r' heq
      split at heq
      · rename_i t ht; simp only [List.cons.injEq] at ht; exact absurd ht.1 hc
      · simp at heq
    · split
      · rename_i r2 _
        exact absurd (by simp +decide [skipSpace]) (hnp r2)
      · rename_i c' t _ _
        have hy1 := (afterOpd_head _ h c' t rfl).1
        simp [hy1]
      · rfl
  have hr := reg16_r16Text up r rest
  cases r <;> cases up <;> exact key _ _ (by decide) hr

/-- `X+`, `Y+`, `Z+` -/
theorem indexOps_postInc (up : Bool) (r : Reg16) (rest : Str) (h : AfterOpd rest) :
    indexOps (r16Text up r ++ ('+' :: rest)) = .ok (.postInc r) rest := by
  have hf := expr_fails_after rest h
  cases r <;> cases up <;> simp +decide [indexOps, r16Text, reg16, skipSpace, hf]

/-- `-X`, `-Y`, `-Z` -/
theorem indexOps_preDec (up : Bool) (r : Reg16) (rest : Str) :
    indexOps ('-' :: (r16Text up r ++ rest)) = .ok (.preDec r) rest := by
  cases r <;> cases up <;> simp +decide [indexOps, r16Text, reg16]

/-- `Y+q`, `Z + q`: a displacement written in any of the ways of `Spaced`, blanks around the `+` -/
theorem indexOps_disp (up : Bool) (r : Reg16) (w1 w2 : Str) (k : Nat) (e : Expr) (s : Str) (rest : Str)
    (hw1 : blanks w1) (hw2 : blanks w2) (hsp : Spaced 0 k e s) (h : AfterOpd rest) :
    indexOps (r16Text up r ++ (w1 ++ '+' :: (w2 ++ (s ++ rest)))) = .ok (.postIncE r e) rest := by
  have hr := reg16_r16Text up r (w1 ++ '+' :: (w2 ++ (s ++ rest)))
  have hsk1 : skipSpace (w1 ++ '+' :: (w2 ++ (s ++ rest))) = '+' :: (w2 ++ (s ++ rest)) := by
    rw [space_absorbs w1 _ hw1]; simp +decide [skipSpace]
  have hsk2 : skipSpace (w2 ++ (s ++ rest)) = s ++ rest := by
    rw [space_absorbs w2 _ hw2, skip_spaced 0 k e s hsp rest]
  have he : expr (s ++ rest) = .ok e rest := by
    obtain ⟨⟨_, hend, hop⟩, hpar, _⟩ := h
    exact parse_print_spaced k e s hsp rest ⟨hend, hpar⟩ (by
      intro x hx
      rcases hop x hx with h | h
      · exact Or.inr (Or.inl h)
      · exact Or.inr (Or.inr h))
  have key : ∀ (c : Char), c ≠ '-' → reg16 (c :: (w1 ++ '+' :: (w2 ++ (s ++ rest)))) = some (r, w1 ++ '+' :: (w2 ++ (s ++ rest))) →
      indexOps (c :: (w1 ++ '+' :: (w2 ++ (s ++ rest)))) = .ok (.postIncE r e) rest := by
    intro c hc hr
    unfold indexOps
    simp only [hr, hsk1, hsk2, he]
    split
    · rename_i v r' heq
      split at heq
      · rename_i t ht; simp only [List.cons.injEq] at ht; exact absurd ht.1 hc
      · simp at heq
    · rfl
  cases r <;> cases up <;> exact key _ (by decide) hr

/-! the operands -/

def Opd.plain (up : Bool) (r : Reg16) : Opd := ⟨r16Text up r, .index (.none r)⟩
def Opd.postInc (up : Bool) (r : Reg16) : Opd := ⟨r16Text up r ++ ['+'], .index (.postInc r)⟩
def Opd.preDec (up : Bool) (r : Reg16) : Opd := ⟨'-' :: r16Text up r, .index (.preDec r)⟩
def Opd.disp (up : Bool) (r : Reg16) (w1 w2 : Str) (e : Expr) (s : Str) : Opd :=
  ⟨r16Text up r ++ (w1 ++ '+' :: (w2 ++ s)), .index (.postIncE r e)⟩

theorem Opd.plain_ok (up : Bool) (r : Reg16) : (Opd.plain up r).ok := by
  refine ⟨fun rest hr => ?_, fun rest => skip_r16 up r rest⟩
  simp only [Opd.plain]
  unfold instructionOps
  simp only [indexOps_plain up r rest hr]

theorem Opd.postInc_ok (up : Bool) (r : Reg16) : (Opd.postInc up r).ok := by
  refine ⟨fun rest hr => ?_, fun rest => by simp only [Opd.postInc, List.append_assoc]; exact skip_r16 up r _⟩
  simp only [Opd.postInc, List.append_assoc, List.cons_append, List.nil_append]
  unfold instructionOps
  simp only [indexOps_postInc up r rest hr]

theorem Opd.preDec_ok (up : Bool) (r : Reg16) : (Opd.preDec up r).ok := by
  refine ⟨fun rest hr => ?_, fun rest => by simp +decide [Opd.preDec, skipSpace]⟩
  simp only [Opd.preDec, List.cons_append]
  unfold instructionOps
  simp only [indexOps_preDec up r rest]

theorem Opd.disp_ok (up : Bool) (r : Reg16) (w1 w2 : Str) (k : Nat) (e : Expr) (s : Str)
    (hw1 : blanks w1) (hw2 : blanks w2) (hsp : Spaced 0 k e s) : (Opd.disp up r w1 w2 e s).ok := by
  refine ⟨fun rest hr => ?_, fun rest => by simp only [Opd.disp, List.append_assoc]; exact skip_r16 up r _⟩
  have := indexOps_disp up r w1 w2 k e s rest hw1 hw2 hsp hr
  simp only [Opd.disp, List.append_assoc, List.cons_append]
  unfold instructionOps
  simp only [this]

/-! non-vacuity: ` st -X , r5` and ` ldd r16, Y + 2 ; c` -/
example : ∃ toks, line " st -X , r5".toList = .ok (.codeLine none (opOfWord (lower ['s', 't'])) toks) := by
  have hb : ∀ w : Str, w = [] ∨ w = [' '] → blanks w := by
    intro w hw c hc; rcases hw with rfl | rfl <;> simp at hc; subst hc; decide
  have := operands_instruction_line [' '] ['s', 't'] [' '] (Opd.preDec true .x)
    [([' '], [' '], Opd.ofItem (.reg false 5))] [] []
    (hb _ (Or.inr rfl)) ⟨'s', ['t'], rfl, by decide, by decide⟩ (hb _ (Or.inr rfl)) (by decide)
    (Opd.preDec_ok true .x)
    (by
      intro x hx
      simp only [List.mem_singleton] at hx
      subst hx
      exact ⟨hb _ (Or.inr rfl), hb _ (Or.inr rfl), Opd.ofItem_ok _ (by unfold Item.good; decide)⟩)
    (hb _ (Or.inl rfl)) (Or.inl rfl)
  exact ⟨_, this⟩

example : ∃ toks, line " ldd r16, Y + 2 ; c".toList = .ok (.codeLine none (opOfWord (lower ['l', 'd', 'd'])) toks) := by
  have hb : ∀ w : Str, w = [] ∨ w = [' '] → blanks w := by
    intro w hw c hc; rcases hw with rfl | rfl <;> simp at hc; subst hc; decide
  have h2 : Spaced 0 top (.const 2) ['2'] := Spaced.const 0 2 2 rfl (by decide)
  have := operands_instruction_line [' '] ['l', 'd', 'd'] [' '] (Opd.ofItem (.reg false 16))
    [([], [' '], Opd.disp true .y [' '] [' '] (.const 2) ['2'])] [' '] "; c".toList
    (hb _ (Or.inr rfl)) ⟨'l', ['d', 'd'], rfl, by decide, by decide⟩ (hb _ (Or.inr rfl)) (by decide)
    (Opd.ofItem_ok _ (by unfold Item.good; decide))
    (by
      intro x hx
      simp only [List.mem_singleton] at hx
      subst hx
      exact ⟨hb _ (Or.inl rfl), hb _ (Or.inr rfl), Opd.disp_ok true .y _ _ _ _ _ (hb _ (Or.inr rfl)) (hb _ (Or.inr rfl)) h2⟩)
    (hb _ (Or.inr rfl)) (Or.inr ⟨Or.inl rfl, rfl⟩)
  exact ⟨_, this⟩

/-! ### string operands of directives -/

theorem atom_not_ok_quote (xs : Str) : ∀ f e r, parseAtom f ('"' :: xs) ≠ .ok e r := by
  intro f e r h
  have hid : identText ('"' :: xs) = none := by simp +decide [identText]
  have hch : ch ('"' :: xs) = none := by simp [ch]
  have hec : eConst ('"' :: xs) = none := by simp +decide [eConst, constAlt, lit, takeWhileP, isDigit]
  cases f with
  | zero => simp [parseAtom] at h
  | succ f => simp [parseAtom, hid, hec, hch] at h

theorem tryPrefix_not_ok_quote (xs : Str) :
    ∀ (l : List (Str × UnOp × Nat)), (∀ y ∈ l, y.1 ≠ [] ∧ y.1.head? ≠ some '"') → ∀ f e r, tryPrefix f l ('"' :: xs) ≠ .ok e r := by
  intro l
  induction l with
  | nil =>
    intro _ f e r h
    cases f with
    | zero => simp [tryPrefix] at h
    | succ f => simp only [tryPrefix] at h; exact atom_not_ok_quote xs f e r h
  | cons y more ih =>
    intro hl f e r h
    obtain ⟨t, u, lv⟩ := y
    have ht := hl (t, u, lv) (List.mem_cons_self ..)
    have hlit := lit_head_ne t '"' xs ht.1 ht.2
    cases f with
    | zero => simp [tryPrefix] at h
    | succ f =>
      simp only [tryPrefix, hlit] at h
      exact ih (fun y hy => hl y (List.mem_cons_of_mem _ hy)) f e r h

/-- a string is no expression -/
theorem expr_fails_quote (xs : Str) : expr ('"' :: xs) = .fail := by
  have hno := expr_no_oof ('"' :: xs)
  have hnok : ∀ e r, expr ('"' :: xs) ≠ .ok e r := by
    intro e r h
    unfold expr at h
    generalize exprFuel ('"' :: xs) = f at h
    cases f with
    | zero => simp [parseInfix] at h
    | succ f =>
      simp only [parseInfix] at h
      split at h
      · rename_i e1 rest hp
        cases f with
        | zero => simp [parsePrefixAtom] at hp
        | succ f =>
          simp only [parsePrefixAtom] at hp
          have key : ∀ y ∈ prefixOps, y.1 ≠ [] ∧ y.1.head? ≠ some '"' := by decide
          exact tryPrefix_not_ok_quote xs prefixOps key f e1 rest hp
      · simp at h
      · simp at h
  cases h : expr ('"' :: xs) with
  | ok e r => exact absurd h (hnok e r)
  | fail => rfl
  | oof => exact absurd h hno

/-- a string operand: any characters but the quote and line ends, between quotes -/
def Dpd.ofString (body : Str) : Dpd := ⟨'"' :: (body ++ ['"']), .s body⟩

theorem Dpd.ofString_ok (body : Str) (hb : ∀ ch ∈ body, notStrEnd ch = true) : (Dpd.ofString body).ok := by
  refine ⟨fun rest hr => ?_, fun rest => by simp +decide [Dpd.ofString, skipSpace]⟩
  simp only [Dpd.ofString, List.cons_append, List.append_assoc, List.nil_append]
  have htw : takeWhileP notStrEnd (body ++ ('"' :: rest)) = (body, '"' :: rest) :=
    takeWhile_all notStrEnd body _ hb (by intro y hy; simp at hy; subst hy; decide)
  unfold directiveOp
  simp only [expr_fails_quote, Peg.string, htw]

/-- **A directive line with any list of operands** — expressions in any `Spaced` writing and
    strings, in any mixture — optionally behind a label (glued to the colon or not) -/
theorem operands_directive_line (lab : Option Str) (labText ws1 name wsA : Str) (o : Dpd) (more : List (Str × Str × Dpd)) (ws2 c : Str)
    (hlabel : (lab = none ∧ labText = []) ∨ ∃ l, isName l ∧ lab = some (lower l) ∧ labText = l ++ [':'])
    (hws1 : blanks ws1) (hname : name ≠ []) (hlow : ∀ ch ∈ name, isLowerAlpha ch = true)
    (hwsA : blanks wsA) (hA : wsA ≠ []) (hg : o.ok) (hm : dpdsOk more)
    (hlead : LeadOk (o.text ++ (dpdTail more ++ (ws2 ++ c))))
    (hws2 : blanks ws2) (hc : lineEnd c) :
    line (labText ++ (ws1 ++ ('.' :: (name ++ (wsA ++ (o.text ++ (dpdTail more ++ (ws2 ++ c)))))))) =
      .ok (.directiveLine lab (directiveOfName name) (.opList (o.val :: more.map (fun x => x.2.2.val)))) := by
  obtain ⟨w, ws, rfl⟩ : ∃ w ws, wsA = w :: ws := by
    cases wsA with
    | nil => exact absurd rfl hA
    | cons w ws => exact ⟨w, ws, rfl⟩
  have hw : isSpace w = true := hwsA w (by simp)
  have hwl : isLowerAlpha w = false := by
    simp only [isSpace, Bool.or_eq_true, beq_iff_eq] at hw
    rcases hw with rfl | rfl <;> decide
  have hdo := directiveOps_dpds o hg more hm ws2 c hws2 hc hlead
  have hsr := hg.2 (dpdTail more ++ (ws2 ++ c))
  generalize hR : o.text ++ (dpdTail more ++ (ws2 ++ c)) = R at hdo hsr ⊢
  have hopt : optLabel (labText ++ (ws1 ++ ('.' :: (name ++ ((w :: ws) ++ R))))) = (lab, ws1 ++ ('.' :: (name ++ ((w :: ws) ++ R)))) := by
    rcases hlabel with ⟨rfl, rfl⟩ | ⟨l, hl, rfl, rfl⟩
    · have hlab : label (ws1 ++ ('.' :: (name ++ ((w :: ws) ++ R)))) = none := by
        cases ws1 with
        | nil => simp +decide [label, identText]
        | cons v vs =>
          have hv : isSpace v = true := hws1 v (by simp)
          have : isIdentStart v = false := by
            simp only [isSpace, Bool.or_eq_true, beq_iff_eq] at hv
            rcases hv with rfl | rfl <;> decide
          simp [label, identText, this]
      simp only [List.nil_append, optLabel, hlab]
    · have hidl : identText (l ++ ':' :: (ws1 ++ ('.' :: (name ++ ((w :: ws) ++ R))))) = some (l, ':' :: (ws1 ++ ('.' :: (name ++ ((w :: ws) ++ R))))) :=
        identText_name l _ hl (by intro y hy; simp at hy; subst hy; decide)
      have : l ++ [':'] ++ (ws1 ++ ('.' :: (name ++ ((w :: ws) ++ R)))) = l ++ ':' :: (ws1 ++ ('.' :: (name ++ ((w :: ws) ++ R)))) := by simp
      rw [this]
      simp only [optLabel, label, hidl]
  have hsk : skipSpace (ws1 ++ ('.' :: (name ++ ((w :: ws) ++ R)))) = '.' :: (name ++ ((w :: ws) ++ R)) := by
    rw [space_absorbs ws1 _ hws1]; simp +decide [skipSpace]
  have htw : takeWhileP isLowerAlpha (name ++ ((w :: ws) ++ R)) = (name, (w :: ws) ++ R) :=
    takeWhile_all isLowerAlpha name _ hlow (by intro y hy; simp at hy; subst hy; exact hwl)
  have hdir : directive ('.' :: (name ++ ((w :: ws) ++ R))) = some (directiveOfName name, (w :: ws) ++ R) := by
    have hne : name.isEmpty = false := by cases name with | nil => exact absurd rfl hname | cons _ _ => rfl
    simp only [directive, htw, hne]
    simp +decide
  have hsA : skipSpace ((w :: ws) ++ R) = R := by
    rw [space_absorbs (w :: ws) _ hwsA]; exact hsr
  have hst := skip_tail ws2 c hws2 hc
  unfold line
  rw [hopt]
  dsimp only
  simp only [hsk]
  simp only [hdir]
  simp only [hsA]
  simp only [hdo]
  simp only [hst]
  rcases hc with rfl | ⟨_, hcom⟩
  · simp [comment]
  · simp only [hcom]; simp


/-- what a list may begin with: an expression or a string -/
theorem leadOk_string (body rest : Str) : LeadOk ((Dpd.ofString body).text ++ rest) :=
  Or.inl ⟨'"', _, rfl, by decide⟩

theorem leadOk_expr (k : Nat) (e : Expr) (s : Str) (hsp : Spaced 0 k e s) (more : List (Str × Str × Dpd)) (hm : dpdsOk more)
    (ws2 c : Str) (hws2 : blanks ws2) (hc : lineEnd c) : LeadOk ((Dpd.ofExpr e s).text ++ (dpdTail more ++ (ws2 ++ c))) :=
  spaced_lead 0 k e s hsp _ (dpd_after more hm ws2 c hws2 hc).1.2.1 (dpd_after_head more hm ws2 c hws2 hc)

/-! non-vacuity: `msg:.db "Hi; there" , 0 // z` -/
example : ∃ ops, line "msg:.db \"Hi; there\" , 0 // z".toList =
    .ok (.directiveLine (some (lower ['m', 's', 'g'])) (directiveOfName ['d', 'b']) ops) := by
  have hb : ∀ w : Str, w = [] ∨ w = [' '] → blanks w := by
    intro w hw c hc; rcases hw with rfl | rfl <;> simp at hc; subst hc; decide
  have h0 : Spaced 0 top (.const 0) ['0'] := Spaced.const 0 0 0 rfl (by decide)
  have := operands_directive_line (some (lower ['m', 's', 'g'])) "msg:".toList [] ['d', 'b'] [' '] (Dpd.ofString "Hi; there".toList)
    [([' '], [' '], Dpd.ofExpr (.const 0) ['0'])] [' '] "// z".toList
    (Or.inr ⟨['m', 's', 'g'], ⟨'m', ['s', 'g'], rfl, by decide, by decide⟩, rfl, rfl⟩)
    (hb _ (Or.inl rfl)) (by decide) (by decide) (hb _ (Or.inr rfl)) (by decide)
    (Dpd.ofString_ok _ (by decide))
    (by
      intro x hx
      simp only [List.mem_singleton] at hx
      subst hx
      exact ⟨hb _ (Or.inr rfl), hb _ (Or.inr rfl), Dpd.ofExpr_ok _ _ _ h0⟩)
    (leadOk_string _ _) (hb _ (Or.inr rfl)) (Or.inr ⟨Or.inr rfl, rfl⟩)
  exact ⟨_, this⟩

/-! ### the property's words, for the lines covered -/

/-- **blanks and comments of an instruction line carry no meaning**: two writings of an instruction
    line with the same operation name (in any letter case... of the same word) and the same
    operands — whatever the indentation, the blanks after the name, around every comma and at the
    end, and whatever comment (or none) follows — parse to the same thing -/
theorem instruction_line_layout_irrelevant
    (ws1 ws1' n wsA wsA' : Str) (o : Opd) (more more' : List (Str × Str × Opd)) (ws2 ws2' c c' : Str)
    (hws1 : blanks ws1) (hws1' : blanks ws1') (hn : isName n) (hwsA : blanks wsA) (hwsA' : blanks wsA')
    (hA : wsA ≠ []) (hA' : wsA' ≠ []) (hg : o.ok) (hm : opdsOk more) (hm' : opdsOk more')
    (hsame : more.map (fun x => x.2.2.val) = more'.map (fun x => x.2.2.val))
    (hws2 : blanks ws2) (hws2' : blanks ws2') (hc : lineEnd c) (hc' : lineEnd c') :
    parseLine (ws1 ++ (n ++ (wsA ++ (o.text ++ (opdTail more ++ (ws2 ++ c)))))) =
    parseLine (ws1' ++ (n ++ (wsA' ++ (o.text ++ (opdTail more' ++ (ws2' ++ c')))))) := by
  unfold parseLine
  rw [operands_instruction_line ws1 n wsA o more ws2 c hws1 hn hwsA hA hg hm hws2 hc,
      operands_instruction_line ws1' n wsA' o more' ws2' c' hws1' hn hwsA' hA' hg hm' hws2' hc', hsame]

/-- the letter case of the operation name carries no meaning -/
theorem instruction_line_case_irrelevant
    (ws1 n n' wsA : Str) (o : Opd) (more : List (Str × Str × Opd)) (ws2 c : Str)
    (hws1 : blanks ws1) (hn : isName n) (hn' : isName n') (hcase : lower n = lower n') (hwsA : blanks wsA)
    (hA : wsA ≠ []) (hg : o.ok) (hm : opdsOk more) (hws2 : blanks ws2) (hc : lineEnd c) :
    parseLine (ws1 ++ (n ++ (wsA ++ (o.text ++ (opdTail more ++ (ws2 ++ c)))))) =
    parseLine (ws1 ++ (n' ++ (wsA ++ (o.text ++ (opdTail more ++ (ws2 ++ c)))))) := by
  unfold parseLine
  rw [operands_instruction_line ws1 n wsA o more ws2 c hws1 hn hwsA hA hg hm hws2 hc,
      operands_instruction_line ws1 n' wsA o more ws2 c hws1 hn' hwsA hA hg hm hws2 hc, hcase]

/-- the same for directive lines: indentation, blanks after the name, around the commas and at the
    end, and the comment carry no meaning -/
theorem directive_line_layout_irrelevant (lab : Option Str) (labText ws1 ws1' name wsA wsA' : Str) (o : Dpd)
    (more more' : List (Str × Str × Dpd)) (ws2 ws2' c c' : Str)
    (hlabel : (lab = none ∧ labText = []) ∨ ∃ l, isName l ∧ lab = some (lower l) ∧ labText = l ++ [':'])
    (hws1 : blanks ws1) (hws1' : blanks ws1') (hname : name ≠ []) (hlow : ∀ ch ∈ name, isLowerAlpha ch = true)
    (hwsA : blanks wsA) (hwsA' : blanks wsA') (hA : wsA ≠ []) (hA' : wsA' ≠ []) (hg : o.ok)
    (hm : dpdsOk more) (hm' : dpdsOk more')
    (hlead : LeadOk (o.text ++ (dpdTail more ++ (ws2 ++ c)))) (hlead' : LeadOk (o.text ++ (dpdTail more' ++ (ws2' ++ c'))))
    (hsame : more.map (fun x => x.2.2.val) = more'.map (fun x => x.2.2.val))
    (hws2 : blanks ws2) (hws2' : blanks ws2') (hc : lineEnd c) (hc' : lineEnd c') :
    parseLine (labText ++ (ws1 ++ ('.' :: (name ++ (wsA ++ (o.text ++ (dpdTail more ++ (ws2 ++ c)))))))) =
    parseLine (labText ++ (ws1' ++ ('.' :: (name ++ (wsA' ++ (o.text ++ (dpdTail more' ++ (ws2' ++ c')))))))) := by
  unfold parseLine
  rw [operands_directive_line lab labText ws1 name wsA o more ws2 c hlabel hws1 hname hlow hwsA hA hg hm hlead hws2 hc,
      operands_directive_line lab labText ws1' name wsA' o more' ws2' c' hlabel hws1' hname hlow hwsA' hA' hg hm' hlead' hws2' hc', hsame]

/-- an expression operand may be written in any of its `Spaced` ways: other blanks, other
    parentheses -/
theorem expression_writing_irrelevant (k k' : Nat) (e : Expr) (s s' : Str) (hsp : Spaced 0 k e s) (hsp' : Spaced 0 k' e s')
    (rest : Str) (hr : AfterOpd rest) : directiveOp (s ++ rest) = directiveOp (s' ++ rest) := by
  have h1 := (Dpd.ofExpr_ok k e s hsp).1 rest hr
  have h2 := (Dpd.ofExpr_ok k' e s' hsp').1 rest hr
  simp only [Dpd.ofExpr] at h1 h2
  rw [h1, h2]

/-- **what carries no meaning in an instruction line**: two writings with the same operation name
    up to letter case and operands of the same VALUE — a register as `r16` or `R16`, a number in
    any radix, an expression with other blanks or further parentheses, an index form in either
    letter case — whatever the indentation, the blanks after the name, around every comma and at
    the end, and whatever comment (or none) follows, parse to the same thing -/
theorem instruction_line_spelling_irrelevant
    (ws1 ws1' n n' wsA wsA' : Str) (o o' : Opd) (more more' : List (Str × Str × Opd)) (ws2 ws2' c c' : Str)
    (hws1 : blanks ws1) (hws1' : blanks ws1') (hn : isName n) (hn' : isName n') (hcase : lower n = lower n')
    (hwsA : blanks wsA) (hwsA' : blanks wsA') (hA : wsA ≠ []) (hA' : wsA' ≠ [])
    (hg : o.ok) (hg' : o'.ok) (hval : o.val = o'.val) (hm : opdsOk more) (hm' : opdsOk more')
    (hsame : more.map (fun x => x.2.2.val) = more'.map (fun x => x.2.2.val))
    (hws2 : blanks ws2) (hws2' : blanks ws2') (hc : lineEnd c) (hc' : lineEnd c') :
    parseLine (ws1 ++ (n ++ (wsA ++ (o.text ++ (opdTail more ++ (ws2 ++ c)))))) =
    parseLine (ws1' ++ (n' ++ (wsA' ++ (o'.text ++ (opdTail more' ++ (ws2' ++ c')))))) := by
  unfold parseLine
  rw [operands_instruction_line ws1 n wsA o more ws2 c hws1 hn hwsA hA hg hm hws2 hc,
      operands_instruction_line ws1' n' wsA' o' more' ws2' c' hws1' hn' hwsA' hA' hg' hm' hws2' hc', hsame, hval, hcase]

/-- the same for directive lines -/
theorem directive_line_spelling_irrelevant (lab : Option Str) (labText ws1 ws1' name wsA wsA' : Str) (o o' : Dpd)
    (more more' : List (Str × Str × Dpd)) (ws2 ws2' c c' : Str)
    (hlabel : (lab = none ∧ labText = []) ∨ ∃ l, isName l ∧ lab = some (lower l) ∧ labText = l ++ [':'])
    (hws1 : blanks ws1) (hws1' : blanks ws1') (hname : name ≠ []) (hlow : ∀ ch ∈ name, isLowerAlpha ch = true)
    (hwsA : blanks wsA) (hwsA' : blanks wsA') (hA : wsA ≠ []) (hA' : wsA' ≠ []) (hg : o.ok) (hg' : o'.ok) (hval : o.val = o'.val)
    (hm : dpdsOk more) (hm' : dpdsOk more')
    (hlead : LeadOk (o.text ++ (dpdTail more ++ (ws2 ++ c)))) (hlead' : LeadOk (o'.text ++ (dpdTail more' ++ (ws2' ++ c'))))
    (hsame : more.map (fun x => x.2.2.val) = more'.map (fun x => x.2.2.val))
    (hws2 : blanks ws2) (hws2' : blanks ws2') (hc : lineEnd c) (hc' : lineEnd c') :
    parseLine (labText ++ (ws1 ++ ('.' :: (name ++ (wsA ++ (o.text ++ (dpdTail more ++ (ws2 ++ c)))))))) =
    parseLine (labText ++ (ws1' ++ ('.' :: (name ++ (wsA' ++ (o'.text ++ (dpdTail more' ++ (ws2' ++ c')))))))) := by
  unfold parseLine
  rw [operands_directive_line lab labText ws1 name wsA o more ws2 c hlabel hws1 hname hlow hwsA hA hg hm hlead hws2 hc,
      operands_directive_line lab labText ws1' name wsA' o' more' ws2' c' hlabel hws1' hname hlow hwsA' hA' hg' hm' hlead' hws2' hc', hsame, hval]

/-- registers in either letter case, numbers in any spelling: operands of the same value -/
example (k : Nat) : (Opd.ofItem (.reg false k)).val = (Opd.ofItem (.reg true k)).val := rfl
example (t t' : Str) (n : Nat) : (Opd.ofItem (.num t n)).val = (Opd.ofItem (.num t' n)).val := rfl
example (e : Expr) (s s' : Str) : (Opd.ofExpr e s).val = (Opd.ofExpr e s').val := rfl
example (r : Reg16) : (Opd.postInc false r).val = (Opd.postInc true r).val := rfl

/-! ### from the operands to the line, for `.name` and `#name` alike -/

theorem directive_line_of_ops (lab : Option Str) (labText ws1 : Str) (p : Char) (name wsA R : Str) (ops : DirectiveOps) (ws2 c : Str)
    (hp : p = '.' ∨ p = '#')
    (hlabel : (lab = none ∧ labText = []) ∨ ∃ l, isName l ∧ lab = some (lower l) ∧ labText = l ++ [':'])
    (hws1 : blanks ws1) (hname : name ≠ []) (hlow : ∀ ch ∈ name, isLowerAlpha ch = true)
    (hwsA : blanks wsA) (hA : wsA ≠ []) (hdo : directiveOps R = .ok ops (ws2 ++ c)) (hsr : skipSpace R = R)
    (hws2 : blanks ws2) (hc : lineEnd c) :
    line (labText ++ (ws1 ++ (p :: (name ++ (wsA ++ R))))) =
      .ok (.directiveLine lab (directiveOfName name) ops) := by
  obtain ⟨w, ws, rfl⟩ : ∃ w ws, wsA = w :: ws := by
    cases wsA with
    | nil => exact absurd rfl hA
    | cons w ws => exact ⟨w, ws, rfl⟩
  have hw : isSpace w = true := hwsA w (by simp)
  have hwl : isLowerAlpha w = false := by
    simp only [isSpace, Bool.or_eq_true, beq_iff_eq] at hw
    rcases hw with rfl | rfl <;> decide
  have hpi : isIdentStart p = false ∧ isSpace p = false ∧ (p == '.' || p == '#') = true := by
    rcases hp with rfl | rfl <;> decide
  have hopt : optLabel (labText ++ (ws1 ++ (p :: (name ++ ((w :: ws) ++ R))))) = (lab, ws1 ++ (p :: (name ++ ((w :: ws) ++ R)))) := by
    rcases hlabel with ⟨rfl, rfl⟩ | ⟨l, hl, rfl, rfl⟩
    · have hlab : label (ws1 ++ (p :: (name ++ ((w :: ws) ++ R)))) = none := by
        cases ws1 with
        | nil => simp [label, identText, hpi.1]
        | cons v vs =>
          have hv : isSpace v = true := hws1 v (by simp)
          have : isIdentStart v = false := by
            simp only [isSpace, Bool.or_eq_true, beq_iff_eq] at hv
            rcases hv with rfl | rfl <;> decide
          simp [label, identText, this]
      simp only [List.nil_append, optLabel, hlab]
    · have hidl : identText (l ++ ':' :: (ws1 ++ (p :: (name ++ ((w :: ws) ++ R))))) = some (l, ':' :: (ws1 ++ (p :: (name ++ ((w :: ws) ++ R))))) :=
        identText_name l _ hl (by intro y hy; simp at hy; subst hy; decide)
      have : l ++ [':'] ++ (ws1 ++ (p :: (name ++ ((w :: ws) ++ R)))) = l ++ ':' :: (ws1 ++ (p :: (name ++ ((w :: ws) ++ R)))) := by simp
      rw [this]
      simp only [optLabel, label, hidl]
  have hsk : skipSpace (ws1 ++ (p :: (name ++ ((w :: ws) ++ R)))) = p :: (name ++ ((w :: ws) ++ R)) := by
    rw [space_absorbs ws1 _ hws1]; simp [skipSpace, hpi.2.1]
  have htw : takeWhileP isLowerAlpha (name ++ ((w :: ws) ++ R)) = (name, (w :: ws) ++ R) :=
    takeWhile_all isLowerAlpha name _ hlow (by intro y hy; simp at hy; subst hy; exact hwl)
  have hdir : directive (p :: (name ++ ((w :: ws) ++ R))) = some (directiveOfName name, (w :: ws) ++ R) := by
    have hne : name.isEmpty = false := by cases name with | nil => exact absurd rfl hname | cons _ _ => rfl
    simp only [directive, htw, hne, hpi.2.2]
    simp
  have hsA : skipSpace ((w :: ws) ++ R) = R := by
    rw [space_absorbs (w :: ws) _ hwsA]; exact hsr
  have hst := skip_tail ws2 c hws2 hc
  unfold line
  rw [hopt]
  dsimp only
  simp only [hsk]
  simp only [hdir]
  simp only [hsA]
  simp only [hdo]
  simp only [hst]
  rcases hc with rfl | ⟨_, hcom⟩
  · simp [comment]
  · simp only [hcom]; simp



/-! ### `#pragma` lists: two to six operands separated by blanks only -/

/-- an operand of such a list: a name or a number -/
inductive PItem
  | name (s : Str)
  | num (t : Str) (n : Nat)

def PItem.good : PItem → Prop
  | .name s => isName s
  | .num t n => NumText t n

def PItem.text : PItem → Str
  | .name s => s
  | .num t _ => t

def PItem.val : PItem → Operand
  | .name s => .e (.ident s)
  | .num _ n => .e (.const (n : Int))

/-- the rest of the list: non-empty blanks, an operand, and so on -/
def pragTail : List (Str × PItem) → Str
  | [] => []
  | (w, it) :: more => w ++ (it.text ++ pragTail more)

def pragOk (more : List (Str × PItem)) : Prop := ∀ x ∈ more, blanks x.1 ∧ x.1 ≠ [] ∧ x.2.good

theorem pitem_head (it : PItem) (hg : it.good) (rest : Str) :
    ∃ y ys, it.text ++ rest = y :: ys ∧ (isIdentStart y = true ∨ isDigit y = true ∨ y = '$') := by
  cases it with
  | name s =>
    obtain ⟨x, xs, rfl, hx, _⟩ := hg
    exact ⟨x, xs ++ rest, rfl, Or.inl hx⟩
  | num t n =>
    obtain ⟨y, ys, hs, hy⟩ := numText_head t n hg rest
    refine ⟨y, ys, hs, ?_⟩
    rcases hy with h | h
    · exact Or.inr (Or.inl h)
    · exact Or.inr (Or.inr h)

theorem wordStart_facts (y : Char) (h : isIdentStart y = true ∨ isDigit y = true ∨ y = '$') :
    isSpace y = false ∧ y ≠ '(' ∧ y ≠ '=' ∧ ¬ noStart y ∧ y ≠ '"' := by
  rcases h with h | h | rfl
  · have f := identStart_facts y h
    refine ⟨f.2.1, f.2.2.2.1, ?_, ?_, ?_⟩
    · intro hc; subst hc; revert h; decide
    · intro hn; rcases hn with rfl | rfl | rfl | rfl | rfl | rfl | rfl | rfl | rfl | rfl <;> (revert h; decide)
    · intro hc; subst hc; revert h; decide
  · refine ⟨?_, ?_, ?_, ?_, ?_⟩
    · cases hsp : isSpace y with
      | false => rfl
      | true =>
        simp only [isSpace, Bool.or_eq_true, beq_iff_eq] at hsp
        rcases hsp with rfl | rfl <;> (revert h; decide)
    · intro hc; subst hc; revert h; decide
    · intro hc; subst hc; revert h; decide
    · intro hn; rcases hn with rfl | rfl | rfl | rfl | rfl | rfl | rfl | rfl | rfl | rfl <;> (revert h; decide)
    · intro hc; subst hc; revert h; decide
  · exact ⟨by decide, by decide, by decide, by intro hn; rcases hn with h | h | h | h | h | h | h | h | h | h <;> exact absurd h (by decide), by decide⟩

/-- no binary operator starts with a letter, a digit or `$` -/
theorem infix_not_word : ∀ x ∈ infixOps, x.1 ≠ [] ∧ ∀ c, x.1.head? = some c →
    c = '|' ∨ c = '&' ∨ c = '^' ∨ c = '=' ∨ c = '!' ∨ c = '<' ∨ c = '>' ∨ c = '+' ∨ c = '-' ∨ c = '*' ∨ c = '/' ∨ c = '%' := by decide

theorem lit_word_none (x : Ent) (hx : x ∈ infixOps) (y : Char) (ys : Str)
    (hy : isIdentStart y = true ∨ isDigit y = true ∨ y = '$') : lit x.1 (y :: ys) = none := by
  obtain ⟨hne, hh⟩ := infix_not_word x hx
  apply lit_head_ne _ _ _ hne
  intro hc
  have := hh y hc
  rcases hy with h | h | rfl
  · rcases this with rfl | rfl | rfl | rfl | rfl | rfl | rfl | rfl | rfl | rfl | rfl | rfl <;> (revert h; decide)
  · rcases this with rfl | rfl | rfl | rfl | rfl | rfl | rfl | rfl | rfl | rfl | rfl | rfl <;> (revert h; decide)
  · rcases this with h | h | h | h | h | h | h | h | h | h | h | h <;> exact absurd h (by decide)

/-- what follows an operand of such a list: blanks and the next operand, or the end of the line -/
theorem prag_after (more : List (Str × PItem)) (hm : pragOk more) (ws2 c : Str) (hws2 : blanks ws2) (hc : lineEnd c) :
    AtomEndB (pragTail more ++ (ws2 ++ c)) ∧ EndAt 0 (pragTail more ++ (ws2 ++ c)) := by
  cases more with
  | nil =>
    have h := dpd_after [] (by intro x hx; simp at hx) ws2 c hws2 hc
    simp only [dpdTail, List.nil_append] at h
    simp only [pragTail, List.nil_append]
    refine ⟨⟨h.1.2.1, h.2.1⟩, ?_⟩
    intro x hx
    rcases h.1.2.2 x hx with h1 | h1
    · exact Or.inr (Or.inl h1)
    · exact Or.inr (Or.inr h1)
  | cons x xs =>
    obtain ⟨w, it⟩ := x
    obtain ⟨hw, hwne, hg⟩ := hm _ (List.mem_cons_self ..)
    simp only at hw hwne hg
    obtain ⟨w0, ws, rfl⟩ : ∃ w0 ws, w = w0 :: ws := by
      cases w with
      | nil => exact absurd rfl hwne
      | cons a b => exact ⟨a, b, rfl⟩
    have hw0 : isSpace w0 = true := hw w0 (by simp)
    have hw0i : isIdentChar w0 = false := by
      simp only [isSpace, Bool.or_eq_true, beq_iff_eq] at hw0
      rcases hw0 with rfl | rfl <;> decide
    obtain ⟨y, ys, hy, hyc⟩ := pitem_head it hg (pragTail xs ++ (ws2 ++ c))
    have hf := wordStart_facts y hyc
    have hform : pragTail ((w0 :: ws, it) :: xs) ++ (ws2 ++ c) = (w0 :: ws) ++ (it.text ++ (pragTail xs ++ (ws2 ++ c))) := by
      simp [pragTail]
    have hsk : skipSpace ((w0 :: ws) ++ (it.text ++ (pragTail xs ++ (ws2 ++ c)))) = y :: ys := by
      rw [space_absorbs _ _ hw, hy]; simp [skipSpace, hf.1]
    rw [hform]
    refine ⟨⟨?_, ?_⟩, ?_⟩
    · intro z hz; simp at hz; subst hz; exact hw0i
    · intro r2 hr
      rw [hsk] at hr
      simp only [List.cons.injEq] at hr
      exact hf.2.1 hr.1
    · intro x hx
      right; left
      rw [hsk]
      exact lit_word_none x hx y ys hyc

theorem directiveOp_pitem (it : PItem) (hg : it.good) (rest : Str) (hr : AtomEndB rest) (he : EndAt 0 rest) :
    directiveOp (it.text ++ rest) = .ok it.val rest := by
  cases it with
  | name s =>
    have := parse_print_spaced top (.ident s) s (Spaced.ident 0 s hg) rest hr he
    simp only [PItem.text, PItem.val]
    unfold directiveOp
    simp only [this]
  | num t n =>
    have := parse_print_spaced top (.const (n : Int)) t (Spaced.num 0 _ n t rfl hg) rest hr he
    simp only [PItem.text, PItem.val]
    unfold directiveOp
    simp only [this]

theorem skip_pitem (it : PItem) (hg : it.good) (rest : Str) : skipSpace (it.text ++ rest) = it.text ++ rest := by
  obtain ⟨y, ys, hy, hyc⟩ := pitem_head it hg rest
  rw [hy]; simp [skipSpace, (wordStart_facts y hyc).1]

theorem spacedOps_step (n : Nat) (s : Str) : spacedOps (n + 2) s =
    (match directiveOp s with
      | .ok v r =>
        match neSpace r with
        | some r1 =>
          match spacedOps (n + 1) r1 with
          | .ok vs r2 => .ok (v :: vs) r2
          | .oof => .oof
          | .fail => .fail
        | none => .fail
      | .oof => .oof
      | .fail => .fail) := by
  rw [spacedOps]
  cases directiveOp s with
  | ok v r =>
    cases neSpace r with
    | some r1 => cases spacedOps (n + 1) r1 <;> rfl
    | none => rfl
  | oof => rfl
  | fail => rfl

/-- exactly as many blank-separated operands as there are: read -/
theorem spacedOps_exact : ∀ (more : List (Str × PItem)) (first : PItem), first.good → pragOk more →
    ∀ (ws2 c : Str), blanks ws2 → lineEnd c →
      spacedOps (more.length + 1) (first.text ++ (pragTail more ++ (ws2 ++ c))) =
        .ok (first.val :: more.map (fun x => x.2.val)) (ws2 ++ c) := by
  intro more
  induction more with
  | nil =>
    intro first hg _ ws2 c hws2 hc
    obtain ⟨h1, h2⟩ := prag_after [] (by intro x hx; simp at hx) ws2 c hws2 hc
    have := directiveOp_pitem first hg _ h1 h2
    simp only [pragTail, List.nil_append] at this ⊢
    simp only [List.length_nil, spacedOps, this, List.map_nil]
  | cons x xs ih =>
    intro first hg hm ws2 c hws2 hc
    obtain ⟨w, it⟩ := x
    obtain ⟨hw, hwne, hgi⟩ := hm _ (List.mem_cons_self ..)
    simp only at hw hwne hgi
    have hxs : pragOk xs := fun y hy => hm y (List.mem_cons_of_mem _ hy)
    obtain ⟨h1, h2⟩ := prag_after ((w, it) :: xs) hm ws2 c hws2 hc
    have hop := directiveOp_pitem first hg _ h1 h2
    obtain ⟨w0, ws, rfl⟩ : ∃ w0 ws, w = w0 :: ws := by
      cases w with
      | nil => exact absurd rfl hwne
      | cons a b => exact ⟨a, b, rfl⟩
    have hw0 : isSpace w0 = true := hw w0 (by simp)
    have hne : neSpace (pragTail ((w0 :: ws, it) :: xs) ++ (ws2 ++ c)) = some (it.text ++ (pragTail xs ++ (ws2 ++ c))) := by
      simp only [pragTail, List.cons_append, List.append_assoc, neSpace, hw0, if_true]
      rw [space_absorbs ws _ (fun c hc => hw c (List.mem_cons_of_mem _ hc)), skip_pitem it hgi]
    have := ih it hgi hxs ws2 c hws2 hc
    simp only [List.length_cons, List.map_cons]
    rw [spacedOps_step, hop]
    simp only [hne]
    rw [this]

/-- more than there are: not read -/
theorem spacedOps_more : ∀ (more : List (Str × PItem)) (first : PItem), first.good → pragOk more →
    ∀ (ws2 c : Str), blanks ws2 → lineEnd c → ∀ k, more.length + 1 < k + 2 →
      spacedOps (k + 2) (first.text ++ (pragTail more ++ (ws2 ++ c))) = .fail := by
  intro more
  induction more with
  | nil =>
    intro first hg _ ws2 c hws2 hc k _
    obtain ⟨h1, h2⟩ := prag_after [] (by intro x hx; simp at hx) ws2 c hws2 hc
    have hop := directiveOp_pitem first hg _ h1 h2
    simp only [pragTail, List.nil_append] at hop ⊢
    have hZ := dpd_after_skip [] (by intro x hx; simp at hx) ws2 c hws2 hc
    simp only [dpdTail, List.nil_append] at hZ
    simp only [spacedOps, hop]
    cases hrest : ws2 ++ c with
    | nil => simp [neSpace]
    | cons y ys =>
      rw [hrest] at hZ
      cases hsp : isSpace y with
      | true =>
        have hsk : skipSpace (y :: ys) = skipSpace ys := by simp [skipSpace, hsp]
        rw [hsk] at hZ
        simp only [neSpace, hsp, if_true]
        rw [spacedOps_fail_at (skipSpace ys) hZ k]
      | false => simp [neSpace, hsp]
  | cons x xs ih =>
    intro first hg hm ws2 c hws2 hc k hk
    obtain ⟨w, it⟩ := x
    obtain ⟨hw, hwne, hgi⟩ := hm _ (List.mem_cons_self ..)
    simp only at hw hwne hgi
    have hxs : pragOk xs := fun y hy => hm y (List.mem_cons_of_mem _ hy)
    obtain ⟨h1, h2⟩ := prag_after ((w, it) :: xs) hm ws2 c hws2 hc
    have hop := directiveOp_pitem first hg _ h1 h2
    obtain ⟨w0, ws, rfl⟩ : ∃ w0 ws, w = w0 :: ws := by
      cases w with
      | nil => exact absurd rfl hwne
      | cons a b => exact ⟨a, b, rfl⟩
    have hw0 : isSpace w0 = true := hw w0 (by simp)
    have hne : neSpace (pragTail ((w0 :: ws, it) :: xs) ++ (ws2 ++ c)) = some (it.text ++ (pragTail xs ++ (ws2 ++ c))) := by
      simp only [pragTail, List.cons_append, List.append_assoc, neSpace, hw0, if_true]
      rw [space_absorbs ws _ (fun c hc => hw c (List.mem_cons_of_mem _ hc)), skip_pitem it hgi]
    simp only [List.length_cons] at hk
    obtain ⟨k', rfl⟩ : ∃ k', k = k' + 1 := ⟨k - 1, by omega⟩
    have := ih it hgi hxs ws2 c hws2 hc k' (by omega)
    rw [spacedOps_step, hop]
    simp only [hne]
    rw [this]

theorem prag_lead (first : PItem) (hg : first.good) (x : Str × PItem) (xs : List (Str × PItem)) (hm : pragOk (x :: xs))
    (ws2 c : Str) : LeadOk (first.text ++ (pragTail (x :: xs) ++ (ws2 ++ c))) := by
  obtain ⟨w, it⟩ := x
  obtain ⟨hw, hwne, hgi⟩ := hm _ (List.mem_cons_self ..)
  simp only at hw hwne hgi
  cases first with
  | num t n =>
    obtain ⟨y, ys, hs, hy⟩ := numText_head t n hg (pragTail ((w, it) :: xs) ++ (ws2 ++ c))
    left
    refine ⟨y, ys, hs, ?_⟩
    rcases hy with h | rfl
    · cases hi : isIdentStart y with
      | false => rfl
      | true => have := (identStart_facts y hi).1; rw [h] at this; exact absurd this (by decide)
    · decide
  | name s =>
    right
    obtain ⟨w0, ws, rfl⟩ : ∃ w0 ws, w = w0 :: ws := by
      cases w with
      | nil => exact absurd rfl hwne
      | cons a b => exact ⟨a, b, rfl⟩
    have hw0 : isSpace w0 = true := hw w0 (by simp)
    obtain ⟨y, ys, hy, hyc⟩ := pitem_head it hgi (pragTail xs ++ (ws2 ++ c))
    have hf := wordStart_facts y hyc
    refine ⟨s, pragTail ((w0 :: ws, it) :: xs) ++ (ws2 ++ c), rfl, hg, ?_, ?_⟩
    · intro z hz
      simp [pragTail] at hz
      subst hz
      simp only [isSpace, Bool.or_eq_true, beq_iff_eq] at hw0
      rcases hw0 with rfl | rfl <;> decide
    · have hsk : skipSpace (pragTail ((w0 :: ws, it) :: xs) ++ (ws2 ++ c)) = y :: ys := by
        have hform : pragTail ((w0 :: ws, it) :: xs) ++ (ws2 ++ c) = (w0 :: ws) ++ (it.text ++ (pragTail xs ++ (ws2 ++ c))) := by
          simp [pragTail]
        rw [hform, space_absorbs _ _ hw, hy]; simp [skipSpace, hf.1]
      rw [hsk]
      exact Or.inr (Or.inl ⟨y, ys, rfl, hf.2.2.1⟩)

/-- the operand list of a `#pragma`-style line: two to six operands separated by blanks -/
theorem directiveOps_pragma (first : PItem) (hg : first.good) (more : List (Str × PItem)) (hm : pragOk more)
    (hlen : 1 ≤ more.length ∧ more.length ≤ 5) (ws2 c : Str) (hws2 : blanks ws2) (hc : lineEnd c) :
    directiveOps (first.text ++ (pragTail more ++ (ws2 ++ c))) =
      .ok (.opList (first.val :: more.map (fun x => x.2.val))) (ws2 ++ c) := by
  have hlead : LeadOk (first.text ++ (pragTail more ++ (ws2 ++ c))) := by
    cases more with
    | nil => simp at hlen
    | cons x xs => exact prag_lead first hg x xs hm ws2 c
  rw [directiveOps_noAssign _ hlead]
  have hex := spacedOps_exact more first hg hm ws2 c hws2 hc
  have hmo := spacedOps_more more first hg hm ws2 c hws2 hc
  have : more.length = 1 ∨ more.length = 2 ∨ more.length = 3 ∨ more.length = 4 ∨ more.length = 5 := by omega
  rcases this with h | h | h | h | h
  · rw [h] at hex
    simp only [directiveOps.tryN, hmo 4 (by omega), hmo 3 (by omega), hmo 2 (by omega), hmo 1 (by omega), hex]
  · rw [h] at hex
    simp only [directiveOps.tryN, hmo 4 (by omega), hmo 3 (by omega), hmo 2 (by omega), hex]
  · rw [h] at hex
    simp only [directiveOps.tryN, hmo 4 (by omega), hmo 3 (by omega), hex]
  · rw [h] at hex
    simp only [directiveOps.tryN, hmo 4 (by omega), hex]
  · rw [h] at hex
    simp only [directiveOps.tryN, hex]

/-- **A `#pragma` line** (or any directive with 2..6 operands — names and numbers — separated by
    blanks only): `#` or `.`, indented or not, behind a label or not, any (non-empty) runs of blanks
    between the operands, any blanks and any comment at the end — is that directive with exactly
    those operands -/
theorem pragma_line (lab : Option Str) (labText ws1 : Str) (p : Char) (name wsA : Str) (first : PItem) (more : List (Str × PItem))
    (ws2 c : Str) (hp : p = '.' ∨ p = '#')
    (hlabel : (lab = none ∧ labText = []) ∨ ∃ l, isName l ∧ lab = some (lower l) ∧ labText = l ++ [':'])
    (hws1 : blanks ws1) (hname : name ≠ []) (hlow : ∀ ch ∈ name, isLowerAlpha ch = true)
    (hwsA : blanks wsA) (hA : wsA ≠ []) (hg : first.good) (hm : pragOk more)
    (hlen : 1 ≤ more.length ∧ more.length ≤ 5) (hws2 : blanks ws2) (hc : lineEnd c) :
    line (labText ++ (ws1 ++ (p :: (name ++ (wsA ++ (first.text ++ (pragTail more ++ (ws2 ++ c)))))))) =
      .ok (.directiveLine lab (directiveOfName name) (.opList (first.val :: more.map (fun x => x.2.val)))) :=
  directive_line_of_ops lab labText ws1 p name wsA _ _ ws2 c hp hlabel hws1 hname hlow hwsA hA
    (directiveOps_pragma first hg more hm hlen ws2 c hws2 hc) (skip_pitem first hg _) hws2 hc

/-! non-vacuity: `#pragma AVRPART MEMORY  PROG_FLASH 2048 ; words` -/
example : ∃ ops, line "#pragma AVRPART MEMORY  PROG_FLASH 2048 ; words".toList =
    .ok (.directiveLine none (directiveOfName "pragma".toList) ops) := by
  have hb : ∀ w : Str, (∀ c ∈ w, c = ' ') → blanks w := by
    intro w hw c hc; rw [hw c hc]; decide
  have hnm : ∀ s : String, s.toList ≠ [] → (∀ c ∈ s.toList, isIdentChar c = true) → isIdentStart (s.toList.head!) = true → isName s.toList := by
    intro s hne hall hhead
    cases hs : s.toList with
    | nil => exact absurd hs hne
    | cons x xs =>
      rw [hs] at hall hhead
      exact ⟨x, xs, rfl, hhead, fun c hc => hall c (List.mem_cons_of_mem _ hc)⟩
  have := pragma_line none [] [] '#' "pragma".toList [' '] (.name "AVRPART".toList)
    [([' '], .name "MEMORY".toList), ([' ', ' '], .name "PROG_FLASH".toList),
     ([' '], .num "2048".toList 2048)] [' '] "; words".toList
    (Or.inr rfl) (Or.inl ⟨rfl, rfl⟩) (hb _ (by simp)) (by decide) (by decide) (hb _ (by simp)) (by decide)
    (hnm "AVRPART" (by decide) (by decide) (by decide))
    (by
      intro x hx
      simp only [List.mem_cons, List.mem_singleton, List.not_mem_nil, or_false] at hx
      rcases hx with rfl | rfl | rfl
      · exact ⟨hb _ (by simp), by decide, hnm "MEMORY" (by decide) (by decide) (by decide)⟩
      · exact ⟨hb _ (by simp), by decide, hnm "PROG_FLASH" (by decide) (by decide) (by decide)⟩
      · refine ⟨hb _ (by simp), by decide, ?_⟩
        have := numText_natToDec 2048 (by decide)
        have h2 : natToDec 2048 = "2048".toList := by decide
        rw [h2] at this
        exact this)
    (by decide) (hb _ (by simp)) (Or.inr ⟨Or.inl rfl, rfl⟩)
  exact ⟨_, this⟩

/-- the operands of an assignment: `NAME = expression` -/
theorem directiveOps_assign (sym wsB wsC : Str) (k : Nat) (e : Expr) (s : Str) (ws2 c : Str)
    (hsym : isName sym) (hwsB : blanks wsB) (hwsC : blanks wsC) (hsp : Spaced 0 k e s) (hws2 : blanks ws2) (hc : lineEnd c) :
    directiveOps (sym ++ (wsB ++ '=' :: (wsC ++ (s ++ (ws2 ++ c))))) = .ok (.assign (.ident sym) e) (ws2 ++ c) := by
  have hg := Dpd.ofExpr_ok k e s hsp
  have hrest := afterOpd_end ws2 c hws2 hc
  have he : expr (s ++ (ws2 ++ c)) = .ok e (ws2 ++ c) := by
    have := hg.1 (ws2 ++ c) hrest
    simp only [Dpd.ofExpr] at this
    unfold directiveOp at this
    cases hx : expr (s ++ (ws2 ++ c)) with
    | ok e' r' => rw [hx] at this; simp only [PO.ok.injEq, Operand.e.injEq] at this; obtain ⟨rfl, rfl⟩ := this; rfl
    | fail =>
      rw [hx] at this; simp only at this
      split at this <;> simp at this
    | oof => rw [hx] at this; simp at this
  have hsks : skipSpace (s ++ (ws2 ++ c)) = s ++ (ws2 ++ c) := skip_spaced 0 k e s hsp _
  unfold directiveOps
  have hid : identText (sym ++ (wsB ++ '=' :: (wsC ++ (s ++ (ws2 ++ c))))) = some (sym, wsB ++ '=' :: (wsC ++ (s ++ (ws2 ++ c)))) :=
    identText_name sym _ hsym (by
      intro y hy
      cases wsB with
      | nil => simp at hy; subst hy; decide
      | cons b bs =>
        simp at hy; subst hy
        have hb : isSpace b = true := hwsB b (by simp)
        simp only [isSpace, Bool.or_eq_true, beq_iff_eq] at hb
        rcases hb with rfl | rfl <;> decide)
  have hsk1 : skipSpace (wsB ++ '=' :: (wsC ++ (s ++ (ws2 ++ c)))) = '=' :: (wsC ++ (s ++ (ws2 ++ c))) := by
    rw [space_absorbs wsB _ hwsB]; simp +decide [skipSpace]
  have hsk2 : skipSpace (wsC ++ (s ++ (ws2 ++ c))) = s ++ (ws2 ++ c) := by
    rw [space_absorbs wsC _ hwsC, hsks]
  simp only [hid, hsk1, hsk2, he]

/-- **An assignment directive, in full**: `.` or `#`, behind a label or not -/
theorem assignment_line (lab : Option Str) (labText ws1 : Str) (p : Char) (dname wsA sym wsB wsC : Str) (k : Nat) (e : Expr)
    (s ws2 c : Str) (hp : p = '.' ∨ p = '#')
    (hlabel : (lab = none ∧ labText = []) ∨ ∃ l, isName l ∧ lab = some (lower l) ∧ labText = l ++ [':'])
    (hws1 : blanks ws1) (hname : dname ≠ []) (hlow : ∀ ch ∈ dname, isLowerAlpha ch = true)
    (hwsA : blanks wsA) (hA : wsA ≠ []) (hsym : isName sym) (hwsB : blanks wsB) (hwsC : blanks wsC)
    (hsp : Spaced 0 k e s) (hws2 : blanks ws2) (hc : lineEnd c) :
    line (labText ++ (ws1 ++ (p :: (dname ++ (wsA ++ (sym ++ (wsB ++ '=' :: (wsC ++ (s ++ (ws2 ++ c)))))))))) =
      .ok (.directiveLine lab (directiveOfName dname) (.assign (.ident sym) e)) :=
  directive_line_of_ops lab labText ws1 p dname wsA _ _ ws2 c hp hlabel hws1 hname hlow hwsA hA
    (directiveOps_assign sym wsB wsC k e s ws2 c hsym hwsB hwsC hsp hws2 hc) (skip_name sym _ hsym) hws2 hc

end Avra.Props.C14
