/-
  C12 — memory capacity limits of the selected device are enforced exactly.
-/
import Avra.Model.Build
namespace Avra.Props.C12
open Avra Avra.Model

/-- Gen obligation: for every shipped part-definition file whose device is in the table, the
    capacities the table enforces are the four figures the file declares
    (`#pragma AVRPART MEMORY PROG_FLASH / EEPROM / INT_SRAM SIZE / INT_SRAM START_ADDR`). -/
def partDefsOk : Bool :=
  Gen.partDefs.all fun (_, dev, flashB, ee, rs, ra) =>
    match alookup dev Gen.devices with
    | none => true          -- a part file for a device the table does not know selects nothing
    | some d => 2 * d.flash == flashB && d.eeprom == ee && d.ramSize == rs && d.ramStart == ra

theorem devices_match_partdefs : partDefsOk = true := by decide +kernel

/-- how many shipped files name a device of the table (the obligation above is not vacuous) -/
def partDefsMatched : Nat := (Gen.partDefs.filter fun (_, dev, _) => (alookup dev Gen.devices).isSome).length
theorem partdefs_nonvacuous : partDefsMatched ≥ 40 := by decide +kernel

/-- the documented defaults when no device is selected: 4 Mi words of flash, 64 KiB EEPROM,
    8 MiB RAM starting at 0x60, every instruction available -/
theorem default_device :
    Gen.defaultDevice = { flash := 4194304, ramStart := 0x60, ramSize := 8388608, eeprom := 65536, opts := [] } := by
  decide

/-- C12: a build succeeds only if the three images fit the selected device exactly as the
    property says (bytes of flash ≤ 2·words, EEPROM bytes, RAM extent), and the sizes it reports
    are those of the device selected at the end of the passes. -/
theorem build_fits (fs : Fs) (st : PState) (r : BuildResult)
    (h : buildFromParsed fs st = .ok r) :
    r.code.length ≤ 2 * r.flashSize ∧ r.eeprom.length ≤ r.eepromSize ∧ r.ramFilling ≤ r.ramSize := by
  unfold buildFromParsed at h
  cases h0 : pass0 fs st.asParseResult st.ctx with
  | ok p0 =>
    simp only [h0] at h
    cases h1 : pass1 (p0.segments.filter fun s => !s.items.isEmpty) p0.messages p0.ctx with
    | ok p1 =>
      simp only [h1] at h
      cases h2 : pass2 p1 with
      | ok p2 =>
        simp only [h2] at h
        by_cases c1 : p2.code.length > p2.ctx.device.flash * 2
        · simp [c1, noLineErr] at h
        · by_cases c2 : p2.eeprom.length > p2.ctx.device.eeprom
          · simp [c1, c2, noLineErr] at h
          · by_cases c3 : p2.ramFilling > p2.ctx.device.ramSize
            · simp [c1, c2, c3, noLineErr] at h
            · simp [c1, c2, c3] at h
              subst h
              simp only
              omega
      | error e => simp [h2] at h
      | panic s => simp [h2] at h
      | oof => simp [h2] at h
    | error e => simp [h1] at h
    | panic s => simp [h1] at h
    | oof => simp [h1] at h
  | error e => simp [h0] at h
  | panic s => simp [h0] at h
  | oof => simp [h0] at h

/-- … and conversely: when the passes succeed, the build fails iff one of the three memories
    is exceeded by at least one unit (so "exactly full" builds and "one more" fails) -/
theorem limits_exact (fs : Fs) (st : PState) (p0 : PState) (p1 : Pass1Result) (p2 : Pass2Result)
    (h0 : pass0 fs st.asParseResult st.ctx = .ok p0)
    (h1 : pass1 (p0.segments.filter fun s => !s.items.isEmpty) p0.messages p0.ctx = .ok p1)
    (h2 : pass2 p1 = .ok p2) :
    (∃ r, buildFromParsed fs st = .ok r ∧ r.code = p2.code ∧ r.eeprom = p2.eeprom ∧
          r.flashSize = p2.ctx.device.flash ∧ r.eepromSize = p2.ctx.device.eeprom ∧
          r.ramSize = p2.ctx.device.ramSize ∧ r.ramFilling = p2.ramFilling) ↔
    (p2.code.length ≤ 2 * p2.ctx.device.flash ∧ p2.eeprom.length ≤ p2.ctx.device.eeprom ∧
      p2.ramFilling ≤ p2.ctx.device.ramSize) := by
  unfold buildFromParsed
  simp only [h0, h1, h2]
  constructor
  · rintro ⟨r, hr, _⟩
    by_cases c1 : p2.code.length > p2.ctx.device.flash * 2
    · simp [c1, noLineErr] at hr
    · by_cases c2 : p2.eeprom.length > p2.ctx.device.eeprom
      · simp [c1, c2, noLineErr] at hr
      · by_cases c3 : p2.ramFilling > p2.ctx.device.ramSize
        · simp [c1, c2, c3, noLineErr] at hr
        · omega
  · rintro ⟨a, b, c⟩
    have c1 : ¬ p2.code.length > p2.ctx.device.flash * 2 := by omega
    have c2 : ¬ p2.eeprom.length > p2.ctx.device.eeprom := by omega
    have c3 : ¬ p2.ramFilling > p2.ctx.device.ramSize := by omega
    simp [c1, c2, c3]

theorem consItem_ok (x : Nat × Item) (r : Out (Nat × List (Nat × Item) × Ctx)) (e : Nat) (o : List (Nat × Item)) (c : Ctx)
    (h : consItem x r = .ok (e, o, c)) : ∃ o', r = .ok (e, o', c) := by
  cases r with
  | ok v => obtain ⟨e', o', c'⟩ := v; simp only [consItem, Out.ok.injEq, Prod.mk.injEq] at h; exact ⟨o', by rw [h.1, h.2.2]⟩
  | error x => simp [consItem] at h
  | panic x => simp [consItem] at h
  | oof => simp [consItem] at h

/-- pass 1 never lets a segment end beyond the capacity of its memory -/
theorem pass1_within (t : SegT) (limit : Nat) : ∀ (items : List (Nat × Item)) (cur : Nat)
    (ctx : Ctx) (e : Nat) (o : List (Nat × Item)) (c : Ctx),
    pass1Items t limit items cur ctx = .ok (e, o, c) → e ≤ limit := by
  intro items
  induction items with
  | nil =>
    intro cur ctx e o c h
    unfold pass1Items at h
    by_cases hc : cur > limit
    · simp [hc, noLineErr] at h
    · simp [hc] at h; omega
  | cons it rest ih =>
    intro cur ctx e o c h
    obtain ⟨ln, item⟩ := it
    unfold pass1Items at h
    by_cases hc : cur > limit
    · simp [hc, lineErr] at h
    · simp only [hc, if_false] at h
      have hcons : ∀ x cur' ctx', consItem x (pass1Items t limit rest cur' ctx') = .ok (e, o, c) → e ≤ limit := by
        intro x cur' ctx' hx
        obtain ⟨o', ho⟩ := consItem_ok _ _ _ _ _ hx
        exact ih _ _ _ _ _ ho
      split at h
      all_goals (first
        | exact ih _ _ _ _ _ h
        | exact hcons _ _ _ h
        | (split at h <;> first | exact ih _ _ _ _ _ h | exact hcons _ _ _ h | (simp [lineErr] at h; done) | (split at h <;> first | exact ih _ _ _ _ _ h | exact hcons _ _ _ h | (simp [lineErr] at h; done) | (split at h <;> first | exact ih _ _ _ _ _ h | exact hcons _ _ _ h | (simp [lineErr] at h; done))))
        | (simp [lineErr] at h; done))

/-- selecting an unknown device is an error naming the line -/
theorem unknown_device_error (inc : IncludeFn) (cur : Str) (incs : List Str) (st : PState) (name : Str) (ln : Nat)
    (h : alookup name Gen.devices = none) :
    directiveParse inc cur incs st .device (.opList [.e (.ident name)]) ln = .error ⟨some ln, "unknown-device"⟩ := by
  simp [directiveParse, h, lineErr]

/-- selecting a second device is an error naming the line -/
theorem second_device_error (inc : IncludeFn) (cur : Str) (incs : List Str) (st : PState) (name : Str) (ln : Nat) (d : Device)
    (h : alookup name Gen.devices = some d) (hsel : st.ctx.device ≠ defaultDevice) :
    directiveParse inc cur incs st .device (.opList [.e (.ident name)]) ln = .error ⟨some ln, "device-redefinition"⟩ := by
  simp [directiveParse, h, hsel, lineErr]

/-- the first selection takes effect -/
theorem first_device_selected (inc : IncludeFn) (cur : Str) (incs : List Str) (st : PState) (name : Str) (ln : Nat) (d : Device)
    (h : alookup name Gen.devices = some d) (hsel : st.ctx.device = defaultDevice) :
    directiveParse inc cur incs st .device (.opList [.e (.ident name)]) ln =
      .ok ({ st with ctx := { st.ctx with device := d } }, incs, .newLine) := by
  simp [directiveParse, h, hsel]

end Avra.Props.C12
