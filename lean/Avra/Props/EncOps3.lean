/-
  Per-mnemonic encoding lemmas (text produced once by tools/mk_enc_props.py, maintained as source).
  For every mnemonic: the opcode/length row extracted from the code (Gen.infoTable) is the ISA's,
  the arm's bit packing equals the ISA pattern on its WHOLE finite operand table (kernel
  evaluation, `decide +kernel` over `allIn`), hence — by the family lemmas, for all operand lists
  and all i64 values — model words = ISA encoding of what the legality spec says.
-/
import Avra.Props.EncDefs
namespace Avra.Props.Enc
open Avra Avra.Model Avra.Isa Avra.Lemmas
set_option maxRecDepth 1000000

theorem info_adiw (b : Bool) : info b .adiw = some (1, 0x9600) := by cases b <;> decide

theorem pack_adiw : ∀ d k, (d = 24 ∨ d = 26 ∨ d = 28 ∨ d = 30) → k < 64 →
    packAdiw 0x9600 d k = word (if false then pat!"1001 0111 KKdd KKKK" else pat!"1001 0110 KKdd KKKK") [(fld!"d", (d - 24) / 2), (fld!"K", k)] := by
  have h := allIn2 (fun (d k : Nat) => decide ((d = 24 ∨ d = 26 ∨ d = 28 ∨ d = 30) → packAdiw 0x9600 d k = word (if false then pat!"1001 0111 KKdd KKKK" else pat!"1001 0110 KKdd KKKK") [(fld!"d", (d - 24) / 2), (fld!"K", k)])) 5 6 (by decide +kernel)
  intro d k hd hk; have hx := h d k (by omega) hk; simp only [decide_eq_true_eq] at hx; exact hx hd

theorem enc_adiw (b : Bool) (args : List AArg) (addr : Nat) (hr : regsOk args) :
    mWords b .adiw args addr = sWords b .adiw args addr := by
  unfold mWords sWords
  rw [info_adiw b]
  exact with_arity _ _ _ _ _ (fam_adiw 0x9600 false pack_adiw args hr) (fun h => by have := sAdiw_len h; simp [allowedArgs, this])

theorem info_sbiw (b : Bool) : info b .sbiw = some (1, 0x9700) := by cases b <;> decide

theorem pack_sbiw : ∀ d k, (d = 24 ∨ d = 26 ∨ d = 28 ∨ d = 30) → k < 64 →
    packAdiw 0x9700 d k = word (if true then pat!"1001 0111 KKdd KKKK" else pat!"1001 0110 KKdd KKKK") [(fld!"d", (d - 24) / 2), (fld!"K", k)] := by
  have h := allIn2 (fun (d k : Nat) => decide ((d = 24 ∨ d = 26 ∨ d = 28 ∨ d = 30) → packAdiw 0x9700 d k = word (if true then pat!"1001 0111 KKdd KKKK" else pat!"1001 0110 KKdd KKKK") [(fld!"d", (d - 24) / 2), (fld!"K", k)])) 5 6 (by decide +kernel)
  intro d k hd hk; have hx := h d k (by omega) hk; simp only [decide_eq_true_eq] at hx; exact hx hd

theorem enc_sbiw (b : Bool) (args : List AArg) (addr : Nat) (hr : regsOk args) :
    mWords b .sbiw args addr = sWords b .sbiw args addr := by
  unfold mWords sWords
  rw [info_sbiw b]
  exact with_arity _ _ _ _ _ (fam_adiw 0x9700 true pack_sbiw args hr) (fun h => by have := sAdiw_len h; simp [allowedArgs, this])

theorem info_muls (b : Bool) : info b .muls = some (1, 0x0200) := by cases b <;> decide

theorem pack_muls : ∀ d r, 16 ≤ d → d < 32 → 16 ≤ r → r < 32 →
    packMuls 0x0200 d r = word (pat!"0000 0010 dddd rrrr") [(fld!"d", d - 16), (fld!"r", r - 16)] := by
  have h := allIn2 (fun (d r : Nat) => decide (16 ≤ d → 16 ≤ r → packMuls 0x0200 d r = word (pat!"0000 0010 dddd rrrr") [(fld!"d", d - 16), (fld!"r", r - 16)])) 5 5 (by decide +kernel)
  intro d r h1 hd h2 hr; have hx := h d r hd hr; simp only [decide_eq_true_eq] at hx; exact hx h1 h2

theorem enc_muls (b : Bool) (args : List AArg) (addr : Nat) (hr : regsOk args) :
    mWords b .muls args addr = sWords b .muls args addr := by
  unfold mWords sWords
  rw [info_muls b]
  exact with_arity _ _ _ _ _ (fam_muls 0x0200 pack_muls args hr) (fun h => by have := sMuls_len h; simp [allowedArgs, this])

theorem info_mulsu (b : Bool) : info b .mulsu = some (1, 0x0300) := by cases b <;> decide

theorem pack_mulsu : ∀ d r, 16 ≤ d → d < 24 → 16 ≤ r → r < 24 →
    packMulf 0x0300 d r = word (mulfPat .mulsu) [(fld!"d", d - 16), (fld!"r", r - 16)] := by
  have h := allIn2 (fun (d r : Nat) => decide (16 ≤ d → d < 24 → 16 ≤ r → r < 24 → packMulf 0x0300 d r = word (mulfPat .mulsu) [(fld!"d", d - 16), (fld!"r", r - 16)])) 5 5 (by decide +kernel)
  intro d r h1 hd h2 hr; have hx := h d r (by omega) (by omega); simp only [decide_eq_true_eq] at hx; exact hx h1 hd h2 hr

theorem enc_mulsu (b : Bool) (args : List AArg) (addr : Nat) (hr : regsOk args) :
    mWords b .mulsu args addr = sWords b .mulsu args addr := by
  unfold mWords sWords
  rw [info_mulsu b]
  exact with_arity _ _ _ _ _ (fam_mulf 0x0300 .mulsu pack_mulsu args hr) (fun h => by have := sMulf_len h; simp [allowedArgs, this])

theorem info_fmul (b : Bool) : info b .fmul = some (1, 0x0308) := by cases b <;> decide

theorem pack_fmul : ∀ d r, 16 ≤ d → d < 24 → 16 ≤ r → r < 24 →
    packMulf 0x0308 d r = word (mulfPat .fmul) [(fld!"d", d - 16), (fld!"r", r - 16)] := by
  have h := allIn2 (fun (d r : Nat) => decide (16 ≤ d → d < 24 → 16 ≤ r → r < 24 → packMulf 0x0308 d r = word (mulfPat .fmul) [(fld!"d", d - 16), (fld!"r", r - 16)])) 5 5 (by decide +kernel)
  intro d r h1 hd h2 hr; have hx := h d r (by omega) (by omega); simp only [decide_eq_true_eq] at hx; exact hx h1 hd h2 hr

theorem enc_fmul (b : Bool) (args : List AArg) (addr : Nat) (hr : regsOk args) :
    mWords b .fmul args addr = sWords b .fmul args addr := by
  unfold mWords sWords
  rw [info_fmul b]
  exact with_arity _ _ _ _ _ (fam_mulf 0x0308 .fmul pack_fmul args hr) (fun h => by have := sMulf_len h; simp [allowedArgs, this])

theorem info_fmuls (b : Bool) : info b .fmuls = some (1, 0x0380) := by cases b <;> decide

theorem pack_fmuls : ∀ d r, 16 ≤ d → d < 24 → 16 ≤ r → r < 24 →
    packMulf 0x0380 d r = word (mulfPat .fmuls) [(fld!"d", d - 16), (fld!"r", r - 16)] := by
  have h := allIn2 (fun (d r : Nat) => decide (16 ≤ d → d < 24 → 16 ≤ r → r < 24 → packMulf 0x0380 d r = word (mulfPat .fmuls) [(fld!"d", d - 16), (fld!"r", r - 16)])) 5 5 (by decide +kernel)
  intro d r h1 hd h2 hr; have hx := h d r (by omega) (by omega); simp only [decide_eq_true_eq] at hx; exact hx h1 hd h2 hr

theorem enc_fmuls (b : Bool) (args : List AArg) (addr : Nat) (hr : regsOk args) :
    mWords b .fmuls args addr = sWords b .fmuls args addr := by
  unfold mWords sWords
  rw [info_fmuls b]
  exact with_arity _ _ _ _ _ (fam_mulf 0x0380 .fmuls pack_fmuls args hr) (fun h => by have := sMulf_len h; simp [allowedArgs, this])

theorem info_fmulsu (b : Bool) : info b .fmulsu = some (1, 0x0388) := by cases b <;> decide

theorem pack_fmulsu : ∀ d r, 16 ≤ d → d < 24 → 16 ≤ r → r < 24 →
    packMulf 0x0388 d r = word (mulfPat .fmulsu) [(fld!"d", d - 16), (fld!"r", r - 16)] := by
  have h := allIn2 (fun (d r : Nat) => decide (16 ≤ d → d < 24 → 16 ≤ r → r < 24 → packMulf 0x0388 d r = word (mulfPat .fmulsu) [(fld!"d", d - 16), (fld!"r", r - 16)])) 5 5 (by decide +kernel)
  intro d r h1 hd h2 hr; have hx := h d r (by omega) (by omega); simp only [decide_eq_true_eq] at hx; exact hx h1 hd h2 hr

theorem enc_fmulsu (b : Bool) (args : List AArg) (addr : Nat) (hr : regsOk args) :
    mWords b .fmulsu args addr = sWords b .fmulsu args addr := by
  unfold mWords sWords
  rw [info_fmulsu b]
  exact with_arity _ _ _ _ _ (fam_mulf 0x0388 .fmulsu pack_fmulsu args hr) (fun h => by have := sMulf_len h; simp [allowedArgs, this])

theorem info_movw (b : Bool) : info b .movw = some (1, 0x0100) := by cases b <;> decide

theorem pack_movw : ∀ d r, d < 32 → r < 32 → d % 2 = 0 → r % 2 = 0 →
    packMovw 0x0100 d r = word (pat!"0000 0001 dddd rrrr") [(fld!"d", d / 2), (fld!"r", r / 2)] := by
  have h := allIn2 (fun (d r : Nat) => decide (d % 2 = 0 → r % 2 = 0 → packMovw 0x0100 d r = word (pat!"0000 0001 dddd rrrr") [(fld!"d", d / 2), (fld!"r", r / 2)])) 5 5 (by decide +kernel)
  intro d r hd hr h1 h2; have hx := h d r hd hr; simp only [decide_eq_true_eq] at hx; exact hx h1 h2

theorem enc_movw (b : Bool) (args : List AArg) (addr : Nat) (hr : regsOk args) :
    mWords b .movw args addr = sWords b .movw args addr := by
  unfold mWords sWords
  rw [info_movw b]
  exact with_arity _ _ _ _ _ (fam_movw 0x0100 pack_movw args hr) (fun h => by have := sMovw_len h; simp [allowedArgs, this])

theorem info_rjmp (b : Bool) : info b .rjmp = some (1, 0xc000) := by cases b <;> decide

theorem pack_rjmp : ∀ f, f < 4096 →
    0xc000 ||| f = word (if false then pat!"1101 kkkk kkkk kkkk" else pat!"1100 kkkk kkkk kkkk") [(fld!"k", f)] := by
  have h := allIn1 (fun (f : Nat) => decide (0xc000 ||| f = word (if false then pat!"1101 kkkk kkkk kkkk" else pat!"1100 kkkk kkkk kkkk") [(fld!"k", f)])) 12 (by decide +kernel)
  intro f hf; simpa using h f hf

theorem enc_rjmp (b : Bool) (args : List AArg) (addr : Nat) (hr : regsOk args) :
    mWords b .rjmp args addr = sWords b .rjmp args addr := by
  unfold mWords sWords
  rw [info_rjmp b]
  exact with_arity _ _ _ _ _ (fam_rel 0xc000 addr false pack_rjmp args hr) (fun h => by have := sRel_len h; simp [allowedArgs, this])

theorem info_rcall (b : Bool) : info b .rcall = some (1, 0xd000) := by cases b <;> decide

theorem pack_rcall : ∀ f, f < 4096 →
    0xd000 ||| f = word (if true then pat!"1101 kkkk kkkk kkkk" else pat!"1100 kkkk kkkk kkkk") [(fld!"k", f)] := by
  have h := allIn1 (fun (f : Nat) => decide (0xd000 ||| f = word (if true then pat!"1101 kkkk kkkk kkkk" else pat!"1100 kkkk kkkk kkkk") [(fld!"k", f)])) 12 (by decide +kernel)
  intro f hf; simpa using h f hf

theorem enc_rcall (b : Bool) (args : List AArg) (addr : Nat) (hr : regsOk args) :
    mWords b .rcall args addr = sWords b .rcall args addr := by
  unfold mWords sWords
  rw [info_rcall b]
  exact with_arity _ _ _ _ _ (fam_rel 0xd000 addr true pack_rcall args hr) (fun h => by have := sRel_len h; simp [allowedArgs, this])

theorem info_jmp (b : Bool) : info b .jmp = some (2, 0x940c) := by cases b <;> decide

theorem pack_jmp : ∀ m, m < 512 →
    0x940c ||| (m &&& 0x1f0) ||| ((m / 8 % 2) &&& 1) = word (if false then pat!"1001 010k kkkk 111k" else pat!"1001 010k kkkk 110k") [(fld!"k", m / 8)] := by
  have h := allIn1 (fun (m : Nat) => decide (0x940c ||| (m &&& 0x1f0) ||| ((m / 8 % 2) &&& 1) = word (if false then pat!"1001 010k kkkk 111k" else pat!"1001 010k kkkk 110k") [(fld!"k", m / 8)])) 9 (by decide +kernel)
  intro m hm; simpa using h m hm

theorem enc_jmp (b : Bool) (args : List AArg) (addr : Nat) (hr : regsOk args) :
    mWords b .jmp args addr = sWords b .jmp args addr := by
  unfold mWords sWords
  rw [info_jmp b]
  exact with_arity _ _ _ _ _ (fam_abs 0x940c false pack_jmp args hr) (fun h => by have := sAbs_len h; simp [allowedArgs, this])

theorem info_call (b : Bool) : info b .call = some (2, 0x940e) := by cases b <;> decide

theorem pack_call : ∀ m, m < 512 →
    0x940e ||| (m &&& 0x1f0) ||| ((m / 8 % 2) &&& 1) = word (if true then pat!"1001 010k kkkk 111k" else pat!"1001 010k kkkk 110k") [(fld!"k", m / 8)] := by
  have h := allIn1 (fun (m : Nat) => decide (0x940e ||| (m &&& 0x1f0) ||| ((m / 8 % 2) &&& 1) = word (if true then pat!"1001 010k kkkk 111k" else pat!"1001 010k kkkk 110k") [(fld!"k", m / 8)])) 9 (by decide +kernel)
  intro m hm; simpa using h m hm

theorem enc_call (b : Bool) (args : List AArg) (addr : Nat) (hr : regsOk args) :
    mWords b .call args addr = sWords b .call args addr := by
  unfold mWords sWords
  rw [info_call b]
  exact with_arity _ _ _ _ _ (fam_abs 0x940e true pack_call args hr) (fun h => by have := sAbs_len h; simp [allowedArgs, this])

end Avra.Props.Enc
