/-
  C10 — symbols resolve by the documented binding rules or the build fails.

  Model: Avra.Model.Eval (`Ctx`, lookup order, which maps lower-case the key), pass 1 (labels),
  pass 2 (`.set`, `.def`, `.undef`), `resolve` (`get_r8` through aliases).
-/
import Avra.Model.Build
import Avra.Lemmas.Resolve
namespace Avra.Props.C10
open Avra Avra.Model Avra.Isa Avra.Lemmas

/-- names of labels, `.equ`, `.set` symbols and `pc` are matched without regard to letter case:
    two spellings with the same lower-case form resolve alike (when no case-sensitive `.define`
    flag of either spelling exists — flags are outside the property) -/
theorem lookup_case (c : Ctx) (n n' : Str) (h : lower n = lower n')
    (hd : alookup n c.defines = none) (hd' : alookup n' c.defines = none) :
    c.getExpr n = c.getExpr n' := by
  unfold Ctx.getExpr
  rw [hd, hd', h]

/-- … and so are `.def` aliases -/
theorem alias_case (c : Ctx) (n n' : Str) (h : lower n = lower n') : c.getDef n = c.getDef n' := by
  unfold Ctx.getDef; rw [h]

theorem alookup_ainsert_same {α : Type} (k : Str) (v : α) (m : List (Str × α)) : alookup k (ainsert k v m) = some v := by
  simp [ainsert, alookup]

theorem alookup_aremove {α : Type} (k : Str) (m : List (Str × α)) : alookup k (aremove k m) = none := by
  unfold aremove
  induction m with
  | nil => rfl
  | cons p rest ih =>
    simp only [List.filter_cons]
    have ih' : alookup k (List.filter (fun p => !decide (p.fst = k)) rest) = none := by
      simpa using ih
    by_cases h : p.1 = k
    · simp [h, ih']
    · simp [h, alookup, ih']

/-- `.set`: after an assignment a reference (in any letter case) yields the value just assigned —
    "the latest preceding assignment" (pass 2 inserts `Const(value)` under the lower-cased name;
    the model's step is this context update) -/
theorem set_latest (c : Ctx) (name ref : Str) (v : Int) (hcase : lower ref = lower name)
    (hd : alookup ref c.defines = none) (he : alookup (lower ref) c.equs = none) :
    ({ c with sets := ainsert (lower name) (.const v) c.sets } : Ctx).getExpr ref = some (.const v) := by
  unfold Ctx.getExpr
  rw [hcase] at he
  simp only [hd, he, hcase, alookup_ainsert_same]

/-- `.def`: from the definition on, the alias (in any letter case) is the register -/
theorem def_binds (c : Ctx) (alias ref : Str) (r : Nat) (hcase : lower ref = lower alias) :
    ({ c with defs := ainsert (lower alias) r c.defs } : Ctx).getDef ref = some r := by
  unfold Ctx.getDef
  simp only [hcase, alookup_ainsert_same]

/-- `.undef`: afterwards the alias is no register any more -/
theorem undef_unbinds (c : Ctx) (alias ref : Str) (hcase : lower ref = lower alias) :
    ({ c with defs := aremove (lower alias) c.defs } : Ctx).getDef ref = none := by
  unfold Ctx.getDef
  simp only [hcase, alookup_aremove]

/-- an operand that is an alias of register `n` resolves exactly like the register written out
    (in every operand position, whatever accessor the mnemonic applies there), provided the name
    is not also an expression symbol — which the `exist` checks of `.def`/`.set`/`.equ`/labels
    rule out -/
theorem alias_resolves_as_register (c : Ctx) (a : Acc) (name : Str) (n : Nat)
    (hdef : c.getDef name = some n) (hnoexpr : c.getExpr name = none) :
    resolveOne c a (.e (.ident name)) = resolveOne c a (.r8 n) := by
  cases a with
  | reg => simp [resolveOne, asReg, hdef]
  | val =>
    simp only [resolveOne, asVal, eval, evalWith]
    have : symAt c maxSymbolDepth name = .err .missingIdent := by
      simp [maxSymbolDepth, symAt, hnoexpr]
    rw [this]
  | idx => simp [resolveOne, asIdx]

/-- hence an instruction using an alias assembles to the same bytes as one using the register -/
theorem alias_same_bytes (c : Ctx) (op : Op) (name : Str) (n : Nat) (pre post : List IOp) (addr : Nat)
    (hdef : c.getDef name = some n) (hnoexpr : c.getExpr name = none) :
    process c op (pre ++ .e (.ident name) :: post) addr = process c op (pre ++ .r8 n :: post) addr := by
  have hres : ∀ (accs : List Acc) (pre : List IOp),
      resolve c accs (pre ++ .e (.ident name) :: post) = resolve c accs (pre ++ .r8 n :: post) := by
    intro accs pre
    induction pre generalizing accs with
    | nil =>
      cases accs with
      | nil => simp [resolve]
      | cons a as => simp only [List.nil_append, resolve, alias_resolves_as_register c a name n hdef hnoexpr]
    | cons x xs ih =>
      cases accs with
      | nil => simp only [List.cons_append, resolve, ih []]
      | cons a as => simp only [List.cons_append, resolve, ih as]
  unfold process
  simp only [List.length_append, List.length_cons, hres]

/-- a reference to a name that is nothing (no flag, .equ, .set, pc, label) fails to evaluate —
    it never silently becomes 0 -/
theorem undefined_is_error (c : Ctx) (name : Str) (h : c.getExpr name = none) :
    eval c (.ident name) = .err .missingIdent := by
  simp [eval, evalWith, maxSymbolDepth, symAt, h]

/-- … and an instruction whose register operand is an alias that is not (or no longer) defined
    is rejected -/
theorem dead_alias_is_bad (c : Ctx) (name : Str) (h : c.getDef name = none) :
    resolveOne c .reg (.e (.ident name)) = some .bad := by
  simp [resolveOne, asReg, h]

/-! non-vacuity -/
example : lower "TmP1".toList = lower "tmp1".toList := by decide

end Avra.Props.C10
