/-
  Per-mnemonic encoding lemmas (text produced once by tools/mk_enc_props.py, maintained as source).
  For every mnemonic: the opcode/length row extracted from the code (Gen.infoTable) is the ISA's,
  the arm's bit packing equals the ISA pattern on its WHOLE finite operand table (kernel
  evaluation, `decide +kernel` over `allIn`), hence — by the family lemmas, for all operand lists
  and all i64 values — model words = ISA encoding of what the legality spec says.
-/
import Avra.Props.EncDefs
namespace Avra.Props.Enc
open Avra Avra.Model Avra.Isa Avra.Lemmas
set_option maxRecDepth 1000000

theorem info_com (b : Bool) : info b .com = some (1, 0x9400) := by cases b <;> decide

theorem pack_com : ∀ d, d < 32 → packOne 0x9400 d = word (onePat .com) [(fld!"d", d)] := by
  have h := allIn1 (fun (d : Nat) => decide (packOne 0x9400 d = word (onePat .com) [(fld!"d", d)])) 5 (by decide +kernel)
  intro d hd; simpa using h d hd

theorem enc_com (b : Bool) (args : List AArg) (addr : Nat) (hr : regsOk args) :
    mWords b .com args addr = sWords b .com args addr := by
  unfold mWords sWords
  rw [info_com b]
  exact with_arity _ _ _ _ _ (fam_one 0x9400 .com pack_com args hr) (fun h => by have := sOne_len h; simp [allowedArgs, this])

theorem info_neg (b : Bool) : info b .neg = some (1, 0x9401) := by cases b <;> decide

theorem pack_neg : ∀ d, d < 32 → packOne 0x9401 d = word (onePat .neg) [(fld!"d", d)] := by
  have h := allIn1 (fun (d : Nat) => decide (packOne 0x9401 d = word (onePat .neg) [(fld!"d", d)])) 5 (by decide +kernel)
  intro d hd; simpa using h d hd

theorem enc_neg (b : Bool) (args : List AArg) (addr : Nat) (hr : regsOk args) :
    mWords b .neg args addr = sWords b .neg args addr := by
  unfold mWords sWords
  rw [info_neg b]
  exact with_arity _ _ _ _ _ (fam_one 0x9401 .neg pack_neg args hr) (fun h => by have := sOne_len h; simp [allowedArgs, this])

theorem info_inc (b : Bool) : info b .inc = some (1, 0x9403) := by cases b <;> decide

theorem pack_inc : ∀ d, d < 32 → packOne 0x9403 d = word (onePat .inc) [(fld!"d", d)] := by
  have h := allIn1 (fun (d : Nat) => decide (packOne 0x9403 d = word (onePat .inc) [(fld!"d", d)])) 5 (by decide +kernel)
  intro d hd; simpa using h d hd

theorem enc_inc (b : Bool) (args : List AArg) (addr : Nat) (hr : regsOk args) :
    mWords b .inc args addr = sWords b .inc args addr := by
  unfold mWords sWords
  rw [info_inc b]
  exact with_arity _ _ _ _ _ (fam_one 0x9403 .inc pack_inc args hr) (fun h => by have := sOne_len h; simp [allowedArgs, this])

theorem info_dec (b : Bool) : info b .dec = some (1, 0x940a) := by cases b <;> decide

theorem pack_dec : ∀ d, d < 32 → packOne 0x940a d = word (onePat .dec) [(fld!"d", d)] := by
  have h := allIn1 (fun (d : Nat) => decide (packOne 0x940a d = word (onePat .dec) [(fld!"d", d)])) 5 (by decide +kernel)
  intro d hd; simpa using h d hd

theorem enc_dec (b : Bool) (args : List AArg) (addr : Nat) (hr : regsOk args) :
    mWords b .dec args addr = sWords b .dec args addr := by
  unfold mWords sWords
  rw [info_dec b]
  exact with_arity _ _ _ _ _ (fam_one 0x940a .dec pack_dec args hr) (fun h => by have := sOne_len h; simp [allowedArgs, this])

theorem info_push (b : Bool) : info b .push = some (1, 0x920f) := by cases b <;> decide

theorem pack_push : ∀ d, d < 32 → packOne 0x920f d = word (onePat .push) [(fld!"d", d)] := by
  have h := allIn1 (fun (d : Nat) => decide (packOne 0x920f d = word (onePat .push) [(fld!"d", d)])) 5 (by decide +kernel)
  intro d hd; simpa using h d hd

theorem enc_push (b : Bool) (args : List AArg) (addr : Nat) (hr : regsOk args) :
    mWords b .push args addr = sWords b .push args addr := by
  unfold mWords sWords
  rw [info_push b]
  exact with_arity _ _ _ _ _ (fam_one 0x920f .push pack_push args hr) (fun h => by have := sOne_len h; simp [allowedArgs, this])

theorem info_pop (b : Bool) : info b .pop = some (1, 0x900f) := by cases b <;> decide

theorem pack_pop : ∀ d, d < 32 → packOne 0x900f d = word (onePat .pop) [(fld!"d", d)] := by
  have h := allIn1 (fun (d : Nat) => decide (packOne 0x900f d = word (onePat .pop) [(fld!"d", d)])) 5 (by decide +kernel)
  intro d hd; simpa using h d hd

theorem enc_pop (b : Bool) (args : List AArg) (addr : Nat) (hr : regsOk args) :
    mWords b .pop args addr = sWords b .pop args addr := by
  unfold mWords sWords
  rw [info_pop b]
  exact with_arity _ _ _ _ _ (fam_one 0x900f .pop pack_pop args hr) (fun h => by have := sOne_len h; simp [allowedArgs, this])

theorem info_lsr (b : Bool) : info b .lsr = some (1, 0x9406) := by cases b <;> decide

theorem pack_lsr : ∀ d, d < 32 → packOne 0x9406 d = word (onePat .lsr) [(fld!"d", d)] := by
  have h := allIn1 (fun (d : Nat) => decide (packOne 0x9406 d = word (onePat .lsr) [(fld!"d", d)])) 5 (by decide +kernel)
  intro d hd; simpa using h d hd

theorem enc_lsr (b : Bool) (args : List AArg) (addr : Nat) (hr : regsOk args) :
    mWords b .lsr args addr = sWords b .lsr args addr := by
  unfold mWords sWords
  rw [info_lsr b]
  exact with_arity _ _ _ _ _ (fam_one 0x9406 .lsr pack_lsr args hr) (fun h => by have := sOne_len h; simp [allowedArgs, this])

theorem info_ror (b : Bool) : info b .ror = some (1, 0x9407) := by cases b <;> decide

theorem pack_ror : ∀ d, d < 32 → packOne 0x9407 d = word (onePat .ror) [(fld!"d", d)] := by
  have h := allIn1 (fun (d : Nat) => decide (packOne 0x9407 d = word (onePat .ror) [(fld!"d", d)])) 5 (by decide +kernel)
  intro d hd; simpa using h d hd

theorem enc_ror (b : Bool) (args : List AArg) (addr : Nat) (hr : regsOk args) :
    mWords b .ror args addr = sWords b .ror args addr := by
  unfold mWords sWords
  rw [info_ror b]
  exact with_arity _ _ _ _ _ (fam_one 0x9407 .ror pack_ror args hr) (fun h => by have := sOne_len h; simp [allowedArgs, this])

theorem info_asr (b : Bool) : info b .asr = some (1, 0x9405) := by cases b <;> decide

theorem pack_asr : ∀ d, d < 32 → packOne 0x9405 d = word (onePat .asr) [(fld!"d", d)] := by
  have h := allIn1 (fun (d : Nat) => decide (packOne 0x9405 d = word (onePat .asr) [(fld!"d", d)])) 5 (by decide +kernel)
  intro d hd; simpa using h d hd

theorem enc_asr (b : Bool) (args : List AArg) (addr : Nat) (hr : regsOk args) :
    mWords b .asr args addr = sWords b .asr args addr := by
  unfold mWords sWords
  rw [info_asr b]
  exact with_arity _ _ _ _ _ (fam_one 0x9405 .asr pack_asr args hr) (fun h => by have := sOne_len h; simp [allowedArgs, this])

theorem info_swap (b : Bool) : info b .swap = some (1, 0x9402) := by cases b <;> decide

theorem pack_swap : ∀ d, d < 32 → packOne 0x9402 d = word (onePat .swap) [(fld!"d", d)] := by
  have h := allIn1 (fun (d : Nat) => decide (packOne 0x9402 d = word (onePat .swap) [(fld!"d", d)])) 5 (by decide +kernel)
  intro d hd; simpa using h d hd

theorem enc_swap (b : Bool) (args : List AArg) (addr : Nat) (hr : regsOk args) :
    mWords b .swap args addr = sWords b .swap args addr := by
  unfold mWords sWords
  rw [info_swap b]
  exact with_arity _ _ _ _ _ (fam_one 0x9402 .swap pack_swap args hr) (fun h => by have := sOne_len h; simp [allowedArgs, this])

theorem info_subi (b : Bool) : info b .subi = some (1, 0x5000) := by cases b <;> decide

theorem pack_subi : ∀ d k, 16 ≤ d → d < 32 → k < 256 →
    packImm 0x5000 d (if false then 0xff - k else k) = word (immPat .subi) [(fld!"d", d - 16), (fld!"K", id k)] := by
  have h := allIn2 (fun (d k : Nat) => decide (16 ≤ d → packImm 0x5000 d (if false then 0xff - k else k) = word (immPat .subi) [(fld!"d", d - 16), (fld!"K", id k)])) 5 8 (by decide +kernel)
  intro d k h16 hd hk; have h2 := h d k hd hk; simp only [decide_eq_true_eq] at h2; exact h2 h16

theorem enc_subi (b : Bool) (args : List AArg) (addr : Nat) (hr : regsOk args) :
    mWords b .subi args addr = sWords b .subi args addr := by
  unfold mWords sWords
  rw [info_subi b]
  exact with_arity _ _ _ _ _ (fam_imm 0x5000 .subi false id pack_subi args hr) (fun h => by have := sImm_len h; simp [allowedArgs, this])

theorem info_sbci (b : Bool) : info b .sbci = some (1, 0x4000) := by cases b <;> decide

theorem pack_sbci : ∀ d k, 16 ≤ d → d < 32 → k < 256 →
    packImm 0x4000 d (if false then 0xff - k else k) = word (immPat .sbci) [(fld!"d", d - 16), (fld!"K", id k)] := by
  have h := allIn2 (fun (d k : Nat) => decide (16 ≤ d → packImm 0x4000 d (if false then 0xff - k else k) = word (immPat .sbci) [(fld!"d", d - 16), (fld!"K", id k)])) 5 8 (by decide +kernel)
  intro d k h16 hd hk; have h2 := h d k hd hk; simp only [decide_eq_true_eq] at h2; exact h2 h16

theorem enc_sbci (b : Bool) (args : List AArg) (addr : Nat) (hr : regsOk args) :
    mWords b .sbci args addr = sWords b .sbci args addr := by
  unfold mWords sWords
  rw [info_sbci b]
  exact with_arity _ _ _ _ _ (fam_imm 0x4000 .sbci false id pack_sbci args hr) (fun h => by have := sImm_len h; simp [allowedArgs, this])

theorem info_andi (b : Bool) : info b .andi = some (1, 0x7000) := by cases b <;> decide

theorem pack_andi : ∀ d k, 16 ≤ d → d < 32 → k < 256 →
    packImm 0x7000 d (if false then 0xff - k else k) = word (immPat .andi) [(fld!"d", d - 16), (fld!"K", id k)] := by
  have h := allIn2 (fun (d k : Nat) => decide (16 ≤ d → packImm 0x7000 d (if false then 0xff - k else k) = word (immPat .andi) [(fld!"d", d - 16), (fld!"K", id k)])) 5 8 (by decide +kernel)
  intro d k h16 hd hk; have h2 := h d k hd hk; simp only [decide_eq_true_eq] at h2; exact h2 h16

theorem enc_andi (b : Bool) (args : List AArg) (addr : Nat) (hr : regsOk args) :
    mWords b .andi args addr = sWords b .andi args addr := by
  unfold mWords sWords
  rw [info_andi b]
  exact with_arity _ _ _ _ _ (fam_imm 0x7000 .andi false id pack_andi args hr) (fun h => by have := sImm_len h; simp [allowedArgs, this])

theorem info_ori (b : Bool) : info b .ori = some (1, 0x6000) := by cases b <;> decide

theorem pack_ori : ∀ d k, 16 ≤ d → d < 32 → k < 256 →
    packImm 0x6000 d (if false then 0xff - k else k) = word (immPat .ori) [(fld!"d", d - 16), (fld!"K", id k)] := by
  have h := allIn2 (fun (d k : Nat) => decide (16 ≤ d → packImm 0x6000 d (if false then 0xff - k else k) = word (immPat .ori) [(fld!"d", d - 16), (fld!"K", id k)])) 5 8 (by decide +kernel)
  intro d k h16 hd hk; have h2 := h d k hd hk; simp only [decide_eq_true_eq] at h2; exact h2 h16

theorem enc_ori (b : Bool) (args : List AArg) (addr : Nat) (hr : regsOk args) :
    mWords b .ori args addr = sWords b .ori args addr := by
  unfold mWords sWords
  rw [info_ori b]
  exact with_arity _ _ _ _ _ (fam_imm 0x6000 .ori false id pack_ori args hr) (fun h => by have := sImm_len h; simp [allowedArgs, this])

theorem info_sbr (b : Bool) : info b .sbr = some (1, 0x6000) := by cases b <;> decide

theorem pack_sbr : ∀ d k, 16 ≤ d → d < 32 → k < 256 →
    packImm 0x6000 d (if false then 0xff - k else k) = word (immPat .ori) [(fld!"d", d - 16), (fld!"K", id k)] := by
  have h := allIn2 (fun (d k : Nat) => decide (16 ≤ d → packImm 0x6000 d (if false then 0xff - k else k) = word (immPat .ori) [(fld!"d", d - 16), (fld!"K", id k)])) 5 8 (by decide +kernel)
  intro d k h16 hd hk; have h2 := h d k hd hk; simp only [decide_eq_true_eq] at h2; exact h2 h16

theorem enc_sbr (b : Bool) (args : List AArg) (addr : Nat) (hr : regsOk args) :
    mWords b .sbr args addr = sWords b .sbr args addr := by
  unfold mWords sWords
  rw [info_sbr b]
  exact with_arity _ _ _ _ _ (fam_imm 0x6000 .ori false id pack_sbr args hr) (fun h => by have := sImm_len h; simp [allowedArgs, this])

theorem info_cbr (b : Bool) : info b .cbr = some (1, 0x7000) := by cases b <;> decide

theorem pack_cbr : ∀ d k, 16 ≤ d → d < 32 → k < 256 →
    packImm 0x7000 d (if true then 0xff - k else k) = word (immPat .andi) [(fld!"d", d - 16), (fld!"K", (255 - ·) k)] := by
  have h := allIn2 (fun (d k : Nat) => decide (16 ≤ d → packImm 0x7000 d (if true then 0xff - k else k) = word (immPat .andi) [(fld!"d", d - 16), (fld!"K", (255 - ·) k)])) 5 8 (by decide +kernel)
  intro d k h16 hd hk; have h2 := h d k hd hk; simp only [decide_eq_true_eq] at h2; exact h2 h16

theorem enc_cbr (b : Bool) (args : List AArg) (addr : Nat) (hr : regsOk args) :
    mWords b .cbr args addr = sWords b .cbr args addr := by
  unfold mWords sWords
  rw [info_cbr b]
  exact with_arity _ _ _ _ _ (fam_imm 0x7000 .andi true (255 - ·) pack_cbr args hr) (fun h => by have := sImm_len h; simp [allowedArgs, this])

theorem info_cpi (b : Bool) : info b .cpi = some (1, 0x3000) := by cases b <;> decide

theorem pack_cpi : ∀ d k, 16 ≤ d → d < 32 → k < 256 →
    packImm 0x3000 d (if false then 0xff - k else k) = word (immPat .cpi) [(fld!"d", d - 16), (fld!"K", id k)] := by
  have h := allIn2 (fun (d k : Nat) => decide (16 ≤ d → packImm 0x3000 d (if false then 0xff - k else k) = word (immPat .cpi) [(fld!"d", d - 16), (fld!"K", id k)])) 5 8 (by decide +kernel)
  intro d k h16 hd hk; have h2 := h d k hd hk; simp only [decide_eq_true_eq] at h2; exact h2 h16

theorem enc_cpi (b : Bool) (args : List AArg) (addr : Nat) (hr : regsOk args) :
    mWords b .cpi args addr = sWords b .cpi args addr := by
  unfold mWords sWords
  rw [info_cpi b]
  exact with_arity _ _ _ _ _ (fam_imm 0x3000 .cpi false id pack_cpi args hr) (fun h => by have := sImm_len h; simp [allowedArgs, this])

theorem info_ldi (b : Bool) : info b .ldi = some (1, 0xe000) := by cases b <;> decide

theorem pack_ldi : ∀ d k, 16 ≤ d → d < 32 → k < 256 →
    packImm 0xe000 d (if false then 0xff - k else k) = word (immPat .ldi) [(fld!"d", d - 16), (fld!"K", id k)] := by
  have h := allIn2 (fun (d k : Nat) => decide (16 ≤ d → packImm 0xe000 d (if false then 0xff - k else k) = word (immPat .ldi) [(fld!"d", d - 16), (fld!"K", id k)])) 5 8 (by decide +kernel)
  intro d k h16 hd hk; have h2 := h d k hd hk; simp only [decide_eq_true_eq] at h2; exact h2 h16

theorem enc_ldi (b : Bool) (args : List AArg) (addr : Nat) (hr : regsOk args) :
    mWords b .ldi args addr = sWords b .ldi args addr := by
  unfold mWords sWords
  rw [info_ldi b]
  exact with_arity _ _ _ _ _ (fam_imm 0xe000 .ldi false id pack_ldi args hr) (fun h => by have := sImm_len h; simp [allowedArgs, this])

theorem info_ser (b : Bool) : info b .ser = some (1, 0xef0f) := by cases b <;> decide

theorem pack_ser : ∀ d, 16 ≤ d → d < 32 → packSer 0xef0f d = word (immPat .ldi) [(fld!"d", d - 16), (fld!"K", 255)] := by
  have h := allIn1 (fun (d : Nat) => decide (16 ≤ d → packSer 0xef0f d = word (immPat .ldi) [(fld!"d", d - 16), (fld!"K", 255)])) 5 (by decide +kernel)
  intro d h16 hd; have h2 := h d hd; simp only [decide_eq_true_eq] at h2; exact h2 h16

theorem enc_ser (b : Bool) (args : List AArg) (addr : Nat) (hr : regsOk args) :
    mWords b .ser args addr = sWords b .ser args addr := by
  unfold mWords sWords
  rw [info_ser b]
  exact with_arity _ _ _ _ _ (fam_ser 0xef0f pack_ser args hr) (fun h => by have := sSer_len h; simp [allowedArgs, this])

theorem info_lpm (b : Bool) : info b .lpm = some (1, 0x9000) := by cases b <;> decide

theorem pack_lpm : ∀ d, d < 32 → ∀ inc : Bool,
    [packOne 0x9000 d ||| (if inc then 0b101 else 0b100) ||| (if false then 0b10 else 0)] = encode (.lpm false d inc) := by
  have h := allIn1 (fun (d : Nat) => decide (∀ inc : Bool, [packOne 0x9000 d ||| (if inc then 0b101 else 0b100) ||| (if false then 0b10 else 0)] = encode (.lpm false d inc))) 5 (by decide +kernel)
  intro d hd; simpa using h d hd

theorem enc_lpm (b : Bool) (args : List AArg) (addr : Nat) (hr : regsOk args) :
    mWords b .lpm args addr = sWords b .lpm args addr := by
  unfold mWords sWords
  rw [info_lpm b]
  exact with_arity _ _ _ _ _ (fam_lpm 0x9000 false (by decide) pack_lpm args hr) (fun h => by have := sLpm_len h; rcases this with h | h <;> simp [allowedArgs, h])

theorem info_elpm (b : Bool) : info b .elpm = some (1, 0x9000) := by cases b <;> decide

theorem pack_elpm : ∀ d, d < 32 → ∀ inc : Bool,
    [packOne 0x9000 d ||| (if inc then 0b101 else 0b100) ||| (if true then 0b10 else 0)] = encode (.lpm true d inc) := by
  have h := allIn1 (fun (d : Nat) => decide (∀ inc : Bool, [packOne 0x9000 d ||| (if inc then 0b101 else 0b100) ||| (if true then 0b10 else 0)] = encode (.lpm true d inc))) 5 (by decide +kernel)
  intro d hd; simpa using h d hd

theorem enc_elpm (b : Bool) (args : List AArg) (addr : Nat) (hr : regsOk args) :
    mWords b .elpm args addr = sWords b .elpm args addr := by
  unfold mWords sWords
  rw [info_elpm b]
  exact with_arity _ _ _ _ _ (fam_lpm 0x9000 true (by decide) pack_elpm args hr) (fun h => by have := sLpm_len h; rcases this with h | h <;> simp [allowedArgs, h])

theorem info_in (b : Bool) : info b .«in» = some (1, 0xb000) := by cases b <;> decide

theorem pack_in : ∀ r a, r < 32 → a < 64 → packIo 0xb000 r a = word (pat!"1011 0AAd dddd AAAA") [(fld!"d", r), (fld!"A", a)] := by
  have h := allIn2 (fun (r a : Nat) => decide (packIo 0xb000 r a = word (pat!"1011 0AAd dddd AAAA") [(fld!"d", r), (fld!"A", a)])) 5 6 (by decide +kernel)
  intro r a hr ha; simpa using h r a hr ha

theorem enc_in (b : Bool) (args : List AArg) (addr : Nat) (hr : regsOk args) :
    mWords b .«in» args addr = sWords b .«in» args addr := by
  unfold mWords sWords
  rw [info_in b]
  exact with_arity _ _ _ _ _ (fam_in 0xb000 pack_in args hr) (fun h => by have := sIn_len h; simp [allowedArgs, this])

theorem info_out (b : Bool) : info b .out = some (1, 0xb800) := by cases b <;> decide

theorem pack_out : ∀ r a, r < 32 → a < 64 → packIo 0xb800 r a = word (pat!"1011 1AAd dddd AAAA") [(fld!"d", r), (fld!"A", a)] := by
  have h := allIn2 (fun (r a : Nat) => decide (packIo 0xb800 r a = word (pat!"1011 1AAd dddd AAAA") [(fld!"d", r), (fld!"A", a)])) 5 6 (by decide +kernel)
  intro r a hr ha; simpa using h r a hr ha

theorem enc_out (b : Bool) (args : List AArg) (addr : Nat) (hr : regsOk args) :
    mWords b .out args addr = sWords b .out args addr := by
  unfold mWords sWords
  rw [info_out b]
  exact with_arity _ _ _ _ _ (fam_out 0xb800 pack_out args hr) (fun h => by have := sOut_len h; simp [allowedArgs, this])

end Avra.Props.Enc
