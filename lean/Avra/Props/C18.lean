/-
  C18 — the command-line tool writes what the library built, or fails visibly.

  Model: Avra.Model.Cli (src/app/main.rs): `run fs stdInc opts` = exit status, files written (in
  order), number of failure lines printed.  The file system is the parameter `Fs`; a file can be
  created when its parent directory exists and the path is not a directory (`canCreate`).
-/
import Avra.Model.Cli
import Avra.Props.C07
import Avra.Props.C12
import Avra.Lemmas.Bytes
import Avra.Props.C16
namespace Avra.Props.C18
open Avra Avra.Model Avra.Model.Cli

/-- **A failing build** creates or alters NO file, prints one failure line and exits with status 1
    — whatever the options and whatever files exist -/
theorem failed_build_writes_nothing (fs : Fs) (inc : Str) (o : Opts) (e : Err)
    (h : buildFile fs o.source [inc] = .error e) :
    run fs inc o = .ok { exit := 1, writes := [], failures := 1 } := by
  simp [run, h]

/-- **A successful build**: every file written is the flash file holding exactly
    `write_code_hex`'s text of the library's code image, or the EEPROM file holding the text of the
    library's EEPROM image; an image that is empty is not written -/
theorem writeOne_mem (fs : Fs) (path : Str) (img : List Nat) (w : Str × Str) (h : w ∈ (writeOne fs path img).1) :
    w = (path, Hex.fileText img) ∧ img ≠ [] := by
  unfold writeOne at h
  by_cases hc : img.isEmpty = true
  · simp [hc] at h
  · by_cases hk : canCreate fs path = true
    · simp [hc, hk] at h
      exact ⟨h, by intro h0; simp [h0] at hc⟩
    · simp [hc, hk] at h

theorem writes_are_library_images (fs : Fs) (inc : Str) (o : Opts) (b : BuildResult) (r : Res)
    (hb : buildFile fs o.source [inc] = .ok b) (hr : run fs inc o = .ok r) :
    ∀ w ∈ r.writes, (w = (flashPath o, Hex.fileText b.code) ∧ b.code ≠ []) ∨
                    (w = (eepromPath o, Hex.fileText b.eeprom) ∧ b.eeprom ≠ []) := by
  intro w hw
  simp only [run, hb] at hr
  injection hr with hr
  subst hr
  simp only [List.mem_append] at hw
  rcases hw with hw | hw
  · exact Or.inl (writeOne_mem _ _ _ _ hw)
  · exact Or.inr (writeOne_mem _ _ _ _ hw)

/-- … and such a file decodes, under the independent Intel HEX reader, to exactly the image
    (C07.hex_roundtrip; the side conditions — bytes are bytes, image below 4 GiB — hold for every
    image a build returns: the capacity checks of C12 bound it by the device's memory) -/
theorem written_file_decodes (img : List Nat) (hb : bytesOk img) (hl : img.length ≤ 2 ^ 32) :
    Spec.Hex.readCells (Hex.fileText img) = some (Spec.Hex.imageCells img) :=
  C07.hex_roundtrip img hb hl

/-- the side conditions discharged: every image `build_file` returns consists of bytes
    (Lemmas.Bytes.build_bytes_ok) and fits the selected device (C12.build_fits), so — for every
    device whose memories are below 4 GiB, which `device_memories_small` shows for the whole device
    table and the default device — BOTH files the tool writes decode to exactly the library's
    images -/
theorem built_files_decode (fs : Fs) (path : Str) (incs : List Str) (b : BuildResult)
    (h : buildFile fs path incs = .ok b) (hd : 2 * b.flashSize ≤ 2 ^ 32 ∧ b.eepromSize ≤ 2 ^ 32) :
    Spec.Hex.readCells (Hex.fileText b.code) = some (Spec.Hex.imageCells b.code) ∧
    Spec.Hex.readCells (Hex.fileText b.eeprom) = some (Spec.Hex.imageCells b.eeprom) := by
  unfold buildFile at h
  cases hp : parseFile fs path incs initCtx with
  | ok st =>
    rw [hp] at h
    dsimp only at h
    have hb := Lemmas.Bytes.build_bytes_ok fs st b h
    have hf := C12.build_fits fs st b h
    exact ⟨C07.hex_roundtrip _ hb.1 (by omega), C07.hex_roundtrip _ hb.2 (by omega)⟩
  | error e => rw [hp] at h; simp at h
  | panic p => rw [hp] at h; simp at h
  | oof => rw [hp] at h; simp at h

theorem device_memories_small :
    (∀ p ∈ Gen.devices, 2 * p.2.flash ≤ 2 ^ 32 ∧ p.2.eeprom ≤ 2 ^ 32) ∧
    2 * defaultDevice.flash ≤ 2 ^ 32 ∧ defaultDevice.eeprom ≤ 2 ^ 32 := by decide

/-- when both images are non-empty and both locations can be written, both files are written,
    flash first -/
theorem both_written (fs : Fs) (inc : Str) (o : Opts) (b : BuildResult)
    (hb : buildFile fs o.source [inc] = .ok b) (hc : b.code ≠ []) (he : b.eeprom ≠ [])
    (h1 : canCreate fs (flashPath o) = true) (h2 : canCreate fs (eepromPath o) = true) :
    run fs inc o = .ok { exit := 0, writes := [(flashPath o, Hex.fileText b.code), (eepromPath o, Hex.fileText b.eeprom)], failures := 0 } := by
  have c1 : b.code.isEmpty = false := by cases hx : b.code <;> simp_all
  have c2 : b.eeprom.isEmpty = false := by cases hx : b.eeprom <;> simp_all
  simp [run, hb, writeOne, c1, c2, h1, h2]

theorem writeOne_fail (fs : Fs) (path : Str) (img : List Nat) :
    ((writeOne fs path img).2 > 0 ↔ (img ≠ [] ∧ canCreate fs path = false)) ∧ (writeOne fs path img).2 ≤ 1 := by
  unfold writeOne
  by_cases hc : img.isEmpty = true
  · have : img = [] := List.isEmpty_iff.mp hc
    simp [hc, this]
  · have : img ≠ [] := fun h0 => hc (by simp [h0])
    by_cases hk : canCreate fs path = true <;> simp [hc, hk, this]

/-- **Exit status.**  It is non-zero exactly when a failure line was printed, and that happens
    exactly when the build failed or a non-empty image could not be written -/
theorem exit_status (fs : Fs) (inc : Str) (o : Opts) (r : Res) (hr : run fs inc o = .ok r) :
    (r.exit ≠ 0 ↔ r.failures > 0) ∧
    (r.failures > 0 ↔
      (∃ e, buildFile fs o.source [inc] = .error e) ∨
      (∃ b, buildFile fs o.source [inc] = .ok b ∧
        ((b.code ≠ [] ∧ canCreate fs (flashPath o) = false) ∨ (b.eeprom ≠ [] ∧ canCreate fs (eepromPath o) = false)))) := by
  unfold run at hr
  cases hb : buildFile fs o.source [inc] with
  | error e =>
    simp only [hb] at hr; injection hr with hr; subst hr
    exact ⟨by simp, by simp⟩
  | panic s => simp [hb] at hr
  | oof => simp [hb] at hr
  | ok b =>
    simp only [hb] at hr; injection hr with hr; subst hr
    have f1 := writeOne_fail fs (flashPath o) b.code
    have f2 := writeOne_fail fs (eepromPath o) b.eeprom
    constructor
    · simp only
      split <;> omega
    · simp only [Out.ok.injEq, exists_eq_left', reduceCtorEq, exists_false, false_or]
      rw [← f1.1, ← f2.1]
      omega

/-- **the tool always ends with an exit status**: whatever the source, the options and the file
    system, `main` neither panics nor fails to answer (C16.build_file_always_answers underneath) -/
theorem run_always_answers (fs : Fs) (inc : Str) (o : Opts) : ∃ r, run fs inc o = .ok r := by
  unfold run
  rcases Avra.Props.C16.build_file_always_answers fs [] o.source [inc] with ⟨b, hb⟩ | ⟨e, he⟩
  · rw [hb]; exact ⟨_, rfl⟩
  · rw [he]; exact ⟨_, rfl⟩

/-- a source name in a directory whose name has a dot, no extension: the stem is the whole name -/
example : defaultOut ['f', '.', 'v', '/', 'b'] ['.', 'h'] = ['f', '.', 'v', '/', 'b', '.', 'h'] := by decide

/-! ### the default paths (examples of `Path::parent` / `file_stem` as modelled) -/
example : flashPath { source := ['d', '/', 'p', '.', 'a'] } = ['d', '/', 'p', '.', 'h', 'e', 'x'] := by decide
example : eepromPath { source := ['p', '.', 'a'] } = ['p', '.', 'e', 'e', 'p', '.', 'h', 'e', 'x'] := by decide
example : flashPath { source := ['p'], output := some ['o'] } = ['o'] := by decide
example : defaultOut ['d', '/', 'p', '.', 'a'] ['.', 'h'] = ['d', '/', 'p', '.', 'h'] := by decide
example : defaultOut ['p', '.', 'a'] ['.', 'h'] = ['p', '.', 'h'] := by decide
example : defaultOut ['a', '.', 'b', '.', 'c'] ['.', 'h'] = ['a', '.', 'b', '.', 'h'] := by decide
example : defaultOut ['n'] ['.', 'h'] = ['n', '.', 'h'] := by decide
example : defaultOut ['.', 'x'] ['.', 'h'] = ['.', 'x', '.', 'h'] := by decide

end Avra.Props.C18
