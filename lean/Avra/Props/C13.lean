/-
  C13 — instructions the selected device lacks are rejected; all others are unaffected.
-/
import Avra.Props.Enc
import Avra.Model.Build
import Avra.Spec.Gate
import Avra.Gen.Devices
namespace Avra.Props.C13
open Avra Avra.Model Avra.Isa Avra.Lemmas Avra.Props.Enc

/-- Gen obligation: the model of `check_operation` reproduces the matrix extracted by executing
    the real `Device::check_operation` for every device of the table × every operation -/
def gateMatrixOk : Bool :=
  Gen.gateMatrix.all fun (name, row) =>
    match alookup name Gen.devices with
    | none => false
    | some d => row.all fun (op, allowed) => checkOperation d op == allowed

theorem gate_matches_model : gateMatrixOk = true := by decide +kernel

/-- … and for the default device (no `.device` line): nothing is rejected -/
theorem gate_default : (Gen.gateDefault.all fun (op, allowed) => checkOperation Gen.defaultDevice op == allowed && allowed) = true := by
  decide +kernel

theorem all_flatMap {α β : Type} (l : List α) (f : α → List β) (p : β → Bool) :
    (l.flatMap f).all p = l.all fun a => (f a).all p := by
  induction l with
  | nil => rfl
  | cons a l ih => simp [List.flatMap_cons, List.all_append, ih]

/-- C13 (first half), for EVERY device (any set of disabled options, not only the rows of the
    table), every operation and every operand list: the model of the gate (`check_instruction`)
    admits the instruction iff none of the feature flags the independent statement lists for that
    mnemonic and addressing form is disabled on the device. -/
theorem gate_exact (d : Device) (op : Op) (args : List IOp) :
    checkInstruction d op args = Spec.allowed d.opts op args := by
  have hidx : ∀ a : IOp, argAllowed d a = (Spec.argRequires a).all fun f => !d.opts.contains f := by
    intro a
    cases a with
    | index i =>
      cases i with
      | none r => cases r <;> simp [argAllowed, Spec.argRequires, Spec.indexRequires, Device.allow]
      | postInc r => cases r <;> simp [argAllowed, Spec.argRequires, Spec.indexRequires, Device.allow]
      | preDec r => cases r <;> simp [argAllowed, Spec.argRequires, Spec.indexRequires, Device.allow]
      | postIncE r e => cases r <;> simp [argAllowed, Spec.argRequires, Spec.indexRequires, Device.allow]
    | r8 n => simp [argAllowed, Spec.argRequires]
    | e e => simp [argAllowed, Spec.argRequires]
  have hargs : ∀ l : List IOp, l.all (argAllowed d) =
      (l.flatMap Spec.argRequires).all fun f => !d.opts.contains f := by
    intro l
    rw [all_flatMap]
    apply List.all_congr rfl
    intro a
    exact hidx a
  unfold checkInstruction Spec.allowed
  cases op with
  | lpm =>
    by_cases h : d.opts.contains .noLpm = true <;> cases args <;>
      simp [checkOperation, Spec.requires, Device.allow, h]
  | elpm =>
    by_cases h : d.opts.contains .noElpm = true <;> cases args <;>
      simp [checkOperation, Spec.requires, Device.allow, h]
  | ld => simp only [checkOperation, Spec.requires, Bool.not_true, Bool.false_eq_true, if_false]; exact hargs args
  | st => simp only [checkOperation, Spec.requires, Bool.not_true, Bool.false_eq_true, if_false]; exact hargs args
  | ldd =>
    simp only [checkOperation, Spec.requires, List.all_cons]
    by_cases h : d.allow .tiny1x = true
    · have h' : (!d.opts.contains .tiny1x) = true := by simpa [Device.allow] using h
      simp only [h, h', Bool.not_true, Bool.false_eq_true, if_false, Bool.true_and]; exact hargs args
    · have h' : (!d.opts.contains .tiny1x) = false := by simpa [Device.allow] using h
      have h2 : d.allow .tiny1x = false := by simpa using h
      simp only [h2, h', Bool.not_false, if_true, Bool.false_and]
  | std =>
    simp only [checkOperation, Spec.requires, List.all_cons]
    by_cases h : d.allow .tiny1x = true
    · have h' : (!d.opts.contains .tiny1x) = true := by simpa [Device.allow] using h
      simp only [h, h', Bool.not_true, Bool.false_eq_true, if_false, Bool.true_and]; exact hargs args
    · have h' : (!d.opts.contains .tiny1x) = false := by simpa [Device.allow] using h
      have h2 : d.allow .tiny1x = false := by simpa using h
      simp only [h2, h', Bool.not_false, if_true, Bool.false_and]
  | _ => simp [checkOperation, Spec.requires, Device.allow]

/-- C13 (second half): the encoder reads the device only through the reduced-core flag, and that
    flag matters only for lds/sts — every other instruction assembles to the same words on every
    device (at the level of resolved operands; the words are those of `model_eq_spec`). -/
theorem device_frame (b b' : Bool) (op : Op) (args : List AArg) (addr : Nat)
    (hstd : ∀ n, op ≠ .custom n) (hr : regsOk args) (hlds : op ≠ .lds) (hsts : op ≠ .sts) :
    mWords b op args addr = mWords b' op args addr := by
  rw [model_eq_spec b op args addr hstd hr, model_eq_spec b' op args addr hstd hr]
  unfold sWords
  congr 1
  cases op <;> first | rfl | exact absurd rfl hlds | exact absurd rfl hsts | (rename_i t; cases t <;> rfl)

/-! non-vacuity: devices of the table on which the flags bite -/
example : (alookup "ATtiny13".toList Gen.devices).map (fun d => checkInstruction d .muls [.r8 16, .r8 17]) = some false := by decide
example : (alookup "ATtiny11".toList Gen.devices).map (fun d => checkInstruction d .ld [.r8 0, .index (.none .x)]) = some false := by decide
example : (alookup "ATmega8".toList Gen.devices).map (fun d => checkInstruction d .ld [.r8 0, .index (.none .x)]) = some true := by decide

end Avra.Props.C13
