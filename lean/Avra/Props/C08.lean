/-
  C08 — conditional assembly assembles exactly the selected branch.

  Model: `parseIterWith` / `skipCond` / `lineStep` (parser.rs `parse_iter`, `skip`; directive.rs).
  Spec:  Avra.Spec.Cond (conditional trees; `run` = assemble the plain lines of the first
         branch whose condition holds, or of `.else`, recursively; nothing else).
-/
import Avra.Lemmas.Cond
import Avra.Lemmas.Iter
namespace Avra.Props.C08
open Avra Avra.Model Avra.Spec Avra.Lemmas.Cond Avra.Lemmas.Iter

/-- ways the model can fail on a line; `scope` marks a plain line outside the theorem's scope
    (a `.macro` or `.exit` line in a selected position changes what the following lines mean) -/
inductive MFail
  | error (e : Err) | panic (s : String) | oof | scope

abbrev MSt := PState × List Str

/-- assembling a plain line = the model's own line step (normal delivery) -/
def mExec (inc : IncludeFn) (cur : Str) (s : MSt) (l : Line) : Res MSt MFail :=
  match lineStep inc cur s.2 s.1 l.1 l.2 false with
  | .ok (st', incs', .newLine) => .ok (st', incs')
  | .ok _ => .fail .scope
  | .error e => .fail (.error e)
  | .panic p => .fail (.panic p)
  | .oof => .fail .oof

/-- evaluating the condition of a head line or of an `.elif` line = the model's own line step
    on that directive line (an `.elif` counts when it is reached by skipping) -/
def mHolds (inc : IncludeFn) (cur : Str) (s : MSt) (l : Line) : Res (MSt × Bool) MFail :=
  match lineStep inc cur s.2 s.1 l.1 l.2 (decide (kindOf l = .elif)) with
  | .ok (st', incs', .newLine) => .ok ((st', incs'), true)
  | .ok (st', incs', .endIf) => .ok ((st', incs'), false)
  | .ok _ => .fail .scope
  | .error e => .fail (.error e)
  | .panic p => .fail (.panic p)
  | .oof => .fail .oof

/-- what the whole run must be, given the outcome of the reference semantics on a prefix and the
    run on the rest; no claim when the prefix left the theorem's scope -/
def after {α : Type} (r : Res α MFail) (k : α → Out (PState × List Str)) (out : Out (PState × List Str)) : Prop :=
  match r with
  | .ok s => out = k s
  | .fail (.error e) => out = .error e
  | .fail (.panic p) => out = .panic p
  | .fail .oof => out = .oof
  | .fail .scope => True

/-! ### the line step on the directive lines of a construct -/

theorem step_endif (inc : IncludeFn) (cur : Str) (s : MSt) (l : Line) (r : Bool) (h : isDir l (· = .endif)) :
    lineStep inc cur s.2 s.1 l.1 l.2 r = .ok (s.1, s.2, .newLine) := by
  obtain ⟨d, ops, hp, hd⟩ := h
  have hd' : d = _ := hd
  subst hd'
  simp [lineStep, hp, directiveParse]

theorem step_else (inc : IncludeFn) (cur : Str) (s : MSt) (l : Line) (r : Bool) (h : isDir l (· = .else)) :
    lineStep inc cur s.2 s.1 l.1 l.2 r = .ok (s.1, s.2, .endIfAll) := by
  obtain ⟨d, ops, hp, hd⟩ := h
  have hd' : d = _ := hd
  subst hd'
  simp [lineStep, hp]

theorem step_elif_normal (inc : IncludeFn) (cur : Str) (s : MSt) (l : Line) (h : isDir l (· = .elif)) :
    lineStep inc cur s.2 s.1 l.1 l.2 false = .ok (s.1, s.2, .endIfAll) := by
  obtain ⟨d, ops, hp, hd⟩ := h
  have hd' : d = _ := hd
  subst hd'
  simp [lineStep, hp]

theorem kind_elif (l : Line) (h : isDir l (· = .elif)) : kindOf l = .elif := by
  obtain ⟨d, ops, hp, hd⟩ := h
  have hd' : d = _ := hd
  subst hd'
  simp [kindOf, hp, isCondOpen]

theorem kind_open (l : Line) (h : isDir l (fun d => isCondOpen d = true)) : kindOf l = .open := by
  obtain ⟨d, ops, hp, hd⟩ := h
  simp [kindOf, hp, hd]

/-! ### running from the end of an assembled branch to the line after `.endif` -/

/-- a skip that ends by delivering the line after a stop directive behaves like normal delivery
    of the remaining lines -/
theorem run_after_stop (inc : IncludeFn) (cur : Str) (s : MSt) (ni : NextItem) (ls rest : List Line)
    (hni : ni = .endIf ∨ ni = .endIfAll)
    (h : skipCond (decide (ni = .endIfAll)) 0 ls =
      match rest with
      | [] => (none, false, [], false)
      | nx :: rest' => (some nx, false, rest', false)) :
    runFrom inc cur s ni ls = runFrom inc cur s .newLine rest := by
  rw [runFrom_step inc cur s ni ls, runFrom_step inc cur s .newLine rest]
  rcases hni with rfl | rfl
  · simp only [skipStep] at *
    simp at h
    rw [h]
    cases rest <;> rfl
  · simp only [skipStep] at *
    simp at h
    rw [h]
    cases rest <;> rfl

/-- after an assembled branch: whatever remains of the construct (further `.elif` arms, the
    `.else` arm, the `.endif`) has no effect -/
theorem finish_construct (inc : IncludeFn) (cur : Str) (s : MSt) (arms : Arms) (els : ElseArm) (endl : Line)
    (rest : List Line) (ha : arms.wf) (he : els.wf) (hend : isDir endl (· = .endif)) :
    runFrom inc cur s .newLine (arms.flatten ++ (els.flatten ++ endl :: rest)) =
      runFrom inc cur s .newLine rest := by
  have hstop : skipCond true 0 (endl :: rest) =
      match rest with
      | [] => (none, false, [], false)
      | nx :: rest' => (some nx, false, rest', false) :=
    skip_stop_top true endl rest (by obtain ⟨d, ops, hp, hd⟩ := hend; exact ⟨d, ops, hp, Or.inl hd⟩)
  cases arms with
  | cons l body more =>
    obtain ⟨hl, hbody, hmore⟩ := ha
    simp only [Arms.flatten, List.cons_append, List.append_assoc]
    rw [runFrom_step]
    simp only [skipStep]
    rw [step_elif_normal inc cur s l hl]
    simp only
    apply run_after_stop inc cur s .endIfAll _ rest (Or.inr rfl)
    simp only [decide_true]
    rw [skip_blocks true body hbody, skip_arms_all more hmore, skip_else_all els he]
    exact hstop
  | nil =>
    simp only [Arms.flatten, List.nil_append]
    cases els with
    | some l body =>
      obtain ⟨hl, hbody⟩ := he
      simp only [ElseArm.flatten, List.cons_append]
      rw [runFrom_step]
      simp only [skipStep]
      rw [step_else inc cur s l false hl]
      simp only
      apply run_after_stop inc cur s .endIfAll _ rest (Or.inr rfl)
      simp only [decide_true]
      rw [skip_blocks true body hbody]
      exact hstop
    | none =>
      simp only [ElseArm.flatten, List.nil_append]
      rw [runFrom_step]
      simp only [skipStep]
      rw [step_endif inc cur s endl false hend]

/-! ### the simulation -/

/-- unfolding of a run that starts by delivering line `l` normally -/
theorem run_cons (inc : IncludeFn) (cur : Str) (s : MSt) (l : Line) (rest : List Line) :
    runFrom inc cur s .newLine (l :: rest) =
      match lineStep inc cur s.2 s.1 l.1 l.2 false with
      | .ok (st', incs', ni') => runFrom inc cur (st', incs') ni' rest
      | .error e => .error e
      | .panic p => .panic p
      | .oof => .oof := by
  rw [runFrom_step]; rfl

theorem stop_endif (all : Bool) (endl : Line) (rest : List Line) (hend : isDir endl (· = .endif)) :
    skipCond all 0 (endl :: rest) =
      match rest with
      | [] => (none, false, [], false)
      | nx :: rest' => (some nx, false, rest', false) :=
  skip_stop_top all endl rest (by obtain ⟨d, ops, hp, hd⟩ := hend; exact ⟨d, ops, hp, Or.inl hd⟩)

/-- the body the skipper is in when no `.elif` arm holds: the last arm's, or the one before -/
def lastBody : Arms → Blocks → Blocks
  | .nil, b => b
  | .cons _ body rest, _ => lastBody rest body

theorem lastBody_wf : ∀ (arms : Arms) (b : Blocks), arms.wf → b.wf → (lastBody arms b).wf
  | .nil, b, _, hb => hb
  | .cons _ body rest, _, h, _ => lastBody_wf rest body h.2.2 h.2.1

mutual
/-- a block followed by `rest`: the run is the run of `rest` from the state the reference
    semantics reaches on the block -/
theorem sim_block (inc : IncludeFn) (cur : Str) : ∀ (b : Block), b.wf → ∀ (s : MSt) (rest : List Line),
    after (b.run (mExec inc cur) (mHolds inc cur) s) (fun s' => runFrom inc cur s' .newLine rest)
      (runFrom inc cur s .newLine (b.flatten ++ rest))
  | .plain l, _, s, rest => by
    simp only [Block.flatten, List.cons_append, List.nil_append, Block.run, mExec]
    rw [run_cons]
    cases h : lineStep inc cur s.2 s.1 l.1 l.2 false with
    | ok v =>
      obtain ⟨st', incs', ni'⟩ := v
      cases ni' <;> simp [after]
    | error e => simp [after]
    | panic p => simp [after]
    | oof => simp [after]
  | .cond hd body arms els endl, hwf, s, rest => by
    obtain ⟨hhd, hbody, harms, hels, hend⟩ := hwf
    simp only [Block.flatten, List.cons_append, Block.run, mHolds]
    rw [run_cons]
    have hk : decide (kindOf hd = .elif) = false := by rw [kind_open hd hhd]; decide
    rw [hk]
    cases h : lineStep inc cur s.2 s.1 hd.1 hd.2 false with
    | ok v =>
      obtain ⟨st', incs', ni'⟩ := v
      cases ni' with
      | newLine =>
        -- head condition holds: the body is assembled, the rest of the construct skipped
        simp only
        have hb := sim_blocks inc cur body hbody (st', incs') (arms.flatten ++ (els.flatten ++ endl :: rest))
        have e : body.flatten ++ (arms.flatten ++ (els.flatten ++ [endl])) ++ rest =
            body.flatten ++ (arms.flatten ++ (els.flatten ++ endl :: rest)) := by simp
        rw [e]
        cases hr : body.run (mExec inc cur) (mHolds inc cur) (st', incs') with
        | ok s2 =>
          rw [hr] at hb; simp only [after] at hb ⊢
          rw [hb]
          exact finish_construct inc cur s2 arms els endl rest harms hels hend
        | fail f => rw [hr] at hb; cases f <;> simpa [after] using hb
      | endIf =>
        simp only
        have e : body.flatten ++ (arms.flatten ++ (els.flatten ++ [endl])) ++ rest =
            body.flatten ++ (arms.flatten ++ (els.flatten ++ endl :: rest)) := by simp
        rw [e]
        have ha := sim_arms inc cur arms harms els hels endl hend (st', incs') rest body hbody
        cases hr : arms.run (mExec inc cur) (mHolds inc cur) (st', incs') with
        | ok v2 =>
          obtain ⟨s2, ran⟩ := v2
          rw [hr] at ha
          cases ran with
          | true => simpa [after] using ha
          | false =>
            simp only [after] at ha ⊢
            rw [ha]
            -- no arm ran: the `.else` arm, if any
            have hsk := lastBody_wf arms body harms hbody
            cases els with
            | none =>
              simp only [ElseArm.flatten, List.nil_append, ElseArm.run, after]
              apply run_after_stop inc cur s2 .endIf _ rest (Or.inl rfl)
              simp only [show decide (NextItem.endIf = NextItem.endIfAll) = false by decide]
              rw [skip_blocks false _ hsk]
              exact stop_endif false endl rest hend
            | some l ebody =>
              obtain ⟨hl, hebody⟩ := hels
              simp only [ElseArm.flatten, List.cons_append, ElseArm.run]
              have hgo : runFrom inc cur s2 .endIf ((lastBody arms body).flatten ++ (l :: (ebody.flatten ++ endl :: rest))) =
                  runFrom inc cur s2 .newLine (ebody.flatten ++ endl :: rest) := by
                apply run_after_stop inc cur s2 .endIf _ _ (Or.inl rfl)
                simp only [show decide (NextItem.endIf = NextItem.endIfAll) = false by decide]
                rw [skip_blocks false _ hsk]
                exact skip_stop_top false l _ (by obtain ⟨d, ops, hp, hd⟩ := hl; exact ⟨d, ops, hp, Or.inr ⟨hd, rfl⟩⟩)
              rw [hgo]
              have hb := sim_blocks inc cur ebody hebody s2 (endl :: rest)
              cases hr2 : ebody.run (mExec inc cur) (mHolds inc cur) s2 with
              | ok s3 =>
                rw [hr2] at hb; simp only [after] at hb ⊢
                rw [hb, run_cons, step_endif inc cur s3 endl false hend]
                obtain ⟨a3, b3⟩ := s3
                rfl
              | fail f => rw [hr2] at hb; cases f <;> simpa [after] using hb
        | fail f => rw [hr] at ha; cases f <;> simpa [after] using ha
      | endIfAll => simp [after]
      | endMacro => simp [after]
      | endFile => simp [after]
    | error e => simp [after]
    | panic p => simp [after]
    | oof => simp [after]

theorem sim_blocks (inc : IncludeFn) (cur : Str) : ∀ (bs : Blocks), bs.wf → ∀ (s : MSt) (rest : List Line),
    after (bs.run (mExec inc cur) (mHolds inc cur) s) (fun s' => runFrom inc cur s' .newLine rest)
      (runFrom inc cur s .newLine (bs.flatten ++ rest))
  | .nil, _, s, rest => by simp [Blocks.flatten, Blocks.run, after]
  | .cons b bs, hwf, s, rest => by
    simp only [Blocks.flatten, List.append_assoc, Blocks.run]
    have hb := sim_block inc cur b hwf.1 s (bs.flatten ++ rest)
    cases hr : b.run (mExec inc cur) (mHolds inc cur) s with
    | ok s2 =>
      rw [hr] at hb; simp only [after] at hb
      rw [hb]
      exact sim_blocks inc cur bs hwf.2 s2 rest
    | fail f => rw [hr] at hb; cases f <;> simpa [after] using hb

/-- searching for the next arm (`skip` in EndIf mode) from the start of an unselected body:
    the `.elif` arms in order; when none holds the search goes on from the last arm's body -/
theorem sim_arms (inc : IncludeFn) (cur : Str) : ∀ (arms : Arms), arms.wf → ∀ (els : ElseArm), els.wf →
    ∀ (endl : Line), isDir endl (· = .endif) → ∀ (s : MSt) (rest : List Line) (skipped : Blocks), skipped.wf →
    after (arms.run (mExec inc cur) (mHolds inc cur) s)
      (fun r => if r.2 then runFrom inc cur r.1 .newLine rest
        else runFrom inc cur r.1 .endIf ((lastBody arms skipped).flatten ++ (els.flatten ++ endl :: rest)))
      (runFrom inc cur s .endIf (skipped.flatten ++ (arms.flatten ++ (els.flatten ++ endl :: rest))))
  | .nil, _, els, _, endl, _, s, rest, skipped, _ => by
    simp [Arms.flatten, Arms.run, after, lastBody]
  | .cons l body more, hwf, els, hels, endl, hend, s, rest, skipped, hsk => by
    obtain ⟨hl, hbody, hmore⟩ := hwf
    simp only [Arms.flatten, List.cons_append, List.append_assoc, Arms.run, mHolds, lastBody]
    have hk : decide (kindOf l = .elif) = true := by rw [kind_elif l hl]; decide
    rw [hk]
    -- the skip stops at the `.elif` line and re-delivers it
    rw [runFrom_step]
    simp only [skipStep]
    rw [skip_blocks false skipped hsk, skip_elif_top l _ hl]
    simp only
    cases h : lineStep inc cur s.2 s.1 l.1 l.2 true with
    | ok v =>
      obtain ⟨st', incs', ni'⟩ := v
      cases ni' with
      | newLine =>
        simp only
        have hb := sim_blocks inc cur body hbody (st', incs') (more.flatten ++ (els.flatten ++ endl :: rest))
        cases hr : body.run (mExec inc cur) (mHolds inc cur) (st', incs') with
        | ok s2 =>
          rw [hr] at hb; simp only [after] at hb ⊢
          simp only [if_true]
          rw [hb]
          exact finish_construct inc cur s2 more els endl rest hmore hels hend
        | fail f => rw [hr] at hb; cases f <;> simpa [after] using hb
      | endIf =>
        simp only
        exact sim_arms inc cur more hmore els hels endl hend (st', incs') rest body hbody
      | endIfAll => simp [after]
      | endMacro => simp [after]
      | endFile => simp [after]
    | error e => simp [after]
    | panic p => simp [after]
    | oof => simp [after]
end

/-- C08: for EVERY well-formed conditional tree (any number of `.elif` arms, with or without
    `.else`, nested to any depth inside taken and untaken branches, arbitrary text — also text
    that does not parse — as payload) followed by any further lines, from every state: assembling
    the text of the tree is assembling exactly the plain lines of the selected branches, in
    order; no line of any other branch is even looked at by the line step (no code, symbol,
    message or error). -/
theorem conditional_selects (inc : IncludeFn) (cur : Str) (bs : Blocks) (hwf : bs.wf) (s : MSt) (rest : List Line) :
    after (bs.run (mExec inc cur) (mHolds inc cur) s) (fun s' => runFrom inc cur s' .newLine rest)
      (runFrom inc cur s .newLine (bs.flatten ++ rest)) :=
  sim_blocks inc cur bs hwf s rest

/-! "identical to the program with the unselected lines deleted": for a tree of plain lines only,
    `Blocks.run` is the sequential assembly of those lines, so `conditional_selects` applied to
    the tree and to the tree of its selected lines gives the metamorphic equality the property
    names; that last step (tree of selected lines, with the states threaded) is exercised by the
    correspondence run (build(src) = build(src with the unselected lines blanked)) and not yet
    stated as a theorem. -/

/-! non-vacuity: a concrete tree with garbage in the unselected branch -/
def exIf : Line := (0, ".if 0".toList)
def exGarbage : Line := (1, "  garbage here ((".toList)
def exElse : Line := (2, ".else".toList)
def exNop : Line := (3, " nop".toList)
def exEndif : Line := (4, ".endif".toList)
def exTree : Blocks :=
  .cons (.cond exIf (.cons (.plain exGarbage) .nil) .nil (.some exElse (.cons (.plain exNop) .nil)) exEndif) .nil

example : exTree.flatten = [exIf, exGarbage, exElse, exNop, exEndif] := rfl

end Avra.Props.C08
