/-
  C08 — conditional assembly assembles exactly the selected branch.

  Model: `parseIterWith` / `skipCond` / `lineStep` (parser.rs `parse_iter`, `skip`; directive.rs).
  Spec:  Avra.Spec.Cond (conditional trees; `run` = assemble the plain lines of the first
         branch whose condition holds, or of `.else`, recursively; nothing else).
-/
import Avra.Lemmas.Cond
import Avra.Lemmas.Iter
import Avra.Lemmas.Sel
namespace Avra.Props.C08
open Avra Avra.Model Avra.Spec Avra.Lemmas.Cond Avra.Lemmas.Iter Avra.Lemmas.Sel

/-- ways the model can fail on a line; `scope` marks a plain line outside the theorem's scope
    (a `.macro` or `.exit` line in a selected position changes what the following lines mean) -/
inductive MFail
  | error (e : Err) | panic (s : String) | oof | scope

abbrev MSt := PState × List Str

/-- assembling a plain line = the model's own line step (normal delivery) -/
def mExec (inc : IncludeFn) (cur : Str) (s : MSt) (l : Line) : Res MSt MFail :=
  match lineStep inc cur s.2 s.1 l.1 l.2 false with
  | .ok (st', incs', .newLine) => .ok (st', incs')
  | .ok _ => .fail .scope
  | .error e => .fail (.error e)
  | .panic p => .fail (.panic p)
  | .oof => .fail .oof

/-- evaluating the condition of a head line or of an `.elif` line = the model's own line step
    on that directive line (an `.elif` counts when it is reached by skipping) -/
def mHolds (inc : IncludeFn) (cur : Str) (s : MSt) (l : Line) : Res (MSt × Bool) MFail :=
  match lineStep inc cur s.2 s.1 l.1 l.2 (decide (kindOf l = .elif)) with
  | .ok (st', incs', .newLine) => .ok ((st', incs'), true)
  | .ok (st', incs', .endIf) => .ok ((st', incs'), false)
  | .ok _ => .fail .scope
  | .error e => .fail (.error e)
  | .panic p => .fail (.panic p)
  | .oof => .fail .oof

/-- what the whole run must be, given the outcome of the reference semantics on a prefix and the
    run on the rest; no claim when the prefix left the theorem's scope -/
def after {α : Type} (r : Res α MFail) (k : α → Out (PState × List Str)) (out : Out (PState × List Str)) : Prop :=
  match r with
  | .ok s => out = k s
  | .fail (.error e) => out = .error e
  | .fail (.panic p) => out = .panic p
  | .fail .oof => out = .oof
  | .fail .scope => True

/-! ### the line step on the directive lines of a construct -/

theorem step_endif (inc : IncludeFn) (cur : Str) (s : MSt) (l : Line) (r : Bool) (h : isDir l (· = .endif)) :
    lineStep inc cur s.2 s.1 l.1 l.2 r = .ok (s.1, s.2, .newLine) := by
  obtain ⟨d, ops, hp, hd⟩ := h
  have hd' : d = _ := hd
  subst hd'
  simp [lineStep, hp, directiveParse]

theorem step_else (inc : IncludeFn) (cur : Str) (s : MSt) (l : Line) (r : Bool) (h : isDir l (· = .else)) :
    lineStep inc cur s.2 s.1 l.1 l.2 r = .ok (s.1, s.2, .endIfAll) := by
  obtain ⟨d, ops, hp, hd⟩ := h
  have hd' : d = _ := hd
  subst hd'
  simp [lineStep, hp]

theorem step_elif_normal (inc : IncludeFn) (cur : Str) (s : MSt) (l : Line) (h : isDir l (· = .elif)) :
    lineStep inc cur s.2 s.1 l.1 l.2 false = .ok (s.1, s.2, .endIfAll) := by
  obtain ⟨d, ops, hp, hd⟩ := h
  have hd' : d = _ := hd
  subst hd'
  simp [lineStep, hp]

theorem kind_elif (l : Line) (h : isDir l (· = .elif)) : kindOf l = .elif := by
  obtain ⟨d, ops, hp, hd⟩ := h
  have hd' : d = _ := hd
  subst hd'
  simp [kindOf, hp, isCondOpen]

theorem kind_open (l : Line) (h : isDir l (fun d => isCondOpen d = true)) : kindOf l = .open := by
  obtain ⟨d, ops, hp, hd⟩ := h
  simp [kindOf, hp, hd]

/-! ### running from the end of an assembled branch to the line after `.endif` -/

/-- a skip that ends by delivering the line after a stop directive behaves like normal delivery
    of the remaining lines -/
theorem run_after_stop (inc : IncludeFn) (cur : Str) (s : MSt) (ni : NextItem) (ls rest : List Line)
    (hni : ni = .endIf ∨ ni = .endIfAll)
    (h : skipCond (decide (ni = .endIfAll)) 0 ls =
      match rest with
      | [] => (none, false, [], false)
      | nx :: rest' => (some nx, false, rest', false)) :
    runFrom inc cur s ni ls = runFrom inc cur s .newLine rest := by
  rw [runFrom_step inc cur s ni ls, runFrom_step inc cur s .newLine rest]
  rcases hni with rfl | rfl
  · simp only [skipStep] at *
    simp at h
    rw [h]
    cases rest <;> rfl
  · simp only [skipStep] at *
    simp at h
    rw [h]
    cases rest <;> rfl

/-- after an assembled branch: whatever remains of the construct (further `.elif` arms, the
    `.else` arm, the `.endif`) has no effect -/
theorem finish_construct (inc : IncludeFn) (cur : Str) (s : MSt) (arms : Arms) (els : ElseArm) (endl : Line)
    (rest : List Line) (ha : arms.wf) (he : els.wf) (hend : isDir endl (· = .endif)) :
    runFrom inc cur s .newLine (arms.flatten ++ (els.flatten ++ endl :: rest)) =
      runFrom inc cur s .newLine rest := by
  have hstop : skipCond true 0 (endl :: rest) =
      match rest with
      | [] => (none, false, [], false)
      | nx :: rest' => (some nx, false, rest', false) :=
    skip_stop_top true endl rest (by obtain ⟨d, ops, hp, hd⟩ := hend; exact ⟨d, ops, hp, Or.inl hd⟩)
  cases arms with
  | cons l body more =>
    obtain ⟨hl, hbody, hmore⟩ := ha
    simp only [Arms.flatten, List.cons_append, List.append_assoc]
    rw [runFrom_step]
    simp only [skipStep]
    rw [step_elif_normal inc cur s l hl]
    simp only
    apply run_after_stop inc cur s .endIfAll _ rest (Or.inr rfl)
    simp only [decide_true]
    rw [skip_blocks true body hbody, skip_arms_all more hmore, skip_else_all els he]
    exact hstop
  | nil =>
    simp only [Arms.flatten, List.nil_append]
    cases els with
    | some l body =>
      obtain ⟨hl, hbody⟩ := he
      simp only [ElseArm.flatten, List.cons_append]
      rw [runFrom_step]
      simp only [skipStep]
      rw [step_else inc cur s l false hl]
      simp only
      apply run_after_stop inc cur s .endIfAll _ rest (Or.inr rfl)
      simp only [decide_true]
      rw [skip_blocks true body hbody]
      exact hstop
    | none =>
      simp only [ElseArm.flatten, List.nil_append]
      rw [runFrom_step]
      simp only [skipStep]
      rw [step_endif inc cur s endl false hend]

/-! ### the simulation -/

/-- unfolding of a run that starts by delivering line `l` normally -/
theorem run_cons (inc : IncludeFn) (cur : Str) (s : MSt) (l : Line) (rest : List Line) :
    runFrom inc cur s .newLine (l :: rest) =
      match lineStep inc cur s.2 s.1 l.1 l.2 false with
      | .ok (st', incs', ni') => runFrom inc cur (st', incs') ni' rest
      | .error e => .error e
      | .panic p => .panic p
      | .oof => .oof := by
  rw [runFrom_step]; rfl

theorem stop_endif (all : Bool) (endl : Line) (rest : List Line) (hend : isDir endl (· = .endif)) :
    skipCond all 0 (endl :: rest) =
      match rest with
      | [] => (none, false, [], false)
      | nx :: rest' => (some nx, false, rest', false) :=
  skip_stop_top all endl rest (by obtain ⟨d, ops, hp, hd⟩ := hend; exact ⟨d, ops, hp, Or.inl hd⟩)

/-- the body the skipper is in when no `.elif` arm holds: the last arm's, or the one before -/
def lastBody : Arms → Blocks → Blocks
  | .nil, b => b
  | .cons _ body rest, _ => lastBody rest body

theorem lastBody_wf : ∀ (arms : Arms) (b : Blocks), arms.wf → b.wf → (lastBody arms b).wf
  | .nil, b, _, hb => hb
  | .cons _ body rest, _, h, _ => lastBody_wf rest body h.2.2 h.2.1

mutual
/-- a block followed by `rest`: the run is the run of `rest` from the state the reference
    semantics reaches on the block -/
theorem sim_block (inc : IncludeFn) (cur : Str) : ∀ (b : Block), b.wf → ∀ (s : MSt) (rest : List Line),
    after (b.run (mExec inc cur) (mHolds inc cur) s) (fun s' => runFrom inc cur s' .newLine rest)
      (runFrom inc cur s .newLine (b.flatten ++ rest))
  | .plain l, _, s, rest => by
    simp only [Block.flatten, List.cons_append, List.nil_append, Block.run, mExec]
    rw [run_cons]
    cases h : lineStep inc cur s.2 s.1 l.1 l.2 false with
    | ok v =>
      obtain ⟨st', incs', ni'⟩ := v
      cases ni' <;> simp [after]
    | error e => simp [after]
    | panic p => simp [after]
    | oof => simp [after]
  | .cond hd body arms els endl, hwf, s, rest => by
    obtain ⟨hhd, hbody, harms, hels, hend⟩ := hwf
    simp only [Block.flatten, List.cons_append, Block.run, mHolds]
    rw [run_cons]
    have hk : decide (kindOf hd = .elif) = false := by rw [kind_open hd hhd]; decide
    rw [hk]
    cases h : lineStep inc cur s.2 s.1 hd.1 hd.2 false with
    | ok v =>
      obtain ⟨st', incs', ni'⟩ := v
      cases ni' with
      | newLine =>
        -- head condition holds: the body is assembled, the rest of the construct skipped
        simp only
        have hb := sim_blocks inc cur body hbody (st', incs') (arms.flatten ++ (els.flatten ++ endl :: rest))
        have e : body.flatten ++ (arms.flatten ++ (els.flatten ++ [endl])) ++ rest =
            body.flatten ++ (arms.flatten ++ (els.flatten ++ endl :: rest)) := by simp
        rw [e]
        cases hr : body.run (mExec inc cur) (mHolds inc cur) (st', incs') with
        | ok s2 =>
          rw [hr] at hb; simp only [after] at hb ⊢
          rw [hb]
          exact finish_construct inc cur s2 arms els endl rest harms hels hend
        | fail f => rw [hr] at hb; cases f <;> simpa [after] using hb
      | endIf =>
        simp only
        have e : body.flatten ++ (arms.flatten ++ (els.flatten ++ [endl])) ++ rest =
            body.flatten ++ (arms.flatten ++ (els.flatten ++ endl :: rest)) := by simp
        rw [e]
        have ha := sim_arms inc cur arms harms els hels endl hend (st', incs') rest body hbody
        cases hr : arms.run (mExec inc cur) (mHolds inc cur) (st', incs') with
        | ok v2 =>
          obtain ⟨s2, ran⟩ := v2
          rw [hr] at ha
          cases ran with
          | true => simpa [after] using ha
          | false =>
            simp only [after] at ha ⊢
            rw [ha]
            -- no arm ran: the `.else` arm, if any
            have hsk := lastBody_wf arms body harms hbody
            cases els with
            | none =>
              simp only [ElseArm.flatten, List.nil_append, ElseArm.run, after]
              apply run_after_stop inc cur s2 .endIf _ rest (Or.inl rfl)
              simp only [show decide (NextItem.endIf = NextItem.endIfAll) = false by decide]
              rw [skip_blocks false _ hsk]
              exact stop_endif false endl rest hend
            | some l ebody =>
              obtain ⟨hl, hebody⟩ := hels
              simp only [ElseArm.flatten, List.cons_append, ElseArm.run]
              have hgo : runFrom inc cur s2 .endIf ((lastBody arms body).flatten ++ (l :: (ebody.flatten ++ endl :: rest))) =
                  runFrom inc cur s2 .newLine (ebody.flatten ++ endl :: rest) := by
                apply run_after_stop inc cur s2 .endIf _ _ (Or.inl rfl)
                simp only [show decide (NextItem.endIf = NextItem.endIfAll) = false by decide]
                rw [skip_blocks false _ hsk]
                exact skip_stop_top false l _ (by obtain ⟨d, ops, hp, hd⟩ := hl; exact ⟨d, ops, hp, Or.inr ⟨hd, rfl⟩⟩)
              rw [hgo]
              have hb := sim_blocks inc cur ebody hebody s2 (endl :: rest)
              cases hr2 : ebody.run (mExec inc cur) (mHolds inc cur) s2 with
              | ok s3 =>
                rw [hr2] at hb; simp only [after] at hb ⊢
                rw [hb, run_cons, step_endif inc cur s3 endl false hend]
                obtain ⟨a3, b3⟩ := s3
                rfl
              | fail f => rw [hr2] at hb; cases f <;> simpa [after] using hb
        | fail f => rw [hr] at ha; cases f <;> simpa [after] using ha
      | endIfAll => simp [after]
      | endMacro => simp [after]
      | endFile => simp [after]
    | error e => simp [after]
    | panic p => simp [after]
    | oof => simp [after]

theorem sim_blocks (inc : IncludeFn) (cur : Str) : ∀ (bs : Blocks), bs.wf → ∀ (s : MSt) (rest : List Line),
    after (bs.run (mExec inc cur) (mHolds inc cur) s) (fun s' => runFrom inc cur s' .newLine rest)
      (runFrom inc cur s .newLine (bs.flatten ++ rest))
  | .nil, _, s, rest => by simp [Blocks.flatten, Blocks.run, after]
  | .cons b bs, hwf, s, rest => by
    simp only [Blocks.flatten, List.append_assoc, Blocks.run]
    have hb := sim_block inc cur b hwf.1 s (bs.flatten ++ rest)
    cases hr : b.run (mExec inc cur) (mHolds inc cur) s with
    | ok s2 =>
      rw [hr] at hb; simp only [after] at hb
      rw [hb]
      exact sim_blocks inc cur bs hwf.2 s2 rest
    | fail f => rw [hr] at hb; cases f <;> simpa [after] using hb

/-- searching for the next arm (`skip` in EndIf mode) from the start of an unselected body:
    the `.elif` arms in order; when none holds the search goes on from the last arm's body -/
theorem sim_arms (inc : IncludeFn) (cur : Str) : ∀ (arms : Arms), arms.wf → ∀ (els : ElseArm), els.wf →
    ∀ (endl : Line), isDir endl (· = .endif) → ∀ (s : MSt) (rest : List Line) (skipped : Blocks), skipped.wf →
    after (arms.run (mExec inc cur) (mHolds inc cur) s)
      (fun r => if r.2 then runFrom inc cur r.1 .newLine rest
        else runFrom inc cur r.1 .endIf ((lastBody arms skipped).flatten ++ (els.flatten ++ endl :: rest)))
      (runFrom inc cur s .endIf (skipped.flatten ++ (arms.flatten ++ (els.flatten ++ endl :: rest))))
  | .nil, _, els, _, endl, _, s, rest, skipped, _ => by
    simp [Arms.flatten, Arms.run, after, lastBody]
  | .cons l body more, hwf, els, hels, endl, hend, s, rest, skipped, hsk => by
    obtain ⟨hl, hbody, hmore⟩ := hwf
    simp only [Arms.flatten, List.cons_append, List.append_assoc, Arms.run, mHolds, lastBody]
    have hk : decide (kindOf l = .elif) = true := by rw [kind_elif l hl]; decide
    rw [hk]
    -- the skip stops at the `.elif` line and re-delivers it
    rw [runFrom_step]
    simp only [skipStep]
    rw [skip_blocks false skipped hsk, skip_elif_top l _ hl]
    simp only
    cases h : lineStep inc cur s.2 s.1 l.1 l.2 true with
    | ok v =>
      obtain ⟨st', incs', ni'⟩ := v
      cases ni' with
      | newLine =>
        simp only
        have hb := sim_blocks inc cur body hbody (st', incs') (more.flatten ++ (els.flatten ++ endl :: rest))
        cases hr : body.run (mExec inc cur) (mHolds inc cur) (st', incs') with
        | ok s2 =>
          rw [hr] at hb; simp only [after] at hb ⊢
          simp only [if_true]
          rw [hb]
          exact finish_construct inc cur s2 more els endl rest hmore hels hend
        | fail f => rw [hr] at hb; cases f <;> simpa [after] using hb
      | endIf =>
        simp only
        exact sim_arms inc cur more hmore els hels endl hend (st', incs') rest body hbody
      | endIfAll => simp [after]
      | endMacro => simp [after]
      | endFile => simp [after]
    | error e => simp [after]
    | panic p => simp [after]
    | oof => simp [after]
end

/-- C08: for EVERY well-formed conditional tree (any number of `.elif` arms, with or without
    `.else`, nested to any depth inside taken and untaken branches, arbitrary text — also text
    that does not parse — as payload) followed by any further lines, from every state: assembling
    the text of the tree is assembling exactly the plain lines of the selected branches, in
    order; no line of any other branch is even looked at by the line step (no code, symbol,
    message or error). -/
theorem conditional_selects (inc : IncludeFn) (cur : Str) (bs : Blocks) (hwf : bs.wf) (s : MSt) (rest : List Line) :
    after (bs.run (mExec inc cur) (mHolds inc cur) s) (fun s' => runFrom inc cur s' .newLine rest)
      (runFrom inc cur s .newLine (bs.flatten ++ rest)) :=
  sim_blocks inc cur bs hwf s rest

/-! ### "identical to the program with the unselected lines deleted" -/

/-- evaluating the condition of a head line or of an `.elif` line does not change the state -/
theorem mHolds_pure (inc : IncludeFn) (cur : Str) (l : Line)
    (h : isDir l (fun d => isCondOpen d = true) ∨ isDir l (· = .elif)) (s s' : MSt) (b : Bool)
    (hh : mHolds inc cur s l = .ok (s', b)) : s' = s := by
  have hk : kindOf l = .open ∨ kindOf l = .elif := by
    rcases h with h | h
    · exact Or.inl (kind_open l h)
    · exact Or.inr (kind_elif l h)
  have hdir : ∃ d ops, parseLine l.2 = (some (.directiveLine none d ops), false) ∧
      (d = .if ∨ d = .ifdef ∨ d = .ifndef ∨ d = .elif) ∧ (d = .elif → kindOf l = .elif) := by
    rcases h with ⟨d, ops, hp, hd⟩ | ⟨d, ops, hp, hd⟩
    · refine ⟨d, ops, hp, ?_, ?_⟩
      · simp only [isCondOpen, decide_eq_true_eq] at hd
        rcases hd with hd | hd | hd <;> simp [hd]
      · intro he; subst he; simp [isCondOpen] at hd
    · have hd' : d = _ := hd
      subst hd'
      exact ⟨_, ops, hp, by simp, fun _ => kind_elif l ⟨_, ops, hp, rfl⟩⟩
  obtain ⟨d, ops, hp, hd, hke⟩ := hdir
  unfold mHolds at hh
  obtain ⟨st, incs⟩ := s
  simp only at hh
  have hstep : ∀ r, lineStep inc cur incs st l.1 l.2 (decide (kindOf l = .elif)) = .ok r → r.1 = st ∧ r.2.1 = incs := by
    intro r hr
    unfold lineStep at hr
    simp only [hp] at hr
    rcases hd with rfl | rfl | rfl | rfl
    all_goals
      first
        | (simp only [hke rfl, decide_true] at hr)
        | skip
      unfold directiveParse at hr
      simp at hr
      repeat' split at hr
      all_goals first
        | (simp [lineErr] at hr; done)
        | (simp only [Out.ok.injEq] at hr; subst hr; exact ⟨rfl, rfl⟩)
  cases hl : lineStep inc cur incs st l.1 l.2 (decide (kindOf l = .elif)) with
  | ok r =>
    obtain ⟨st', incs', ni⟩ := r
    have := hstep _ hl
    rw [hl] at hh
    cases ni <;> simp at hh <;> (obtain ⟨hs, _⟩ := hh; rw [← hs]; simp_all)
  | error e => rw [hl] at hh; simp at hh
  | panic p => rw [hl] at hh; simp at hh
  | oof => rw [hl] at hh; simp at hh

mutual
theorem block_condLines_dir : ∀ (b : Block), b.wf → ∀ l ∈ b.condLines,
    isDir l (fun d => isCondOpen d = true) ∨ isDir l (· = .elif)
  | .plain _, _, l, hl => by simp [Block.condLines] at hl
  | .cond hd body arms els endl, h, l, hl => by
    obtain ⟨hhd, hbody, harms, hels, _⟩ := h
    simp only [Block.condLines, List.mem_cons, List.mem_append] at hl
    rcases hl with rfl | hl | hl | hl
    · exact Or.inl hhd
    · exact blocks_condLines_dir body hbody l hl
    · exact arms_condLines_dir arms harms l hl
    · exact else_condLines_dir els hels l hl
theorem blocks_condLines_dir : ∀ (bs : Blocks), bs.wf → ∀ l ∈ bs.condLines,
    isDir l (fun d => isCondOpen d = true) ∨ isDir l (· = .elif)
  | .nil, _, l, hl => by simp [Blocks.condLines] at hl
  | .cons b bs, h, l, hl => by
    simp only [Blocks.condLines, List.mem_append] at hl
    rcases hl with hl | hl
    · exact block_condLines_dir b h.1 l hl
    · exact blocks_condLines_dir bs h.2 l hl
theorem arms_condLines_dir : ∀ (a : Arms), a.wf → ∀ l ∈ a.condLines,
    isDir l (fun d => isCondOpen d = true) ∨ isDir l (· = .elif)
  | .nil, _, l, hl => by simp [Arms.condLines] at hl
  | .cons x body rest, h, l, hl => by
    obtain ⟨hx, hbody, hrest⟩ := h
    simp only [Arms.condLines, List.mem_cons, List.mem_append] at hl
    rcases hl with rfl | hl | hl
    · exact Or.inr hx
    · exact blocks_condLines_dir body hbody l hl
    · exact arms_condLines_dir rest hrest l hl
theorem else_condLines_dir : ∀ (e : ElseArm), e.wf → ∀ l ∈ e.condLines,
    isDir l (fun d => isCondOpen d = true) ∨ isDir l (· = .elif)
  | .none, _, l, hl => by simp [ElseArm.condLines] at hl
  | .some x body, h, l, hl => by
    simp only [ElseArm.condLines] at hl
    exact blocks_condLines_dir body h.2 l hl
end

/-- the lines a tree selects are plain lines of the tree -/
def PlainOk (ls : List Line) : Prop := ∀ l ∈ ls, kindOf l = .other ∧ noOof l

theorem PlainOk.append {a b : List Line} (ha : PlainOk a) (hb : PlainOk b) : PlainOk (a ++ b) := by
  intro l hl; rcases List.mem_append.mp hl with h | h; exact ha l h; exact hb l h

mutual
theorem block_sel_plain {St F : Type} (exec : St → Line → Res St F) (holds : St → Line → Res (St × Bool) F) :
    ∀ (b : Block), b.wf → ∀ (s s' : St) (ls : List Line), b.sel exec holds s = .ok (s', ls) → PlainOk ls
  | .plain l, h, s, s', ls, hs => by
    simp only [Block.sel] at hs
    cases he : exec s l with
    | ok st' =>
      rw [he] at hs; simp only [Res.ok.injEq, Prod.mk.injEq] at hs
      rw [← hs.2]; intro x hx; simp at hx; subst hx; exact h
    | fail e => rw [he] at hs; cases hs
  | .cond hd body arms els endl, h, s, s', ls, hs => by
    obtain ⟨_, hbody, harms, hels, _⟩ := h
    simp only [Block.sel] at hs
    cases hh : holds s hd with
    | fail e => rw [hh] at hs; cases hs
    | ok v =>
      obtain ⟨st, t⟩ := v
      rw [hh] at hs
      cases t with
      | true => exact blocks_sel_plain exec holds body hbody st s' ls hs
      | false =>
        simp only at hs
        cases ha : arms.sel exec holds st with
        | fail e => rw [ha] at hs; cases hs
        | ok w =>
          obtain ⟨st2, l2, t2⟩ := w
          rw [ha] at hs
          cases t2 with
          | true =>
            simp only [Res.ok.injEq, Prod.mk.injEq] at hs
            rw [← hs.2]; exact arms_sel_plain exec holds arms harms st st2 l2 true ha
          | false => exact else_sel_plain exec holds els hels st2 s' ls hs
theorem blocks_sel_plain {St F : Type} (exec : St → Line → Res St F) (holds : St → Line → Res (St × Bool) F) :
    ∀ (bs : Blocks), bs.wf → ∀ (s s' : St) (ls : List Line), bs.sel exec holds s = .ok (s', ls) → PlainOk ls
  | .nil, _, s, s', ls, hs => by
    simp only [Blocks.sel, Res.ok.injEq, Prod.mk.injEq] at hs
    rw [← hs.2]; intro x hx; cases hx
  | .cons b bs, h, s, s', ls, hs => by
    simp only [Blocks.sel] at hs
    cases hb : b.sel exec holds s with
    | fail e => rw [hb] at hs; cases hs
    | ok v =>
      obtain ⟨st, l1⟩ := v
      rw [hb] at hs
      simp only at hs
      cases hbs : bs.sel exec holds st with
      | fail e => rw [hbs] at hs; cases hs
      | ok w =>
        obtain ⟨st2, l2⟩ := w
        rw [hbs] at hs
        simp only [Res.ok.injEq, Prod.mk.injEq] at hs
        rw [← hs.2]
        exact (block_sel_plain exec holds b h.1 s st l1 hb).append (blocks_sel_plain exec holds bs h.2 st st2 l2 hbs)
theorem arms_sel_plain {St F : Type} (exec : St → Line → Res St F) (holds : St → Line → Res (St × Bool) F) :
    ∀ (a : Arms), a.wf → ∀ (s s' : St) (ls : List Line) (t : Bool), a.sel exec holds s = .ok (s', ls, t) → PlainOk ls
  | .nil, _, s, s', ls, t, hs => by
    simp only [Arms.sel, Res.ok.injEq, Prod.mk.injEq] at hs
    rw [← hs.2.1]; intro x hx; cases hx
  | .cons x body rest, h, s, s', ls, t, hs => by
    obtain ⟨_, hbody, hrest⟩ := h
    simp only [Arms.sel] at hs
    cases hh : holds s x with
    | fail e => rw [hh] at hs; cases hs
    | ok v =>
      obtain ⟨st, tt⟩ := v
      rw [hh] at hs
      cases tt with
      | true =>
        simp only at hs
        cases hb : body.sel exec holds st with
        | fail e => rw [hb] at hs; cases hs
        | ok w =>
          obtain ⟨st2, l2⟩ := w
          rw [hb] at hs
          simp only [Res.ok.injEq, Prod.mk.injEq] at hs
          rw [← hs.2.1]; exact blocks_sel_plain exec holds body hbody st st2 l2 hb
      | false => exact arms_sel_plain exec holds rest hrest st s' ls t hs
theorem else_sel_plain {St F : Type} (exec : St → Line → Res St F) (holds : St → Line → Res (St × Bool) F) :
    ∀ (e : ElseArm), e.wf → ∀ (s s' : St) (ls : List Line), e.sel exec holds s = .ok (s', ls) → PlainOk ls
  | .none, _, s, s', ls, hs => by
    simp only [ElseArm.sel, Res.ok.injEq, Prod.mk.injEq] at hs
    rw [← hs.2]; intro x hx; cases hx
  | .some x body, h, s, s', ls, hs => by
    simp only [ElseArm.sel] at hs
    exact blocks_sel_plain exec holds body h.2 s s' ls hs
end

theorem plainBlocks_wf : ∀ (ls : List Line), PlainOk ls → (plainBlocks ls).wf
  | [], _ => trivial
  | l :: ls, h => ⟨h l (by simp), plainBlocks_wf ls (fun x hx => h x (by simp [hx]))⟩

/-- **C08, second half.**  When the program assembles, it assembles to the same state as the
    program with every unselected line — and every `.if/.ifdef/.ifndef/.elif/.else/.endif` line —
    DELETED: `ls` are exactly the plain lines of the selected branches, in order (`Blocks.sel`),
    and running the loop over the whole text equals running it over `ls` alone.  For every
    well-formed tree, every nesting, every state, whatever follows (`rest`). -/
theorem unselected_deleted (inc : IncludeFn) (cur : Str) (bs : Blocks) (hwf : bs.wf) (s s' : MSt)
    (ls rest : List Line) (hsel : bs.sel (mExec inc cur) (mHolds inc cur) s = .ok (s', ls)) :
    runFrom inc cur s .newLine (bs.flatten ++ rest) = runFrom inc cur s .newLine (ls ++ rest) := by
  have hrun := blocks_sel_run (mExec inc cur) (mHolds inc cur) bs s s' ls hsel
  have h1 := conditional_selects inc cur bs hwf s rest
  rw [hrun] at h1
  have hpure : PureConds (mHolds inc cur) bs.condLines := by
    intro l hl st st' b hh
    exact mHolds_pure inc cur l (blocks_condLines_dir bs hwf l hl) st st' b hh
  have hlines := blocks_sel_lines (mExec inc cur) (mHolds inc cur) bs hpure s s' ls hsel
  have hplain := blocks_sel_plain (mExec inc cur) (mHolds inc cur) bs hwf s s' ls hsel
  have h2 := conditional_selects inc cur (plainBlocks ls) (plainBlocks_wf ls hplain) s rest
  rw [plain_run, hlines, plain_flatten] at h2
  simp only [after] at h1 h2
  rw [h1, h2]

/-! ### what the three kinds of head test -/

/-- `.ifdef NAME` / `.ifndef NAME` look at the `.define` flags ONLY (exact spelling): symbols,
    labels, aliases and macros of that name do not count; the state is left as it is -/
theorem ifdef_reads_flags_only (inc : IncludeFn) (cur : Str) (incs : List Str) (st : PState) (name : Str) (ln : Nat) :
    directiveParse inc cur incs st .ifdef (.opList [.e (.ident name)]) ln =
      .ok (st, incs, if (alookup name st.ctx.defines).isSome then .newLine else .endIf) ∧
    directiveParse inc cur incs st .ifndef (.opList [.e (.ident name)]) ln =
      .ok (st, incs, if (alookup name st.ctx.defines).isSome then .endIf else .newLine) := by
  constructor <;> (simp only [directiveParse, List.head?_cons]; cases (alookup name st.ctx.defines).isSome <;> simp)

/-- `.define NAME` sets exactly that flag -/
theorem define_sets_flag (inc : IncludeFn) (cur : Str) (incs : List Str) (st : PState) (name : Str) (ln : Nat) :
    directiveParse inc cur incs st .define (.opList [.e (.ident name)]) ln =
      .ok ({ st with ctx := { st.ctx with defines := ainsert name (.const 0) st.ctx.defines } }, incs, .newLine) := by
  simp [directiveParse]

/-! non-vacuity: a concrete tree with garbage in the unselected branch -/
def exIf : Line := (0, ".if 0".toList)
def exGarbage : Line := (1, "  garbage here ((".toList)
def exElse : Line := (2, ".else".toList)
def exNop : Line := (3, " nop".toList)
def exEndif : Line := (4, ".endif".toList)
def exTree : Blocks :=
  .cons (.cond exIf (.cons (.plain exGarbage) .nil) .nil (.some exElse (.cons (.plain exNop) .nil)) exEndif) .nil

example : exTree.flatten = [exIf, exGarbage, exElse, exNop, exEndif] := rfl

end Avra.Props.C08
