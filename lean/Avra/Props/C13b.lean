/-
  C13 inside pass 2: an instruction the selected device lacks ends the build with an error that
  names its line; an instruction it has assembles to the same bytes as on any other device
  (lds/sts excepted: the reduced core has its own one-word form).
-/
import Avra.Props.C13
import Avra.Props.C03b
import Avra.Lemmas.Resolve
import Avra.Props.C16
namespace Avra.Props.C13b
open Avra Avra.Model Avra.Isa Avra.Lemmas Avra.Props.Enc Avra.Props.C13 Avra.Props.C03b

/-- an instruction that needs a feature the device lacks (by the independent table of
    requirements, `Spec.allowed`) fails the build, naming the line -/
theorem gated_item_rejected (t : SegT) (ln : Nat) (op : Op) (args : List IOp) (rest : List (Nat × Item))
    (cur : Nat) (acc : List Nat) (ctx : Ctx) (h : Spec.allowed ctx.device.opts op args = false) :
    pass2Items t ((ln, .instruction op args) :: rest) cur acc ctx =
      .error ⟨some ln, "not-allowed-for-device"⟩ := by
  have hg : checkInstruction (atPc ctx cur).device op args = false := by
    rw [gate_exact]; exact h
  conv => lhs; unfold pass2Items
  show (if checkInstruction (atPc ctx cur).device op args then
      match process (atPc ctx cur) op args cur with
        | .ok bytes => pass2Items t rest (cur + bytes.length / 2) (acc ++ bytes) (atPc ctx cur)
        | .err => lineErr ln "instruction"
        | .oof => .oof
      else lineErr ln "not-allowed-for-device") = _
  rw [hg]; rfl

/-- … and one it has goes to the encoder -/
theorem allowed_item (t : SegT) (ln : Nat) (op : Op) (args : List IOp) (rest : List (Nat × Item))
    (cur : Nat) (acc : List Nat) (ctx : Ctx) (h : Spec.allowed ctx.device.opts op args = true) :
    pass2Items t ((ln, .instruction op args) :: rest) cur acc ctx =
      match process (atPc ctx cur) op args cur with
      | .ok bytes => pass2Items t rest (cur + bytes.length / 2) (acc ++ bytes) (atPc ctx cur)
      | .err => .error ⟨some ln, "instruction"⟩
      | .oof => .oof := by
  have hg : checkInstruction (atPc ctx cur).device op args = true := by
    rw [gate_exact]; exact h
  conv => lhs; unfold pass2Items
  show (if checkInstruction (atPc ctx cur).device op args then
      match process (atPc ctx cur) op args cur with
        | .ok bytes => pass2Items t rest (cur + bytes.length / 2) (acc ++ bytes) (atPc ctx cur)
        | .err => lineErr ln "instruction"
        | .oof => .oof
      else lineErr ln "not-allowed-for-device") = _
  rw [hg]; rfl

/-! ### the encoder looks at the device through the reduced-core flag only -/

theorem symAt_device (c : Ctx) (d : Device) : ∀ k name, symAt { c with device := d } k name = symAt c k name := by
  intro k
  induction k with
  | zero => intro name; rfl
  | succ k ih =>
    intro name
    have : symAt { c with device := d } k = symAt c k := funext ih
    simp only [symAt, this]
    rfl

theorem eval_device (c : Ctx) (d : Device) (e : Expr) : eval { c with device := d } e = eval c e := by
  unfold eval
  rw [show symAt { c with device := d } maxSymbolDepth = symAt c maxSymbolDepth from funext (symAt_device c d _)]

theorem resolveOne_device (c : Ctx) (d : Device) (a : Acc) (o : IOp) :
    resolveOne { c with device := d } a o = resolveOne c a o := by
  cases a with
  | reg => cases o <;> rfl
  | val => cases o <;> simp [resolveOne, asVal, eval_device]
  | idx =>
    cases o with
    | index i => cases i <;> simp [resolveOne, asIdx, resolveIndex, eval_device]
    | r8 n => rfl
    | e e => rfl

theorem resolve_device (c : Ctx) (d : Device) : ∀ (accs : List Acc) (args : List IOp),
    resolve { c with device := d } accs args = resolve c accs args := by
  intro accs args
  induction args generalizing accs with
  | nil => cases accs <;> rfl
  | cons o os ih =>
    cases accs with
    | nil => simp only [resolve, ih]
    | cons a as => simp only [resolve, resolveOne_device, ih]

/-- **C13, second half, for whole instructions**: on any two devices an instruction other than
    lds/sts — any mnemonic, any operands, any symbols and aliases — assembles to the same bytes
    (or fails alike): the device decides only WHETHER it is admitted (`gate_exact`), never what it
    assembles to. -/
theorem same_bytes_on_every_device (c : Ctx) (d : Device) (op : Op) (args : List IOp) (addr : Nat)
    (hstd : ∀ n, op ≠ .custom n) (hc : ctxRegsOk c) (hargs : iopsOk args)
    (hlds : op ≠ .lds) (hsts : op ≠ .sts) :
    process { c with device := d } op args addr = process c op args addr := by
  cases hres : resolve c (accessors op) args with
  | none => have := C16.resolve_some c (accessors op) args; rw [hres] at this; cases this
  | some r =>
    have hres' : resolve { c with device := d } (accessors op) args = some r := by rw [resolve_device]; exact hres
    have hr := resolve_regsOk c hc _ _ _ hargs hres
    rw [process_eq c op args addr r hres, process_eq _ op args addr r hres']
    rw [device_frame ({ c with device := d } : Ctx).device.isAvr8l c.device.isAvr8l op r addr hstd hr hlds hsts]

/-! non-vacuity -/
example : (alookup "ATtiny13".toList Gen.devices).map (fun d => Spec.allowed d.opts .muls [.r8 16, .r8 17]) = some false := by decide
example : (alookup "ATmega8".toList Gen.devices).map (fun d => Spec.allowed d.opts .muls [.r8 16, .r8 17]) = some true := by decide

end Avra.Props.C13b
