/-
  C09, the splice: what pass 0 does with the segments an expansion yields.  A call of a macro
  whose substituted body parses to plain items in the segment the call stands in is replaced by
  exactly those items, in order, at the place of the call — "assembles exactly what its body
  would assemble at that point".
-/
import Avra.Props.C09
namespace Avra.Props.C09b
open Avra Avra.Model

/-- no macro call among the items -/
def NoCalls (items : List (Nat × Item)) : Prop := ∀ ln name ops, (ln, Item.instruction (.custom name) ops) ∉ items

/-- the items appended, in order, to the segment the state is in -/
def pushAll (st : PState) (items : List (Nat × Item)) : PState :=
  items.foldl (fun st x => st.pushToLast x.1 x.2) st

theorem noCalls_tail {x : Nat × Item} {xs : List (Nat × Item)} (h : NoCalls (x :: xs)) : NoCalls xs :=
  fun ln name ops hm => h ln name ops (List.mem_cons_of_mem _ hm)

/-- items without macro calls pass through pass 0 unchanged, whatever the nesting level -/
theorem pass0Items_plain (fs : Fs) (macros : List (Str × List (Nat × Str))) (allow : Bool)
    (inner : PState → List (Nat × Item) → Out PState) :
    ∀ (items : List (Nat × Item)) (st : PState), NoCalls items →
      pass0Items fs macros allow inner st items = .ok (pushAll st items) := by
  intro items
  induction items with
  | nil => intro st _; rfl
  | cons x xs ih =>
    intro st h
    obtain ⟨ln, it⟩ := x
    have hx : ∀ name ops, it ≠ .instruction (.custom name) ops := by
      intro name ops he; subst he; exact h ln name ops (by simp)
    have ht := ih (st.pushToLast ln it) (noCalls_tail h)
    unfold pass0Items
    split
    · rename_i name ops; exact absurd rfl (hx name ops)
    · simpa [pushAll] using ht

theorem pass0At_plain (fs : Fs) (macros : List (Str × List (Nat × Str))) (d : Nat)
    (items : List (Nat × Item)) (st : PState) (h : NoCalls items) :
    pass0At fs macros d st items = .ok (pushAll st items) := by
  cases d with
  | zero => exact pass0Items_plain fs macros false _ items st h
  | succ d => exact pass0Items_plain fs macros true _ items st h

/-- **The splice.**  A macro call whose expansion is one segment of plain items, in the segment
    and at the address the call stands in (no `.org`, no segment directive in the body): pass 0
    goes on after the call exactly as if the items of the expansion — what the body parses to with
    the arguments substituted — had stood in place of the call.  At every nesting level below the
    limit; the context, macro table and messages are those the body's lines left. -/
theorem macro_call_splices (fs : Fs) (macros : List (Str × List (Nat × Str))) (d : Nat) (st st1 : PState)
    (ln : Nat) (name : Str) (ops : List IOp) (rest : List (Nat × Item)) (s0 : Segment)
    (hexp : macroExpand fs macros st ln name ops = .ok (st1, [s0]))
    (hsame : s0.address = st1.lastSeg.address ∧ s0.t = st1.lastSeg.t)
    (hplain : NoCalls s0.items) :
    pass0At fs macros (d + 1) st ((ln, .instruction (.custom name) ops) :: rest) =
    pass0At fs macros (d + 1) (pushAll st1 s0.items) rest := by
  show pass0Items fs macros true (pass0At fs macros d) st ((ln, .instruction (.custom name) ops) :: rest) =
    pass0Items fs macros true (pass0At fs macros d) (pushAll st1 s0.items) rest
  conv => lhs; unfold pass0Items
  simp only [hexp, Bool.not_true, Bool.false_eq_true, if_false]
  have hno : ¬ (s0.address ≠ st1.lastSeg.address ∨ s0.t ≠ st1.lastSeg.t) := by
    simp [hsame.1, hsame.2]
  simp only [hno, if_false, pass0At_plain fs macros d s0.items st1 hplain, pass0Segs]

/-- **Macros calling macros.**  The items of an expansion are themselves run through pass 0, one
    nesting level deeper, from the state the body's lines left; after them pass 0 goes on behind
    the call.  (One segment, in place; `macro_call_splices` is the case without inner calls.) -/
theorem macro_call_expands_body (fs : Fs) (macros : List (Str × List (Nat × Str))) (d : Nat) (st st1 : PState)
    (ln : Nat) (name : Str) (ops : List IOp) (rest : List (Nat × Item)) (s0 : Segment)
    (hexp : macroExpand fs macros st ln name ops = .ok (st1, [s0]))
    (hsame : s0.address = st1.lastSeg.address ∧ s0.t = st1.lastSeg.t) :
    pass0At fs macros (d + 1) st ((ln, .instruction (.custom name) ops) :: rest) =
      match pass0At fs macros d st1 s0.items with
      | .ok st3 => pass0At fs macros (d + 1) st3 rest
      | .error e => .error e
      | .panic p => .panic p
      | .oof => .oof := by
  show pass0Items fs macros true (pass0At fs macros d) st ((ln, .instruction (.custom name) ops) :: rest) = _
  conv => lhs; unfold pass0Items
  simp only [hexp, Bool.not_true, Bool.false_eq_true, if_false]
  have hno : ¬ (s0.address ≠ st1.lastSeg.address ∨ s0.t ≠ st1.lastSeg.t) := by
    simp [hsame.1, hsame.2]
  simp only [hno, if_false]
  cases h : pass0At fs macros d st1 s0.items with
  | ok st3 => simp only [pass0Segs]; rfl
  | error e => rfl
  | panic p => rfl
  | oof => rfl

/-- an expansion that yields nothing (an empty body, or only lines that leave no item): the call
    disappears -/
theorem empty_expansion (fs : Fs) (macros : List (Str × List (Nat × Str))) (d : Nat) (st st1 : PState)
    (ln : Nat) (name : Str) (ops : List IOp) (rest : List (Nat × Item))
    (hexp : macroExpand fs macros st ln name ops = .ok (st1, [])) :
    pass0At fs macros (d + 1) st ((ln, .instruction (.custom name) ops) :: rest) =
    pass0At fs macros (d + 1) st1 rest := by
  show pass0Items fs macros true (pass0At fs macros d) st ((ln, .instruction (.custom name) ops) :: rest) =
    pass0Items fs macros true (pass0At fs macros d) st1 rest
  conv => lhs; unfold pass0Items
  simp only [hexp, Bool.not_true, Bool.false_eq_true, if_false]

/-- a failing expansion (a body line that does not parse, `.error` in the body, a missing macro)
    fails the build with the error of the expansion -/
theorem failing_expansion (fs : Fs) (macros : List (Str × List (Nat × Str))) (d : Nat) (st : PState)
    (ln : Nat) (name : Str) (ops : List IOp) (rest : List (Nat × Item)) (e : Err)
    (hexp : macroExpand fs macros st ln name ops = .error e) :
    pass0At fs macros (d + 1) st ((ln, .instruction (.custom name) ops) :: rest) = .error e := by
  show pass0Items fs macros true (pass0At fs macros d) st ((ln, .instruction (.custom name) ops) :: rest) = _
  conv => lhs; unfold pass0Items
  simp only [hexp, Bool.not_true, Bool.false_eq_true, if_false]

/-- at the nesting limit a call is an error naming the call -/
theorem too_deep (fs : Fs) (macros : List (Str × List (Nat × Str))) (st : PState)
    (ln : Nat) (name : Str) (ops : List IOp) (rest : List (Nat × Item)) :
    pass0At fs macros 0 st ((ln, .instruction (.custom name) ops) :: rest) = .error ⟨some ln, "macro-depth"⟩ := by
  show pass0Items fs macros false _ st ((ln, .instruction (.custom name) ops) :: rest) = _
  conv => lhs; unfold pass0Items
  simp [lineErr]

end Avra.Props.C09b
