/-
  C02 in the property's own words: the value of a label anywhere in a code segment is the word
  address right behind the bytes pass 2 emits for the items before it (`label_lands`), from the
  lockstep of the two passes (`C02.code_lockstep`) and the fact that both passes work through a
  list piece by piece (`pass1Items_append`, `pass2Items_append`).
-/
import Avra.Props.C02
import Avra.Props.C12
namespace Avra.Props.C02b
open Avra Avra.Model Avra.Props.C02

/-- pass 1 over a list that is cut in two: the first part alone ends where the second goes on -/
theorem pass1Items_append (t : SegT) (limit : Nat) (rest : List (Nat × Item)) : ∀ (pre : List (Nat × Item)) (cur : Nat) (ctx : Ctx)
    (e : Nat) (its : List (Nat × Item)) (ctx' : Ctx),
    pass1Items t limit (pre ++ rest) cur ctx = .ok (e, its, ctx') →
    ∃ e1 its1 ctx1 its2, pass1Items t limit pre cur ctx = .ok (e1, its1, ctx1) ∧
      pass1Items t limit rest e1 ctx1 = .ok (e, its2, ctx') ∧ its = its1 ++ its2 := by
  intro pre
  induction pre with
  | nil =>
    intro cur ctx e its ctx' h
    have hc : ¬ cur > limit := by
      intro hc
      simp only [List.nil_append] at h
      cases rest with
      | nil => unfold pass1Items at h; simp [hc, noLineErr] at h
      | cons x xs => obtain ⟨ln, it⟩ := x; unfold pass1Items at h; simp [hc, lineErr] at h
    refine ⟨cur, [], ctx, its, ?_, by simpa using h, rfl⟩
    unfold pass1Items; simp [hc]
  | cons x pre ih =>
    obtain ⟨ln, it⟩ := x
    intro cur ctx e its ctx' h
    simp only [List.cons_append] at h
    generalize hR : pass1Items t limit rest = R at ih ⊢
    have viaCons : ∀ (y : Item) (cur' : Nat) (c' : Ctx),
        consItem (ln, y) (pass1Items t limit (pre ++ rest) cur' c') = .ok (e, its, ctx') →
        ∃ e1 its1 ctx1 its2, consItem (ln, y) (pass1Items t limit pre cur' c') = .ok (e1, its1, ctx1) ∧
          R e1 ctx1 = .ok (e, its2, ctx') ∧ its = its1 ++ its2 := by
      intro y cur' c' hc
      cases hr : pass1Items t limit (pre ++ rest) cur' c' with
      | ok v =>
        obtain ⟨e0, o0, c0⟩ := v
        rw [hr] at hc
        simp only [consItem, Out.ok.injEq, Prod.mk.injEq] at hc
        obtain ⟨rfl, rfl, rfl⟩ := hc
        obtain ⟨e1, its1, ctx1, its2, h1, h2, h3⟩ := ih cur' c' _ _ _ hr
        exact ⟨e1, (ln, y) :: its1, ctx1, its2, by rw [h1]; rfl, h2, by rw [h3]; rfl⟩
      | error e' => rw [hr] at hc; simp [consItem] at hc
      | panic s => rw [hr] at hc; simp [consItem] at hc
      | oof => rw [hr] at hc; simp [consItem] at hc
    unfold pass1Items at h ⊢
    repeat' split at h
    all_goals first
      | (simp [lineErr] at h; done)
      | (simp at h; done)
      | (simp only [*, if_false, if_true]; exact ih _ _ _ _ _ h)
      | (simp only [*, if_false, if_true]; exact viaCons _ _ _ h)
      | (rename_i hodd; rw [if_neg (show ¬ cur > limit by assumption)]; dsimp only at h ⊢; first
          | (rw [if_pos hodd]; exact viaCons _ _ _ h)
          | (rw [if_neg hodd]; exact viaCons _ _ _ h))
      | (rw [if_neg (by assumption)]; first
          | exact viaCons _ _ _ h
          | exact ih _ _ _ _ _ h
          | (dsimp only; exact viaCons _ _ _ h)
          | (dsimp only at h ⊢; exact viaCons _ _ _ h)
          | (dsimp only at h ⊢; simp only [*, if_true, if_false] at h ⊢; exact viaCons _ _ _ h)
          | (simp only [*, if_false, if_true]; first | exact viaCons _ _ _ h | exact ih _ _ _ _ _ h)
          | (rw [if_neg (by assumption)]; first
              | exact ih _ _ _ _ _ h
              | (rw [if_pos (by assumption)]; exact viaCons _ _ _ h)
              | (rw [if_neg (by assumption)]; exact ih _ _ _ _ _ h)))
      | skip

/-- pass 2 over a list that is cut in two -/
theorem pass2Items_append (t : SegT) (its2 : List (Nat × Item)) : ∀ (its1 : List (Nat × Item)) (cur : Nat) (acc : List Nat)
    (ctx : Ctx) (bytes : List Nat) (ctx' : Ctx),
    pass2Items t (its1 ++ its2) cur acc ctx = .ok (bytes, ctx') →
    ∃ cur1 b1 c1, pass2Items t its1 cur acc ctx = .ok (b1, c1) ∧ pass2Items t its2 cur1 b1 c1 = .ok (bytes, ctx') := by
  intro its1
  induction its1 with
  | nil => intro cur acc ctx bytes ctx' h; exact ⟨cur, acc, ctx, by simp [pass2Items], by simpa using h⟩
  | cons x pre ih =>
    obtain ⟨ln, it⟩ := x
    intro cur acc ctx bytes ctx' h
    simp only [List.cons_append] at h
    generalize hR : pass2Items t its2 = R at ih ⊢
    unfold pass2Items at h ⊢
    dsimp only at h ⊢
    repeat' split at h
    all_goals first
      | (simp [lineErr] at h; done)
      | (simp at h; done)
      | exact ih _ _ _ _ _ h
      | (simp only [*, if_true, if_false]; exact ih _ _ _ _ _ h)
      | ((repeat (first | rw [if_pos (by assumption)] | rw [if_neg (by assumption)])); exact ih _ _ _ _ _ h)
      | skip


theorem noCustom_prefix : ∀ (pre rest : List (Nat × Item)), noCustom (pre ++ rest) → noCustom pre
  | [], _, _ => trivial
  | (ln, it) :: pre, rest, h => by
    cases it with
    | instruction op args =>
      cases op <;> first
        | (simp only [List.cons_append, noCustom] at h ⊢; exact noCustom_prefix pre rest h)
        | (simp [noCustom] at h)
    | _ => simp only [List.cons_append, noCustom] at h ⊢; exact noCustom_prefix pre rest h

/-- **C02 in the property's words, for a label anywhere in a code segment**: "the value of a
    label equals the position at which the item following it is actually emitted".  Pass 1 over
    `pre ++ [label] ++ post` binds the label to `e1`, the offset it has reached after `pre`; pass 2
    emits for the items before the label the bytes `before`, an even number of them, with
    `e1 = cur + before.length / 2` — the label is the word address right behind them — and goes
    on with what follows the label from exactly that accumulator: the following item's bytes
    are appended at byte offset `2·(e1 − cur)` of the segment, nothing in between. -/
theorem label_lands (limit : Nat) (pre post : List (Nat × Item)) (ln : Nat) (name : Str) (cur : Nat) (ctx1 : Ctx)
    (e : Nat) (its : List (Nat × Item)) (ctx1' : Ctx) (acc : List Nat) (ctx2 : Ctx) (bytes : List Nat) (ctx2' : Ctx)
    (hnc : noCustom (pre ++ (ln, .label name) :: post)) (hdev : ctx2.device = ctx1.device)
    (h1 : pass1Items .code limit (pre ++ (ln, .label name) :: post) cur ctx1 = .ok (e, its, ctx1'))
    (h2 : pass2Items .code its cur acc ctx2 = .ok (bytes, ctx2')) :
    ∃ before its1 its2 e1 ctxA c1 cur1,
      its = its1 ++ its2 ∧
      pass1Items .code limit pre cur ctx1 = .ok (e1, its1, ctxA) ∧
      pass1Items .code limit post e1
        { ctxA with labels := ainsert name (.code, e1 % 4294967296) ctxA.labels } = .ok (e, its2, ctx1') ∧
      pass2Items .code its1 cur acc ctx2 = .ok (acc ++ before, c1) ∧
      pass2Items .code its2 cur1 (acc ++ before) c1 = .ok (bytes, ctx2') ∧
      before.length % 2 = 0 ∧ e1 = cur + before.length / 2 := by
  obtain ⟨e1, its1, ctxA, its2, h1a, h1b, hits⟩ := pass1Items_append .code limit _ pre cur ctx1 e its ctx1' h1
  subst hits
  obtain ⟨cur1, b1, c1, h2a, h2b⟩ := pass2Items_append .code its2 its1 cur acc ctx2 bytes ctx2' h2
  obtain ⟨emitted, hb, heven, he1⟩ := code_lockstep limit pre cur ctx1 e1 its1 ctxA acc ctx2 b1 c1
    (noCustom_prefix pre _ hnc) hdev h1a h2a
  subst hb
  have hlab : pass1Items .code limit post e1
      { ctxA with labels := ainsert name (.code, e1 % 4294967296) ctxA.labels } = .ok (e, its2, ctx1') := by
    unfold pass1Items at h1b
    split at h1b
    · simp [lineErr] at h1b
    · simp only at h1b
      split at h1b
      · simp [lineErr] at h1b
      · exact h1b
  exact ⟨emitted, its1, its2, e1, ctxA, c1, cur1, rfl, h1a, hlab, h2a, h2b, heven, he1⟩

/-- … and in EEPROM, in bytes: the label is the byte address right behind what pass 2 emits for
    the items before it (no padding there) -/
theorem label_lands_eeprom (limit : Nat) (pre post : List (Nat × Item)) (ln : Nat) (name : Str) (cur : Nat) (ctx1 : Ctx)
    (e : Nat) (its : List (Nat × Item)) (ctx1' : Ctx) (acc : List Nat) (ctx2 : Ctx) (bytes : List Nat) (ctx2' : Ctx)
    (h1 : pass1Items .eeprom limit (pre ++ (ln, .label name) :: post) cur ctx1 = .ok (e, its, ctx1'))
    (h2 : pass2Items .eeprom its cur acc ctx2 = .ok (bytes, ctx2')) :
    ∃ before its1 its2 e1 ctxA c1 cur1,
      its = its1 ++ its2 ∧
      pass1Items .eeprom limit pre cur ctx1 = .ok (e1, its1, ctxA) ∧
      pass1Items .eeprom limit post e1
        { ctxA with labels := ainsert name (.eeprom, e1 % 4294967296) ctxA.labels } = .ok (e, its2, ctx1') ∧
      pass2Items .eeprom its1 cur acc ctx2 = .ok (acc ++ before, c1) ∧
      pass2Items .eeprom its2 cur1 (acc ++ before) c1 = .ok (bytes, ctx2') ∧
      e1 = cur + before.length := by
  obtain ⟨e1, its1, ctxA, its2, h1a, h1b, hits⟩ := pass1Items_append .eeprom limit _ pre cur ctx1 e its ctx1' h1
  subst hits
  obtain ⟨cur1, b1, c1, h2a, h2b⟩ := pass2Items_append .eeprom its2 its1 cur acc ctx2 bytes ctx2' h2
  obtain ⟨emitted, hb, he1⟩ := eeprom_lockstep limit pre cur ctx1 e1 its1 ctxA acc ctx2 b1 c1 h1a h2a
  subst hb
  have hlab : pass1Items .eeprom limit post e1
      { ctxA with labels := ainsert name (.eeprom, e1 % 4294967296) ctxA.labels } = .ok (e, its2, ctx1') := by
    unfold pass1Items at h1b
    split at h1b
    · simp [lineErr] at h1b
    · simp only at h1b
      split at h1b
      · simp [lineErr] at h1b
      · exact h1b
  exact ⟨emitted, its1, its2, e1, ctxA, c1, cur1, rfl, h1a, hlab, h2a, h2b, he1⟩

end Avra.Props.C02b
