/-
  C05 (parse side) — the grammar reads an expression written with only the parentheses the
  operator table requires as exactly that expression: precedence of the ten levels, left
  associativity, prefix operators binding tightest.

  `mono`: more fuel never changes an answer of the model's expression parser, so its answers can
  be described without fuel (`EvI`, `EvPA`, `EvL`, `EvTI` and their rules).  `render` is the
  minimally parenthesised text; `parse_print` is the theorem.  The operator tables are the
  regenerated ones (`Gen.opLevels`): `table_entry`, `table_others`, `table_levels` are decided
  over them on every run.
-/
import Avra.Props.C09
import Avra.Props.C05
namespace Avra.Props.C05pp
open Avra Avra.Model Avra.Peg Avra.Lemmas.Fuel Avra.Props.C14 Avra.Props.C09
set_option linter.unusedSimpArgs false
set_option linter.unusedVariables false

/-! ### the atom rule as a function of the expression parser it calls -/

def funcAlt' (pi : Str → PR Expr) (s : Str) : PR Expr :=
  parseAtom.match_5 (fun _ => PR Expr) (identText s)
    (fun n r1 =>
      parseAtom.match_3 (fun _ => PR Expr) (skipSpace r1)
        (fun r2 =>
          parseInfix.match_1 (fun _ => PR Expr) (pi (skipSpace r2))
            (fun a r3 =>
              parseAtom.match_1 (fun _ => PR Expr) (skipSpace r3) (fun r4 => PR.ok ((Expr.ident n).func a) r4)
                fun _ => PR.fail)
            (fun _ => PR.fail) fun _ => PR.oof)
        fun _ => PR.fail)
    fun _ => PR.fail

def parenAlt' (pi : Str → PR Expr) (s : Str) : PR Expr :=
  parseAtom.match_3 (fun _ => PR Expr) s
    (fun r1 =>
      parseInfix.match_1 (fun _ => PR Expr) (pi (skipSpace r1))
        (fun a r2 => parseAtom.match_1 (fun _ => PR Expr) (skipSpace r2) (fun r3 => PR.ok a r3) fun _ => PR.fail)
        (fun _ => PR.fail) fun _ => PR.oof)
    fun _ => PR.fail

def restAlt' (s : Str) : PR Expr :=
  parseAtom.match_9 (fun _ => PR Expr) (eConst s) (fun v r => PR.ok (Expr.const v) r) fun _ =>
    parseAtom.match_7 (fun _ => PR Expr) (ch s) (fun c r => PR.ok (Expr.const ↑c.toNat) r) fun _ =>
      parseAtom.match_5 (fun _ => PR Expr) (identText s) (fun n r => PR.ok (Expr.ident n) r) fun _ => PR.fail

def atomBody' (pi : Str → PR Expr) (s : Str) : PR Expr :=
  parseAtom.match_11 (fun _ => PR Expr) (funcAlt' pi s) (fun e r => PR.ok e r) (fun _ => PR.oof) fun _ =>
    parseAtom.match_11 (fun _ => PR Expr) (parenAlt' pi s) (fun e r => PR.ok e r) (fun _ => PR.oof) fun _ => restAlt' s

theorem parseAtom_body (f : Nat) (s : Str) : parseAtom (f + 1) s = atomBody' (parseInfix f 0) s := by
  simp only [parseAtom]
  rfl

/-- if `pi'` answers as `pi` wherever `pi` answers at all, the alternatives that answer do not change -/
def Extends (pi pi' : Str → PR Expr) : Prop := ∀ x r, pi x = r → r ≠ .oof → pi' x = r

theorem inner_mono (pi pi' : Str → PR Expr) (hx : Extends pi pi') (x : Str) {α : Type} (A : Expr → Str → PR α) (v : PR α) :
    parseInfix.match_1 (fun _ => PR α) (pi x) A (fun _ => PR.fail) (fun _ => PR.oof) = v → v ≠ .oof →
    parseInfix.match_1 (fun _ => PR α) (pi' x) A (fun _ => PR.fail) (fun _ => PR.oof) = v := by
  intro h hv
  cases hp : pi x with
  | ok a r => rw [hx x _ hp (by simp)]; rw [hp] at h; exact h
  | fail => rw [hx x _ hp (by simp)]; rw [hp] at h; exact h
  | oof => rw [hp] at h; exact absurd h.symm hv

theorem parenAlt_mono (pi pi' : Str → PR Expr) (hx : Extends pi pi') (s : Str) (v : PR Expr)
    (h : parenAlt' pi s = v) (hv : v ≠ .oof) : parenAlt' pi' s = v := by
  unfold parenAlt' at h ⊢
  cases s with
  | nil => exact h
  | cons c cs =>
    by_cases hc : c = '('
    · subst hc
      exact inner_mono pi pi' hx _ _ v h hv
    · split at h
      · rename_i r1 heq; simp only [List.cons.injEq] at heq; exact absurd heq.1 hc
      · exact h

theorem funcAlt_mono (pi pi' : Str → PR Expr) (hx : Extends pi pi') (s : Str) (v : PR Expr)
    (h : funcAlt' pi s = v) (hv : v ≠ .oof) : funcAlt' pi' s = v := by
  unfold funcAlt' at h ⊢
  cases hid : identText s with
  | none => rw [hid] at h; exact h
  | some p =>
    obtain ⟨n, r1⟩ := p
    rw [hid] at h
    show parseAtom.match_3 (fun _ => PR Expr) (skipSpace r1) _ _ = v
    have h' : parseAtom.match_3 (fun _ => PR Expr) (skipSpace r1)
        (fun r2 =>
          parseInfix.match_1 (fun _ => PR Expr) (pi (skipSpace r2))
            (fun a r3 =>
              parseAtom.match_1 (fun _ => PR Expr) (skipSpace r3) (fun r4 => PR.ok ((Expr.ident n).func a) r4)
                fun _ => PR.fail)
            (fun _ => PR.fail) fun _ => PR.oof)
        (fun _ => PR.fail) = v := h
    cases hsk : skipSpace r1 with
    | nil => rw [hsk] at h'; exact h'
    | cons c cs =>
      rw [hsk] at h'
      by_cases hc : c = '('
      · subst hc
        exact inner_mono pi pi' hx _ _ v h' hv
      · split at h'
        · rename_i r2 heq; simp only [List.cons.injEq] at heq; exact absurd heq.1 hc
        · exact h'

theorem atomBody_mono (pi pi' : Str → PR Expr) (hx : Extends pi pi') (s : Str) (v : PR Expr)
    (h : atomBody' pi s = v) (hv : v ≠ .oof) : atomBody' pi' s = v := by
  unfold atomBody' at h ⊢
  cases hf : funcAlt' pi s with
  | ok e r => rw [funcAlt_mono pi pi' hx s _ hf (by simp)]; rw [hf] at h; exact h
  | oof => rw [hf] at h; exact absurd h.symm hv
  | fail =>
    rw [funcAlt_mono pi pi' hx s _ hf (by simp)]; rw [hf] at h
    show parseAtom.match_11 (fun _ => PR Expr) (parenAlt' pi' s) _ _ _ = v
    have h' : parseAtom.match_11 (fun _ => PR Expr) (parenAlt' pi s) (fun e r => PR.ok e r) (fun _ => PR.oof) (fun _ => restAlt' s) = v := h
    cases hp : parenAlt' pi s with
    | ok e r => rw [parenAlt_mono pi pi' hx s _ hp (by simp)]; rw [hp] at h'; exact h'
    | oof => rw [hp] at h'; exact absurd h'.symm hv
    | fail => rw [parenAlt_mono pi pi' hx s _ hp (by simp)]; rw [hp] at h'; exact h'

/-! ### more fuel never changes an answer -/

def Mono (f : Nat) : Prop :=
  (∀ m s res, parseInfix f m s = res → res ≠ .oof → parseInfix (f + 1) m s = res) ∧
  (∀ s res, parsePrefixAtom f s = res → res ≠ .oof → parsePrefixAtom (f + 1) s = res) ∧
  (∀ l s res, tryPrefix f l s = res → res ≠ .oof → tryPrefix (f + 1) l s = res) ∧
  (∀ s res, parseAtom f s = res → res ≠ .oof → parseAtom (f + 1) s = res) ∧
  (∀ m e0 s res, parseLoop f m e0 s = res → res ≠ .oof → parseLoop (f + 1) m e0 s = res) ∧
  (∀ m l e0 s0 s res, tryInfix f m l e0 s0 s = res → res ≠ .oof → tryInfix (f + 1) m l e0 s0 s = res)

theorem mono : ∀ f, Mono f := by
  intro f
  induction f with
  | zero =>
    refine ⟨?_, ?_, ?_, ?_, ?_, ?_⟩
    · intro m s res h hn; simp [parseInfix] at h; exact absurd h.symm hn
    · intro s res h hn; simp [parsePrefixAtom] at h; exact absurd h.symm hn
    · intro l s res h hn; simp [tryPrefix] at h; exact absurd h.symm hn
    · intro s res h hn; simp [parseAtom] at h; exact absurd h.symm hn
    · intro m e0 s res h hn; simp [parseLoop] at h; exact absurd h.symm hn
    · intro m l e0 s0 s res h hn; simp [tryInfix] at h; exact absurd h.symm hn
  | succ f ih =>
    obtain ⟨hI, hPA, hTP, hA, hL, hTI⟩ := ih
    refine ⟨?_, ?_, ?_, ?_, ?_, ?_⟩
    · intro m s res h hn
      simp only [parseInfix] at h ⊢
      cases hp : parsePrefixAtom f s with
      | ok e1 rest =>
        rw [hp] at h; simp only at h
        rw [hPA _ _ hp (by simp)]
        simp only
        exact hL _ _ _ _ h hn
      | fail => rw [hp] at h; simp only at h; rw [hPA _ _ hp (by simp)]; exact h
      | oof => rw [hp] at h; simp only at h; exact absurd h.symm hn
    · intro s res h hn
      simp only [parsePrefixAtom] at h ⊢
      exact hTP _ _ _ h hn
    · intro l s res h hn
      cases l with
      | nil => simp only [tryPrefix] at h ⊢; exact hA _ _ h hn
      | cons x more =>
        obtain ⟨t, u, lv⟩ := x
        simp only [tryPrefix] at h ⊢
        cases hl : lit t s with
        | none => rw [hl] at h; simp only at h ⊢; exact hTP _ _ _ h hn
        | some s1 =>
          rw [hl] at h; simp only at h ⊢
          cases hp : parseInfix f lv (if Gen.prefixSpace = true then skipSpace s1 else s1) with
          | ok e1 rest => rw [hp] at h; simp only at h; rw [hI _ _ _ hp (by simp)]; exact h
          | fail => rw [hp] at h; simp only at h; rw [hI _ _ _ hp (by simp)]; simp only; exact hTP _ _ _ h hn
          | oof => rw [hp] at h; simp only at h; exact absurd h.symm hn
    · intro s res h hn
      rw [parseAtom_body] at h ⊢
      exact atomBody_mono _ _ (fun x r hr hne => hI 0 x r hr hne) s res h hn
    · intro m e0 s res h hn
      simp only [parseLoop] at h ⊢
      exact hTI _ _ _ _ _ _ h hn
    · intro m l e0 s0 s res h hn
      cases l with
      | nil => simp only [tryInfix] at h ⊢; exact h
      | cons x more =>
        obtain ⟨t, b, lv, rlv⟩ := x
        simp only [tryInfix] at h ⊢
        split
        · rename_i hlt; simp only [hlt, if_true] at h; exact hTI _ _ _ _ _ _ h hn
        · rename_i hlt; simp only [hlt, if_false] at h
          cases hl : lit t (skipSpace s) with
          | none => rw [hl] at h; simp only at h ⊢; exact hTI _ _ _ _ _ _ h hn
          | some s1 =>
            rw [hl] at h; simp only at h ⊢
            cases hp : parseInfix f rlv (skipSpace s1) with
            | ok r rest => rw [hp] at h; simp only at h; rw [hI _ _ _ hp (by simp)]; simp only; exact hL _ _ _ _ h hn
            | fail => rw [hp] at h; simp only at h; rw [hI _ _ _ hp (by simp)]; simp only; exact hTI _ _ _ _ _ _ h hn
            | oof => rw [hp] at h; simp only at h; exact absurd h.symm hn

theorem mono_le_I (m : Nat) (s : Str) (res : PR Expr) (hn : res ≠ .oof) : ∀ (d f : Nat), parseInfix f m s = res → parseInfix (f + d) m s = res := by
  intro d
  induction d with
  | zero => intro f h; exact h
  | succ d ih => intro f h; exact (mono (f + d)).1 m s res (ih f h) hn

theorem mono_le_PA (s : Str) (res : PR Expr) (hn : res ≠ .oof) : ∀ (d f : Nat), parsePrefixAtom f s = res → parsePrefixAtom (f + d) s = res := by
  intro d
  induction d with
  | zero => intro f h; exact h
  | succ d ih => intro f h; exact (mono (f + d)).2.1 s res (ih f h) hn

theorem mono_le_L (m : Nat) (e : Expr) (s : Str) (res : PR Expr) (hn : res ≠ .oof) : ∀ (d f : Nat), parseLoop f m e s = res → parseLoop (f + d) m e s = res := by
  intro d
  induction d with
  | zero => intro f h; exact h
  | succ d ih => intro f h; exact (mono (f + d)).2.2.2.2.1 m e s res (ih f h) hn

/-! ### what the parser answers, whatever (sufficient) fuel it is given -/

/-- `parseInfix` at level `m` on `s` answers `res` -/
def EvI (m : Nat) (s : Str) (res : PR Expr) : Prop := res ≠ .oof ∧ ∃ f, parseInfix f m s = res
def EvPA (s : Str) (res : PR Expr) : Prop := res ≠ .oof ∧ ∃ f, parsePrefixAtom f s = res
def EvL (m : Nat) (e : Expr) (s : Str) (res : PR Expr) : Prop := res ≠ .oof ∧ ∃ f, parseLoop f m e s = res

theorem EvI.at {m s res} (h : EvI m s res) : ∃ f, ∀ f', f ≤ f' → parseInfix f' m s = res := by
  obtain ⟨hn, f, hf⟩ := h
  exact ⟨f, fun f' hle => by have := mono_le_I m s res hn (f' - f) f hf; rwa [Nat.add_sub_cancel' hle] at this⟩
theorem EvPA.at {s res} (h : EvPA s res) : ∃ f, ∀ f', f ≤ f' → parsePrefixAtom f' s = res := by
  obtain ⟨hn, f, hf⟩ := h
  exact ⟨f, fun f' hle => by have := mono_le_PA s res hn (f' - f) f hf; rwa [Nat.add_sub_cancel' hle] at this⟩
theorem EvL.at {m e s res} (h : EvL m e s res) : ∃ f, ∀ f', f ≤ f' → parseLoop f' m e s = res := by
  obtain ⟨hn, f, hf⟩ := h
  exact ⟨f, fun f' hle => by have := mono_le_L m e s res hn (f' - f) f hf; rwa [Nat.add_sub_cancel' hle] at this⟩

/-- an operand, then the loop -/
theorem evI_intro (m : Nat) (s : Str) (e : Expr) (r : Str) (res : PR Expr) (h1 : EvPA s (.ok e r)) (h2 : EvL m e r res) :
    EvI m s res := by
  obtain ⟨f1, hf1⟩ := h1.at
  obtain ⟨f2, hf2⟩ := h2.at
  refine ⟨h2.1, max f1 f2 + 1, ?_⟩
  simp only [parseInfix]
  rw [hf1 _ (Nat.le_max_left ..)]
  exact hf2 _ (Nat.le_max_right ..)

/-- the expression parser itself answers what `EvI 0` says -/
theorem expr_of_evI (s : Str) (res : PR Expr) (h : EvI 0 s res) : expr s = res := by
  obtain ⟨hn, f, hf⟩ := h
  have hno := expr_no_oof s
  unfold expr at hno ⊢
  -- both fuels give a definite answer: compare them at the larger one
  cases hE : parseInfix (exprFuel s) 0 s with
  | oof => exact absurd hE hno
  | ok e r =>
    have h1 := mono_le_I 0 s _ (by simp) f (exprFuel s) hE
    have h2 := mono_le_I 0 s res hn (exprFuel s) f hf
    rw [Nat.add_comm] at h2
    rw [h1] at h2; exact h2
  | fail =>
    have h1 := mono_le_I 0 s _ (by simp) f (exprFuel s) hE
    have h2 := mono_le_I 0 s res hn (exprFuel s) f hf
    rw [Nat.add_comm] at h2
    rw [h1] at h2; exact h2

def EvTI (m : Nat) (l : List Ent) (e : Expr) (s0 s : Str) (res : PR Expr) : Prop :=
  res ≠ .oof ∧ ∃ f, tryInfix f m l e s0 s = res

theorem mono_le_TI (m : Nat) (l : List Ent) (e : Expr) (s0 s : Str) (res : PR Expr) (hn : res ≠ .oof) :
    ∀ (d f : Nat), tryInfix f m l e s0 s = res → tryInfix (f + d) m l e s0 s = res := by
  intro d
  induction d with
  | zero => intro f h; exact h
  | succ d ih => intro f h; exact (mono (f + d)).2.2.2.2.2 m l e s0 s res (ih f h) hn

theorem EvTI.at {m l e s0 s res} (h : EvTI m l e s0 s res) : ∃ f, ∀ f', f ≤ f' → tryInfix f' m l e s0 s = res := by
  obtain ⟨hn, f, hf⟩ := h
  exact ⟨f, fun f' hle => by have := mono_le_TI m l e s0 s res hn (f' - f) f hf; rwa [Nat.add_sub_cancel' hle] at this⟩

theorem evL_of_TI (m : Nat) (e : Expr) (s : Str) (res : PR Expr) (h : EvTI m infixOps e s s res) : EvL m e s res := by
  obtain ⟨hn, f, hf⟩ := h
  exact ⟨hn, f + 1, by simp only [parseLoop]; exact hf⟩

theorem evTI_nil (m : Nat) (e : Expr) (s0 s : Str) : EvTI m [] e s0 s (.ok e s0) :=
  ⟨by simp, 1, by simp [tryInfix]⟩

/-- an entry that cannot apply here: its level is below the minimum, its text is not there, or
    what follows its text starts no operand -/
def Passes (m : Nat) (x : Ent) (s : Str) : Prop :=
  x.2.2.1 < m ∨ lit x.1 (skipSpace s) = none ∨
    ∃ y ys, lit x.1 (skipSpace s) = some (y :: ys) ∧ noStart y ∧ isSpace y = false

theorem evTI_pass (m : Nat) (x : Ent) (more : List Ent) (e : Expr) (s0 s : Str) (res : PR Expr)
    (hx : Passes m x s) (h : EvTI m more e s0 s res) : EvTI m (x :: more) e s0 s res := by
  obtain ⟨f, hf⟩ := h.at
  obtain ⟨t, b, lv, rlv⟩ := x
  rcases hx with hlv | hnone | ⟨y, ys, hsome, hy, hsp⟩
  · refine ⟨h.1, f + 1, ?_⟩
    simp only [tryInfix]
    simp only at hlv
    simp only [hlv, if_true]
    exact hf f (Nat.le_refl _)
  · refine ⟨h.1, f + 1, ?_⟩
    simp only [tryInfix]
    simp only at hnone
    split
    · exact hf f (Nat.le_refl _)
    · simp only [hnone]; exact hf f (Nat.le_refl _)
  · refine ⟨h.1, max f ((ys.length + 2) * K) + 1, ?_⟩
    simp only [tryInfix]
    simp only at hsome
    have hsk : skipSpace (y :: ys) = y :: ys := by simp [skipSpace, hsp]
    split
    · exact hf _ (Nat.le_max_left ..)
    · simp only [hsome, hsk]
      rw [infix_fails y ys hy _ (Nat.le_max_right ..) rlv]
      exact hf _ (Nat.le_max_left ..)

theorem evTI_passes (m : Nat) (e : Expr) (s0 s : Str) (res : PR Expr) : ∀ (pre tail : List Ent),
    (∀ x ∈ pre, Passes m x s) → EvTI m tail e s0 s res → EvTI m (pre ++ tail) e s0 s res := by
  intro pre
  induction pre with
  | nil => intro tail _ h; exact h
  | cons x more ih =>
    intro tail hp h
    exact evTI_pass m x (more ++ tail) e s0 s res (hp x (List.mem_cons_self ..))
      (ih tail (fun y hy => hp y (List.mem_cons_of_mem _ hy)) h)

theorem evTI_match (m : Nat) (t : Str) (b : BinOp) (lv rlv : Nat) (more : List Ent) (e : Expr) (s0 s s1 : Str)
    (r : Expr) (rest : Str) (res : PR Expr) (hlv : ¬ lv < m) (hlit : lit t (skipSpace s) = some s1)
    (hr : EvI rlv (skipSpace s1) (.ok r rest)) (hl : EvL m (.bin b e r) rest res) :
    EvTI m ((t, b, lv, rlv) :: more) e s0 s res := by
  obtain ⟨f1, hf1⟩ := hr.at
  obtain ⟨f2, hf2⟩ := hl.at
  refine ⟨hl.1, max f1 f2 + 1, ?_⟩
  simp only [tryInfix, hlv, if_false, hlit]
  rw [hf1 _ (Nat.le_max_left ..)]
  exact hf2 _ (Nat.le_max_right ..)

/-- the loop ends where no entry applies -/
theorem evL_end (m : Nat) (e : Expr) (s : Str) (h : ∀ x ∈ infixOps, Passes m x s) : EvL m e s (.ok e s) := by
  apply evL_of_TI
  have := evTI_passes m e s s (.ok e s) infixOps [] h (evTI_nil m e s s)
  simpa using this

/-! #### operands -/

theorem evPA_of_reads (e : Expr) (h : Reads e) (rest : Str) (hr : AtomEnd rest) : EvPA (exprText e ++ rest) (.ok e rest) :=
  ⟨by simp, need (exprText e ++ rest), h rest hr _ (Nat.le_succ _)⟩

theorem evPA_paren (s' : Str) (e : Expr) (rest : Str) (hsk : skipSpace s' = s') (h : EvI 0 s' (.ok e (')' :: rest))) :
    EvPA ('(' :: s') (.ok e rest) := by
  obtain ⟨f0, hf0⟩ := h.at
  refine ⟨by simp, (f0 + 1) + prefixOps.length + 2, ?_⟩
  rw [prefixAtom_atom _ (prefix_none_of '(' _ (by decide))]
  have hid : identText ('(' :: s') = none := by simp +decide [identText]
  have hsk3 : skipSpace (')' :: rest) = ')' :: rest := by simp +decide [skipSpace]
  simp only [parseAtom, hid, hsk, hf0 f0 (Nat.le_refl _), hsk3]

theorem evPA_func (name s' : Str) (a : Expr) (rest : Str) (hname : isName name) (hsk : skipSpace s' = s')
    (h : EvI 0 s' (.ok a (')' :: rest))) : EvPA (name ++ ('(' :: s')) (.ok (.func (.ident name) a) rest) := by
  obtain ⟨f0, hf0⟩ := h.at
  obtain ⟨x, xs, rfl, hx, hxs⟩ := hname
  have hn : isName (x :: xs) := ⟨x, xs, rfl, hx, hxs⟩
  have fx := identStart_facts x hx
  refine ⟨by simp, (f0 + 1) + prefixOps.length + 2, ?_⟩
  rw [prefixAtom_atom _ (by
    have := prefix_none_of x (xs ++ ('(' :: s')) ⟨fx.2.2.2.2.2.1, fx.2.2.2.2.2.2.1, fx.2.2.2.2.2.2.2.1⟩
    simpa using this)]
  have hid : identText ((x :: xs) ++ ('(' :: s')) = some (x :: xs, '(' :: s') :=
    identText_name _ _ hn (by intro y hy; simp at hy; subst hy; decide)
  have hsk1 : skipSpace ('(' :: s') = '(' :: s' := by simp +decide [skipSpace]
  have hsk3 : skipSpace (')' :: rest) = ')' :: rest := by simp +decide [skipSpace]
  simp only [parseAtom, hid, hsk1, hsk, hf0 f0 (Nat.le_refl _), hsk3]

theorem evPA_un (u : UnOp) (s' : Str) (e : Expr) (rest : Str) (hsk : skipSpace s' = s')
    (h : ∀ lv, (∀ x ∈ infixOps, x.2.2.1 < lv) → EvI lv s' (.ok e rest)) : EvPA (u.text ++ s') (.ok (.un u e) rest) := by
  obtain ⟨pre, lv, post, c, hsplit, hc, hpre, hlv⟩ := un_split u
  obtain ⟨f0, hf0⟩ := (h lv hlv).at
  refine ⟨by simp, ((f0 + 1) + pre.length) + 1, ?_⟩
  simp only [parsePrefixAtom]
  rw [hsplit, tryPrefix_skip _ pre (by
    intro x hx
    obtain ⟨d, hd, hdc⟩ := hpre x hx
    rw [hd, hc]; simp [lit, hdc])]
  simp only [tryPrefix, hc, List.cons_append, List.nil_append, lit, if_true]
  have hsk' : (if Gen.prefixSpace = true then skipSpace s' else s') = s' := by
    split
    · exact hsk
    · rfl
  rw [hsk', hf0 f0 (Nat.le_refl _)]

/-! ### the minimally parenthesised rendering -/

/-- the level of a binary operator in the (regenerated) table -/
def opLevel (op : BinOp) : Nat :=
  match splitOp op infixOps with
  | some (_, e, _) => e.2.2.1
  | none => 0

/-- above every level of the table: the operand of a prefix operator is rendered there -/
def top : Nat := 100

/-- an expression with only the parentheses the table requires: a binary operation is put in
    parentheses exactly where its level is below the level asked for (left operand: the operator's
    own level; right operand: one above; operand of a prefix operator: `top`) -/
def render : Nat → Expr → Str
  | _, .ident s => s
  | _, .const v => intToDec v
  | _, .func n a => exprText n ++ '(' :: render 0 a ++ [')']
  | _, .un u e => u.text ++ render top e
  | m, .bin op l r =>
    let b := render (opLevel op) l ++ op.text ++ render (opLevel op + 1) r
    if opLevel op < m then '(' :: b ++ [')'] else b

theorem table_entry (op : BinOp) : ∃ pre post, infixOps = pre ++ (op.text, op, opLevel op, opLevel op + 1) :: post ∧
    ∀ x ∈ pre, okBefore x.1 op.text = true := by
  have h := table_checked op
  unfold checkOp at h
  unfold opLevel
  split at h
  · rename_i pre e post hs
    obtain ⟨hl, he⟩ := splitOp_spec op _ _ _ _ hs
    obtain ⟨t, b, lv, rl⟩ := e
    simp only [Bool.and_eq_true, beq_iff_eq, List.all_eq_true] at h
    obtain ⟨⟨h1, h2⟩, h3⟩ := h
    simp only at he h1 h2
    subst he; subst h1; subst h2
    rw [hs]
    exact ⟨pre, post, hl, h3⟩
  · simp at h

/-- every other entry of the table loses against an operator's text -/
theorem table_others : ∀ op : BinOp, ∀ x ∈ infixOps, x.2.1 ≠ op → okBefore x.1 op.text = true := by
  intro op; cases op <;> decide

theorem table_levels : ∀ x ∈ infixOps, x.2.2.1 < top ∧ x.2.2.1 = opLevel x.2.1 := by decide

theorem prefix_levels : ∀ x ∈ prefixOps, x.2.2 ≤ top := by decide

/-- no entry applies at `rest` when the minimum level is `m` -/
def EndAt (m : Nat) (rest : Str) : Prop := ∀ x ∈ infixOps, Passes m x rest

theorem endAt_mono (m m' : Nat) (h : m ≤ m') (rest : Str) (he : EndAt m rest) : EndAt m' rest := by
  intro x hx
  rcases he x hx with h1 | h2
  · exact Or.inl (by omega)
  · exact Or.inr h2

theorem endAt_top (m : Nat) (h : top ≤ m) (rest : Str) : EndAt m rest := by
  intro x hx
  exact Or.inl (by have := (table_levels x hx).1; omega)

theorem endAt_paren (m : Nat) (rest : Str) : EndAt m (')' :: rest) := by
  intro x hx
  rcases opEnd_paren rest x hx with h | ⟨y, ys, h, hy, hs⟩
  · exact Or.inr (Or.inl h)
  · exact Or.inr (Or.inr ⟨y, ys, h, hy, hs⟩)

theorem skip_op (op : BinOp) (rest : Str) : skipSpace (op.text ++ rest) = op.text ++ rest := by
  obtain ⟨y, ys, hy, hsp⟩ := op_text_head op
  rw [hy]; simp [skipSpace, hsp]

/-- behind an operand, an operator of a lower level ends every loop above it -/
theorem endAt_op (op : BinOp) (m : Nat) (hm : opLevel op < m) (c : Char) (rest : Str) (hc : StartChar c) :
    EndAt m (op.text ++ c :: rest) := by
  intro x hx
  by_cases hlv : x.2.2.1 < m
  · exact Or.inl hlv
  · right
    have hne : x.2.1 ≠ op := by
      intro h
      have := (table_levels x hx).2
      rw [h] at this
      omega
    rw [skip_op]
    rcases lit_before x.1 op.text (table_others op x hx hne) c rest hc with h | ⟨y, ys, h, hy⟩
    · exact Or.inl h
    · exact Or.inr ⟨y, ys, h, nonStart_noStart y hy⟩

theorem evPA_un' (u : UnOp) (s' : Str) (e : Expr) (rest : Str) (hsk : skipSpace s' = s')
    (h : ∀ lv, lv ≤ top → (∀ x ∈ infixOps, x.2.2.1 < lv) → EvI lv s' (.ok e rest)) :
    EvPA (u.text ++ s') (.ok (.un u e) rest) := by
  obtain ⟨pre, lv, post, c, hsplit, hc, hpre, hlv⟩ := un_split u
  have hle : lv ≤ top := prefix_levels (u.text, u, lv) (by rw [hsplit]; simp)
  obtain ⟨f0, hf0⟩ := (h lv hle hlv).at
  refine ⟨by simp, ((f0 + 1) + pre.length) + 1, ?_⟩
  simp only [parsePrefixAtom]
  rw [hsplit, tryPrefix_skip _ pre (by
    intro x hx
    obtain ⟨d, hd, hdc⟩ := hpre x hx
    rw [hd, hc]; simp [lit, hdc])]
  simp only [tryPrefix, hc, List.cons_append, List.nil_append, lit, if_true]
  have hsk' : (if Gen.prefixSpace = true then skipSpace s' else s') = s' := by
    split
    · exact hsk
    · rfl
  rw [hsk', hf0 f0 (Nat.le_refl _)]

theorem render_head (e : Expr) (h : Wf e) (m : Nat) : ∃ y ys, render m e = y :: ys ∧ StartChar y := by
  cases h with
  | ident s hs =>
    obtain ⟨x, xs, rfl, hx, _⟩ := hs
    exact ⟨x, xs, rfl, Or.inl hx⟩
  | const v n hv hfit =>
    obtain ⟨y, ys, hy, hs⟩ := exprText_head (.const v) (.const v n hv hfit)
    exact ⟨y, ys, by simpa [render, exprText] using hy, hs⟩
  | func name a hn _ =>
    obtain ⟨x, xs, rfl, hx, _⟩ := hn
    exact ⟨x, xs ++ '(' :: render 0 a ++ [')'], by simp [render, exprText], Or.inl hx⟩
  | un u e _ =>
    cases u with
    | minus => exact ⟨'-', render top e, by simp [render, UnOp.text], Or.inr (Or.inr (Or.inr (Or.inl rfl)))⟩
    | bnot => exact ⟨'~', render top e, by simp [render, UnOp.text], Or.inr (Or.inr (Or.inr (Or.inr (Or.inl rfl))))⟩
    | lnot => exact ⟨'!', render top e, by simp [render, UnOp.text], Or.inr (Or.inr (Or.inr (Or.inr (Or.inr (Or.inl rfl)))))⟩
  | bin op l r hl hr =>
    by_cases hp : opLevel op < m
    · exact ⟨'(', (render (opLevel op) l ++ op.text ++ render (opLevel op + 1) r) ++ [')'], by simp only [render, hp, if_true]; rfl, Or.inr (Or.inr (Or.inl rfl))⟩
    · obtain ⟨y, ys, hy, hs⟩ := render_head l hl (opLevel op)
      exact ⟨y, ys ++ op.text ++ render (opLevel op + 1) r, by simp only [render, hp, if_false, hy, List.cons_append], hs⟩

theorem skip_render (e : Expr) (h : Wf e) (m : Nat) (rest : Str) : skipSpace (render m e ++ rest) = render m e ++ rest := by
  obtain ⟨y, ys, hy, hs⟩ := render_head e h m
  rw [hy]
  simp [skipSpace, startChar_noSpace y hs]

/-- the level above which the text behind an expression must end the loop: one above the
    operator of an unparenthesised binary operation; nothing is asked behind an operand -/
def endLv (mr : Nat) : Expr → Nat
  | .bin op _ _ => if opLevel op < mr then top else opLevel op + 1
  | _ => top

/-- parsing the rendering of `e` brings the loop to `e` with the rest of the input -/
def Goes (e : Expr) : Prop :=
  ∀ mr m rest res, m ≤ mr → AtomEnd rest → EndAt (endLv mr e) rest →
    EvL m e rest res → EvI m (render mr e ++ rest) res

theorem goes_leaf (e : Expr) (hrd : Reads e) (hre : ∀ mr, render mr e = exprText e) : Goes e := by
  intro mr m rest res _ hr _ hl
  rw [hre]
  exact evI_intro m _ e rest res (evPA_of_reads e hrd rest hr) hl

theorem endAt_endLv_top (mr : Nat) (e : Expr) (rest : Str) (h : endLv mr e = top) : EndAt (endLv mr e) rest := by
  rw [h]; exact endAt_top top (Nat.le_refl _) rest

/-- the text of an expression rendered at level `m`, then looped at level `m`, is that expression
    when the loop ends behind it -/
theorem goes_closed (e : Expr) (hg : Goes e) (m : Nat) (rest : Str) (hr : AtomEnd rest) (he : EndAt m rest)
    (hlv : m ≤ endLv m e) : EvI m (render m e ++ rest) (.ok e rest) :=
  hg m m rest _ (Nat.le_refl _) hr (endAt_mono _ _ hlv rest he) (evL_end m e rest he)

theorem endLv_ge (m : Nat) (e : Expr) (hm : m ≤ top) : m ≤ endLv m e := by
  cases e with
  | bin op l r =>
    simp only [endLv]
    split
    · exact hm
    · omega
  | _ => exact hm

theorem goes_func (name : Str) (a : Expr) (hn : isName name) (ha : Wf a) (iha : Goes a) : Goes (.func (.ident name) a) := by
  intro mr m rest res _ hr _ hl
  have hform : render mr (.func (.ident name) a) ++ rest = name ++ ('(' :: (render 0 a ++ (')' :: rest))) := by
    simp [render, exprText]
  rw [hform]
  refine evI_intro m _ (.func (.ident name) a) rest res ?_ hl
  exact evPA_func name _ a rest hn (skip_render a ha 0 _)
    (goes_closed a iha 0 (')' :: rest) (atomEnd_paren rest) (endAt_paren 0 rest) (Nat.zero_le _))

theorem goes_un (u : UnOp) (e : Expr) (he : Wf e) (ihe : Goes e) : Goes (.un u e) := by
  intro mr m rest res _ hr _ hl
  have hform : render mr (.un u e) ++ rest = u.text ++ (render top e ++ rest) := by simp [render]
  rw [hform]
  refine evI_intro m _ (.un u e) rest res ?_ hl
  refine evPA_un' u _ e rest (skip_render e he top rest) ?_
  intro lv hle hlv
  have hend : EndAt lv rest := fun x hx => Or.inl (hlv x hx)
  have htop : endLv top e = top := by
    cases e with
    | bin op l r =>
      simp only [endLv]
      have : opLevel op < top := by
        obtain ⟨pre, post, hs, _⟩ := table_entry op
        exact (table_levels (op.text, op, opLevel op, opLevel op + 1) (by rw [hs]; simp)).1
      simp [this]
    | _ => rfl
  exact ihe top lv rest _ hle hr (endAt_endLv_top top e rest htop) (evL_end lv e rest hend)

/-- a binary operation without parentheses around it -/
theorem goes_bin_open (op : BinOp) (l r : Expr) (hl : Wf l) (hr' : Wf r) (ihl : Goes l) (ihr : Goes r)
    (m : Nat) (rest : Str) (res : PR Expr) (hm : m ≤ opLevel op) (hr : AtomEnd rest) (he : EndAt (opLevel op + 1) rest)
    (hloop : EvL m (.bin op l r) rest res) :
    EvI m (render (opLevel op) l ++ (op.text ++ (render (opLevel op + 1) r ++ rest))) res := by
  have hLtop : opLevel op < top := by
    obtain ⟨pre, post, hs, _⟩ := table_entry op
    exact (table_levels (op.text, op, opLevel op, opLevel op + 1) (by rw [hs]; simp)).1
  obtain ⟨c, rest', hcr, hc⟩ : ∃ c rest', render (opLevel op + 1) r ++ rest = c :: rest' ∧ StartChar c := by
    obtain ⟨y, ys, hy, hs⟩ := render_head r hr' (opLevel op + 1)
    exact ⟨y, ys ++ rest, by rw [hy]; rfl, hs⟩
  -- the left operand, then the loop at the operator
  refine ihl (opLevel op) m _ res hm (atomEnd_op op _) ?_ ?_
  · -- behind the left operand the operator ends every loop above its level
    cases l with
    | bin opl ll lr =>
      simp only [endLv]
      split
      · exact endAt_top top (Nat.le_refl _) _
      · rename_i hge
        rw [hcr]
        exact endAt_op op _ (by omega) c rest' hc
    | _ => exact endAt_top top (Nat.le_refl _) _
  · -- the loop: earlier entries pass, the operator's entry takes the right operand
    obtain ⟨pre, post, hs, hpre⟩ := table_entry op
    apply evL_of_TI
    rw [hs]
    refine evTI_passes m l _ _ res pre _ ?_ ?_
    · intro x hx
      right
      rw [skip_op, hcr]
      rcases lit_before x.1 op.text (hpre x hx) c rest' hc with h | ⟨y, ys, h, hy⟩
      · exact Or.inl h
      · exact Or.inr ⟨y, ys, h, nonStart_noStart y hy⟩
    · refine evTI_match m op.text op (opLevel op) (opLevel op + 1) post l _ _ (render (opLevel op + 1) r ++ rest) r rest res
        (by omega) (by rw [skip_op]; exact lit_self _ _) ?_ hloop
      rw [skip_render r hr' _ rest]
      exact goes_closed r ihr (opLevel op + 1) rest hr he (endLv_ge _ r (by omega))

theorem goes_bin (op : BinOp) (l r : Expr) (hl : Wf l) (hr' : Wf r) (ihl : Goes l) (ihr : Goes r) : Goes (.bin op l r) := by
  intro mr m rest res hm hr he hloop
  by_cases hp : opLevel op < mr
  · -- in parentheses: an operand
    have hform : render mr (.bin op l r) ++ rest =
        '(' :: ((render (opLevel op) l ++ (op.text ++ (render (opLevel op + 1) r ++ (')' :: rest))))) := by
      simp [render, hp]
    rw [hform]
    refine evI_intro m _ (.bin op l r) rest res ?_ hloop
    refine evPA_paren _ (.bin op l r) rest ?_ ?_
    · obtain ⟨y, ys, hy, hs⟩ := render_head l hl (opLevel op)
      rw [hy]; simp [skipSpace, startChar_noSpace y hs]
    · exact goes_bin_open op l r hl hr' ihl ihr 0 (')' :: rest) _ (Nat.zero_le _) (atomEnd_paren rest)
        (endAt_paren _ rest) (evL_end 0 _ _ (endAt_paren 0 rest))
  · have hform : render mr (.bin op l r) ++ rest =
        render (opLevel op) l ++ (op.text ++ (render (opLevel op + 1) r ++ rest)) := by
      simp [render, hp]
    rw [hform]
    have he' : EndAt (opLevel op + 1) rest := by
      simpa [endLv, hp] using he
    exact goes_bin_open op l r hl hr' ihl ihr m rest res (by omega) hr he' hloop

theorem goes (e : Expr) (h : Wf e) : Goes e := by
  induction h with
  | ident s hs => exact goes_leaf _ (reads_ident s hs) (fun _ => rfl)
  | const v n hv hn => exact goes_leaf _ (reads_const v n hv hn) (fun _ => rfl)
  | func name a hn ha ih => exact goes_func name a hn ha ih
  | bin op l r hl hr ihl ihr => exact goes_bin op l r hl hr ihl ihr
  | un u e he ih => exact goes_un u e he ih

/-- **parse (print e) = e** for the rendering with only the parentheses the operator table
    requires: every well-formed expression — any nesting, all 18 binary and 3 unary operators,
    function calls — written without blanks and with parentheses only around a binary operation
    whose level is below the one its place asks for (own level on the left of an operator, one
    above on the right, always under a prefix operator), is read by `expr()` as exactly that
    expression, up to any `rest` that ends an operand -/
theorem parse_print (e : Expr) (h : Wf e) (rest : Str) (hr : AtomEnd rest) (he : EndAt 0 rest) :
    expr (render 0 e ++ rest) = .ok e rest :=
  expr_of_evI _ _ (goes_closed e (goes e h) 0 rest hr he (Nat.zero_le _))

theorem endAt_nil (m : Nat) : EndAt m [] := by
  intro x hx
  right; left
  have : x.1 ≠ [] := infix_tokens x hx
  cases hx1 : x.1 with
  | nil => exact absurd hx1 this
  | cons p ps => rfl

theorem atomEnd_nil : AtomEnd [] := by intro y hy; simp at hy

/-- the whole text of a rendered expression is that expression -/
theorem parse_print_whole (e : Expr) (h : Wf e) : expr (render 0 e) = .ok e [] := by
  have := parse_print e h [] atomEnd_nil (endAt_nil 0)
  simpa using this

/-- well-formed expressions have their constants in range -/
theorem wf_constsOk (e : Expr) (h : Wf e) : Avra.Props.C05.constsOk e := by
  induction h with
  | ident s _ => trivial
  | const v n hv hn =>
    simp only [Avra.Props.C05.constsOk, inI64, i64Min, i64Max, Bool.and_eq_true, decide_eq_true_eq]
    subst hv
    have h63 : n < 9223372036854775808 := by simpa using hn
    constructor <;> (apply decide_eq_true; omega)
  | func name a _ _ ih => exact ⟨trivial, ih⟩
  | bin op l r _ _ ihl ihr => exact ⟨ihl, ihr⟩
  | un u e _ ih => exact ih

/-- **C05 in one statement**: the text of a tree written with only the parentheses the operator
    table requires is read as that tree, and the tree evaluates — in every environment of i64
    values or failures — to exactly the value the documented operator table gives it (and fails
    exactly where the table says the build must fail) -/
theorem rendered_text_has_the_table_value (sym : Str → EvalRes) (hs : ∀ n v, sym n = .ok v → inI64 v = true)
    (e : Expr) (h : Wf e) :
    expr (render 0 e) = .ok e [] ∧
      Avra.Props.C05.toOpt (evalWith sym e) = Avra.Spec.eval (fun n => Avra.Props.C05.toOpt (sym n)) e :=
  ⟨parse_print_whole e h, (Avra.Props.C05.eval_eq_spec sym hs e (wf_constsOk e h)).1⟩

/-! non-vacuity: the renderer puts parentheses where the table requires them and nowhere else -/
example : render 0 (.bin .mul (.bin .add (.ident ['a']) (.const 2)) (.un .minus (.bin .shl (.ident ['b']) (.const 1)))) =
    "(a+2)*-(b<<1)".toList := by decide
example : render 0 (.bin .sub (.bin .sub (.ident ['a']) (.ident ['b'])) (.bin .sub (.ident ['c']) (.ident ['d']))) =
    "a-b-(c-d)".toList := by decide
example : render 0 (.bin .lor (.bin .land (.ident ['a']) (.bin .bor (.ident ['b']) (.ident ['c'])))
    (.bin .lt (.bin .shl (.ident ['d']) (.const 1)) (.ident ['e']))) = "a&&b|c||d<<1<e".toList := by decide
example : Wf (.bin .mul (.bin .add (.ident ['a']) (.const 2)) (.un .minus (.bin .shl (.ident ['b']) (.const 1)))) :=
  .bin _ _ _ (.bin _ _ _ (.ident _ ⟨'a', [], rfl, by decide, by decide⟩) (.const 2 2 rfl (by decide)))
    (.un _ _ (.bin _ _ _ (.ident _ ⟨'b', [], rfl, by decide, by decide⟩) (.const 1 1 rfl (by decide))))

/-! ### blanks anywhere between the tokens, and parentheses that are not needed -/

/-- what may follow an operand when blanks are allowed: after the blanks, no identifier
    character directly behind the operand and no `(` -/
def AtomEndB (rest : Str) : Prop :=
  (∀ y, rest.head? = some y → isIdentChar y = false) ∧ ∀ r2, skipSpace rest ≠ '(' :: r2

theorem atomEndB_of (rest : Str) (h : AtomEnd rest) : AtomEndB rest := by
  refine ⟨fun y hy => (h y hy).1, ?_⟩
  intro r2 hr
  cases rest with
  | nil => simp [skipSpace] at hr
  | cons y ys =>
    have hy := h y rfl
    simp [skipSpace, hy.2.2] at hr
    exact hy.2.1 hr.1

theorem atomEndB_blanks (w rest : Str) (hw : blanks w) (hrest : AtomEndB rest) (hne : w ≠ [] ∨ True) :
    AtomEndB (w ++ rest) := by
  refine ⟨?_, ?_⟩
  · intro y hy
    cases w with
    | nil => exact hrest.1 y (by simpa using hy)
    | cons c cs =>
      simp at hy; subst hy
      have hc : isSpace c = true := hw c (by simp)
      simp only [isSpace, Bool.or_eq_true, beq_iff_eq] at hc
      rcases hc with rfl | rfl <;> decide
  · intro r2
    rw [space_absorbs w rest hw]
    exact hrest.2 r2

/-- identifiers and numbers are read with blanks behind them too -/
theorem evPA_ident (s : Str) (hs : isName s) (rest : Str) (hr : AtomEndB rest) : EvPA (s ++ rest) (.ok (.ident s) rest) := by
  obtain ⟨x, xs, rfl, hx, hxs⟩ := hs
  have hn : isName (x :: xs) := ⟨x, xs, rfl, hx, hxs⟩
  have fx := identStart_facts x hx
  refine ⟨by simp, (0 + 1) + prefixOps.length + 2, ?_⟩
  rw [prefixAtom_atom _ (by
    have := prefix_none_of x (xs ++ rest) ⟨fx.2.2.2.2.2.1, fx.2.2.2.2.2.2.1, fx.2.2.2.2.2.2.2.1⟩
    simpa using this)]
  have hid : identText ((x :: xs) ++ rest) = some (x :: xs, rest) :=
    identText_name _ rest hn (fun y hy => hr.1 y hy)
  have hec : eConst ((x :: xs) ++ rest) = none := by
    have h1 : ¬ '$' = x := fun h => fx.2.2.1 h.symm
    have h0 : ¬ '0' = x := fun h => fx.2.2.2.2.2.2.2.2 h.symm
    simp [eConst, constAlt, lit, takeWhileP, fx.1, h1, h0]
  have hch : ch ((x :: xs) ++ rest) = none := by
    simp only [List.cons_append, ch]
    split
    · rename_i heq; simp only [List.cons.injEq] at heq; exact absurd heq.1 fx.2.2.2.2.1
    · rfl
  simp only [parseAtom, hid, hec, hch]
  split
  · rename_i e r heq
    split at heq
    · rename_i r2 hc; exact absurd hc (hr.2 r2)
    · simp at heq
  · rename_i heq
    split at heq
    · rename_i r2 hc; exact absurd hc (hr.2 r2)
    · simp at heq
  · split
    · rename_i e r heq
      split at heq
      · rename_i r1 hc; simp only [List.cons_append, List.cons.injEq] at hc; exact absurd hc.1 fx.2.2.2.1
      · simp at heq
    · rename_i heq
      split at heq
      · rename_i r1 hc; simp only [List.cons_append, List.cons.injEq] at hc; exact absurd hc.1 fx.2.2.2.1
      · simp at heq
    · rfl

theorem evPA_const (v : Int) (n : Nat) (hv : v = (n : Int)) (hfit : n < 2 ^ 63) (rest : Str) (hr : AtomEndB rest) :
    EvPA (intToDec v ++ rest) (.ok (.const v) rest) := by
  have hn : NumText (intToDec v) n := by rw [hv]; exact numText_intToDec n hfit
  obtain ⟨y, ys, hs, hy⟩ := numText_head _ n hn rest
  refine ⟨by simp, (0 + 1) + prefixOps.length + 2, ?_⟩
  rw [prefixAtom_atom _ (by rw [hs]; exact prefix_none_num y ys hy)]
  rw [parseAtom_num _ n hn rest hr.1 0, hv]

theorem evPA_num (v : Int) (n : Nat) (t : Str) (hv : v = (n : Int)) (hn : NumText t n) (rest : Str) (hr : AtomEndB rest) :
    EvPA (t ++ rest) (.ok (.const v) rest) := by
  obtain ⟨y, ys, hs, hy⟩ := numText_head _ n hn rest
  refine ⟨by simp, (0 + 1) + prefixOps.length + 2, ?_⟩
  rw [prefixAtom_atom _ (by rw [hs]; exact prefix_none_num y ys hy)]
  rw [parseAtom_num _ n hn rest hr.1 0, hv]

/-- a character literal is its code point -/
theorem evPA_chr (c : Char) (hc : notChEnd c = true) (rest : Str) :
    EvPA ('\'' :: c :: '\'' :: rest) (.ok (.const (c.toNat : Int)) rest) := by
  refine ⟨by simp, (0 + 1) + prefixOps.length + 2, ?_⟩
  rw [prefixAtom_atom _ (prefix_none_of '\'' _ (by decide))]
  have hid : identText ('\'' :: c :: '\'' :: rest) = none := by simp +decide [identText]
  have hec : eConst ('\'' :: c :: '\'' :: rest) = none := by simp +decide [eConst, constAlt, lit, takeWhileP, isDigit]
  have hch : ch ('\'' :: c :: '\'' :: rest) = some (c, rest) := by simp [ch, hc]
  simp [parseAtom, hid, hec, hch]

theorem lit_beforeB (t : Str) : ∀ (o : Str), okBefore t o = true → ∀ (c : Char) (rest : Str), ¬ nonStart c →
    lit t (o ++ c :: rest) = none ∨ ∃ y ys, lit t (o ++ c :: rest) = some (y :: ys) ∧ nonStart y := by
  induction t with
  | nil =>
    intro o h c rest hc
    cases o with
    | nil => simp [okBefore] at h
    | cons y ys =>
      right
      refine ⟨y, ys ++ c :: rest, by simp [lit], ?_⟩
      simp only [okBefore, Bool.or_eq_true, beq_iff_eq] at h
      rcases h with (((h | h) | h) | h) | h
      · exact Or.inl h
      · exact Or.inr (Or.inl h)
      · exact Or.inr (Or.inr (Or.inl h))
      · exact Or.inr (Or.inr (Or.inr (Or.inl h)))
      · exact Or.inr (Or.inr (Or.inr (Or.inr h)))
  | cons p ps ih =>
    intro o h c rest hc
    cases o with
    | nil =>
      cases ps with
      | nil =>
        left
        simp only [okBefore, Bool.or_eq_true, beq_iff_eq] at h
        have hn : nonStart p := by
          rcases h with (((h | h) | h) | h) | h
          · exact Or.inl h
          · exact Or.inr (Or.inl h)
          · exact Or.inr (Or.inr (Or.inl h))
          · exact Or.inr (Or.inr (Or.inr (Or.inl h)))
          · exact Or.inr (Or.inr (Or.inr (Or.inr h)))
        have : p ≠ c := by intro hpc; subst hpc; exact hc hn
        simp [lit, this]
      | cons q qs => simp [okBefore] at h
    | cons y ys =>
      simp only [okBefore] at h
      by_cases hpy : p = y
      · subst hpy
        simp only [if_true] at h
        have := ih ys h c rest hc
        simpa [lit] using this
      · left; simp [lit, hpy]

/-- what the operator's text is followed by: blanks, then the right operand -/
theorem after_op_char (w s rest : Str) (hw : blanks w) (y : Char) (ys : Str) (hs : s = y :: ys) (hy : StartChar y) :
    ∃ c rest', w ++ (s ++ rest) = c :: rest' ∧ ¬ nonStart c := by
  cases w with
  | nil => exact ⟨y, ys ++ rest, by rw [hs]; rfl, startChar_not_nonStart y hy⟩
  | cons c cs =>
    refine ⟨c, cs ++ (s ++ rest), rfl, ?_⟩
    have hc : isSpace c = true := hw c (by simp)
    simp only [isSpace, Bool.or_eq_true, beq_iff_eq] at hc
    intro hn
    rcases hc with rfl | rfl <;> (rcases hn with h | h | h | h | h <;> revert h <;> decide)

theorem endAt_opB (op : BinOp) (m : Nat) (hm : opLevel op < m) (w : Str) (hw : blanks w) (c : Char) (rest : Str) (hc : ¬ nonStart c) :
    EndAt m (w ++ (op.text ++ c :: rest)) := by
  intro x hx
  by_cases hlv : x.2.2.1 < m
  · exact Or.inl hlv
  · right
    have hne : x.2.1 ≠ op := by
      intro h
      have := (table_levels x hx).2
      rw [h] at this
      omega
    rw [space_absorbs w _ hw, skip_op]
    rcases lit_beforeB x.1 op.text (table_others op x hx hne) c rest hc with h | ⟨y, ys, h, hy⟩
    · exact Or.inl h
    · exact Or.inr ⟨y, ys, h, nonStart_noStart y hy⟩

theorem endAt_parenB (m : Nat) (w rest : Str) (hw : blanks w) : EndAt m (w ++ ')' :: rest) := by
  intro x hx
  rcases endAt_paren m rest x hx with h | h | ⟨y, ys, h, hy⟩
  · exact Or.inl h
  · right; left; rw [space_absorbs w _ hw]; exact h
  · right; right; exact ⟨y, ys, by rw [space_absorbs w _ hw]; exact h, hy⟩

theorem atomEndB_paren (w rest : Str) (hw : blanks w) : AtomEndB (w ++ ')' :: rest) :=
  atomEndB_blanks w _ hw (atomEndB_of _ (atomEnd_paren rest)) (Or.inr trivial)

theorem atomEndB_op (w : Str) (hw : blanks w) (op : BinOp) (rest : Str) : AtomEndB (w ++ (op.text ++ rest)) :=
  atomEndB_blanks w _ hw (atomEndB_of _ (atomEnd_op op rest)) (Or.inr trivial)

/-! #### operands with blanks inside -/

theorem skip_blanks_to (w s : Str) (hw : blanks w) (hs : skipSpace s = s) : skipSpace (w ++ s) = s := by
  rw [space_absorbs w s hw, hs]

theorem evPA_parenB (w0 w1 s' : Str) (e : Expr) (rest : Str) (hw0 : blanks w0) (hw1 : blanks w1) (hsk : skipSpace s' = s')
    (h : EvI 0 s' (.ok e (w1 ++ ')' :: rest))) : EvPA ('(' :: (w0 ++ s')) (.ok e rest) := by
  obtain ⟨f0, hf0⟩ := h.at
  refine ⟨by simp, (f0 + 1) + prefixOps.length + 2, ?_⟩
  rw [prefixAtom_atom _ (prefix_none_of '(' _ (by decide))]
  have hid : identText ('(' :: (w0 ++ s')) = none := by simp +decide [identText]
  have hsk0 := skip_blanks_to w0 s' hw0 hsk
  have hsk3 : skipSpace (w1 ++ ')' :: rest) = ')' :: rest := by
    rw [space_absorbs w1 _ hw1]; simp +decide [skipSpace]
  simp only [parseAtom, hid, hsk0, hf0 f0 (Nat.le_refl _), hsk3]

theorem evPA_funcB (name w0 w1 w2 s' : Str) (a : Expr) (rest : Str) (hname : isName name) (hw0 : blanks w0) (hw1 : blanks w1)
    (hw2 : blanks w2) (hsk : skipSpace s' = s') (h : EvI 0 s' (.ok a (w2 ++ ')' :: rest))) :
    EvPA (name ++ (w0 ++ '(' :: (w1 ++ s'))) (.ok (.func (.ident name) a) rest) := by
  obtain ⟨f0, hf0⟩ := h.at
  obtain ⟨x, xs, rfl, hx, hxs⟩ := hname
  have hn : isName (x :: xs) := ⟨x, xs, rfl, hx, hxs⟩
  have fx := identStart_facts x hx
  refine ⟨by simp, (f0 + 1) + prefixOps.length + 2, ?_⟩
  rw [prefixAtom_atom _ (by
    have := prefix_none_of x (xs ++ (w0 ++ '(' :: (w1 ++ s'))) ⟨fx.2.2.2.2.2.1, fx.2.2.2.2.2.2.1, fx.2.2.2.2.2.2.2.1⟩
    simpa using this)]
  have hid : identText ((x :: xs) ++ (w0 ++ '(' :: (w1 ++ s'))) = some (x :: xs, w0 ++ '(' :: (w1 ++ s')) :=
    identText_name _ _ hn (by
      intro y hy
      cases w0 with
      | nil => simp at hy; subst hy; decide
      | cons c cs =>
        simp at hy; subst hy
        have hc : isSpace c = true := hw0 c (by simp)
        simp only [isSpace, Bool.or_eq_true, beq_iff_eq] at hc
        rcases hc with rfl | rfl <;> decide)
  have hsk1 : skipSpace (w0 ++ '(' :: (w1 ++ s')) = '(' :: (w1 ++ s') := by
    rw [space_absorbs w0 _ hw0]; simp +decide [skipSpace]
  have hsk2 := skip_blanks_to w1 s' hw1 hsk
  have hsk3 : skipSpace (w2 ++ ')' :: rest) = ')' :: rest := by
    rw [space_absorbs w2 _ hw2]; simp +decide [skipSpace]
  simp only [parseAtom, hid, hsk1, hsk2, hf0 f0 (Nat.le_refl _), hsk3]

theorem prefixSpace_on : Gen.prefixSpace = true := by decide

theorem evPA_unB (u : UnOp) (w s' : Str) (e : Expr) (rest : Str) (hw : blanks w) (hsk : skipSpace s' = s')
    (h : ∀ lv, lv ≤ top → (∀ x ∈ infixOps, x.2.2.1 < lv) → EvI lv s' (.ok e rest)) :
    EvPA (u.text ++ (w ++ s')) (.ok (.un u e) rest) := by
  obtain ⟨pre, lv, post, c, hsplit, hc, hpre, hlv⟩ := un_split u
  have hle : lv ≤ top := prefix_levels (u.text, u, lv) (by rw [hsplit]; simp)
  obtain ⟨f0, hf0⟩ := (h lv hle hlv).at
  refine ⟨by simp, ((f0 + 1) + pre.length) + 1, ?_⟩
  simp only [parsePrefixAtom]
  rw [hsplit, tryPrefix_skip _ pre (by
    intro x hx
    obtain ⟨d, hd, hdc⟩ := hpre x hx
    rw [hd, hc]; simp [lit, hdc])]
  simp only [tryPrefix, hc, List.cons_append, List.nil_append, lit, if_true]
  simp only [prefixSpace_on, if_true, skip_blanks_to w s' hw hsk, hf0 f0 (Nat.le_refl _)]

/-! #### the texts -/

/-- `Spaced m k e s`: `s` is a way of writing `e` where level `m` is asked for — any blanks
    between the tokens, parentheses where the table requires them AND wherever else one likes;
    `k` is the level above which the text behind `s` has to end the loop (`top` behind an operand,
    one above the operator behind an open binary operation) -/
inductive Spaced : Nat → Nat → Expr → Str → Prop
  | ident (m : Nat) (s : Str) : isName s → Spaced m top (.ident s) s
  | num (m : Nat) (v : Int) (n : Nat) (t : Str) : v = (n : Int) → NumText t n → Spaced m top (.const v) t
  | chr (m : Nat) (c : Char) : notChEnd c = true → Spaced m top (.const (c.toNat : Int)) ['\'', c, '\'']
  | un (m k : Nat) (u : UnOp) (e : Expr) (w s : Str) : blanks w → Spaced top k e s →
      Spaced m top (.un u e) (u.text ++ (w ++ s))
  | func (m k : Nat) (name : Str) (a : Expr) (w0 w1 w2 s : Str) : isName name → blanks w0 → blanks w1 → blanks w2 →
      Spaced 0 k a s → Spaced m top (.func (.ident name) a) (name ++ (w0 ++ '(' :: (w1 ++ (s ++ (w2 ++ [')'])))))
  | bin (m kl kr : Nat) (op : BinOp) (l r : Expr) (w1 w2 sl sr : Str) : ¬ opLevel op < m → blanks w1 → blanks w2 →
      Spaced (opLevel op) kl l sl → Spaced (opLevel op + 1) kr r sr →
      Spaced m (opLevel op + 1) (.bin op l r) (sl ++ (w1 ++ (op.text ++ (w2 ++ sr))))
  | paren (m k : Nat) (e : Expr) (w0 w1 s : Str) : blanks w0 → blanks w1 → Spaced 0 k e s →
      Spaced m top e ('(' :: (w0 ++ (s ++ (w1 ++ [')']))))

/-- a number below 2^63 in decimal -/
theorem Spaced.const (m : Nat) (v : Int) (n : Nat) (hv : v = (n : Int)) (hfit : n < 2 ^ 63) : Spaced m top (.const v) (intToDec v) :=
  .num m v n (intToDec v) hv (by rw [hv]; exact numText_intToDec n hfit)

theorem opLevel_lt_top (op : BinOp) : opLevel op < top := by
  obtain ⟨pre, post, hs, _⟩ := table_entry op
  exact (table_levels (op.text, op, opLevel op, opLevel op + 1) (by rw [hs]; simp)).1

theorem spaced_level (m k : Nat) (e : Expr) (s : Str) (h : Spaced m k e s) : k = top ∨ m < k := by
  cases h with
  | bin _ _ _ op _ _ _ _ _ _ hlv _ _ _ _ => right; omega
  | _ => exact Or.inl rfl

theorem spaced_head (m k : Nat) (e : Expr) (s : Str) (h : Spaced m k e s) : ∃ y ys, s = y :: ys ∧ StartChar y := by
  induction h with
  | ident m s hs =>
    obtain ⟨x, xs, rfl, hx, _⟩ := hs
    exact ⟨x, xs, rfl, Or.inl hx⟩
  | num m v n t hv hnt =>
    obtain ⟨⟨y, ys, hy, hd⟩, _⟩ := hnt
    refine ⟨y, ys, hy, ?_⟩
    rcases hd with hd | hd
    · exact Or.inr (Or.inl hd)
    · exact Or.inr (Or.inr (Or.inr (Or.inr (Or.inr (Or.inr (Or.inl hd))))))
  | chr m c hc => exact ⟨'\'', _, rfl, Or.inr (Or.inr (Or.inr (Or.inr (Or.inr (Or.inr (Or.inr rfl))))))⟩
  | un m k u e w s _ _ _ =>
    cases u with
    | minus => exact ⟨'-', _, rfl, Or.inr (Or.inr (Or.inr (Or.inl rfl)))⟩
    | bnot => exact ⟨'~', _, rfl, Or.inr (Or.inr (Or.inr (Or.inr (Or.inl rfl))))⟩
    | lnot => exact ⟨'!', _, rfl, Or.inr (Or.inr (Or.inr (Or.inr (Or.inr (Or.inl rfl)))))⟩
  | func m k name a w0 w1 w2 s hn _ _ _ _ _ =>
    obtain ⟨x, xs, rfl, hx, _⟩ := hn
    exact ⟨x, _, rfl, Or.inl hx⟩
  | bin m kl kr op l r w1 w2 sl sr _ _ _ _ _ ihl _ =>
    obtain ⟨y, ys, hy, hs⟩ := ihl
    exact ⟨y, ys ++ (w1 ++ (op.text ++ (w2 ++ sr))), by rw [hy]; rfl, hs⟩
  | paren m k e w0 w1 s _ _ _ _ => exact ⟨'(', _, rfl, Or.inr (Or.inr (Or.inl rfl))⟩

theorem skip_spaced (m k : Nat) (e : Expr) (s : Str) (h : Spaced m k e s) (rest : Str) : skipSpace (s ++ rest) = s ++ rest := by
  obtain ⟨y, ys, hy, hs⟩ := spaced_head m k e s h
  rw [hy]
  simp [skipSpace, startChar_noSpace y hs]

/-- parsing the text brings the loop to the expression, at any minimum level up to the one asked for -/
def GoesS (m k : Nat) (e : Expr) (s : Str) : Prop :=
  ∀ mp rest res, mp ≤ m → AtomEndB rest → EndAt k rest → EvL mp e rest res → EvI mp (s ++ rest) res

theorem closedS (m k : Nat) (e : Expr) (s : Str) (hsp : Spaced m k e s) (hg : GoesS m k e s) (hm : m ≤ top) (rest : Str)
    (hr : AtomEndB rest) (he : EndAt m rest) : EvI m (s ++ rest) (.ok e rest) := by
  have hk : m ≤ k := by
    rcases spaced_level m k e s hsp with h | h
    · rw [h]; exact hm
    · omega
  exact hg m rest _ (Nat.le_refl _) hr (endAt_mono _ _ hk rest he) (evL_end m e rest he)

theorem goesS (m k : Nat) (e : Expr) (s : Str) (h : Spaced m k e s) : GoesS m k e s := by
  induction h with
  | ident m s hs =>
    intro mp rest res _ hr _ hl
    exact evI_intro mp _ _ rest res (evPA_ident s hs rest hr) hl
  | num m v n t hv hnt =>
    intro mp rest res _ hr _ hl
    exact evI_intro mp _ _ rest res (evPA_num v n t hv hnt rest hr) hl
  | chr m c hc =>
    intro mp rest res _ hr _ hl
    exact evI_intro mp _ _ rest res (evPA_chr c hc rest) hl
  | un m k u e w s hw hsp ih =>
    intro mp rest res _ hr _ hl
    have hform : u.text ++ (w ++ s) ++ rest = u.text ++ (w ++ (s ++ rest)) := by simp
    rw [hform]
    refine evI_intro mp _ (.un u e) rest res ?_ hl
    refine evPA_unB u w _ e rest hw (skip_spaced _ _ _ _ hsp rest) ?_
    intro lv hle hlv
    have hend : EndAt lv rest := fun x hx => Or.inl (hlv x hx)
    have hk : EndAt k rest := by
      rcases spaced_level _ _ _ _ hsp with h | h
      · rw [h]; exact endAt_top top (Nat.le_refl _) rest
      · exact endAt_top k (by omega) rest
    exact ih lv rest _ hle hr hk (evL_end lv e rest hend)
  | func m k name a w0 w1 w2 s hn hw0 hw1 hw2 hsp ih =>
    intro mp rest res _ hr _ hl
    have hform : name ++ (w0 ++ '(' :: (w1 ++ (s ++ (w2 ++ [')'])))) ++ rest =
        name ++ (w0 ++ '(' :: (w1 ++ (s ++ (w2 ++ ')' :: rest)))) := by simp
    rw [hform]
    refine evI_intro mp _ (.func (.ident name) a) rest res ?_ hl
    exact evPA_funcB name w0 w1 w2 _ a rest hn hw0 hw1 hw2 (skip_spaced _ _ _ _ hsp _)
      (closedS 0 k a s hsp ih (Nat.zero_le _) _ (atomEndB_paren w2 rest hw2) (endAt_parenB 0 w2 rest hw2))
  | paren m k e w0 w1 s hw0 hw1 hsp ih =>
    intro mp rest res _ hr _ hl
    have hform : '(' :: (w0 ++ (s ++ (w1 ++ [')']))) ++ rest = '(' :: (w0 ++ (s ++ (w1 ++ ')' :: rest))) := by simp
    rw [hform]
    refine evI_intro mp _ e rest res ?_ hl
    exact evPA_parenB w0 w1 _ e rest hw0 hw1 (skip_spaced _ _ _ _ hsp _)
      (closedS 0 k e s hsp ih (Nat.zero_le _) _ (atomEndB_paren w1 rest hw1) (endAt_parenB 0 w1 rest hw1))
  | bin m kl kr op l r w1 w2 sl sr hlv hw1 hw2 hspl hspr ihl ihr =>
    intro mp rest res hmp hr he hloop
    have hform : sl ++ (w1 ++ (op.text ++ (w2 ++ sr))) ++ rest = sl ++ (w1 ++ (op.text ++ (w2 ++ (sr ++ rest)))) := by simp
    rw [hform]
    obtain ⟨y, ys, hy, hys⟩ := spaced_head _ _ _ _ hspr
    obtain ⟨c, rest', hcr, hc⟩ := after_op_char w2 sr rest hw2 y ys hy hys
    have hLtop := opLevel_lt_top op
    -- the left operand, then the loop at the operator
    refine ihl mp _ res (by omega) (atomEndB_op w1 hw1 op _) ?_ ?_
    · rcases spaced_level _ _ _ _ hspl with h | h
      · rw [h]; exact endAt_top top (Nat.le_refl _) _
      · rw [hcr]; exact endAt_opB op kl h w1 hw1 c rest' hc
    · obtain ⟨pre, post, hs, hpre⟩ := table_entry op
      apply evL_of_TI
      rw [hs]
      have hskX : skipSpace (w1 ++ (op.text ++ (w2 ++ (sr ++ rest)))) = op.text ++ (w2 ++ (sr ++ rest)) := by
        rw [space_absorbs w1 _ hw1, skip_op]
      refine evTI_passes mp l _ _ res pre _ ?_ ?_
      · intro x hx
        right
        rw [hskX, hcr]
        rcases lit_beforeB x.1 op.text (hpre x hx) c rest' hc with h | ⟨y', ys', h, hy'⟩
        · exact Or.inl h
        · exact Or.inr ⟨y', ys', h, nonStart_noStart y' hy'⟩
      · refine evTI_match mp op.text op (opLevel op) (opLevel op + 1) post l _ _ (w2 ++ (sr ++ rest)) r rest res
          (by omega) (by rw [hskX]; exact lit_self _ _) ?_ hloop
        rw [skip_blanks_to w2 _ hw2 (skip_spaced _ _ _ _ hspr rest)]
        exact closedS (opLevel op + 1) kr r sr hspr ihr (by omega) rest hr he

/-- **parse (print e) = e with blanks and with parentheses that are not needed**: every way of
    writing an expression with any blanks and tabs between its tokens — after prefix operators,
    around binary operators, inside and outside parentheses, between a function name and its
    parenthesis — with the parentheses the operator table requires and any number of further ones,
    is read by `expr()` as exactly that expression -/
theorem parse_print_spaced (k : Nat) (e : Expr) (s : Str) (h : Spaced 0 k e s) (rest : Str) (hr : AtomEndB rest)
    (he : EndAt 0 rest) : expr (s ++ rest) = .ok e rest :=
  expr_of_evI _ _ (closedS 0 k e s h (goesS 0 k e s h) (Nat.zero_le _) rest hr he)

theorem parse_print_spaced_whole (k : Nat) (e : Expr) (s : Str) (h : Spaced 0 k e s) : expr s = .ok e [] := by
  have := parse_print_spaced k e s h [] (atomEndB_of [] atomEnd_nil) (endAt_nil 0)
  simpa using this

/-- the minimal rendering is one of these texts -/
theorem spaced_render (e : Expr) (h : Wf e) : ∀ m, ∃ k, Spaced m k e (render m e) := by
  induction h with
  | ident s hs => intro m; exact ⟨top, .ident m s hs⟩
  | const v n hv hn => intro m; exact ⟨top, .num m v n (intToDec v) hv (by rw [hv]; exact numText_intToDec n hn)⟩
  | func name a hn ha ih =>
    intro m
    obtain ⟨k, hk⟩ := ih 0
    refine ⟨top, ?_⟩
    have := Spaced.func m k name a [] [] [] (render 0 a) hn (by intro c hc; simp at hc) (by intro c hc; simp at hc)
      (by intro c hc; simp at hc) hk
    simpa [render, exprText] using this
  | un u e he ih =>
    intro m
    obtain ⟨k, hk⟩ := ih top
    refine ⟨top, ?_⟩
    have := Spaced.un m k u e [] (render top e) (by intro c hc; simp at hc) hk
    simpa [render] using this
  | bin op l r hl hr ihl ihr =>
    intro m
    obtain ⟨kl, hkl⟩ := ihl (opLevel op)
    obtain ⟨kr, hkr⟩ := ihr (opLevel op + 1)
    by_cases hp : opLevel op < m
    · refine ⟨top, ?_⟩
      have hopen := Spaced.bin 0 kl kr op l r [] [] _ _ (Nat.not_lt_zero _) (by intro c hc; simp at hc) (by intro c hc; simp at hc) hkl hkr
      have := Spaced.paren m _ (.bin op l r) [] [] _ (by intro c hc; simp at hc) (by intro c hc; simp at hc) hopen
      simpa [render, hp] using this
    · refine ⟨opLevel op + 1, ?_⟩
      have := Spaced.bin m kl kr op l r [] [] _ _ hp (by intro c hc; simp at hc) (by intro c hc; simp at hc) hkl hkr
      simpa [render, hp] using this

/-! non-vacuity: `a + (2)*low ( b )` -/
example : ∃ k, Spaced 0 k (.bin .add (.ident ['a']) (.bin .mul (.const 2) (.func (.ident ['l', 'o', 'w']) (.ident ['b']))))
    "a + (2)*low ( b )".toList :=
  ⟨_, by
    have hb : ∀ w : Str, w = [] ∨ w = [' '] → blanks w := by
      intro w hw c hc; rcases hw with rfl | rfl <;> simp at hc; subst hc; decide
    have h2 : Spaced (opLevel .mul) top (.const 2) ['(', '2', ')'] :=
      Spaced.paren _ top (.const 2) [] [] ['2'] (hb _ (Or.inl rfl)) (hb _ (Or.inl rfl)) (Spaced.const 0 2 2 rfl (by decide))
    have hf : Spaced (opLevel .mul + 1) top (.func (.ident ['l', 'o', 'w']) (.ident ['b'])) "low ( b )".toList :=
      Spaced.func _ top ['l', 'o', 'w'] (.ident ['b']) [' '] [' '] [' '] ['b'] ⟨'l', ['o', 'w'], rfl, by decide, by decide⟩
        (hb _ (Or.inr rfl)) (hb _ (Or.inr rfl)) (hb _ (Or.inr rfl)) (Spaced.ident 0 ['b'] ⟨'b', [], rfl, by decide, by decide⟩)
    have hm : Spaced (opLevel .add + 1) (opLevel .mul + 1) (.bin .mul (.const 2) (.func (.ident ['l', 'o', 'w']) (.ident ['b'])))
        "(2)*low ( b )".toList :=
      Spaced.bin _ top top .mul _ _ [] [] _ _ (by decide) (hb _ (Or.inl rfl)) (hb _ (Or.inl rfl)) h2 hf
    exact Spaced.bin 0 top _ .add _ _ [' '] [' '] ['a'] _ (by decide) (hb _ (Or.inr rfl)) (hb _ (Or.inr rfl))
      (Spaced.ident _ ['a'] ⟨'a', [], rfl, by decide, by decide⟩) hm⟩

/-! non-vacuity: `'A' + 0x1F`, a character literal and a number in another radix as leaves -/
example : Spaced 0 (opLevel .add + 1) (.bin .add (.const (('A' : Char).toNat : Int)) (.const ((value 16 [(false, 1), (true, 15)] : Nat) : Int)))
    "'A' + 0x1F".toList :=
  Spaced.bin 0 top top .add _ _ [' '] [' '] ['\'', 'A', '\''] ('0' :: 'x' :: text [(false, 1), (true, 15)]) (by decide)
    (by intro c hc; simp at hc; subst hc; decide) (by intro c hc; simp at hc; subst hc; decide)
    (Spaced.chr _ 'A' (by decide))
    (Spaced.num _ _ (value 16 [(false, 1), (true, 15)]) _ rfl (numText_hex _ (by decide) (by decide) (by decide)))

end Avra.Props.C05pp
