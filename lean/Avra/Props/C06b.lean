/-
  C06 inside the passes: a data directive as pass 2 emits it (`data_item`: exactly the bytes the
  independent table prescribes for the line, appended behind everything emitted before, the
  address advanced by what was emitted; a line the table rejects ends the build naming the line),
  the single pad byte of an odd `.db` line in flash as pass 1 books it (`db_item_padded`) and the
  zero bytes of `.byte n` (`reserve_item`).
-/
import Avra.Props.C06
import Avra.Props.C03b
import Avra.Props.C16
namespace Avra.Props.C06b
open Avra Avra.Model Avra.Spec Avra.Props.C06 Avra.Props.C03b

/-- a data directive inside pass 2 -/
theorem data_item (t : SegT) (ln : Nat) (dt : DataDefine) (ops : List Operand) (rest : List (Nat × Item))
    (cur : Nat) (acc : List Nat) (ctx : Ctx) :
    pass2Items t ((ln, .data dt ops) :: rest) cur acc ctx =
      match lineBytes dt (ops.map (denote (atPc ctx cur))) with
      | some bytes =>
        pass2Items t rest (cur + (if t = SegT.code then bytes.length / 2 else bytes.length)) (acc ++ bytes) (atPc ctx cur)
      | none => .error ⟨some ln, "data"⟩ := by
  have hs := line_spec (atPc ctx cur) dt ops
  have hno : dataBytes (atPc ctx cur) dt ops ≠ .oof := C16.dataBytes_no_oof _ _ _
  conv => lhs; unfold pass2Items
  show (match dataBytes (atPc ctx cur) dt ops with
    | .ok bytes =>
      pass2Items t rest (cur + (if t = SegT.code then bytes.length / 2 else bytes.length)) (acc ++ bytes) (atPc ctx cur)
    | .err => lineErr ln "data"
    | .oof => .oof) = _
  rw [← hs]
  cases h : dataBytes (atPc ctx cur) dt ops with
  | ok bs => rfl
  | err => rfl
  | oof => exact absurd h hno

/-- `.byte n` inside pass 2 (EEPROM): n zero bytes, the address advanced by n -/
theorem reserve_item (t : SegT) (ln : Nat) (n : Int) (rest : List (Nat × Item))
    (cur : Nat) (acc : List Nat) (ctx : Ctx) :
    pass2Items t ((ln, .reserveData n) :: rest) cur acc ctx =
      pass2Items t rest (cur + n.toNat) (acc ++ List.replicate n.toNat 0) (atPc ctx cur) := by
  conv => lhs; unfold pass2Items
  rfl

/-- a `.db` line in FLASH as pass 1 books it: an odd number of bytes gets exactly one zero byte
    (as a further operand, so that pass 2 emits it), an even number none; the address advances by
    the padded length in words -/
theorem db_item_padded (limit : Nat) (ln : Nat) (ops : List Operand) (rest : List (Nat × Item))
    (cur : Nat) (ctx : Ctx) (hlim : ¬ cur > limit) :
    pass1Items .code limit ((ln, .data .db ops) :: rest) cur ctx =
      let ops' := if actualLen ops % 2 = 1 then ops ++ [.e (.const 0)] else ops
      consItem (ln, .data .db ops') (pass1Items .code limit rest (cur + actualLen ops' / 2) ctx) := by
  conv => lhs; unfold pass1Items
  simp only [hlim, if_false]

/-- … and in EEPROM: no padding, the address advances by the number of bytes -/
theorem db_item_eeprom (limit : Nat) (ln : Nat) (ops : List Operand) (rest : List (Nat × Item))
    (cur : Nat) (ctx : Ctx) (hlim : ¬ cur > limit) :
    pass1Items .eeprom limit ((ln, .data .db ops) :: rest) cur ctx =
      consItem (ln, .data .db ops) (pass1Items .eeprom limit rest (cur + actualLen ops) ctx) := by
  conv => lhs; unfold pass1Items
  simp only [hlim, if_false]

/-- a data directive in the data segment is an error naming the line -/
theorem data_in_dseg (limit : Nat) (ln : Nat) (dt : DataDefine) (ops : List Operand) (rest : List (Nat × Item))
    (cur : Nat) (ctx : Ctx) (hlim : ¬ cur > limit) :
    ∃ k, pass1Items .data limit ((ln, .data dt ops) :: rest) cur ctx = .error ⟨some ln, k⟩ := by
  cases dt <;> (conv => enter [1, k, 1]; unfold pass1Items) <;> simp [hlim, lineErr]

end Avra.Props.C06b
