/-
  C14 at the level of the build, macro bodies included — `build_same_macro_bodies`.

  `C14b.build_same_outside_macro_bodies` keeps the text of macro bodies as it is, because the
  parser stores a body as TEXT and parses it again at every call, after pasting the call's
  operands over `@0`, `@1`, ….  Here the body lines may change too: a body line may be replaced by
  a line that parses to the same thing when neither holds an `@` (so nothing is pasted into it) and
  neither is longer than MAX_MACRO_LINE.  The two builds then no longer run through the same
  states — their macro tables hold different texts — so the proof is a simulation: a relation
  between parser states that differ only in the texts of related bodies (`StRel`), preserved by
  every directive (`directiveParse_rel`, from the frame lemma `directiveParse_frame`: no directive
  but `.include` looks at the macro table), by the line loop with its skippers
  (`parseIterWith_rel`), by included files (`parseFileAt_rel`, induction on the include depth), by
  the expansion of a call (`macroExpand_rel`: related bodies stay related under substitution,
  `substArgs_noAt`) and by the nested pass-0 loops (`pass0At_rel`, induction on the macro depth);
  the passes after pass 0 never look at the macro table (`buildFromParsed_rel`).

  The handlers are related across TWO file systems (`FsRel`: the same directories and file names,
  the files related line by line), so the statement reaches `build_file` and every included file:
  `build_file_same`, `build_str_same`.
-/
import Avra.Props.C14b
namespace Avra.Props.C14
open Avra Avra.Model Avra.Peg
set_option linter.unusedSimpArgs false
set_option linter.unusedVariables false
set_option linter.constructorNameAsVariable false
set_option maxHeartbeats 400000

def setM (st : PState) (M : List (Str × List (Nat × Str))) : PState := { st with macros := M }

def frameOut (M : List (Str × List (Nat × Str))) : Out (PState × List Str × NextItem) → Out (PState × List Str × NextItem)
  | .ok (s, i, n) => .ok (setM s M, i, n)
  | .error e => .error e
  | .panic p => .panic p
  | .oof => .oof

@[simp] theorem setM_segments (st : PState) (M) : (setM st M).segments = st.segments := rfl
@[simp] theorem setM_ctx (st : PState) (M) : (setM st M).ctx = st.ctx := rfl
@[simp] theorem setM_messages (st : PState) (M) : (setM st M).messages = st.messages := rfl
@[simp] theorem setM_macroName (st : PState) (M) : (setM st M).macroName = st.macroName := rfl
@[simp] theorem setM_lastSeg (st : PState) (M) : (setM st M).lastSeg = st.lastSeg := rfl

@[simp] theorem modifyLast_setM (st : PState) (M) (f : Segment → Segment) : (setM st M).modifyLast f = setM (st.modifyLast f) M := by
  unfold PState.modifyLast
  simp only [setM_segments]
  split <;> rfl

@[simp] theorem pushToLast_setM (st : PState) (M) (ln : Nat) (it : Avra.Item) : (setM st M).pushToLast ln it = setM (st.pushToLast ln it) M := by
  unfold PState.pushToLast
  exact modifyLast_setM st M _

@[simp] theorem addSegment_setM (st : PState) (M) (sg : Segment) : (setM st M).addSegment sg = setM (st.addSegment sg) M := rfl

theorem directiveParse_frame (inc : IncludeFn) (cur : Str) (incs : List Str) (st : PState) (d : Directive)
    (ops : DirectiveOps) (ln : Nat) (M : List (Str × List (Nat × Str))) (hd : d ≠ .include) :
    directiveParse inc cur incs (setM st M) d ops ln = frameOut M (directiveParse inc cur incs st d ops ln) := by
  unfold directiveParse
  dsimp only
  simp only [setM_ctx, setM_segments, setM_messages, setM_macroName, setM_lastSeg]
  repeat' split
  all_goals first
    | rfl
    | (simp [frameOut, lineErr]; done)
    | (simp [frameOut, lineErr, setM]; done)
    | (exact absurd rfl hd)
    | (split <;> first | rfl | (simp [frameOut, lineErr]; done) | (simp [frameOut, lineErr, setM]; done) | (split <;> first | rfl | (simp [frameOut, lineErr]; done) | (simp [frameOut, lineErr, setM]; done)))
    | (simp_all [frameOut, lineErr, setM]; done)
    | (split <;> simp_all [frameOut, lineErr, setM]; done)
    | (rename_i h; simp [h, frameOut]; done)
    | (rename_i h; rw [if_pos h, if_pos h]; simp [frameOut]; done)
    | (rename_i h; rw [if_neg h, if_neg h]; simp [frameOut]; done)
    | skip

@[simp] theorem setM_macros (st : PState) (M) : (setM st M).macros = M := rfl
theorem setM_self (st : PState) : setM st st.macros = st := rfl
@[simp] theorem setM_setM (st : PState) (M M') : setM (setM st M) M' = setM st M' := rfl

/-! ### text that is kept: macro bodies -/

/-- a line of a macro body may be replaced by a line that parses alike when neither holds an `@`
    (nothing is substituted into it) and neither is longer than MAX_MACRO_LINE -/
def BodyLineRel (l l' : Str) : Prop :=
  l = l' ∨ (parseLine l = parseLine l' ∧ '@' ∉ l ∧ '@' ∉ l' ∧ (utf8 l).length ≤ macroLine ∧ (utf8 l').length ≤ macroLine)

theorem bodyLineRel_parse (l l' : Str) (h : BodyLineRel l l') : parseLine l = parseLine l' := by
  rcases h with rfl | h
  · rfl
  · exact h.1

inductive BodyRel : List (Nat × Str) → List (Nat × Str) → Prop
  | nil : BodyRel [] []
  | cons (n : Nat) (l l' : Str) (b b' : List (Nat × Str)) : BodyLineRel l l' → BodyRel b b' → BodyRel ((n, l) :: b) ((n, l') :: b')

theorem bodyRel_refl : ∀ b : List (Nat × Str), BodyRel b b
  | [] => .nil
  | (n, l) :: rest => .cons n l l rest rest (Or.inl rfl) (bodyRel_refl rest)

inductive TabRel : List (Str × List (Nat × Str)) → List (Str × List (Nat × Str)) → Prop
  | nil : TabRel [] []
  | cons (k : Str) (b b' : List (Nat × Str)) (m m' : List (Str × List (Nat × Str))) :
      BodyRel b b' → TabRel m m' → TabRel ((k, b) :: m) ((k, b') :: m')

theorem tabRel_refl : ∀ m : List (Str × List (Nat × Str)), TabRel m m
  | [] => .nil
  | (k, b) :: rest => .cons k b b rest rest (bodyRel_refl b) (tabRel_refl rest)

theorem tabRel_filter (k : Str) : ∀ (m m' : List (Str × List (Nat × Str))), TabRel m m' →
    TabRel (m.filter (fun p => p.1 ≠ k)) (m'.filter (fun p => p.1 ≠ k)) := by
  intro m m' h
  induction h with
  | nil => exact .nil
  | cons k2 b b' m m' hb _ ih =>
    simp only [List.filter_cons]
    split
    · exact .cons k2 b b' _ _ hb ih
    · exact ih

theorem tabRel_ainsert (k : Str) (b b' : List (Nat × Str)) (m m' : List (Str × List (Nat × Str)))
    (hb : BodyRel b b') (h : TabRel m m') : TabRel (ainsert k b m) (ainsert k b' m') := by
  unfold ainsert
  exact .cons k b b' _ _ hb (tabRel_filter k m m' h)

theorem tabRel_lookup (k : Str) : ∀ (m m' : List (Str × List (Nat × Str))), TabRel m m' →
    (alookup k m = none ∧ alookup k m' = none) ∨ ∃ b b', alookup k m = some b ∧ alookup k m' = some b' ∧ BodyRel b b' := by
  intro m m' h
  induction h with
  | nil => exact Or.inl ⟨rfl, rfl⟩
  | cons k2 b b' m m' hb _ ih =>
    simp only [alookup]
    split
    · exact Or.inr ⟨b, b', rfl, rfl, hb⟩
    · exact ih

/-- two parser states that differ at most in the texts of the macro bodies they hold -/
def StRel (st st' : PState) : Prop := st' = setM st st'.macros ∧ TabRel st.macros st'.macros

theorem stRel_refl (st : PState) : StRel st st := ⟨rfl, tabRel_refl _⟩

theorem stRel_setM (st : PState) (M M' : List (Str × List (Nat × Str))) (h : TabRel M M') : StRel (setM st M) (setM st M') :=
  ⟨rfl, h⟩

theorem stRel_cases (st st' : PState) (h : StRel st st') : ∃ s M M', st = setM s M ∧ st' = setM s M' ∧ TabRel M M' :=
  ⟨st, st.macros, st'.macros, rfl, h.1, h.2⟩

/-- results related the same way -/
def OutRel {α : Type} (R : α → α → Prop) : Out α → Out α → Prop
  | .ok a, .ok b => R a b
  | .error e, .error e' => e = e'
  | .panic p, .panic p' => p = p'
  | .oof, .oof => True
  | _, _ => False

/-- an include handler that respects the relation -/
def IncRel (inc inc' : IncludeFn) : Prop :=
  ∀ path incs st st', StRel st st' → OutRel (fun a b => StRel a.1 b.1 ∧ a.2 = b.2) (inc path incs st) (inc' path incs st')

abbrev StepRel (a b : PState × List Str × NextItem) : Prop := StRel a.1 b.1 ∧ a.2 = b.2

theorem directiveParse_include (inc : IncludeFn) (cur : Str) (incs : List Str) (st : PState) (ops : DirectiveOps) (ln : Nat) :
    directiveParse inc cur incs st .include ops ln =
      (match ops with
       | .opList (.s path :: _) =>
         match inc path incs st with
         | .ok (st', incs') => .ok (st', incs', .newLine)
         | .error e => if e.kind = "include-depth" ∧ e.line = none then lineErr ln "include-depth" else .error e
         | .panic s => .panic s
         | .oof => .oof
       | _ => lineErr ln "include-args") := by
  unfold directiveParse
  dsimp only
  cases ops with
  | assign a e => rfl
  | opList l =>
    cases l with
    | nil => rfl
    | cons o os => cases o <;> rfl

/-- no directive but `.include` calls the include handler -/
theorem directiveParse_inc_irrel (inc inc' : IncludeFn) (cur : Str) (incs : List Str) (st : PState) (d : Directive)
    (ops : DirectiveOps) (ln : Nat) (hd : d ≠ .include) :
    directiveParse inc cur incs st d ops ln = directiveParse inc' cur incs st d ops ln := by
  unfold directiveParse
  dsimp only
  repeat' split
  all_goals first
    | rfl
    | (exact absurd rfl hd)

theorem directiveParse_rel (inc inc' : IncludeFn) (hinc : IncRel inc inc') (cur : Str) (incs : List Str) (st st' : PState)
    (h : StRel st st') (d : Directive) (ops : DirectiveOps) (ln : Nat) :
    OutRel StepRel (directiveParse inc cur incs st d ops ln) (directiveParse inc' cur incs st' d ops ln) := by
  by_cases hd : d = .include
  · subst hd
    rw [directiveParse_include, directiveParse_include]
    cases ops with
    | assign a e => simp [OutRel, lineErr]
    | opList l =>
      cases l with
      | nil => simp [OutRel, lineErr]
      | cons o os =>
        cases o with
        | e x => simp [OutRel, lineErr]
        | s path =>
          have := hinc path incs st st' h
          simp only
          cases h1 : inc path incs st with
          | ok v =>
            cases h2 : inc' path incs st' with
            | ok v' =>
              rw [h1, h2] at this
              obtain ⟨a, b⟩ := v; obtain ⟨a', b'⟩ := v'
              simp only [OutRel] at this ⊢
              exact ⟨this.1, by rw [this.2]⟩
            | error e => rw [h1, h2] at this; simp [OutRel] at this
            | panic p => rw [h1, h2] at this; simp [OutRel] at this
            | oof => rw [h1, h2] at this; simp [OutRel] at this
          | error e =>
            cases h2 : inc' path incs st' with
            | error e' =>
              rw [h1, h2] at this
              simp only [OutRel] at this
              subst this
              simp only
              split <;> simp [OutRel, lineErr]
            | ok v => rw [h1, h2] at this; simp [OutRel] at this
            | panic p => rw [h1, h2] at this; simp [OutRel] at this
            | oof => rw [h1, h2] at this; simp [OutRel] at this
          | panic p =>
            cases h2 : inc' path incs st' with
            | panic p' => rw [h1, h2] at this; simp only [OutRel] at this ⊢; exact this
            | ok v => rw [h1, h2] at this; simp [OutRel] at this
            | error e => rw [h1, h2] at this; simp [OutRel] at this
            | oof => rw [h1, h2] at this; simp [OutRel] at this
          | oof =>
            cases h2 : inc' path incs st' with
            | oof => simp [OutRel]
            | ok v => rw [h1, h2] at this; simp [OutRel] at this
            | error e => rw [h1, h2] at this; simp [OutRel] at this
            | panic p => rw [h1, h2] at this; simp [OutRel] at this
  · obtain ⟨hst, htab⟩ := h
    rw [directiveParse_inc_irrel inc' inc cur incs st' d ops ln hd]
    have f1 := directiveParse_frame inc cur incs st d ops ln st'.macros hd
    have f0 := directiveParse_frame inc cur incs st d ops ln st.macros hd
    rw [setM_self] at f0
    rw [hst, f1]
    cases hr : directiveParse inc cur incs st d ops ln with
    | ok v =>
      obtain ⟨s, i, n⟩ := v
      rw [hr] at f0
      simp only [frameOut, Out.ok.injEq, Prod.mk.injEq] at f0
      simp only [frameOut, OutRel]
      refine ⟨⟨rfl, ?_⟩, rfl⟩
      have : s.macros = st.macros := by rw [f0.1]; rfl
      rw [this]; exact htab
    | error e => simp [frameOut, OutRel]
    | panic p => simp [frameOut, OutRel]
    | oof => simp [frameOut, OutRel]

theorem modifyLast_macros (st : PState) (f : Segment → Segment) : (st.modifyLast f).macros = st.macros := by
  unfold PState.modifyLast
  split <;> rfl

theorem pushToLast_macros (st : PState) (ln : Nat) (it : Avra.Item) : (st.pushToLast ln it).macros = st.macros := by
  unfold PState.pushToLast; exact modifyLast_macros st _

theorem stRel_push (st st' : PState) (h : StRel st st') (ln : Nat) (it : Avra.Item) :
    StRel (st.pushToLast ln it) (st'.pushToLast ln it) := by
  obtain ⟨hst, htab⟩ := h
  rw [hst, pushToLast_setM]
  refine ⟨rfl, ?_⟩
  rw [pushToLast_macros]; exact htab

theorem lineStep_rel (inc inc' : IncludeFn) (hinc : IncRel inc inc') (cur : Str) (incs : List Str) (st st' : PState) (h : StRel st st')
    (idx : Nat) (t t' : Str) (re : Bool) (hp : parseLine t = parseLine t') :
    OutRel StepRel (lineStep inc cur incs st idx t re) (lineStep inc' cur incs st' idx t' re) := by
  unfold lineStep
  rw [← hp]
  dsimp only
  split
  · simp [OutRel]
  · simp [OutRel, lineErr]
  · rename_i doc o _ _
    cases doc with
    | label name => exact ⟨stRel_push st st' h _ _, rfl⟩
    | codeLine lab op args =>
      cases lab with
      | none => exact ⟨stRel_push st st' h _ _, rfl⟩
      | some n => exact ⟨stRel_push _ _ (stRel_push st st' h _ _) _ _, rfl⟩
    | emptyLine => exact ⟨h, rfl⟩
    | directiveLine lab d ops =>
      cases lab with
      | none =>
        simp only
        split
        · exact ⟨h, rfl⟩
        · exact directiveParse_rel inc inc' hinc cur incs _ _ h d ops (idx + 1)
      | some n =>
        simp only
        split
        · exact ⟨stRel_push st st' h _ _, rfl⟩
        · exact directiveParse_rel inc inc' hinc cur incs _ _ (stRel_push st st' h _ _) d ops (idx + 1)

/-! ### the loop over the lines, relationally -/

theorem bodyRel_append : ∀ (a a' b b' : List (Nat × Str)), BodyRel a a' → BodyRel b b' → BodyRel (a ++ b) (a' ++ b') := by
  intro a a' b b' h hb
  induction h with
  | nil => exact hb
  | cons n l l' x x' hl _ ih => exact .cons n l l' _ _ hl ih

theorem bodyRel_reverse (a a' : List (Nat × Str)) (h : BodyRel a a') : BodyRel a.reverse a'.reverse := by
  induction h with
  | nil => exact .nil
  | cons n l l' x x' hl _ ih =>
    simp only [List.reverse_cons]
    exact bodyRel_append _ _ _ _ ih (.cons n l l' [] [] hl .nil)

/-- `SameB b ls ls'`: line for line the same parse; from a line that opens a macro definition to the
    next line that closes one (`b` = we are in between) the lines are related as body lines -/
inductive SameB : Bool → List (Nat × Str) → List (Nat × Str) → Prop
  | nil (b : Bool) : SameB b [] []
  | out (n : Nat) (l l' : Str) (ls ls' : List (Nat × Str)) :
      parseLine l = parseLine l' → SameB (opensMacro l) ls ls' → SameB false ((n, l) :: ls) ((n, l') :: ls')
  | within (n : Nat) (l l' : Str) (ls ls' : List (Nat × Str)) :
      BodyLineRel l l' → SameB (!closesMacro l) ls ls' → SameB true ((n, l) :: ls) ((n, l') :: ls')

theorem sameB_parse : ∀ (b : Bool) (ls ls' : List (Nat × Str)), SameB b ls ls' → SameDocs ls ls' := by
  intro b ls ls' h
  induction h with
  | nil b => exact .nil
  | out n l l' ls ls' hp _ ih => exact .cons n l l' ls ls' hp ih
  | within n l l' ls ls' hl _ ih => exact .cons n l l' ls ls' (bodyLineRel_parse l l' hl) ih

theorem sameB_refl : ∀ (ls : List (Nat × Str)) (b : Bool), SameB b ls ls
  | [], b => .nil b
  | (n, l) :: rest, false => .out n l l rest rest rfl (sameB_refl rest _)
  | (n, l) :: rest, true => .within n l l rest rest (Or.inl rfl) (sameB_refl rest _)

/-- body lines are related in either mode -/
theorem sameB_of_body : ∀ (ls ls' : List (Nat × Str)), BodyRel ls ls' → ∀ b, SameB b ls ls' := by
  intro ls ls' h
  induction h with
  | nil => intro b; exact .nil b
  | cons n l l' x x' hl _ ih =>
    intro b
    cases b with
    | false => exact .out n l l' x x' (bodyLineRel_parse l l' hl) (ih _)
    | true => exact .within n l l' x x' hl (ih _)

theorem skipMacro_rel : ∀ (ls ls' : List (Nat × Str)), SameB true ls ls' → ∀ (acc acc' : List (Nat × Str)), BodyRel acc acc' →
    BodyRel (skipMacro acc ls).1 (skipMacro acc' ls').1 ∧
    SameLine (skipMacro acc ls).2.1 (skipMacro acc' ls').2.1 ∧
    (∃ b, SameB b (skipMacro acc ls).2.2.1 (skipMacro acc' ls').2.2.1 ∧ TailMode (skipMacro acc ls).2.1 b) ∧
    (skipMacro acc ls).2.2.2 = (skipMacro acc' ls').2.2.2 := by
  intro ls
  induction ls with
  | nil =>
    intro ls' h acc acc' hacc
    cases h with
    | nil => exact ⟨bodyRel_reverse _ _ hacc, trivial, ⟨true, .nil true, tailMode_none _⟩, rfl⟩
  | cons x xs ih =>
    intro ls' h acc acc' hacc
    cases h with
    | within n l l' _ xs' hbl hrest =>
      have hp := bodyLineRel_parse l l' hbl
      unfold skipMacro
      rw [← hp]
      split
      · rename_i lab d ops o heq
        have hcl : closesMacro l = decide (d = .endmacro ∨ d = .endm) := by
          unfold closesMacro; rw [heq]
        split
        · rename_i hd
          have : closesMacro l = true := by rw [hcl]; simpa using hd
          rw [this] at hrest
          simp only [Bool.not_true] at hrest
          cases hrest with
          | nil => exact ⟨bodyRel_reverse _ _ hacc, trivial, ⟨false, .nil false, tailMode_none _⟩, rfl⟩
          | out n2 l2 l2' r r' hp2 hs2 =>
            refine ⟨bodyRel_reverse _ _ hacc, ⟨rfl, hp2⟩, ⟨_, hs2, ?_⟩, rfl⟩
            intro x hx hopen; simp only [Option.some.injEq] at hx; subst hx; exact hopen
        · rename_i hd
          have : closesMacro l = false := by rw [hcl]; simpa using hd
          rw [this] at hrest
          exact ih xs' hrest _ _ (.cons n l l' acc acc' hbl hacc)
      · exact ⟨bodyRel_reverse _ _ hacc, trivial, ⟨true, .nil true, tailMode_none _⟩, rfl⟩
      · rename_i h1 h2
        have : closesMacro l = false := by
          unfold closesMacro
          split
          · rename_i lab d ops o heq; exact absurd heq (h1 lab d ops o)
          · rfl
        rw [this] at hrest
        exact ih xs' hrest _ _ (.cons n l l' acc acc' hbl hacc)

theorem sameB_head (b : Bool) (x x' : Nat × Str) (ls ls' : List (Nat × Str)) (h : SameB b (x :: ls) (x' :: ls')) :
    x.1 = x'.1 ∧ parseLine x.2 = parseLine x'.2 := by
  cases h with
  | out n l l' _ _ hp _ => exact ⟨rfl, hp⟩
  | within n l l' _ _ hl _ => exact ⟨rfl, bodyLineRel_parse l l' hl⟩

theorem sameB_tail_mode (b : Bool) (n n' : Nat) (l l' : Str) (ls ls' : List (Nat × Str))
    (h : SameB b ((n, l) :: ls) ((n', l') :: ls')) : ∃ b', SameB b' ls ls' ∧ (opensMacro l = true → b' = true) := by
  cases h with
  | out _ _ _ _ _ _ hs => exact ⟨_, hs, fun h => h⟩
  | within _ _ _ _ _ _ hs => exact ⟨_, hs, fun h => by rw [opens_not_closes l h]; rfl⟩

theorem skipCond_sameB (all : Bool) : ∀ (ls ls' : List (Nat × Str)) (b : Bool), SameB b ls ls' → ∀ (d : Nat),
    ∃ b', SameB b' (skipCond all d ls).2.2.1 (skipCond all d ls').2.2.1 ∧ TailMode (skipCond all d ls).1 b' := by
  intro ls
  induction ls with
  | nil =>
    intro ls' b h d
    cases h with
    | nil => exact ⟨b, .nil b, tailMode_none _⟩
  | cons x xs ih =>
    intro ls' b h d
    cases ls' with
    | nil => cases h
    | cons x' xs' =>
      obtain ⟨n, l⟩ := x
      obtain ⟨n', l'⟩ := x'
      obtain ⟨hn, hp⟩ := sameB_head b _ _ _ _ h
      obtain ⟨bt, ht, _⟩ := sameB_tail_mode b _ _ _ _ _ _ h
      simp only at hn hp
      subst hn
      unfold skipCond
      rw [← hp]
      split
      · rename_i lab dd ops o heq
        split
        · exact ih xs' bt ht _
        · split
          · split
            · split
              · exact ih xs' bt ht _
              · split
                · rename_i helif
                  refine ⟨bt, ht, ?_⟩
                  intro y hy hopen
                  simp only [Option.some.injEq] at hy
                  subst hy
                  exfalso
                  unfold opensMacro at hopen
                  rw [heq] at hopen
                  simp only [decide_eq_true_eq] at hopen
                  rw [hopen] at helif
                  exact absurd helif (by decide)
                · cases xs with
                  | nil => cases ht with | nil => exact ⟨bt, .nil bt, tailMode_none _⟩
                  | cons y ys =>
                    cases xs' with
                    | nil => cases ht
                    | cons y' ys' =>
                      obtain ⟨ny, ly⟩ := y
                      obtain ⟨ny', ly'⟩ := y'
                      obtain ⟨b2, h2, hm2⟩ := sameB_tail_mode bt _ _ _ _ _ _ ht
                      refine ⟨b2, h2, ?_⟩
                      intro z hz hopen
                      simp only [Option.some.injEq] at hz
                      subst hz
                      exact hm2 hopen
            · split
              · exact ih xs' bt ht _
              · exact ih xs' bt ht _
          · exact ih xs' bt ht _
      · exact ⟨true, .nil true, tailMode_none _⟩
      · exact ih xs' bt ht _

abbrev IterRel (a b : PState × List Str) : Prop := StRel a.1 b.1 ∧ a.2 = b.2

/-- one round of the loop after the skipper has delivered related lines -/
theorem round_rel (inc inc' : IncludeFn) (hinc : IncRel inc inc') (cur : Str) (lf : Nat)
    (ih : ∀ incs st st' ni ls ls' b, StRel st st' → SameB b ls ls' → (ni = .endMacro → b = true) →
      OutRel IterRel (parseIterWith inc cur lf incs st ni ls) (parseIterWith inc' cur lf incs st' ni ls'))
    (incs : List Str) (st st' : PState) (hst : StRel st st') (nx nx' : Option (Nat × Str)) (re : Bool)
    (rest rest' : List (Nat × Str)) (o : Bool)
    (br : Bool) (hnx : SameLine nx nx') (hrest : SameB br rest rest') (hmode : TailMode nx br) :
    OutRel IterRel
    (match (st, nx, re, rest, o) with
      | (_, _, _, _, true) => Out.oof
      | (st, none, _, _, false) => Out.ok (st, incs)
      | (st, some (idx, text), redelivered, rest, false) =>
        match lineStep inc cur incs st idx text redelivered with
        | .ok (st', incs', ni') => parseIterWith inc cur lf incs' st' ni' rest
        | .error e => .error e
        | .panic s => .panic s
        | .oof => .oof)
    (match (st', nx', re, rest', o) with
      | (_, _, _, _, true) => Out.oof
      | (st, none, _, _, false) => Out.ok (st, incs)
      | (st, some (idx, text), redelivered, rest, false) =>
        match lineStep inc' cur incs st idx text redelivered with
        | .ok (st', incs', ni') => parseIterWith inc' cur lf incs' st' ni' rest
        | .error e => .error e
        | .panic s => .panic s
        | .oof => .oof) := by
  cases o with
  | true => trivial
  | false =>
    cases nx with
    | none =>
      cases nx' with
      | none => exact ⟨hst, rfl⟩
      | some x' => exact absurd hnx (by simp [SameLine])
    | some x =>
      cases nx' with
      | none => exact absurd hnx (by obtain ⟨n, l⟩ := x; simp [SameLine])
      | some x' =>
        obtain ⟨n, l⟩ := x
        obtain ⟨n', l'⟩ := x'
        obtain ⟨hn, hp⟩ := hnx
        subst hn
        simp only
        have hstep := lineStep_rel inc inc' hinc cur incs st st' hst n l l' re hp
        cases hl : lineStep inc cur incs st n l re with
        | ok v =>
          cases hl' : lineStep inc' cur incs st' n l' re with
          | ok v' =>
            rw [hl, hl'] at hstep
            obtain ⟨s1, incs1, ni1⟩ := v
            obtain ⟨s1', incs1', ni1'⟩ := v'
            obtain ⟨hs1, he⟩ := hstep
            simp only [Prod.mk.injEq] at he
            obtain ⟨he1, he2⟩ := he
            subst he1; subst he2
            simp only
            refine ih incs1 s1 s1' ni1 rest rest' br hs1 hrest ?_
            intro hni
            subst hni
            exact hmode (n, l) rfl (lineStep_endMacro_opens inc cur incs st n l re s1 incs1 hl)
          | error e => rw [hl, hl'] at hstep; exact absurd hstep (by simp [OutRel])
          | panic p => rw [hl, hl'] at hstep; exact absurd hstep (by simp [OutRel])
          | oof => rw [hl, hl'] at hstep; exact absurd hstep (by simp [OutRel])
        | error e =>
          cases hl' : lineStep inc' cur incs st' n l' re with
          | error e' => rw [hl, hl'] at hstep; exact hstep
          | ok v' => rw [hl, hl'] at hstep; exact absurd hstep (by simp [OutRel])
          | panic p => rw [hl, hl'] at hstep; exact absurd hstep (by simp [OutRel])
          | oof => rw [hl, hl'] at hstep; exact absurd hstep (by simp [OutRel])
        | panic p =>
          cases hl' : lineStep inc' cur incs st' n l' re with
          | panic p' => rw [hl, hl'] at hstep; exact hstep
          | ok v' => rw [hl, hl'] at hstep; exact absurd hstep (by simp [OutRel])
          | error e => rw [hl, hl'] at hstep; exact absurd hstep (by simp [OutRel])
          | oof => rw [hl, hl'] at hstep; exact absurd hstep (by simp [OutRel])
        | oof =>
          cases hl' : lineStep inc' cur incs st' n l' re with
          | oof => trivial
          | ok v' => rw [hl, hl'] at hstep; exact absurd hstep (by simp [OutRel])
          | error e => rw [hl, hl'] at hstep; exact absurd hstep (by simp [OutRel])
          | panic p => rw [hl, hl'] at hstep; exact absurd hstep (by simp [OutRel])

theorem parseIterWith_rel (inc inc' : IncludeFn) (hinc : IncRel inc inc') (cur : Str) : ∀ (f : Nat) (incs : List Str) (st st' : PState)
    (ni : NextItem) (ls ls' : List (Nat × Str)) (b : Bool), StRel st st' → SameB b ls ls' → (ni = .endMacro → b = true) →
      OutRel IterRel (parseIterWith inc cur f incs st ni ls) (parseIterWith inc' cur f incs st' ni ls') := by
  intro f
  induction f with
  | zero => intro incs st st' ni ls ls' b _ _ _; trivial
  | succ lf ih =>
    intro incs st st' ni ls ls' b hst hs hni
    simp only [parseIterWith]
    cases ni with
    | endFile => exact ⟨hst, rfl⟩
    | newLine =>
      cases ls with
      | nil => cases hs with | nil => exact ⟨hst, rfl⟩
      | cons x xs =>
        cases ls' with
        | nil => cases hs
        | cons x' xs' =>
          obtain ⟨n, l⟩ := x
          obtain ⟨n', l'⟩ := x'
          obtain ⟨hn, hp⟩ := sameB_head b _ _ _ _ hs
          obtain ⟨bt, ht, hm⟩ := sameB_tail_mode b _ _ _ _ _ _ hs
          simp only at hn hp
          subst hn
          simp only [skipStep]
          exact round_rel inc inc' hinc cur lf ih incs st st' hst (some (n, l)) (some (n, l')) false xs xs' false bt ⟨rfl, hp⟩ ht (by
            intro y hy hopen
            simp only [Option.some.injEq] at hy
            subst hy
            exact hm hopen)
    | endIf =>
      simp only [skipStep]
      obtain ⟨h1, h2, _, h4⟩ := skipCond_same false ls ls' (sameB_parse b ls ls' hs) 0
      obtain ⟨br, h3, hmode⟩ := skipCond_sameB false ls ls' b hs 0
      generalize skipCond false 0 ls = A at h1 h2 h3 h4 hmode
      generalize skipCond false 0 ls' = B at h1 h2 h3 h4
      obtain ⟨a1, a2, a3, a4⟩ := A
      obtain ⟨b1, b2, b3, b4⟩ := B
      simp only at h1 h2 h3 h4 hmode
      subst h2; subst h4
      exact round_rel inc inc' hinc cur lf ih incs st st' hst a1 b1 a2 a3 b3 a4 br h1 h3 hmode
    | endIfAll =>
      simp only [skipStep]
      obtain ⟨h1, h2, _, h4⟩ := skipCond_same true ls ls' (sameB_parse b ls ls' hs) 0
      obtain ⟨br, h3, hmode⟩ := skipCond_sameB true ls ls' b hs 0
      generalize skipCond true 0 ls = A at h1 h2 h3 h4 hmode
      generalize skipCond true 0 ls' = B at h1 h2 h3 h4
      obtain ⟨a1, a2, a3, a4⟩ := A
      obtain ⟨b1, b2, b3, b4⟩ := B
      simp only at h1 h2 h3 h4 hmode
      subst h2; subst h4
      exact round_rel inc inc' hinc cur lf ih incs st st' hst a1 b1 a2 a3 b3 a4 br h1 h3 hmode
    | endMacro =>
      have hb : b = true := hni rfl
      subst hb
      simp only [skipStep]
      obtain ⟨h1, h2, ⟨br, h3, hmode⟩, h4⟩ := skipMacro_rel ls ls' hs [] [] .nil
      generalize skipMacro [] ls = A at h1 h2 h3 h4 hmode
      generalize skipMacro [] ls' = B at h1 h2 h3 h4
      obtain ⟨a1, a2, a3, a4⟩ := A
      obtain ⟨b1, b2, b3, b4⟩ := B
      simp only at h1 h2 h3 h4 hmode
      subst h4
      have hst2 : StRel { st with macros := ainsert st.macroName a1 st.macros }
          { st' with macros := ainsert st'.macroName b1 st'.macros } := by
        obtain ⟨e1, e2⟩ := hst
        have hn : st'.macroName = st.macroName := by rw [e1]; rfl
        rw [hn]
        refine ⟨?_, tabRel_ainsert _ _ _ _ _ h1 e2⟩
        show _ = setM _ _
        rw [e1]
        rfl
      exact round_rel inc inc' hinc cur lf ih incs _ _ hst2 a2 b2 false a3 b3 a4 br h2 h3 hmode

/-! ### two file systems whose files are related line by line -/

/-- two texts, line by line: each line parses alike, and from a line that opens a macro definition to
    the next line that closes one the lines are either the same text or parse alike, hold no `@`
    and are no longer than MAX_MACRO_LINE -/
inductive SameLinesB : Bool → List Str → List Str → Prop
  | nil (b : Bool) : SameLinesB b [] []
  | out (l l' : Str) (ls ls' : List Str) : parseLine l = parseLine l' → SameLinesB (opensMacro l) ls ls' →
      SameLinesB false (l :: ls) (l' :: ls')
  | within (l l' : Str) (ls ls' : List Str) : BodyLineRel l l' → SameLinesB (!closesMacro l) ls ls' →
      SameLinesB true (l :: ls) (l' :: ls')

theorem sameLinesB_refl : ∀ (ls : List Str) (b : Bool), SameLinesB b ls ls
  | [], b => .nil b
  | l :: rest, false => .out l l rest rest rfl (sameLinesB_refl rest _)
  | l :: rest, true => .within l l rest rest (Or.inl rfl) (sameLinesB_refl rest _)

theorem sameLinesB_length (b : Bool) (L L' : List Str) (h : SameLinesB b L L') : L.length = L'.length := by
  induction h with
  | nil b => rfl
  | out l l' ls ls' _ _ ih => simp only [List.length_cons, ih]
  | within l l' ls ls' _ _ ih => simp only [List.length_cons, ih]

theorem zip_sameB : ∀ (b : Bool) (L L' : List Str), SameLinesB b L L' → ∀ k,
    SameB b (List.zip (List.range' k L.length) L) (List.zip (List.range' k L'.length) L') := by
  intro b L L' h
  induction h with
  | nil b => intro k; exact .nil b
  | out l l' ls ls' hp _ ih =>
    intro k
    simp only [List.length_cons, List.range'_succ, List.zip_cons_cons]
    exact .out k l l' _ _ hp (ih (k + 1))
  | within l l' ls ls' hl _ ih =>
    intro k
    simp only [List.length_cons, List.range'_succ, List.zip_cons_cons]
    exact .within k l l' _ _ hl (ih (k + 1))

theorem numbered_sameB (b : Bool) (L L' : List Str) (h : SameLinesB b L L') : SameB b (numbered L) (numbered L') := by
  unfold numbered
  rw [List.range_eq_range', List.range_eq_range']
  exact zip_sameB b L L' h 0

/-- the same file names in the same order, the texts related -/
inductive FilesRel : List (Str × Str) → List (Str × Str) → Prop
  | nil : FilesRel [] []
  | cons (k s s' : Str) (m m' : List (Str × Str)) : SameLinesB false (lines s) (lines s') → FilesRel m m' →
      FilesRel ((k, s) :: m) ((k, s') :: m')

theorem filesRel_refl : ∀ m : List (Str × Str), FilesRel m m
  | [] => .nil
  | (k, s) :: rest => .cons k s s rest rest (sameLinesB_refl _ _) (filesRel_refl rest)

theorem filesRel_lookup (k : Str) : ∀ (m m' : List (Str × Str)), FilesRel m m' →
    (alookup k m = none ∧ alookup k m' = none) ∨
    ∃ s s', alookup k m = some s ∧ alookup k m' = some s' ∧ SameLinesB false (lines s) (lines s') := by
  intro m m' h
  induction h with
  | nil => exact Or.inl ⟨rfl, rfl⟩
  | cons k2 s s' m m' hs _ ih =>
    simp only [alookup]
    split
    · exact Or.inr ⟨s, s', rfl, rfl, hs⟩
    · exact ih

/-- two file systems with the same working directory, directories and file names, whose files are
    related line by line -/
def FsRel (fs fs' : Fs) : Prop := fs'.cwd = fs.cwd ∧ fs'.dirs = fs.dirs ∧ FilesRel fs.files fs'.files

theorem fsRel_refl (fs : Fs) : FsRel fs fs := ⟨rfl, rfl, filesRel_refl _⟩

theorem real_go_rel (fs fs' : Fs) (h : FsRel fs fs') : ∀ (cs acc : List Str), Fs.real.go fs' acc cs = Fs.real.go fs acc cs := by
  intro cs
  induction cs with
  | nil => intro acc; rfl
  | cons c cs ih =>
    intro acc
    simp only [Fs.real.go, h.2.1, ih]

theorem real_rel (fs fs' : Fs) (h : FsRel fs fs') (p : Str) : fs'.real p = fs.real p := by
  unfold Fs.real
  simp only [h.1, real_go_rel fs fs' h]

theorem isDir_rel (fs fs' : Fs) (h : FsRel fs fs') (p : Str) : fs'.isDir p = fs.isDir p := by
  unfold Fs.isDir
  rw [real_rel fs fs' h, h.2.1]

theorem isFile_rel (fs fs' : Fs) (h : FsRel fs fs') (p : Str) : fs'.isFile p = fs.isFile p := by
  unfold Fs.isFile
  rw [real_rel fs fs' h]
  cases fs.real p with
  | none => rfl
  | some q =>
    simp only
    rcases filesRel_lookup q _ _ h.2.2 with ⟨h1, h2⟩ | ⟨s, s', h1, h2, _⟩ <;> rw [h1, h2] <;> rfl

theorem exists_rel (fs fs' : Fs) (h : FsRel fs fs') (p : Str) : fs'.exists p = fs.exists p := by
  unfold Fs.exists
  rw [isFile_rel fs fs' h, isDir_rel fs fs' h]

theorem read_rel (fs fs' : Fs) (h : FsRel fs fs') (p : Str) :
    (fs.read p = none ∧ fs'.read p = none) ∨
    ∃ s s', fs.read p = some s ∧ fs'.read p = some s' ∧ SameLinesB false (lines s) (lines s') := by
  unfold Fs.read
  rw [real_rel fs fs' h]
  cases fs.real p with
  | none => exact Or.inl ⟨rfl, rfl⟩
  | some q => exact filesRel_lookup q _ _ h.2.2

theorem resolvePath_rel (fs fs' : Fs) (h : FsRel fs fs') (path : Str) (incs : List Str) :
    resolvePath fs' path incs = resolvePath fs path incs := by
  unfold resolvePath
  simp only [exists_rel fs fs' h]

theorem parseFileAt_rel (fs fs' : Fs) (hfs : FsRel fs fs') : ∀ d, IncRel (parseFileAt fs d) (parseFileAt fs' d) := by
  intro d
  induction d with
  | zero => intro path incs st st' h; simp [parseFileAt, OutRel]
  | succ d ih =>
    intro path incs st st' h
    unfold parseFileAt
    dsimp only
    rw [resolvePath_rel fs fs' hfs, isDir_rel fs fs' hfs]
    rcases read_rel fs fs' hfs (resolvePath fs path incs) with ⟨h1, h2⟩ | ⟨src, src', h1, h2, hl⟩
    · rw [h1, h2]
      simp only
      split <;> simp [OutRel]
    · rw [h1, h2]
      simp only
      have hs := numbered_sameB false _ _ hl
      rw [sameLinesB_length _ _ _ hl]
      have hr := parseIterWith_rel (parseFileAt fs d) (parseFileAt fs' d) ih (resolvePath fs path incs) ((lines src').length + 1)
        (match pathParent (resolvePath fs path incs) with
          | some p => pathsInsert p incs
          | none => incs) st st' .newLine (numbered (lines src)) (numbered (lines src')) false h hs
        (by intro h; cases h)
      revert hr
      generalize parseIterWith (parseFileAt fs d) (resolvePath fs path incs) ((lines src').length + 1) _ st .newLine _ = A
      generalize parseIterWith (parseFileAt fs' d) (resolvePath fs path incs) ((lines src').length + 1) _ st' .newLine _ = B
      intro hr
      cases A <;> cases B <;> simp only [OutRel] at hr ⊢
      · obtain ⟨h1, h2⟩ := hr
        exact ⟨h1, by rw [h2]⟩
      · exact hr
      · exact hr

/-! ### pass 0 : the expansion of related bodies -/

theorem replaceAll_noAt (ds rep : Str) : ∀ (f : Nat) (s : Str), '@' ∉ s → replaceAll ('@' :: ds) rep f s = s := by
  intro f
  induction f with
  | zero => intro s _; cases s <;> rfl
  | succ f ih =>
    intro s hs
    cases s with
    | nil => rfl
    | cons c cs =>
      have hc : ¬ '@' = c := fun h => hs (by rw [← h]; exact List.mem_cons_self)
      have hcs : '@' ∉ cs := fun h => hs (List.mem_cons_of_mem _ h)
      simp only [replaceAll, List.isEmpty_cons, Bool.false_eq_true, if_false, Peg.lit, if_neg hc]
      rw [ih cs hcs]

theorem substArgs_noAt (args : List Str) (l : Str) (h : '@' ∉ l) : substArgs args l = l := by
  unfold substArgs
  have : ∀ (args : List Str) (i : Nat) (l : Str), '@' ∉ l → substArgs.go i args l = l := by
    intro args
    induction args with
    | nil => intro i l _; rfl
    | cons a more ih =>
      intro i l hl
      simp only [substArgs.go]
      rw [replaceAll_noAt _ _ _ _ hl]
      exact ih _ _ hl
  exact this args 0 l h

def substBody (ops : List IOp) (body : List (Nat × Str)) : List (Nat × Str) :=
  if ops.isEmpty then body else body.map fun x => (x.1, substArgs (ops.map iopText) x.2)

def longLine (x : Nat × Str) : Bool := decide ((utf8 x.2).length > macroLine)

def innerState (st : PState) : PState :=
  { ctx := st.ctx, segments := [{ items := [], t := .code, address := st.lastSeg.address }],
    macros := st.macros, macroName := st.macroName, messages := st.messages }

def finishExpand (st : PState) : Out (PState × List Str) → Out (PState × List Segment)
  | .ok (inner, _) =>
    .ok ({ st with ctx := inner.ctx, macros := inner.macros, macroName := inner.macroName, messages := inner.messages },
         ((List.zip (List.range inner.segments.length) inner.segments).filter fun (i, s) =>
            i + 1 = inner.segments.length || !s.items.isEmpty).map (·.2))
  | .error e => .error e
  | .panic s => .panic s
  | .oof => .oof

theorem macroExpand_eq (fs : Fs) (M : List (Str × List (Nat × Str))) (st : PState) (ln : Nat) (name : Str) (ops : List IOp) :
    macroExpand fs M st ln name ops =
      (match alookup name M with
       | none => lineErr ln "undefined-macro"
       | some body =>
         if !ops.isEmpty ∧ (substBody ops body).any longLine then lineErr ln "macro-line"
         else finishExpand st (parseIter fs [] [] (innerState st) .newLine (substBody ops body))) := by
  unfold macroExpand
  cases alookup name M with
  | none => rfl
  | some body =>
    simp only [substBody, innerState]
    split
    · rfl
    · rename_i h
      cases hr : parseIter fs [] [] _ .newLine _ <;> rfl

theorem bodyRel_length (b b' : List (Nat × Str)) (h : BodyRel b b') : b.length = b'.length := by
  induction h with
  | nil => rfl
  | cons n l l' x x' _ _ ih => simp only [List.length_cons, ih]

theorem bodyRel_subst (ops : List IOp) (b b' : List (Nat × Str)) (h : BodyRel b b') : BodyRel (substBody ops b) (substBody ops b') := by
  unfold substBody
  split
  · exact h
  · induction h with
    | nil => exact .nil
    | cons n l l' x x' hl _ ih =>
      simp only [List.map_cons]
      refine .cons n _ _ _ _ ?_ ih
      rcases hl with rfl | ⟨hp, ha, ha', hlen, hlen'⟩
      · exact Or.inl rfl
      · rw [substArgs_noAt _ _ ha, substArgs_noAt _ _ ha']
        exact Or.inr ⟨hp, ha, ha', hlen, hlen'⟩

theorem bodyRel_long (b b' : List (Nat × Str)) (h : BodyRel b b') : b.any longLine = b'.any longLine := by
  induction h with
  | nil => rfl
  | cons n l l' x x' hl _ ih =>
    simp only [List.any_cons, ih]
    congr 1
    rcases hl with rfl | ⟨hp, ha, ha', hlen, hlen'⟩
    · rfl
    · simp only [longLine, gt_iff_lt, decide_eq_decide]
      omega

abbrev ExpRel (a b : PState × List Segment) : Prop := StRel a.1 b.1 ∧ a.2 = b.2

theorem finishExpand_rel (st st' : PState) (hst : StRel st st') (A B : Out (PState × List Str)) (h : OutRel IterRel A B) :
    OutRel ExpRel (finishExpand st A) (finishExpand st' B) := by
  cases A <;> cases B <;> simp only [OutRel] at h <;> simp only [finishExpand, OutRel]
  · rename_i a b
    obtain ⟨⟨hi1, hi2⟩, _⟩ := h
    obtain ⟨hs1, hs2⟩ := hst
    obtain ⟨ia, _⟩ := a
    obtain ⟨ib, _⟩ := b
    simp only at hi1 hi2
    rw [hi1, hs1]
    exact ⟨⟨rfl, hi2⟩, rfl⟩
  · exact h
  · exact h

theorem macroExpand_rel (fs fs' : Fs) (hfs : FsRel fs fs') (M M' : List (Str × List (Nat × Str))) (hM : TabRel M M') (st st' : PState)
    (hst : StRel st st') (ln : Nat) (name : Str) (ops : List IOp) :
    OutRel ExpRel (macroExpand fs M st ln name ops) (macroExpand fs' M' st' ln name ops) := by
  rw [macroExpand_eq, macroExpand_eq]
  rcases tabRel_lookup name M M' hM with ⟨h1, h2⟩ | ⟨b, b', h1, h2, hb⟩
  · rw [h1, h2]; simp [OutRel, lineErr]
  · rw [h1, h2]
    simp only
    have hsb := bodyRel_subst ops b b' hb
    rw [bodyRel_long _ _ hsb]
    split
    · simp [OutRel, lineErr]
    · apply finishExpand_rel st st' hst
      unfold parseIter
      rw [bodyRel_length _ _ hsb]
      refine parseIterWith_rel _ _ (parseFileAt_rel fs fs' hfs _) [] _ [] _ _ .newLine _ _ false ?_ (sameB_of_body _ _ hsb _) (by intro h; cases h)
      obtain ⟨hs1, hs2⟩ := hst
      unfold innerState
      rw [hs1]
      exact ⟨rfl, hs2⟩

/-- two expanders of one macro-nesting level deeper that respect the relation -/
def InnerRel (inner inner' : PState → List (Nat × Avra.Item) → Out PState) : Prop :=
  ∀ st st' its, StRel st st' → OutRel StRel (inner st its) (inner' st' its)

theorem stRel_addSegment (st st' : PState) (h : StRel st st') (sg : Segment) : StRel (st.addSegment sg) (st'.addSegment sg) := by
  obtain ⟨e1, e2⟩ := h
  rw [e1]
  exact ⟨rfl, e2⟩

theorem stRel_lastSeg (st st' : PState) (h : StRel st st') : st'.lastSeg = st.lastSeg := by
  rw [h.1]; rfl

theorem pass0Segs_rel (inner inner' : PState → List (Nat × Avra.Item) → Out PState) (hin : InnerRel inner inner') :
    ∀ (segs : List Segment) (st st' : PState), StRel st st' → OutRel StRel (pass0Segs inner st segs) (pass0Segs inner' st' segs) := by
  intro segs
  induction segs with
  | nil => intro st st' h; exact h
  | cons sg more ih =>
    intro st st' h
    simp only [pass0Segs]
    split
    · have hr := hin _ _ sg.items (stRel_addSegment st st' h { items := [], t := sg.t, address := sg.address })
      revert hr
      generalize inner (st.addSegment _) sg.items = A
      generalize inner' (st'.addSegment _) sg.items = B
      intro hr
      cases A <;> cases B <;> simp only [OutRel] at hr ⊢
      · exact ih _ _ hr
      · exact hr
      · exact hr
    · exact ih _ _ (stRel_addSegment st st' h sg)

theorem pass0Items_rel (fs fs' : Fs) (hfs : FsRel fs fs') (M M' : List (Str × List (Nat × Str))) (hM : TabRel M M') (allow : Bool)
    (inner inner' : PState → List (Nat × Avra.Item) → Out PState) (hin : InnerRel inner inner') :
    ∀ (its : List (Nat × Avra.Item)) (st st' : PState), StRel st st' →
      OutRel StRel (pass0Items fs M allow inner st its) (pass0Items fs' M' allow inner' st' its) := by
  intro its
  induction its with
  | nil => intro st st' h; exact h
  | cons x rest ih =>
    intro st st' h
    obtain ⟨ln, it⟩ := x
    simp only [pass0Items]
    split
    · rename_i name ops
      split
      · simp [OutRel, lineErr]
      · have hr := macroExpand_rel fs fs' hfs M M' hM st st' h ln name ops
        revert hr
        generalize macroExpand fs M st ln name ops = A
        generalize macroExpand fs' M' st' ln name ops = B
        intro hr
        cases A <;> cases B <;> simp only [OutRel] at hr ⊢
        · rename_i a b
          obtain ⟨s1, segs⟩ := a
          obtain ⟨s1', segs'⟩ := b
          obtain ⟨hs1, hsg⟩ := hr
          simp only at hs1 hsg
          subst hsg
          cases segs with
          | nil => exact ih _ _ hs1
          | cons s0 more =>
            simp only
            rw [stRel_lastSeg s1 s1' hs1]
            have hs2 : StRel
                (if s0.address ≠ s1.lastSeg.address ∨ s0.t ≠ s1.lastSeg.t
                  then s1.addSegment { items := [], t := s0.t, address := s0.address } else s1)
                (if s0.address ≠ s1.lastSeg.address ∨ s0.t ≠ s1.lastSeg.t
                  then s1'.addSegment { items := [], t := s0.t, address := s0.address } else s1') := by
              split
              · exact stRel_addSegment _ _ hs1 _
              · exact hs1
            have hr2 := hin _ _ s0.items hs2
            revert hr2
            generalize inner _ s0.items = A2
            generalize inner' _ s0.items = B2
            intro hr2
            cases A2 <;> cases B2 <;> simp only [OutRel] at hr2 ⊢
            · rename_i a2 b2
              have hr3 := pass0Segs_rel inner inner' hin more a2 b2 hr2
              revert hr3
              generalize pass0Segs inner a2 more = A3
              generalize pass0Segs inner' b2 more = B3
              intro hr3
              cases A3 <;> cases B3 <;> simp only [OutRel] at hr3 ⊢
              · exact ih _ _ hr3
              · exact hr3
              · exact hr3
            · exact hr2
            · exact hr2
        · exact hr
        · exact hr
    · exact ih _ _ (stRel_push st st' h ln it)

theorem pass0At_rel (fs fs' : Fs) (hfs : FsRel fs fs') (M M' : List (Str × List (Nat × Str))) (hM : TabRel M M') :
    ∀ d, InnerRel (pass0At fs M d) (pass0At fs' M' d) := by
  intro d
  induction d with
  | zero =>
    intro st st' its h
    simp only [pass0At]
    exact pass0Items_rel fs fs' hfs M M' hM false (fun _ _ => .oof) (fun _ _ => .oof) (fun _ _ _ _ => trivial) its st st' h
  | succ d ih =>
    intro st st' its h
    simp only [pass0At]
    exact pass0Items_rel fs fs' hfs M M' hM true _ _ ih its st st' h

theorem pass0_go_rel (fs fs' : Fs) (hfs : FsRel fs fs') (P P' : ParseResult) (hM : TabRel P.macros P'.macros) :
    ∀ (segs : List Segment) (st st' : PState), StRel st st' → OutRel StRel (pass0.go fs P segs st) (pass0.go fs' P' segs st') := by
  intro segs
  induction segs with
  | nil => intro st st' h; exact h
  | cons sg more ih =>
    intro st st' h
    simp only [pass0.go]
    split
    · have hr := pass0At_rel fs fs' hfs P.macros P'.macros hM macroDepth _ _ sg.items
        (stRel_addSegment st st' h { items := [], t := sg.t, address := sg.address })
      revert hr
      generalize pass0At fs P.macros macroDepth _ sg.items = A
      generalize pass0At fs' P'.macros macroDepth _ sg.items = B
      intro hr
      cases A <;> cases B <;> simp only [OutRel] at hr ⊢
      · exact ih _ _ hr
      · exact hr
      · exact hr
    · exact ih _ _ (stRel_addSegment st st' h sg)

theorem pass0_rel (fs fs' : Fs) (hfs : FsRel fs fs') (st st' : PState) (h : StRel st st') :
    OutRel StRel (pass0 fs st.asParseResult st.ctx) (pass0 fs' st'.asParseResult st'.ctx) := by
  obtain ⟨e1, e2⟩ := h
  unfold pass0
  have hseg : st'.asParseResult.segments = st.asParseResult.segments := by rw [e1]; rfl
  have hmsg : st'.asParseResult.messages = st.asParseResult.messages := by rw [e1]; rfl
  have hctx : st'.ctx = st.ctx := by rw [e1]; rfl
  simp only [hseg, hmsg, hctx]
  exact pass0_go_rel fs fs' hfs _ _ e2 _ _ _ (stRel_refl _)

/-- the rest of the build does not look at the macro table -/
theorem buildFromParsed_rel (fs fs' : Fs) (hfs : FsRel fs fs') (st st' : PState) (h : StRel st st') :
    buildFromParsed fs st = buildFromParsed fs' st' := by
  unfold buildFromParsed
  have hr := pass0_rel fs fs' hfs st st' h
  revert hr
  generalize pass0 fs st.asParseResult st.ctx = A
  generalize pass0 fs' st'.asParseResult st'.ctx = B
  intro hr
  cases A <;> cases B <;> simp only [OutRel] at hr ⊢
  · rename_i a b
    obtain ⟨e1, _⟩ := hr
    rw [e1]
    rfl
  · rw [hr]
  · rw [hr]

theorem parseStr_rel (fs fs' : Fs) (hfs : FsRel fs fs') (src src' : Str) (ctx : Ctx) (h : SameLinesB false (lines src) (lines src')) :
    OutRel StRel (parseStr fs src ctx) (parseStr fs' src' ctx) := by
  unfold parseStr parseIter
  have hs := numbered_sameB false _ _ h
  rw [sameDocs_length _ _ (sameB_parse _ _ _ hs), hfs.1]
  have hr := parseIterWith_rel (parseFileAt fs includeDepth) (parseFileAt fs' includeDepth) (parseFileAt_rel fs fs' hfs _) fs.cwd
    ((numbered (lines src')).length + 1) []
    (PState.init ctx) (PState.init ctx) .newLine _ _ false (stRel_refl _) hs (by intro h; cases h)
  revert hr
  generalize parseIterWith (parseFileAt fs includeDepth) fs.cwd _ [] (PState.init ctx) .newLine (numbered (lines src)) = A
  generalize parseIterWith (parseFileAt fs' includeDepth) fs.cwd _ [] (PState.init ctx) .newLine (numbered (lines src')) = B
  intro hr
  cases A <;> cases B <;> simp only [OutRel] at hr ⊢
  · exact hr.1
  · exact hr
  · exact hr

theorem parseFile_rel (fs fs' : Fs) (hfs : FsRel fs fs') (path : Str) (incs : List Str) (ctx : Ctx) :
    OutRel StRel (parseFile fs path incs ctx) (parseFile fs' path incs ctx) := by
  unfold parseFile
  have hr := parseFileAt_rel fs fs' hfs (includeDepth + 1) path (incs.foldl (fun acc p => pathsInsert p acc) [])
    (PState.init ctx) (PState.init ctx) (stRel_refl _)
  revert hr
  generalize parseFileAt fs (includeDepth + 1) path _ (PState.init ctx) = A
  generalize parseFileAt fs' (includeDepth + 1) path _ (PState.init ctx) = B
  intro hr
  cases A <;> cases B <;> simp only [OutRel] at hr ⊢
  · exact hr.1
  · exact hr
  · exact hr

/-- **C14 at the level of the build, macro bodies included**: any line outside a macro body may be
    replaced by a line that parses to the same thing; a line of a macro body may be replaced by a
    line that parses to the same thing when neither holds an `@` (nothing is pasted into it) and
    neither is longer than MAX_MACRO_LINE; `build_str` gives exactly the same result — the bodies
    are stored as text and parsed again at every call, in every nesting, and the result is the same -/
theorem build_same_macro_bodies (fs : Fs) (src src' : Str) (h : SameLinesB false (lines src) (lines src')) :
    buildStr fs src = buildStr fs src' := by
  unfold buildStr
  have hr := parseStr_rel fs fs (fsRel_refl fs) src src' initCtx h
  revert hr
  generalize parseStr fs src initCtx = A
  generalize parseStr fs src' initCtx = B
  intro hr
  cases A <;> cases B <;> simp only [OutRel] at hr ⊢
  · exact buildFromParsed_rel fs fs (fsRel_refl fs) _ _ hr
  · rw [hr]
  · rw [hr]

/-- **the same for `build_file`, included files included**: in two file systems with the same
    directories and the same file names, whose files are related line by line in the way above
    (the main file and every file it includes, at any depth, found over any include path),
    `build_file` gives exactly the same result -/
theorem build_file_same (fs fs' : Fs) (hfs : FsRel fs fs') (path : Str) (incs : List Str) :
    buildFile fs path incs = buildFile fs' path incs := by
  unfold buildFile
  have hr := parseFile_rel fs fs' hfs path incs initCtx
  revert hr
  generalize parseFile fs path incs initCtx = A
  generalize parseFile fs' path incs initCtx = B
  intro hr
  cases A <;> cases B <;> simp only [OutRel] at hr ⊢
  · exact buildFromParsed_rel fs fs' hfs _ _ hr
  · rw [hr]
  · rw [hr]

/-- and for a text that includes files -/
theorem build_str_same (fs fs' : Fs) (hfs : FsRel fs fs') (src src' : Str) (h : SameLinesB false (lines src) (lines src')) :
    buildStr fs src = buildStr fs' src' := by
  unfold buildStr
  have hr := parseStr_rel fs fs' hfs src src' initCtx h
  revert hr
  generalize parseStr fs src initCtx = A
  generalize parseStr fs' src' initCtx = B
  intro hr
  cases A <;> cases B <;> simp only [OutRel] at hr ⊢
  · exact buildFromParsed_rel fs fs' hfs _ _ hr
  · rw [hr]
  · rw [hr]

/-- the earlier statement is the special case in which the bodies are kept as they are -/
theorem sameLinesB_of_M : ∀ (b : Bool) (L L' : List Str), SameLinesM b L L' → SameLinesB b L L' := by
  intro b L L' h
  induction h with
  | nil b => exact .nil b
  | out l l' ls ls' hp _ ih => exact .out l l' ls ls' hp ih
  | within l ls ls' _ ih => exact .within l l ls ls' (Or.inl rfl) ih


/-- line by line related as body lines (the same text, or the same parse without `@` and short) -/
inductive AllLines : List Str → List Str → Prop
  | nil : AllLines [] []
  | cons (l l' : Str) (ls ls' : List Str) : BodyLineRel l l' → AllLines ls ls' → AllLines (l :: ls) (l' :: ls')

theorem sameLinesB_of_all : ∀ (L L' : List Str), AllLines L L' → ∀ b, SameLinesB b L L' := by
  intro L L' h
  induction h with
  | nil => intro b; exact .nil b
  | cons l l' ls ls' hl _ ih =>
    intro b
    cases b with
    | false => exact .out l l' ls ls' (bodyLineRel_parse l l' hl) (ih _)
    | true => exact .within l l' ls ls' hl (ih _)

/-- **in the property's words**: replace every line of a program — inside macro definitions or not —
    by a line that parses to the same thing, holds no `@` and is not longer than MAX_MACRO_LINE
    (or leave it as it is): `build_str` gives exactly the same result, whatever the program does
    with those lines (conditionals, macro definitions and calls in any nesting, included files) -/
theorem build_same_every_line (fs : Fs) (src src' : Str) (h : AllLines (lines src) (lines src')) :
    buildStr fs src = buildStr fs src' :=
  build_same_macro_bodies fs src src' (sameLinesB_of_all _ _ h false)

/-! ### the premises can be met: a real program whose macro body is respelled -/

example (fs : Fs) :
    buildStr fs ".macro m\n ldi r16,1 ; c\n.endm\nm\n".toList =
    buildStr fs ".macro  m\nLDI R16 , 0x01\n.endm ; end\n m // call\n".toList := by
  apply build_same_macro_bodies
  have h1 : lines ".macro m\n ldi r16,1 ; c\n.endm\nm\n".toList =
      [".macro m".toList, " ldi r16,1 ; c".toList, ".endm".toList, "m".toList] := by decide +kernel
  have h2 : lines ".macro  m\nLDI R16 , 0x01\n.endm ; end\n m // call\n".toList =
      [".macro  m".toList, "LDI R16 , 0x01".toList, ".endm ; end".toList, " m // call".toList] := by decide +kernel
  rw [h1, h2]
  refine .out _ _ _ _ (by decide +kernel) ?_
  rw [show opensMacro ".macro m".toList = true by decide +kernel]
  refine .within _ _ _ _ (Or.inr ⟨by decide +kernel, by decide, by decide, by decide +kernel, by decide +kernel⟩) ?_
  rw [show closesMacro " ldi r16,1 ; c".toList = false by decide +kernel]
  refine .within _ _ _ _ (Or.inr ⟨by decide +kernel, by decide, by decide, by decide +kernel, by decide +kernel⟩) ?_
  rw [show closesMacro ".endm".toList = true by decide +kernel]
  refine .out _ _ _ _ (by decide +kernel) ?_
  exact .nil _

/-! ### the premises can be met across files: a main file and the file it includes, both respelled -/

def fsA : Fs where
  cwd := "/w".toList
  dirs := ["/w".toList]
  files := [("/w/main.asm".toList, ".include \"d.inc\"\n ldi r16,K ; c\n".toList),
            ("/w/d.inc".toList, ".equ K = 1\n".toList)]

def fsB : Fs where
  cwd := "/w".toList
  dirs := ["/w".toList]
  files := [("/w/main.asm".toList, ".include \"d.inc\" // x\nLDI R16 , K\n".toList),
            ("/w/d.inc".toList, ".equ K=0x01 ; one\n".toList)]

theorem mainRel : SameLinesB false (lines ".include \"d.inc\"\n ldi r16,K ; c\n".toList) (lines ".include \"d.inc\" // x\nLDI R16 , K\n".toList) := by
  have h1 : lines ".include \"d.inc\"\n ldi r16,K ; c\n".toList = [".include \"d.inc\"".toList, " ldi r16,K ; c".toList] := by
    decide +kernel
  have h2 : lines ".include \"d.inc\" // x\nLDI R16 , K\n".toList = [".include \"d.inc\" // x".toList, "LDI R16 , K".toList] := by
    decide +kernel
  rw [h1, h2]
  refine .out _ _ _ _ (by decide +kernel) ?_
  rw [show opensMacro ".include \"d.inc\"".toList = false by decide +kernel]
  exact .out _ _ _ _ (by decide +kernel) (.nil _)

theorem incRel' : SameLinesB false (lines ".equ K = 1\n".toList) (lines ".equ K=0x01 ; one\n".toList) := by
  have h1 : lines ".equ K = 1\n".toList = [".equ K = 1".toList] := by decide +kernel
  have h2 : lines ".equ K=0x01 ; one\n".toList = [".equ K=0x01 ; one".toList] := by decide +kernel
  rw [h1, h2]
  exact .out _ _ _ _ (by decide +kernel) (.nil _)

theorem fsAB : FsRel fsA fsB :=
  ⟨rfl, rfl, .cons _ _ _ _ _ mainRel (.cons _ _ _ _ _ incRel' .nil)⟩

example : buildFile fsA "main.asm".toList [] = buildFile fsB "main.asm".toList [] :=
  build_file_same fsA fsB fsAB _ _

/-- and the build in question is a real one: `ldi r16, 1` = 0xE001 -/
example : (match buildFile fsA "main.asm".toList [] with | .ok r => r.code | _ => []) = [0x01, 0xE0] := by decide +kernel

end Avra.Props.C14
