/-
  C14 — spelling without meaning.  Token-level theorems on the PEG mirror (Model/Peg.lean): each
  class of meaningless spelling is absorbed by the rule that reads the token, for EVERY text of
  that class.  (The composition over whole lines is exercised by the metamorphic run of the check;
  the grammar text the rules were written against is pinned by `grammar_pinned`.)
-/
import Avra.Model.Peg
import Avra.Model.Eval
import Avra.Model.Parse
import Avra.Lemmas.Fuel
namespace Avra.Props.C14
open Avra Avra.Model Avra.Peg

/-! ### the model's hand-written rules are the rules of the grammar text of this tree -/

/-- the rules outside the precedence block and the keyword lists (which are extracted) have the
    text the model was written against; blanks may follow a prefix operator; the five atoms are
    the five the model implements -/
theorem grammar_pinned :
    Gen.grammarDigest = 115084982185932045 ∧ Gen.prefixSpace = true ∧ Gen.atomsAsModelled = true := by decide

/-- the directive names are the ones the real `document::directive` recognises (extracted by
    executing it on every variant of `enum Directive` and on decoys), and `#name` reads like
    `.name` -/
theorem directives_extracted : Gen.hashLikeDot = true ∧ Gen.directiveTable.length = 37 := by decide

/-! ### blanks and tabs -/

def blanks (ws : Str) : Prop := ∀ c ∈ ws, isSpace c = true

/-- `space()` absorbs any run of blanks and tabs, so any two such runs (the empty one included)
    in the same place are indistinguishable to every rule that starts with `space()`:
    around operands, commas (`delimiter`), binary operators, after prefix operators, around the
    `+` of an indexed operand, around parentheses and `=`, at the end of a line -/
theorem space_absorbs (ws s : Str) (h : blanks ws) : skipSpace (ws ++ s) = skipSpace s := by
  induction ws with
  | nil => rfl
  | cons c cs ih =>
    have hc : isSpace c = true := h c (by simp)
    simp only [List.cons_append, skipSpace, hc, if_true]
    exact ih (fun x hx => h x (by simp [hx]))

theorem space_idem (s : Str) : skipSpace (skipSpace s) = skipSpace s := by
  induction s with
  | nil => rfl
  | cons c cs ih =>
    simp only [skipSpace]
    by_cases hc : isSpace c = true
    · simp [hc, ih]
    · simp [hc, skipSpace]

/-- two spellings that differ only in the blanks at one place read alike -/
theorem blanks_irrelevant (ws1 ws2 s : Str) (h1 : blanks ws1) (h2 : blanks ws2) :
    skipSpace (ws1 ++ s) = skipSpace (ws2 ++ s) := by
  rw [space_absorbs ws1 s h1, space_absorbs ws2 s h2]

/-! ### comments -/

/-- a `;` comment accepts ANY text up to the end of the line … -/
theorem asm_comment_any (text : Str) : comment (';' :: text) = some [] := rfl
/-- … so does a `//` comment … -/
theorem slash_comment_any (text : Str) : comment ('/' :: '/' :: text) = some [] := rfl

/-- text that may stand inside `/* */`: no line end and no `*/` -/
def cText : Str → Bool
  | '*' :: '/' :: _ => false
  | c :: cs => !isNl c && cText cs
  | [] => true

theorem cBody (rest : Str) : ∀ (text : Str), cText text = true →
    cCommentBody (text ++ '*' :: '/' :: rest) = some rest := by
  intro text
  induction text with
  | nil => intro _; rfl
  | cons c cs ih =>
    intro h
    by_cases hc : c = '*'
    · subst hc
      cases cs with
      | nil => rfl
      | cons d ds =>
        by_cases hd : d = '/'
        · subst hd; simp [cText] at h
        · have h2 : cText (d :: ds) = true := by
            unfold cText at h
            split at h
            · rename_i heq; simp at heq; exact absurd heq.1 hd
            · rename_i heq; simp at heq; simp at h; rw [heq.2]; exact h.2
            · rename_i heq; simp at heq
          have := ih h2
          show cCommentBody ('*' :: d :: (ds ++ '*' :: '/' :: rest)) = some rest
          unfold cCommentBody
          split
          · rename_i heq; simp at heq; exact absurd heq.1 hd
          · rename_i c' cs' _ heq
            simp at heq
            obtain ⟨rfl, rfl⟩ := heq
            simp [isNl]; exact this
          · rename_i heq; simp at heq
    · have hn : isNl c = false ∧ cText cs = true := by
        unfold cText at h
        split at h
        · rename_i heq; simp at heq; exact absurd heq.1 hc
        · rename_i heq; simp at heq; simp at h; obtain ⟨rfl, rfl⟩ := heq; exact h
        · rename_i heq; simp at heq
      show cCommentBody (c :: (cs ++ '*' :: '/' :: rest)) = some rest
      unfold cCommentBody
      split
      · rename_i heq; simp at heq; exact absurd heq.1 hc
      · rename_i c' cs' _ heq
        simp at heq
        obtain ⟨rfl, rfl⟩ := heq
        simp [hn.1]; exact ih hn.2
      · rename_i heq; simp at heq

/-- … and a `/* */` comment accepts any text without a line end and without `*/`, followed by
    any blanks -/
theorem c_comment_any (text ws : Str) (h : cText text = true) (hws : blanks ws) :
    comment ('/' :: '*' :: (text ++ '*' :: '/' :: ws)) = some [] := by
  simp only [comment, cBody ws text h]
  have : skipSpace ws = [] := by
    have := space_absorbs ws [] hws
    simpa [skipSpace] using this
  simp [this, takeWhileP]

/-- hence every line that is complete before the comment stays complete with it: the rule
    `comment()?` followed by the end of the line succeeds -/
theorem comment_ends_line (text ws : Str) (h : cText text = true) (hws : blanks ws) :
    optCommentEnd (';' :: text) = true ∧ optCommentEnd ('/' :: '/' :: text) = true ∧
    optCommentEnd ('/' :: '*' :: (text ++ '*' :: '/' :: ws)) = true := by
  refine ⟨rfl, rfl, ?_⟩
  simp [optCommentEnd, c_comment_any text ws h hws]

/-! ### letter case -/

/-- mnemonics and macro calls: the operation read depends on the lower-cased word only -/
theorem operation_case (s1 s2 n1 n2 rest : Str) (h1 : identText s1 = some (n1, rest))
    (h2 : identText s2 = some (n2, rest)) (hl : lower n1 = lower n2) : operation s1 = operation s2 := by
  simp [operation, h1, h2, hl]

/-- registers: `R16` is `r16`, `X`/`Y`/`Z` are `x`/`y`/`z` -/
theorem reg8_case (s : Str) : reg8 ('R' :: s) = reg8 ('r' :: s) := rfl
theorem reg16_case (s : Str) :
    reg16 ('X' :: s) = reg16 ('x' :: s) ∧ reg16 ('Y' :: s) = reg16 ('y' :: s) ∧ reg16 ('Z' :: s) = reg16 ('z' :: s) :=
  ⟨rfl, rfl, rfl⟩

/-- function names: evaluation lower-cases the name of the function applied -/
theorem function_case (sym : Str → EvalRes) (n n' : Str) (arg : Expr) (h : lower n = lower n') :
    evalWith sym (.func (.ident n) arg) = evalWith sym (.func (.ident n') arg) := by
  simp [evalWith, h]

/-- symbol references: labels, `.equ` and `.set` names are looked up lower-cased (C10.lookup_case
    states the same with the side condition spelled out: no case-sensitive `.define` flag) -/
theorem symbol_case (c : Ctx) (n n' : Str) (h : lower n = lower n')
    (hd : alookup n c.defines = none) (hd' : alookup n' c.defines = none) : c.getExpr n = c.getExpr n' := by
  unfold Ctx.getExpr; rw [hd, hd', h]

/-- register aliases likewise -/
theorem alias_case (c : Ctx) (n n' : Str) (h : lower n = lower n') : c.getDef n = c.getDef n' := by
  unfold Ctx.getDef; rw [h]

/-! ### radix: every spelling of a number reads as the same constant -/

/-- digits of `n` in base `b`, least significant first (`f` bounds the length) -/
def digitsRev (b : Nat) : Nat → Nat → List Nat
  | 0, _ => []
  | f + 1, n => if n < b then [n] else n % b :: digitsRev b f (n / b)

def valRev (b : Nat) : List Nat → Nat
  | [] => 0
  | d :: ds => d + b * valRev b ds

theorem valRev_digitsRev (b : Nat) (hb : 2 ≤ b) : ∀ (f n : Nat), n < f → valRev b (digitsRev b f n) = n := by
  intro f
  induction f with
  | zero => intro n h; omega
  | succ f ih =>
    intro n h
    simp only [digitsRev]
    split
    · simp [valRev]
    · rename_i hn
      simp only [valRev]
      have hlt : n / b < f := by
        have : n / b < n := Nat.div_lt_self (by omega) (by omega)
        omega
      rw [ih (n / b) hlt]
      exact Nat.mod_add_div n b

theorem digitsRev_lt (b : Nat) (hb : 2 ≤ b) : ∀ (f n : Nat), ∀ d ∈ digitsRev b f n, d < b := by
  intro f
  induction f with
  | zero => intro n d h; simp [digitsRev] at h
  | succ f ih =>
    intro n d h
    simp only [digitsRev] at h
    split at h
    · simp at h; omega
    · simp only [List.mem_cons] at h
      rcases h with rfl | h
      · exact Nat.mod_lt _ (by omega)
      · exact ih _ d h

theorem digitsRev_ne_nil (b f n : Nat) : digitsRev b (f + 1) n ≠ [] := by
  simp only [digitsRev]; split <;> simp

/-- a digit as the respeller may write it: lower- or upper-case for 10..15 -/
def digitChar (upper : Bool) (d : Nat) : Char :=
  if d < 10 then Char.ofNat (48 + d) else if upper then Char.ofNat (55 + d) else Char.ofNat (87 + d)

theorem digitVal_digitChar (u : Bool) : ∀ d, d < 16 → digitVal (digitChar u d) = d := by
  cases u <;> decide

theorem isHex_digitChar (u : Bool) : ∀ d, d < 16 → isHexDigit (digitChar u d) = true := by
  cases u <;> decide
theorem isDec_digitChar (u : Bool) : ∀ d, d < 10 → isDigit (digitChar u d) = true := by
  cases u <;> decide
theorem isOct_digitChar (u : Bool) : ∀ d, d < 8 → isOctDigit (digitChar u d) = true := by
  cases u <;> decide
theorem isBin_digitChar (u : Bool) : ∀ d, d < 2 → isBinDigit (digitChar u d) = true := by
  cases u <;> decide

/-- value of a most-significant-first digit text = value of the reversed digit list -/
theorem foldl_val (b : Nat) (cs : List (Bool × Nat)) (hd : ∀ p ∈ cs, p.2 < 16) (acc : Nat) :
    (cs.map fun p => digitChar p.1 p.2).foldl (fun a c => a * b + digitVal c) acc =
      cs.foldl (fun a p => a * b + p.2) acc := by
  induction cs generalizing acc with
  | nil => rfl
  | cons p ps ih =>
    simp only [List.map_cons, List.foldl_cons]
    rw [digitVal_digitChar p.1 p.2 (hd p (by simp))]
    exact ih (fun q hq => hd q (by simp [hq])) _

theorem foldl_reverse_val (b : Nat) : ∀ (ds : List Nat), ds.reverse.foldl (fun a d => a * b + d) 0 = valRev b ds := by
  intro ds
  induction ds with
  | nil => rfl
  | cons d ds ih =>
    simp only [List.reverse_cons, List.foldl_append, List.foldl_cons, List.foldl_nil, valRev, ih]
    rw [Nat.mul_comm]; omega

/-- a numeral as the respeller writes it: digits most significant first, each hex digit in a
    letter case of its own -/
abbrev Numeral := List (Bool × Nat)
def text (cs : Numeral) : Str := cs.map fun p => digitChar p.1 p.2
def value (b : Nat) (cs : Numeral) : Nat := cs.foldl (fun a p => a * b + p.2) 0

theorem digitsVal_text (b : Nat) (cs : Numeral) (hd : ∀ p ∈ cs, p.2 < 16) : digitsVal b (text cs) = value b cs :=
  foldl_val b cs hd 0

/-- the numeral of `n` in base `b` has value `n`, whatever the letter cases -/
theorem value_digits (b : Nat) (hb : 2 ≤ b) (n : Nat) (cs : Numeral)
    (h : cs.map (·.2) = (digitsRev b (n + 1) n).reverse) : value b cs = n := by
  have : value b cs = (cs.map (·.2)).foldl (fun a d => a * b + d) 0 := by
    unfold value; rw [List.foldl_map]
  rw [this, h, foldl_reverse_val, valRev_digitsRev b hb (n + 1) n (by omega)]

theorem takeWhile_all (cls : Char → Bool) : ∀ (cs rest : Str), (∀ c ∈ cs, cls c = true) →
    (∀ c, rest.head? = some c → cls c = false) → takeWhileP cls (cs ++ rest) = (cs, rest) := by
  intro cs
  induction cs with
  | nil =>
    intro rest _ hr
    cases rest with
    | nil => rfl
    | cons c r => simp [takeWhileP, hr c rfl]
  | cons c cs ih =>
    intro rest hc hr
    simp only [List.cons_append, takeWhileP, hc c (by simp), if_true]
    rw [ih rest (fun x hx => hc x (by simp [hx])) hr]

theorem lit_append (pre s : Str) : lit pre (pre ++ s) = some s := by
  induction pre with
  | nil => cases s <;> rfl
  | cons p ps ih => simp [lit, ih]

/-- one alternative of `e_const()` on its own spelling -/
theorem constAlt_reads (pre : Str) (cls : Char → Bool) (b : Nat) (cs : Numeral) (rest : Str)
    (hne : cs ≠ []) (hd : ∀ p ∈ cs, p.2 < 16) (hcls : ∀ c ∈ text cs, cls c = true)
    (hrest : ∀ c, rest.head? = some c → cls c = false) (hfit : value b cs < 2 ^ 63) :
    constAlt pre cls b (pre ++ (text cs ++ rest)) = some ((value b cs : Int), rest) := by
  unfold constAlt
  rw [lit_append]
  simp only [takeWhile_all cls (text cs) rest hcls hrest]
  have : (text cs).isEmpty = false := by
    cases cs with
    | nil => exact absurd rfl hne
    | cons p ps => rfl
  simp [this, digitsVal_text b cs hd, hfit]

theorem cls_sub (c : Char) (h : isIdentChar c = false) :
    isHexDigit c = false ∧ isDigit c = false ∧ isOctDigit c = false ∧ isBinDigit c = false ∧ c ≠ 'x' ∧ c ≠ 'b' := by
  have key : ∀ (lo hi : Char), (decide (lo ≤ c) && decide (c ≤ hi)) = true ↔ (lo.toNat ≤ c.toNat ∧ c.toNat ≤ hi.toNat) := by
    intro lo hi
    simp only [Bool.and_eq_true, decide_eq_true_eq, Char.le_def, UInt32.le_iff_toNat_le]
    exact Iff.rfl
  simp only [isIdentChar, isAlpha, isDigit, Bool.or_eq_false_iff] at h
  obtain ⟨⟨⟨h1, h2⟩, h3⟩, h4⟩ := h
  have k1 : ¬ ('a'.toNat ≤ c.toNat ∧ c.toNat ≤ 'z'.toNat) := fun hh => by have := (key 'a' 'z').mpr hh; simp [h1] at this
  have k2 : ¬ ('A'.toNat ≤ c.toNat ∧ c.toNat ≤ 'Z'.toNat) := fun hh => by have := (key 'A' 'Z').mpr hh; simp [h2] at this
  have k3 : ¬ ('0'.toNat ≤ c.toNat ∧ c.toNat ≤ '9'.toNat) := fun hh => by have := (key '0' '9').mpr hh; simp [h3] at this
  have e1 : 'a'.toNat = 97 := by decide
  have e2 : 'z'.toNat = 122 := by decide
  have e3 : 'A'.toNat = 65 := by decide
  have e4 : 'Z'.toNat = 90 := by decide
  have e5 : '0'.toNat = 48 := by decide
  have e6 : '9'.toNat = 57 := by decide
  rw [e1, e2] at k1; rw [e3, e4] at k2; rw [e5, e6] at k3
  refine ⟨?_, ?_, ?_, ?_, ?_, ?_⟩
  · simp only [isHexDigit, isDigit, Bool.or_eq_false_iff]
    refine ⟨⟨by simpa using h3, ?_⟩, ?_⟩
    · apply Bool.eq_false_iff.mpr; intro hh; have := (key 'a' 'f').mp hh
      have e : 'f'.toNat = 102 := by decide
      rw [e1, e] at this; omega
    · apply Bool.eq_false_iff.mpr; intro hh; have := (key 'A' 'F').mp hh
      have e : 'F'.toNat = 70 := by decide
      rw [e3, e] at this; omega
  · simpa [isDigit] using h3
  · apply Bool.eq_false_iff.mpr; intro hh
    have := (key '0' '7').mp (by simpa [isOctDigit] using hh)
    have e : '7'.toNat = 55 := by decide
    rw [e5, e] at this; omega
  · apply Bool.eq_false_iff.mpr; intro hh
    simp only [isBinDigit, Bool.or_eq_true, beq_iff_eq] at hh
    rcases hh with rfl | rfl
    · exact k3 ⟨by decide, by decide⟩
    · exact k3 ⟨by decide, by decide⟩
  · rintro rfl; exact k1 ⟨by decide, by decide⟩
  · rintro rfl; exact k1 ⟨by decide, by decide⟩

/-- the text after the number does not continue it (what follows a number in a valid line: a
    blank, an operator, a comma, a parenthesis, a comment, the end) -/
def endsToken (rest : Str) : Prop := ∀ c, rest.head? = some c → isIdentChar c = false

theorem text_cls (cls : Char → Bool) (k : Nat) (hk : ∀ u d, d < k → cls (digitChar u d) = true)
    (cs : Numeral) (hd : ∀ p ∈ cs, p.2 < k) : ∀ c ∈ text cs, cls c = true := by
  intro c hc
  simp only [text, List.mem_map] at hc
  obtain ⟨p, hp, rfl⟩ := hc
  exact hk p.1 p.2 (hd p hp)

theorem lt16 {k : Nat} (hk : k ≤ 16) (cs : Numeral) (hd : ∀ p ∈ cs, p.2 < k) : ∀ p ∈ cs, p.2 < 16 :=
  fun p hp => by have := hd p hp; omega

theorem dollar_reads (cs : Numeral) (rest : Str) (hne : cs ≠ []) (hd : ∀ p ∈ cs, p.2 < 16)
    (hrest : endsToken rest) (hfit : value 16 cs < 2 ^ 63) :
    eConst ('$' :: (text cs ++ rest)) = some ((value 16 cs : Int), rest) := by
  have := constAlt_reads ['$'] isHexDigit 16 cs rest hne hd (text_cls isHexDigit 16 isHex_digitChar cs hd)
    (fun c hc => (cls_sub c (hrest c hc)).1) hfit
  simp only [List.cons_append, List.nil_append] at this
  simp [eConst, this]

theorem hex_reads (cs : Numeral) (rest : Str) (hne : cs ≠ []) (hd : ∀ p ∈ cs, p.2 < 16)
    (hrest : endsToken rest) (hfit : value 16 cs < 2 ^ 63) :
    eConst ('0' :: 'x' :: (text cs ++ rest)) = some ((value 16 cs : Int), rest) := by
  have := constAlt_reads ['0', 'x'] isHexDigit 16 cs rest hne hd (text_cls isHexDigit 16 isHex_digitChar cs hd)
    (fun c hc => (cls_sub c (hrest c hc)).1) hfit
  simp only [List.cons_append, List.nil_append] at this
  have h1 : constAlt ['$'] isHexDigit 16 ('0' :: 'x' :: (text cs ++ rest)) = none := by simp [constAlt, lit]
  simp [eConst, this, h1]

theorem bin_reads (cs : Numeral) (rest : Str) (hne : cs ≠ []) (hd : ∀ p ∈ cs, p.2 < 2)
    (hrest : endsToken rest) (hfit : value 2 cs < 2 ^ 63) :
    eConst ('0' :: 'b' :: (text cs ++ rest)) = some ((value 2 cs : Int), rest) := by
  have := constAlt_reads ['0', 'b'] isBinDigit 2 cs rest hne (lt16 (by omega) cs hd) (text_cls isBinDigit 2 isBin_digitChar cs hd)
    (fun c hc => (cls_sub c (hrest c hc)).2.2.2.1) hfit
  simp only [List.cons_append, List.nil_append] at this
  have h1 : constAlt ['$'] isHexDigit 16 ('0' :: 'b' :: (text cs ++ rest)) = none := by simp [constAlt, lit]
  have h2 : constAlt ['0', 'x'] isHexDigit 16 ('0' :: 'b' :: (text cs ++ rest)) = none := by simp [constAlt, lit]
  simp [eConst, this, h1, h2]

theorem oct_reads (cs : Numeral) (rest : Str) (hne : cs ≠ []) (hd : ∀ p ∈ cs, p.2 < 8)
    (hrest : endsToken rest) (hfit : value 8 cs < 2 ^ 63) :
    eConst ('0' :: (text cs ++ rest)) = some ((value 8 cs : Int), rest) := by
  have := constAlt_reads ['0'] isOctDigit 8 cs rest hne (lt16 (by omega) cs hd) (text_cls isOctDigit 8 isOct_digitChar cs hd)
    (fun c hc => (cls_sub c (hrest c hc)).2.2.1) hfit
  simp only [List.cons_append, List.nil_append] at this
  cases cs with
  | nil => exact absurd rfl hne
  | cons p ps =>
    have hoct : isOctDigit (digitChar p.1 p.2) = true := isOct_digitChar p.1 p.2 (hd p (by simp))
    have hx : digitChar p.1 p.2 ≠ 'x' := by intro h; rw [h] at hoct; exact absurd hoct (by decide)
    have hb : digitChar p.1 p.2 ≠ 'b' := by intro h; rw [h] at hoct; exact absurd hoct (by decide)
    have h1 : constAlt ['$'] isHexDigit 16 ('0' :: (text (p :: ps) ++ rest)) = none := by simp [constAlt, lit]
    have h2 : constAlt ['0', 'x'] isHexDigit 16 ('0' :: (text (p :: ps) ++ rest)) = none := by
      simp [constAlt, lit, text, Ne.symm hx]
    have h3 : constAlt ['0', 'b'] isBinDigit 2 ('0' :: (text (p :: ps) ++ rest)) = none := by
      simp [constAlt, lit, text, Ne.symm hb]
    simp [eConst, this, h1, h2, h3]

theorem lead_char (u : Bool) : ∀ d, d < 10 → d ≠ 0 → digitChar u d ≠ '0' ∧ digitChar u d ≠ '$' := by
  cases u <;> decide

theorem dec_reads (cs : Numeral) (rest : Str) (hd : ∀ p ∈ cs, p.2 < 10)
    (hrest : endsToken rest) (hfit : value 10 cs < 2 ^ 63)
    (hlead : (∃ u, cs = [(u, 0)]) ∨ ∃ p ps, cs = p :: ps ∧ p.2 ≠ 0) :
    eConst (text cs ++ rest) = some ((value 10 cs : Int), rest) := by
  have hne : cs ≠ [] := by
    rcases hlead with ⟨u, rfl⟩ | ⟨p, ps, rfl, _⟩ <;> simp
  have := constAlt_reads [] isDigit 10 cs rest hne (lt16 (by omega) cs hd) (text_cls isDigit 10 isDec_digitChar cs hd)
    (fun c hc => (cls_sub c (hrest c hc)).2.1) hfit
  simp only [List.nil_append] at this
  rcases hlead with ⟨u, rfl⟩ | ⟨p, ps, rfl, hp⟩
  · have ht : text [(u, 0)] = ['0'] := by cases u <;> rfl
    rw [ht] at this ⊢
    simp only [List.cons_append, List.nil_append] at this ⊢
    have h1 : constAlt ['$'] isHexDigit 16 ('0' :: rest) = none := by simp [constAlt, lit]
    have h2 : constAlt ['0', 'x'] isHexDigit 16 ('0' :: rest) = none := by
      cases rest with
      | nil => simp [constAlt, lit]
      | cons c r =>
        have := (cls_sub c (hrest c rfl)).2.2.2.2.1
        simp [constAlt, lit, Ne.symm this]
    have h3 : constAlt ['0', 'b'] isBinDigit 2 ('0' :: rest) = none := by
      cases rest with
      | nil => simp [constAlt, lit]
      | cons c r =>
        have := (cls_sub c (hrest c rfl)).2.2.2.2.2
        simp [constAlt, lit, Ne.symm this]
    have h4 : constAlt ['0'] isOctDigit 8 ('0' :: rest) = none := by
      have := takeWhile_all isOctDigit [] rest (by simp) (fun c hc => (cls_sub c (hrest c hc)).2.2.1)
      simp only [List.nil_append] at this
      simp [constAlt, lit, this]
    simp [eConst, this, h1, h2, h3, h4]
  · have hl := lead_char p.1 p.2 (hd p (by simp)) hp
    have h1 : constAlt ['$'] isHexDigit 16 (text (p :: ps) ++ rest) = none := by
      simp [constAlt, lit, text, Ne.symm hl.2]
    have h2 : constAlt ['0', 'x'] isHexDigit 16 (text (p :: ps) ++ rest) = none := by
      simp [constAlt, lit, text, Ne.symm hl.1]
    have h3 : constAlt ['0', 'b'] isBinDigit 2 (text (p :: ps) ++ rest) = none := by
      simp [constAlt, lit, text, Ne.symm hl.1]
    have h4 : constAlt ['0'] isOctDigit 8 (text (p :: ps) ++ rest) = none := by
      simp [constAlt, lit, text, Ne.symm hl.1]
    simp [eConst, this, h1, h2, h3, h4]

/-- the most significant digit of a positive number is not 0 -/
theorem digitsRev_last (b : Nat) (hb : 2 ≤ b) : ∀ (f n : Nat), n < f → 0 < n →
    ∃ d, (digitsRev b f n).getLast? = some d ∧ d ≠ 0 := by
  intro f
  induction f with
  | zero => intro n h; omega
  | succ f ih =>
    intro n h hpos
    simp only [digitsRev]
    split
    · exact ⟨n, rfl, by omega⟩
    · rename_i hn
      have hq : 0 < n / b := Nat.div_pos (by omega) (by omega)
      have hlt : n / b < f := by
        have : n / b < n := Nat.div_lt_self (by omega) (by omega)
        omega
      obtain ⟨d, hd, hne⟩ := ih (n / b) hlt hq
      refine ⟨d, ?_, hne⟩
      cases hf : digitsRev b f (n / b) with
      | nil => rw [hf] at hd; simp at hd
      | cons x xs => rw [hf] at hd; simpa [List.getLast?_cons_cons] using hd

/-- **Radix irrelevance.**  For every value `n` that fits the assembler's numbers and every text
    position where a number can end: the decimal, `0x`-hex, `$`-hex (hex digits in any letter
    case), `0b`-binary and `0`-octal spellings of `n` all read as the constant `n`, consuming
    exactly the spelling. -/
theorem radix_irrelevant (n : Nat) (hn : n < 2 ^ 63) (rest : Str) (hrest : endsToken rest)
    (c10 c16 c16' c2 c8 : Numeral)
    (h10 : c10.map (·.2) = (digitsRev 10 (n + 1) n).reverse)
    (h16 : c16.map (·.2) = (digitsRev 16 (n + 1) n).reverse)
    (h16' : c16'.map (·.2) = (digitsRev 16 (n + 1) n).reverse)
    (h2 : c2.map (·.2) = (digitsRev 2 (n + 1) n).reverse)
    (h8 : c8.map (·.2) = (digitsRev 8 (n + 1) n).reverse) :
    eConst (text c10 ++ rest) = some ((n : Int), rest) ∧
    eConst ('0' :: 'x' :: (text c16 ++ rest)) = some ((n : Int), rest) ∧
    eConst ('$' :: (text c16' ++ rest)) = some ((n : Int), rest) ∧
    eConst ('0' :: 'b' :: (text c2 ++ rest)) = some ((n : Int), rest) ∧
    eConst ('0' :: (text c8 ++ rest)) = some ((n : Int), rest) := by
  have dig : ∀ (b : Nat), 2 ≤ b → ∀ (cs : Numeral), cs.map (·.2) = (digitsRev b (n + 1) n).reverse →
      (∀ p ∈ cs, p.2 < b) ∧ cs ≠ [] ∧ value b cs = n := by
    intro b hb cs h
    refine ⟨?_, ?_, value_digits b hb n cs h⟩
    · intro p hp
      have : p.2 ∈ cs.map (·.2) := List.mem_map_of_mem hp
      rw [h, List.mem_reverse] at this
      exact digitsRev_lt b hb _ _ _ this
    · intro hc; subst hc
      simp only [List.map_nil] at h
      exact digitsRev_ne_nil b n n (List.reverse_eq_nil_iff.mp h.symm)
  obtain ⟨d10, n10, v10⟩ := dig 10 (by omega) c10 h10
  obtain ⟨d16, n16, v16⟩ := dig 16 (by omega) c16 h16
  obtain ⟨d16', n16', v16'⟩ := dig 16 (by omega) c16' h16'
  obtain ⟨d2, n2, v2⟩ := dig 2 (by omega) c2 h2
  obtain ⟨d8, n8, v8⟩ := dig 8 (by omega) c8 h8
  refine ⟨?_, ?_, ?_, ?_, ?_⟩
  · have hlead : (∃ u, c10 = [(u, 0)]) ∨ ∃ p ps, c10 = p :: ps ∧ p.2 ≠ 0 := by
      by_cases h0 : n = 0
      · subst h0
        left
        have : c10.map (·.2) = [0] := by rw [h10]; rfl
        cases c10 with
        | nil => simp at this
        | cons p ps =>
          cases ps with
          | nil => simp at this; exact ⟨p.1, by cases p; simp_all⟩
          | cons q qs => simp at this
      · right
        obtain ⟨d, hd, hne⟩ := digitsRev_last 10 (by omega) (n + 1) n (by omega) (by omega)
        cases c10 with
        | nil => exact absurd rfl n10
        | cons p ps =>
          refine ⟨p, ps, rfl, ?_⟩
          have hh : ((digitsRev 10 (n + 1) n).reverse).head? = some d := by
            rw [List.head?_reverse]; exact hd
          rw [← h10] at hh
          simp at hh
          rw [hh]; exact hne
    have := dec_reads c10 rest d10 hrest (by rw [v10]; exact hn) hlead
    rw [v10] at this; exact this
  · have := hex_reads c16 rest n16 d16 hrest (by rw [v16]; exact hn)
    rw [v16] at this; exact this
  · have := dollar_reads c16' rest n16' d16' hrest (by rw [v16']; exact hn)
    rw [v16'] at this; exact this
  · have := bin_reads c2 rest n2 d2 hrest (by rw [v2]; exact hn)
    rw [v2] at this; exact this
  · have := oct_reads c8 rest n8 d8 hrest (by rw [v8]; exact hn)
    rw [v8] at this; exact this

/-! ### line ends -/

theorem splitGo_piece (sep : Char) : ∀ (p cur rest : Str), sep ∉ p →
    splitOn.go sep cur (p ++ sep :: rest) = (cur.reverse ++ p) :: splitOn.go sep [] rest := by
  intro p
  induction p with
  | nil => intro cur rest _; simp [splitOn.go]
  | cons c cs ih =>
    intro cur rest h
    have hc : c ≠ sep := fun e => h (by simp [e])
    simp only [List.cons_append, splitOn.go, hc, if_false]
    rw [ih (c :: cur) rest (fun hm => h (by simp [hm]))]
    simp

theorem splitGo_last (sep : Char) : ∀ (p cur : Str), sep ∉ p →
    splitOn.go sep cur p = [cur.reverse ++ p] := by
  intro p
  induction p with
  | nil => intro cur _; simp [splitOn.go]
  | cons c cs ih =>
    intro cur h
    have hc : c ≠ sep := fun e => h (by simp [e])
    simp only [splitOn.go, hc, if_false]
    rw [ih (c :: cur) (fun hm => h (by simp [hm]))]
    simp

/-- a program text: pieces each ended by LF or CRLF (the flag), then a last piece without line end -/
def joinEol (ps : List (Str × Bool)) (last : Str) : Str :=
  ps.foldr (fun p acc => p.1 ++ ((if p.2 then ['\r', '\n'] else ['\n']) ++ acc)) last

theorem split_join : ∀ (ps : List (Str × Bool)) (last : Str), (∀ p ∈ ps, '\n' ∉ p.1) → '\n' ∉ last →
    splitOn '\n' (joinEol ps last) = ps.map (fun p => p.1 ++ (if p.2 then ['\r'] else [])) ++ [last] := by
  intro ps
  induction ps with
  | nil => intro last _ hl; simp [joinEol, splitOn, splitGo_last '\n' last [] hl]
  | cons p ps ih =>
    intro last hp hl
    have hp1 : '\n' ∉ p.1 := hp p (by simp)
    have ih' := ih last (fun q hq => hp q (by simp [hq])) hl
    unfold splitOn at ih' ⊢
    simp only [joinEol, List.foldr_cons] at ih' ⊢
    cases hb : p.2 with
    | false =>
      simp only [Bool.false_eq_true, if_false, List.cons_append, List.nil_append]
      rw [splitGo_piece '\n' p.1 [] _ hp1]
      simp only [List.reverse_nil, List.nil_append, List.map_cons, hb, Bool.false_eq_true, if_false, List.append_nil, List.cons_append]
      rw [← ih']
    | true =>
      simp only [if_true, List.cons_append, List.nil_append]
      have : p.1 ++ '\r' :: '\n' :: List.foldr (fun p acc => p.1 ++ ((if p.2 = true then ['\r', '\n'] else ['\n']) ++ acc)) last ps
          = (p.1 ++ ['\r']) ++ '\n' :: List.foldr (fun p acc => p.1 ++ ((if p.2 = true then ['\r', '\n'] else ['\n']) ++ acc)) last ps := by simp
      rw [this, splitGo_piece '\n' (p.1 ++ ['\r']) [] _ (by simp [hp1])]
      simp only [List.reverse_nil, List.nil_append, List.map_cons, hb, if_true, List.cons_append]
      rw [← ih']

def stripCr (l : Str) : Str := if l.getLast? = some '\r' then l.dropLast else l

theorem linesGo_append : ∀ (xs : List Str) (last : Str),
    lines.go stripCr (xs ++ [last]) = xs.map stripCr ++ (if last.isEmpty then [] else [last]) := by
  intro xs
  induction xs with
  | nil => intro last; simp [lines.go]
  | cons x xs ih =>
    intro last
    cases xs with
    | nil => simp [lines.go]
    | cons y ys =>
      have := ih last
      simp only [List.cons_append, lines.go, List.map_cons] at this ⊢
      rw [this]

theorem stripCr_cr (p : Str) : stripCr (p ++ ['\r']) = p := by simp [stripCr]
theorem stripCr_id (p : Str) (h : p.getLast? ≠ some '\r') : stripCr p = p := by simp [stripCr, h]

/-- **Line ends.**  However LF and CRLF are mixed, the loop sees the same lines. -/
theorem lines_eol (ps : List (Str × Bool)) (last : Str)
    (hp : ∀ p ∈ ps, '\n' ∉ p.1 ∧ p.1.getLast? ≠ some '\r') (hl : '\n' ∉ last) :
    lines (joinEol ps last) = ps.map (·.1) ++ (if last.isEmpty then [] else [last]) := by
  have : lines (joinEol ps last) = lines.go stripCr (splitOn '\n' (joinEol ps last)) := rfl
  rw [this, split_join ps last (fun p h => (hp p h).1) hl, linesGo_append, List.map_map]
  congr 1
  apply List.map_congr_left
  intro p h
  simp only [Function.comp]
  cases hb : p.2 with
  | true => simp [stripCr_cr]
  | false => simp [stripCr_id _ (hp p h).2]

/-! ### whole lines: comment-only, blank and label-only lines -/

/-- what a comment starts with -/
def startsComment (c : Str) : Prop := c.head? = some ';' ∨ c.head? = some '/'

theorem skip_to_comment (ws c : Str) (hws : blanks ws) (hc : startsComment c) : skipSpace (ws ++ c) = c := by
  rw [space_absorbs ws c hws]
  cases c with
  | nil => rfl
  | cons x xs =>
    have hx : isSpace x = false := by
      rcases hc with h | h <;> (simp at h; subst h; decide)
    simp [skipSpace, hx]

theorem identText_none (c : Str) (x : Char) (xs : Str) (h : c = x :: xs) (hx : isIdentStart x = false) : identText c = none := by
  subst h; simp [identText, hx]

/-- **Comment-only and blank lines.**  Any run of blanks and tabs followed by a comment of any of
    the three styles (whatever its text) — and a line of blanks only — reads as the EMPTY line:
    inserting or removing such lines changes nothing but the line numbers. -/
theorem comment_only_line (ws c : Str) (hws : blanks ws) (hc : startsComment c) (hcom : comment c = some []) :
    line (ws ++ c) = .ok .emptyLine := by
  obtain ⟨x, xs, rfl⟩ : ∃ x xs, c = x :: xs := by
    cases c with
    | nil => rcases hc with h | h <;> simp at h
    | cons x xs => exact ⟨x, xs, rfl⟩
  have hx : x = ';' ∨ x = '/' := by rcases hc with h | h <;> (simp at h; simp [h])
  have hid : isIdentStart x = false := by rcases hx with rfl | rfl <;> decide
  have hsk := skip_to_comment ws (x :: xs) hws hc
  -- no label: the line starts with a blank or with the comment character
  have hlab : label (ws ++ x :: xs) = none := by
    cases ws with
    | nil => simp [label, identText, hid]
    | cons w ws' =>
      have hw : isSpace w = true := hws w (by simp)
      have : isIdentStart w = false := by
        simp only [isSpace, Bool.or_eq_true, beq_iff_eq] at hw
        rcases hw with rfl | rfl <;> decide
      simp [label, identText, this]
  have hdir : directive (x :: xs) = none := by
    rcases hx with rfl | rfl <;> simp [directive]
  have hop : operation (x :: xs) = none := by simp [operation, identText, hid]
  unfold line
  simp only [optLabel, hlab, hsk, hdir, hop, hcom]
  rfl

theorem blank_line (ws : Str) (hws : blanks ws) : line ws = .ok .emptyLine := by
  have hsk : skipSpace ws = [] := by
    have := space_absorbs ws [] hws
    simpa [skipSpace] using this
  have hlab : label ws = none := by
    cases ws with
    | nil => simp [label, identText]
    | cons w ws' =>
      have hw : isSpace w = true := hws w (by simp)
      have : isIdentStart w = false := by
        simp only [isSpace, Bool.or_eq_true, beq_iff_eq] at hw
        rcases hw with rfl | rfl <;> decide
      simp [label, identText, this]
  unfold line
  simp only [optLabel, hlab, hsk]
  simp [directive, operation, identText, comment, takeWhileP]

/-- a well-formed name: a letter or `_`, then letters, digits, `_` -/
def isName (n : Str) : Prop := ∃ x xs, n = x :: xs ∧ isIdentStart x = true ∧ ∀ c ∈ xs, isIdentChar c = true

theorem identText_name (n rest : Str) (hn : isName n) (hr : ∀ c, rest.head? = some c → isIdentChar c = false) :
    identText (n ++ rest) = some (n, rest) := by
  obtain ⟨x, xs, rfl, hx, hxs⟩ := hn
  simp only [List.cons_append, identText, hx, if_true]
  rw [takeWhile_all isIdentChar xs rest hxs hr]

/-- **A label-only line** with any blanks and any comment after the colon is that label
    (lower-cased), nothing else -/
theorem label_line (n ws c : Str) (hn : isName n) (hws : blanks ws) (hc : startsComment c) (hcom : comment c = some []) :
    line (n ++ ':' :: (ws ++ c)) = .ok (.label (lower n)) ∧ line (n ++ ':' :: ws) = .ok (.label (lower n)) := by
  have hid : identText (n ++ ':' :: (ws ++ c)) = some (n, ':' :: (ws ++ c)) :=
    identText_name n _ hn (by intro ch h; simp at h; subst h; decide)
  have hid2 : identText (n ++ ':' :: ws) = some (n, ':' :: ws) :=
    identText_name n _ hn (by intro ch h; simp at h; subst h; decide)
  obtain ⟨x, xs, rfl⟩ : ∃ x xs, c = x :: xs := by
    cases c with
    | nil => rcases hc with h | h <;> simp at h
    | cons x xs => exact ⟨x, xs, rfl⟩
  have hx : x = ';' ∨ x = '/' := by rcases hc with h | h <;> (simp at h; simp [h])
  have hidx : isIdentStart x = false := by rcases hx with rfl | rfl <;> decide
  have hsk := skip_to_comment ws (x :: xs) hws hc
  have hsk2 : skipSpace ws = [] := by
    have := space_absorbs ws [] hws
    simpa [skipSpace] using this
  have hdir : directive (x :: xs) = none := by
    rcases hx with rfl | rfl <;> simp [directive]
  have hop : operation (x :: xs) = none := by simp [operation, identText, hidx]
  constructor
  · unfold line
    simp only [optLabel, label, hid, hsk, hdir, hop, hcom]
    rfl
  · unfold line
    simp only [optLabel, label, hid2, hsk2]
    simp [directive, operation, identText, comment]

/-! ### whole lines: an instruction or macro call without operands, any blanks, any comment -/

/-- first characters no expression, register or index operand starts with -/
def noOperandStart (x : Char) : Prop := x = ';' ∨ x = '/'

theorem prefix_heads (x : Char) (hx : noOperandStart x) : ∀ y ∈ prefixOps, y.1.head? ≠ some x := by
  rcases hx with rfl | rfl <;> decide

theorem lit_head_ne (t : Str) (x : Char) (xs : Str) (hne : t ≠ []) (h : t.head? ≠ some x) : lit t (x :: xs) = none := by
  cases t with
  | nil => exact absurd rfl hne
  | cons c cs =>
    have : c ≠ x := by intro hc; apply h; simp [hc]
    simp [lit, this]

theorem eConst_none (x : Char) (xs : Str) (hx : noOperandStart x) : eConst (x :: xs) = none := by
  rcases hx with rfl | rfl <;> simp [eConst, constAlt, lit, takeWhileP, isDigit] <;> decide

theorem atom_not_ok (x : Char) (xs : Str) (hx : noOperandStart x) : ∀ f e r, parseAtom f (x :: xs) ≠ .ok e r := by
  intro f e r h
  have hid : identText (x :: xs) = none := by rcases hx with rfl | rfl <;> simp [identText] <;> decide
  have hch : ch (x :: xs) = none := by rcases hx with rfl | rfl <;> simp [ch]
  have hpar : x ≠ '(' := by rcases hx with rfl | rfl <;> decide
  cases f with
  | zero => simp [parseAtom] at h
  | succ f =>
    simp only [parseAtom, hid, eConst_none x xs hx, hch] at h
    split at h
    · rename_i heq
      split at heq
      · rename_i r1 hc
        simp only [List.cons.injEq] at hc
        exact hpar hc.1
      · simp at heq
    · simp at h
    · simp at h

theorem tryPrefix_not_ok (x : Char) (xs : Str) (hx : noOperandStart x) :
    ∀ (l : List (Str × UnOp × Nat)), (∀ y ∈ l, y.1 ≠ [] ∧ y.1.head? ≠ some x) → ∀ f e r, tryPrefix f l (x :: xs) ≠ .ok e r := by
  intro l
  induction l with
  | nil =>
    intro _ f e r h
    cases f with
    | zero => simp [tryPrefix] at h
    | succ f => simp only [tryPrefix] at h; exact atom_not_ok x xs hx f e r h
  | cons y more ih =>
    intro hl f e r h
    obtain ⟨t, u, lv⟩ := y
    have ht := hl (t, u, lv) (List.mem_cons_self ..)
    have hlit := lit_head_ne t x xs ht.1 ht.2
    cases f with
    | zero => simp [tryPrefix] at h
    | succ f =>
      simp only [tryPrefix, hlit] at h
      exact ih (fun y hy => hl y (List.mem_cons_of_mem _ hy)) f e r h

theorem expr_fails (x : Char) (xs : Str) (hx : noOperandStart x) : expr (x :: xs) = .fail := by
  have hno := Avra.Lemmas.Fuel.expr_no_oof (x :: xs)
  have hnok : ∀ e r, expr (x :: xs) ≠ .ok e r := by
    intro e r h
    unfold expr at h
    generalize exprFuel (x :: xs) = f at h
    cases f with
    | zero => simp [parseInfix] at h
    | succ f =>
      simp only [parseInfix] at h
      split at h
      · rename_i e1 rest hp
        cases f with
        | zero => simp [parsePrefixAtom] at hp
        | succ f =>
          simp only [parsePrefixAtom] at hp
          exact tryPrefix_not_ok x xs hx prefixOps
            (fun y hy => ⟨Avra.Lemmas.Fuel.prefix_tokens y hy, prefix_heads x hx y hy⟩) f e1 rest hp
      · simp at h
      · simp at h
  cases h : expr (x :: xs) with
  | ok e r => exact absurd h (hnok e r)
  | fail => rfl
  | oof => exact absurd h hno

theorem expr_fails_nil : expr [] = .fail := by decide

/-- nothing that could be an operand starts with `;` or `/`, or with nothing -/
theorem instructionOps_fails (c : Str) (hc : c = [] ∨ startsComment c) : instructionOps c = .fail := by
  rcases hc with rfl | hc
  · unfold instructionOps
    simp [indexOps, reg16, reg8, expr_fails_nil]
  · obtain ⟨x, xs, rfl⟩ : ∃ x xs, c = x :: xs := by
      cases c with
      | nil => rcases hc with h | h <;> simp at h
      | cons x xs => exact ⟨x, xs, rfl⟩
    have hx : noOperandStart x := by rcases hc with h | h <;> (simp at h; simp [noOperandStart, h])
    have he := expr_fails x xs hx
    have hr8 : reg8 (x :: xs) = none := by rcases hx with rfl | rfl <;> simp [reg8]
    have hr16 : reg16 (x :: xs) = none := by rcases hx with rfl | rfl <;> simp [reg16]
    have hm : x ≠ '-' := by rcases hx with rfl | rfl <;> decide
    have hi : indexOps (x :: xs) = .fail := by
      unfold indexOps
      simp only [hr16]
      split
      · rename_i v r heq
        split at heq
        · rename_i r0 hc2; simp only [List.cons.injEq] at hc2; exact absurd hc2.1 hm
        · simp at heq
      · rfl
    unfold instructionOps
    simp only [hi, hr8, he]

/-- the operation a (lower-cased) word denotes: a mnemonic, else a macro name -/
def opOfWord (w : Str) : Op :=
  match standardOperation w with
  | some o => o
  | none => .custom w

/-- what may follow the last token of a line: nothing, or a comment in one of the three styles -/
def lineEnd (c : Str) : Prop := c = [] ∨ (startsComment c ∧ comment c = some [])

theorem tail_head (ws c : Str) (hws : blanks ws) (hc : lineEnd c) :
    ∀ y, (ws ++ c).head? = some y → isIdentChar y = false ∧ y ≠ ':' := by
  intro y h
  cases ws with
  | cons w ws' =>
    simp at h; subst h
    have hw : isSpace w = true := hws w (by simp)
    simp only [isSpace, Bool.or_eq_true, beq_iff_eq] at hw
    rcases hw with rfl | rfl <;> decide
  | nil =>
    rcases hc with rfl | ⟨hs, _⟩
    · simp at h
    · simp only [List.nil_append] at h
      rcases hs with h2 | h2 <;> (rw [h] at h2; simp at h2; subst h2; decide)

theorem skip_tail (ws c : Str) (hws : blanks ws) (hc : lineEnd c) : skipSpace (ws ++ c) = c := by
  rcases hc with rfl | ⟨hs, _⟩
  · have := space_absorbs ws [] hws
    simpa [skipSpace] using this
  · exact skip_to_comment ws c hws hs

theorem opList_end (c : Str) (hc : lineEnd c) : opList c = .ok [] c := by
  have hf : instructionOps c = .fail := instructionOps_fails c (by rcases hc with h | ⟨h, _⟩; exact Or.inl h; exact Or.inr h)
  unfold opList sepList
  simp only [hf]

theorem skip_name (n rest : Str) (hn : isName n) : skipSpace (n ++ rest) = n ++ rest := by
  obtain ⟨x, xs, rfl, hx, _⟩ := hn
  have : isSpace x = false := by
    cases hsp : isSpace x with
    | false => rfl
    | true =>
      simp only [isSpace, Bool.or_eq_true, beq_iff_eq] at hsp
      rcases hsp with rfl | rfl <;> simp [isIdentStart, isAlpha] at hx
  simp [skipSpace, this]

theorem directive_name (n rest : Str) (hn : isName n) : directive (n ++ rest) = none := by
  obtain ⟨x, xs, rfl, hx, _⟩ := hn
  have h1 : (x == '.') = false := by
    cases h : x == '.' with
    | false => rfl
    | true => simp only [beq_iff_eq] at h; subst h; simp [isIdentStart, isAlpha] at hx
  have h2 : (x == '#') = false := by
    cases h : x == '#' with
    | false => rfl
    | true => simp only [beq_iff_eq] at h; subst h; simp [isIdentStart, isAlpha] at hx
  simp [directive, h1, h2]

theorem operation_name (n rest : Str) (hn : isName n) (hr : ∀ c, rest.head? = some c → isIdentChar c = false) :
    operation (n ++ rest) = some (opOfWord (lower n), rest) := by
  unfold operation opOfWord
  rw [identText_name n rest hn hr]
  simp only
  split <;> simp_all

/-- what the end of the line does to the rules that read it -/
theorem end_facts (c : Str) (hc : lineEnd c) :
    (comment (skipSpace c) = none ∧ skipSpace c = []) ∨ (comment (skipSpace c) = some []) := by
  rcases hc with rfl | ⟨hs, hcom⟩
  · left; simp [skipSpace, comment]
  · right
    have : skipSpace c = c := by
      have := skip_to_comment [] c (by intro x hx; simp at hx) hs
      simpa using this
    rw [this, hcom]

/-- **An instruction or macro call without operands**, indented or not, with any blanks and any
    comment (or nothing) after it, is that operation with an empty operand list — whatever the
    blanks and whatever the comment says -/
theorem bare_instruction_line (ws1 n ws2 c : Str) (hws1 : blanks ws1) (hn : isName n) (hws2 : blanks ws2)
    (hc : lineEnd c) :
    line (ws1 ++ (n ++ (ws2 ++ c))) = .ok (.codeLine none (opOfWord (lower n)) []) := by
  have hth := tail_head ws2 c hws2 hc
  have hid : identText (n ++ (ws2 ++ c)) = some (n, ws2 ++ c) := identText_name n _ hn (fun y h => (hth y h).1)
  have hlab : label (ws1 ++ (n ++ (ws2 ++ c))) = none := by
    cases ws1 with
    | nil =>
      simp only [List.nil_append, label, hid]
      cases htl : ws2 ++ c with
      | nil => rfl
      | cons y ys =>
        have := (hth y (by rw [htl]; rfl)).2
        split
        · rename_i heq; simp only [Option.some.injEq, Prod.mk.injEq, List.cons.injEq] at heq; exact absurd heq.2.1 this
        · rfl
    | cons w ws' =>
      have hw : isSpace w = true := hws1 w (by simp)
      have : isIdentStart w = false := by
        simp only [isSpace, Bool.or_eq_true, beq_iff_eq] at hw
        rcases hw with rfl | rfl <;> decide
      simp [label, identText, this]
  have hsk : skipSpace (ws1 ++ (n ++ (ws2 ++ c))) = n ++ (ws2 ++ c) := by
    rw [space_absorbs ws1 _ hws1, skip_name n _ hn]
  have hop := operation_name n (ws2 ++ c) hn (fun y h => (hth y h).1)
  have hst := skip_tail ws2 c hws2 hc
  have hol := opList_end c hc
  unfold line
  simp only [optLabel, hlab]
  simp only [hsk]
  rw [directive_name n _ hn]
  simp only [hop]
  simp only [hst]
  simp only [hol]
  rcases end_facts c hc with ⟨h1, h2⟩ | h1
  · simp only [h2]; simp [comment]
  · simp only [h1]; simp



/-- the same behind a label (glued to the colon or not) -/
theorem labelled_bare_instruction_line (l ws1 n ws2 c : Str) (hl : isName l) (hws1 : blanks ws1) (hn : isName n)
    (hws2 : blanks ws2) (hc : lineEnd c) :
    line (l ++ ':' :: (ws1 ++ (n ++ (ws2 ++ c)))) = .ok (.codeLine (some (lower l)) (opOfWord (lower n)) []) := by
  have hth := tail_head ws2 c hws2 hc
  have hidl : identText (l ++ ':' :: (ws1 ++ (n ++ (ws2 ++ c)))) = some (l, ':' :: (ws1 ++ (n ++ (ws2 ++ c)))) :=
    identText_name l _ hl (by intro y h; simp at h; subst h; decide)
  have hsk : skipSpace (ws1 ++ (n ++ (ws2 ++ c))) = n ++ (ws2 ++ c) := by
    rw [space_absorbs ws1 _ hws1, skip_name n _ hn]
  have hop := operation_name n (ws2 ++ c) hn (fun y h => (hth y h).1)
  have hst := skip_tail ws2 c hws2 hc
  have hol := opList_end c hc
  have hopt : optLabel (l ++ ':' :: (ws1 ++ (n ++ (ws2 ++ c)))) = (some (lower l), ws1 ++ (n ++ (ws2 ++ c))) := by
    simp only [optLabel, label, hidl]
  unfold line
  rw [hopt]
  dsimp only
  simp only [hsk]
  rw [directive_name n _ hn]
  simp only [hop]
  simp only [hst]
  simp only [hol]
  rcases end_facts c hc with ⟨h1, h2⟩ | h1
  · simp only [h2]; simp [comment]
  · simp only [h1]; simp

/-! non-vacuity: the hypotheses are met by ordinary lines -/
example : line ([' ', ' '] ++ (['N', 'O', 'P'] ++ ([' ', '\t'] ++ [';', ' ', 'x']))) = .ok (.codeLine none (opOfWord (lower ['N', 'O', 'P'])) []) :=
  bare_instruction_line _ _ _ _ (by unfold blanks; decide) ⟨'N', ['O', 'P'], rfl, by decide, by decide⟩ (by unfold blanks; decide)
    (Or.inr ⟨Or.inl rfl, rfl⟩)
example : line (['l', '1'] ++ ':' :: ([] ++ (['s', 'e', 'i'] ++ ([] ++ ['/', '/', 'x'])))) = .ok (.codeLine (some (lower ['l', '1'])) (opOfWord (lower ['s', 'e', 'i'])) []) :=
  labelled_bare_instruction_line _ _ _ _ _ ⟨'l', ['1'], rfl, by decide, by decide⟩ (by unfold blanks; decide) ⟨'s', ['e', 'i'], rfl, by decide, by decide⟩ (by unfold blanks; decide)
    (Or.inr ⟨Or.inr rfl, rfl⟩)

/-! ### whole lines: instructions whose operands are registers -/

/-- the text of a register operand: `r`/`R` and the one or two digits of a number below 32 -/
def regText (up : Bool) (k : Nat) : Str :=
  (if up then 'R' else 'r') :: (if k < 10 then [Char.ofNat (48 + k)] else [Char.ofNat (48 + k / 10), Char.ofNat (48 + k % 10)])

/-- what may follow a register operand: nothing, a blank, a comma, or a comment -/
def afterReg (rest : Str) : Prop := ∀ y, rest.head? = some y → isDigit y = false

theorem reg8_reads (up : Bool) (k : Nat) (hk : k < 32) (rest : Str) (hr : afterReg rest) :
    reg8 (regText up k ++ rest) = some (k, rest) := by
  have hd : ∀ y ys, rest = y :: ys → isDigit y = false := fun y ys h => hr y (by rw [h]; rfl)
  cases rest with
  | nil => revert up; revert k; decide
  | cons y ys =>
    have hy := hd y ys rfl
    have key : ∀ (up : Bool) (k : Nat), k < 32 → ∀ (y : Char) (ys : Str), isDigit y = false →
        reg8 (regText up k ++ y :: ys) = some (k, y :: ys) := by
      intro up k hk y ys hy
      have : k = 0 ∨ k = 1 ∨ k = 2 ∨ k = 3 ∨ k = 4 ∨ k = 5 ∨ k = 6 ∨ k = 7 ∨ k = 8 ∨ k = 9 ∨ k = 10 ∨ k = 11 ∨ k = 12 ∨ k = 13 ∨ k = 14 ∨ k = 15 ∨
          k = 16 ∨ k = 17 ∨ k = 18 ∨ k = 19 ∨ k = 20 ∨ k = 21 ∨ k = 22 ∨ k = 23 ∨ k = 24 ∨ k = 25 ∨ k = 26 ∨ k = 27 ∨ k = 28 ∨ k = 29 ∨ k = 30 ∨ k = 31 := by omega
      cases up <;> rcases this with rfl | rfl | rfl | rfl | rfl | rfl | rfl | rfl | rfl | rfl | rfl | rfl | rfl | rfl | rfl | rfl | rfl | rfl | rfl | rfl | rfl | rfl | rfl | rfl | rfl | rfl | rfl | rfl | rfl | rfl | rfl | rfl <;>
        simp +decide [regText, reg8, regOfDigits, hy]
    exact key up k hk y ys hy

theorem regText_head (up : Bool) (k : Nat) (rest : Str) : ∃ t, regText up k ++ rest = (if up then 'R' else 'r') :: t := ⟨_, rfl⟩

theorem instructionOps_reg (up : Bool) (k : Nat) (hk : k < 32) (rest : Str) (hr : afterReg rest) :
    instructionOps (regText up k ++ rest) = .ok (.r8 k) rest := by
  have h8 := reg8_reads up k hk rest hr
  obtain ⟨t, ht⟩ := regText_head up k rest
  have hi : indexOps (regText up k ++ rest) = .fail := by
    rw [ht]
    cases up <;> simp [indexOps, reg16]
  unfold instructionOps
  simp only [hi, h8]

/-- the operands after the first: blanks, a comma, blanks, a register — any number of times -/
def tailText : List (Str × Str × Bool × Nat) → Str
  | [] => []
  | (a, b, up, k) :: more => a ++ ',' :: (b ++ (regText up k ++ tailText more))

def tailOk (more : List (Str × Str × Bool × Nat)) : Prop :=
  ∀ x ∈ more, blanks x.1 ∧ blanks x.2.1 ∧ x.2.2.2 < 32

theorem tail_after (more : List (Str × Str × Bool × Nat)) (hm : tailOk more) (ws2 c : Str) (hws2 : blanks ws2) (hc : lineEnd c) :
    afterReg (tailText more ++ (ws2 ++ c)) := by
  intro y hy
  cases more with
  | nil =>
    simp only [tailText, List.nil_append] at hy
    have := (tail_head ws2 c hws2 hc y hy).1
    cases hd : isDigit y with
    | false => rfl
    | true => simp [isIdentChar, hd] at this
  | cons x xs =>
    obtain ⟨a, b, up, k⟩ := x
    have ha : blanks a := (hm _ (List.mem_cons_self ..)).1
    simp only [tailText, List.append_assoc] at hy
    cases a with
    | nil => simp at hy; subst hy; decide
    | cons w ws =>
      simp at hy; subst hy
      have hw : isSpace w = true := ha w (by simp)
      simp only [isSpace, Bool.or_eq_true, beq_iff_eq] at hw
      rcases hw with rfl | rfl <;> decide

theorem tail_len (more : List (Str × Str × Bool × Nat)) : more.length ≤ (tailText more).length := by
  induction more with
  | nil => simp
  | cons x xs ih =>
    obtain ⟨a, b, up, k⟩ := x
    simp only [tailText, List.length_cons, List.length_append]
    omega

theorem skip_reg (up : Bool) (k : Nat) (rest : Str) : skipSpace (regText up k ++ rest) = regText up k ++ rest := by
  obtain ⟨t, ht⟩ := regText_head up k rest
  rw [ht]
  cases up <;> simp +decide [skipSpace]

theorem delimiter_end (ws2 c : Str) (hws2 : blanks ws2) (hc : lineEnd c) : delimiter (ws2 ++ c) = none := by
  unfold delimiter
  rw [skip_tail ws2 c hws2 hc]
  rcases hc with rfl | ⟨hs, _⟩
  · rfl
  · cases c with
    | nil => rfl
    | cons x xs =>
      have : x ≠ ',' := by
        rcases hs with h | h <;> (simp at h; subst h; decide)
      split
      · rename_i r heq; simp only [List.cons.injEq] at heq; exact absurd heq.1 this
      · rfl

theorem sepTail_regs : ∀ (more : List (Str × Str × Bool × Nat)), tailOk more → ∀ (ws2 c : Str), blanks ws2 → lineEnd c →
    ∀ (f : Nat) (acc : List IOp), more.length < f →
      sepTail instructionOps f acc (tailText more ++ (ws2 ++ c)) =
        .ok (acc.reverse ++ more.map (fun x => IOp.r8 x.2.2.2)) (ws2 ++ c) := by
  intro more
  induction more with
  | nil =>
    intro _ ws2 c hws2 hc f acc hf
    obtain ⟨g, rfl⟩ : ∃ g, f = g + 1 := ⟨f - 1, by omega⟩
    simp only [tailText, List.nil_append, sepTail, delimiter_end ws2 c hws2 hc, List.map_nil, List.append_nil]
  | cons x xs ih =>
    intro hm ws2 c hws2 hc f acc hf
    obtain ⟨a, b, up, k⟩ := x
    obtain ⟨g, rfl⟩ : ∃ g, f = g + 1 := ⟨f - 1, by omega⟩
    have hx := hm _ (List.mem_cons_self ..)
    have hxs : tailOk xs := fun y hy => hm y (List.mem_cons_of_mem _ hy)
    have hdel : delimiter (tailText ((a, b, up, k) :: xs) ++ (ws2 ++ c)) = some (regText up k ++ (tailText xs ++ (ws2 ++ c))) := by
      unfold delimiter
      simp only [tailText, List.append_assoc, List.cons_append]
      rw [space_absorbs a _ hx.1]
      simp only [skipSpace]
      have : isSpace ',' = false := by decide
      simp only [this, Bool.false_eq_true, if_false]
      rw [space_absorbs b _ hx.2.1, skip_reg]
    have hop := instructionOps_reg up k hx.2.2 (tailText xs ++ (ws2 ++ c)) (tail_after xs hxs ws2 c hws2 hc)
    simp only [sepTail, hdel, hop]
    rw [ih hxs ws2 c hws2 hc g (IOp.r8 k :: acc) (by simp only [List.length_cons] at hf; omega)]
    simp

/-- the operand list of a register instruction, with its blanks -/
def regsText (up : Bool) (k : Nat) (more : List (Str × Str × Bool × Nat)) : Str := regText up k ++ tailText more

theorem opList_regs (up : Bool) (k : Nat) (hk : k < 32) (more : List (Str × Str × Bool × Nat)) (hm : tailOk more)
    (ws2 c : Str) (hws2 : blanks ws2) (hc : lineEnd c) :
    opList (regText up k ++ (tailText more ++ (ws2 ++ c))) =
      .ok (IOp.r8 k :: more.map (fun x => IOp.r8 x.2.2.2)) (ws2 ++ c) := by
  have hop := instructionOps_reg up k hk (tailText more ++ (ws2 ++ c)) (tail_after more hm ws2 c hws2 hc)
  unfold opList sepList
  simp only [hop]
  rw [sepTail_regs more hm ws2 c hws2 hc _ [IOp.r8 k] (by
    have := tail_len more
    simp only [List.length_append]
    omega)]
  simp

/-- **An instruction whose operands are registers** — any mnemonic or macro name, indented or not,
    `r`/`R`, any blanks before and after every comma, any blanks and any comment (or nothing) at
    the end — is that operation with exactly those registers -/
theorem register_instruction_line (ws1 n wsA : Str) (up : Bool) (k : Nat) (more : List (Str × Str × Bool × Nat)) (ws2 c : Str)
    (hws1 : blanks ws1) (hn : isName n) (hwsA : blanks wsA) (hA : wsA ≠ []) (hk : k < 32) (hm : tailOk more)
    (hws2 : blanks ws2) (hc : lineEnd c) :
    line (ws1 ++ (n ++ (wsA ++ (regText up k ++ (tailText more ++ (ws2 ++ c)))))) =
      .ok (.codeLine none (opOfWord (lower n)) (IOp.r8 k :: more.map (fun x => IOp.r8 x.2.2.2))) := by
  -- what follows the name starts with a blank
  obtain ⟨w, ws, rfl⟩ : ∃ w ws, wsA = w :: ws := by
    cases wsA with
    | nil => exact absurd rfl hA
    | cons w ws => exact ⟨w, ws, rfl⟩
  have hw : isSpace w = true := hwsA w (by simp)
  have hwi : isIdentChar w = false ∧ w ≠ ':' := by
    simp only [isSpace, Bool.or_eq_true, beq_iff_eq] at hw
    rcases hw with rfl | rfl <;> decide
  have hol := opList_regs up k hk more hm ws2 c hws2 hc
  have hsr := skip_reg up k (tailText more ++ (ws2 ++ c))
  generalize hR : regText up k ++ (tailText more ++ (ws2 ++ c)) = R at hol hsr ⊢
  have hth : ∀ y, ((w :: ws) ++ R).head? = some y → isIdentChar y = false := by
    intro y hy; simp at hy; subst hy; exact hwi.1
  have hid : identText (n ++ ((w :: ws) ++ R)) = some (n, (w :: ws) ++ R) := identText_name n _ hn hth
  have hlab : label (ws1 ++ (n ++ ((w :: ws) ++ R))) = none := by
    cases ws1 with
    | nil =>
      simp only [List.nil_append, label, hid]
      split
      · rename_i heq; simp only [Option.some.injEq, Prod.mk.injEq, List.cons_append, List.cons.injEq] at heq; exact absurd heq.2.1 hwi.2
      · rfl
    | cons v vs =>
      have hv : isSpace v = true := hws1 v (by simp)
      have : isIdentStart v = false := by
        simp only [isSpace, Bool.or_eq_true, beq_iff_eq] at hv
        rcases hv with rfl | rfl <;> decide
      simp [label, identText, this]
  have hsk : skipSpace (ws1 ++ (n ++ ((w :: ws) ++ R))) = n ++ ((w :: ws) ++ R) := by
    rw [space_absorbs ws1 _ hws1, skip_name n _ hn]
  have hop := operation_name n ((w :: ws) ++ R) hn hth
  have hsA : skipSpace ((w :: ws) ++ R) = R := by
    rw [space_absorbs (w :: ws) _ hwsA]; exact hsr
  have hst := skip_tail ws2 c hws2 hc
  unfold line
  simp only [optLabel, hlab]
  simp only [hsk]
  rw [directive_name n _ hn]
  simp only [hop]
  simp only [hsA]
  simp only [hol]
  simp only [hst]
  rcases hc with rfl | ⟨_, hcom⟩
  · simp [comment]
  · simp only [hcom]; simp

/-! non-vacuity: ` MOV r1 , R31 ; copy` -/
example : line ([' '] ++ (['M', 'O', 'V'] ++ ([' '] ++ (regText false 1 ++ (tailText [([' '], [' '], true, 31)] ++ ([' '] ++ [';', 'c'])))))) =
    .ok (.codeLine none (opOfWord (lower ['M', 'O', 'V'])) [IOp.r8 1, IOp.r8 31]) :=
  register_instruction_line _ _ _ _ _ _ _ _ (by unfold blanks; decide) ⟨'M', ['O', 'V'], rfl, by decide, by decide⟩
    (by unfold blanks; decide) (by decide) (by decide) (by unfold tailOk blanks; decide) (by unfold blanks; decide) (Or.inr ⟨Or.inl rfl, rfl⟩)
example : regText false 1 ++ tailText [([' '], [' '], true, 31)] = "r1 , R31".toList := by decide

section Numbers
open Avra.Lemmas.Fuel

/-! ### whole lines: operands that are numbers -/

/-- a text that `e_const` reads as `n` wherever a token may end (the five spellings of
    `radix_irrelevant` are such texts) -/
def NumText (t : Str) (n : Nat) : Prop :=
  (∃ y ys, t = y :: ys ∧ (isDigit y = true ∨ y = '$')) ∧
  ∀ rest, endsToken rest → eConst (t ++ rest) = some ((n : Int), rest)

/-- first characters no operand starts with (extends `noOperandStart` by `*`, `,`, `)` and the
    operator characters that are no prefix operator) -/
def noStart (x : Char) : Prop :=
  x = ';' ∨ x = '/' ∨ x = '*' ∨ x = ',' ∨ x = '<' ∨ x = '=' ∨ x = '>' ∨ x = '|' ∨ x = '&' ∨ x = ')'

theorem prefix_heads' (x : Char) (hx : noStart x) : ∀ y ∈ prefixOps, y.1.head? ≠ some x := by
  rcases hx with rfl | rfl | rfl | rfl | rfl | rfl | rfl | rfl | rfl | rfl <;> decide

theorem eConst_none' (x : Char) (xs : Str) (hx : noStart x) : eConst (x :: xs) = none := by
  rcases hx with rfl | rfl | rfl | rfl | rfl | rfl | rfl | rfl | rfl | rfl <;> simp [eConst, constAlt, lit, takeWhileP, isDigit] <;> decide

theorem atom_not_ok' (x : Char) (xs : Str) (hx : noStart x) : ∀ f e r, parseAtom f (x :: xs) ≠ .ok e r := by
  intro f e r h
  have hid : identText (x :: xs) = none := by rcases hx with rfl | rfl | rfl | rfl | rfl | rfl | rfl | rfl | rfl | rfl <;> simp [identText] <;> decide
  have hch : ch (x :: xs) = none := by rcases hx with rfl | rfl | rfl | rfl | rfl | rfl | rfl | rfl | rfl | rfl <;> simp [ch]
  have hpar : x ≠ '(' := by rcases hx with rfl | rfl | rfl | rfl | rfl | rfl | rfl | rfl | rfl | rfl <;> decide
  cases f with
  | zero => simp [parseAtom] at h
  | succ f =>
    simp only [parseAtom, hid, eConst_none' x xs hx, hch] at h
    split at h
    · rename_i heq
      split at heq
      · rename_i r1 hc
        simp only [List.cons.injEq] at hc
        exact hpar hc.1
      · simp at heq
    · simp at h
    · simp at h

theorem tryPrefix_not_ok' (x : Char) (xs : Str) (hx : noStart x) :
    ∀ (l : List (Str × UnOp × Nat)), (∀ y ∈ l, y.1 ≠ [] ∧ y.1.head? ≠ some x) → ∀ f e r, tryPrefix f l (x :: xs) ≠ .ok e r := by
  intro l
  induction l with
  | nil =>
    intro _ f e r h
    cases f with
    | zero => simp [tryPrefix] at h
    | succ f => simp only [tryPrefix] at h; exact atom_not_ok' x xs hx f e r h
  | cons y more ih =>
    intro hl f e r h
    obtain ⟨t, u, lv⟩ := y
    have ht := hl (t, u, lv) (List.mem_cons_self ..)
    have hlit := lit_head_ne t x xs ht.1 ht.2
    cases f with
    | zero => simp [tryPrefix] at h
    | succ f =>
      simp only [tryPrefix, hlit] at h
      exact ih (fun y hy => hl y (List.mem_cons_of_mem _ hy)) f e r h

/-- with enough fuel, an operand that starts with `;`, `/` or `*` is a definite failure -/
theorem infix_fails (x : Char) (xs : Str) (hx : noStart x) (f : Nat) (hf : (xs.length + 2) * K ≤ f) (m : Nat) :
    parseInfix f m (x :: xs) = .fail := by
  have hno : parseInfix f m (x :: xs) ≠ .oof :=
    (q_all (xs.length + 2) (x :: xs) (by simp) f hf).1 m
  have hnok : ∀ e r, parseInfix f m (x :: xs) ≠ .ok e r := by
    intro e r h
    cases f with
    | zero => simp [parseInfix] at h
    | succ f =>
      simp only [parseInfix] at h
      split at h
      · rename_i e1 rest hp
        cases f with
        | zero => simp [parsePrefixAtom] at hp
        | succ f =>
          simp only [parsePrefixAtom] at hp
          exact tryPrefix_not_ok' x xs hx prefixOps
            (fun y hy => ⟨prefix_tokens y hy, prefix_heads' x hx y hy⟩) f e1 rest hp
      · simp at h
      · simp at h
  cases h : parseInfix f m (x :: xs) with
  | ok e r => exact absurd h (hnok e r)
  | fail => rfl
  | oof => exact absurd h hno

/-- prefix operators that do not match fall through to the atoms -/
theorem tryPrefix_through (s : Str) : ∀ (l : List (Str × UnOp × Nat)), (∀ x ∈ l, lit x.1 s = none) →
    ∀ f, tryPrefix (f + l.length + 1) l s = parseAtom f s := by
  intro l
  induction l with
  | nil => intro _ f; simp [tryPrefix]
  | cons x more ih =>
    intro hl f
    obtain ⟨t, u, lv⟩ := x
    have ht : lit t s = none := hl (t, u, lv) (List.mem_cons_self ..)
    have : f + ((t, u, lv) :: more).length + 1 = (f + more.length + 1) + 1 := by simp only [List.length_cons]; omega
    rw [this]
    simp only [tryPrefix, ht]
    exact ih (fun y hy => hl y (List.mem_cons_of_mem _ hy)) f

theorem numText_head (t : Str) (n : Nat) (h : NumText t n) (rest : Str) :
    ∃ y ys, t ++ rest = y :: ys ∧ (isDigit y = true ∨ y = '$') := by
  obtain ⟨⟨y, ys, rfl, hy⟩, _⟩ := h
  exact ⟨y, ys ++ rest, rfl, hy⟩

theorem prefix_none_num (y : Char) (ys : Str) (hy : isDigit y = true ∨ y = '$') : ∀ x ∈ prefixOps, lit x.1 (y :: ys) = none := by
  have key : ∀ x ∈ prefixOps, x.1 ≠ [] ∧ ∀ c, x.1.head? = some c → isDigit c = false ∧ c ≠ '$' := by decide
  intro x hx
  obtain ⟨hne, hh⟩ := key x hx
  apply lit_head_ne _ _ _ hne
  intro hc
  have := hh y hc
  rcases hy with h | h
  · simp [h] at this
  · exact this.2 h

theorem parseAtom_num (t : Str) (n : Nat) (h : NumText t n) (rest : Str) (hr : endsToken rest) (f : Nat) :
    parseAtom (f + 1) (t ++ rest) = .ok (.const (n : Int)) rest := by
  obtain ⟨y, ys, hs, hy⟩ := numText_head t n h rest
  have hec := h.2 rest hr
  rw [hs] at hec ⊢
  have hnid : isIdentStart y = false := by
    rcases hy with h | rfl
    · cases hi : isIdentStart y with
      | false => rfl
      | true =>
        exfalso
        simp only [isIdentStart, isAlpha, Bool.or_eq_true, beq_iff_eq] at hi
        simp only [isDigit, Bool.and_eq_true, decide_eq_true_eq] at h
        rcases hi with (hi | hi) | rfl
        · simp only [Bool.and_eq_true, decide_eq_true_eq] at hi
          have h1 := hi.1; have h2 := h.2
          simp only [Char.le_def, UInt32.le_iff_toNat_le] at h1 h2
          have : 'a'.val.toNat = 97 := by decide
          have : '9'.val.toNat = 57 := by decide
          omega
        · simp only [Bool.and_eq_true, decide_eq_true_eq] at hi
          have h1 := hi.1; have h2 := h.2
          simp only [Char.le_def, UInt32.le_iff_toNat_le] at h1 h2
          have : 'A'.val.toNat = 65 := by decide
          have : '9'.val.toNat = 57 := by decide
          omega
        · revert h; decide
    · decide
  have hid : identText (y :: ys) = none := by simp [identText, hnid]
  have hpar : y ≠ '(' := by
    rcases hy with h | rfl
    · intro hc; subst hc; revert h; decide
    · decide
  simp only [parseAtom, hid, hec]
  split
  · rename_i e r heq
    split at heq
    · rename_i r1 hc; simp only [List.cons.injEq] at hc; exact absurd hc.1 hpar
    · simp at heq
  · rename_i heq
    split at heq
    · rename_i r1 hc; simp only [List.cons.injEq] at hc; exact absurd hc.1 hpar
    · simp at heq
  · rfl

/-- the text after an operand, as the infix loop sees it: no operator matches, or the one that
    does (`/`, the start of a `//` or `/* */` comment) is followed by `/` or `*` -/
def OpEnd (s : Str) : Prop :=
  ∀ x ∈ infixOps, lit x.1 (skipSpace s) = none ∨
    ∃ y ys, lit x.1 (skipSpace s) = some (y :: ys) ∧ noStart y ∧ isSpace y = false

theorem tryInfix_through (m : Nat) (e : Expr) (s0 s : Str) (hs : OpEnd s) :
    ∀ (l : List (Str × BinOp × Nat × Nat)), (∀ x ∈ l, x ∈ infixOps) →
      ∀ f, l.length + 1 + (s.length + 1) * K ≤ f → tryInfix f m l e s0 s = .ok e s0 := by
  intro l
  induction l with
  | nil =>
    intro _ f hf
    obtain ⟨g, rfl⟩ : ∃ g, f = g + 1 := ⟨f - 1, by simp only [List.length_nil] at hf; omega⟩
    simp [tryInfix]
  | cons x more ih =>
    intro hl f hf
    obtain ⟨t, b, lv, rlv⟩ := x
    simp only [List.length_cons] at hf
    obtain ⟨g, rfl⟩ : ∃ g, f = g + 1 := ⟨f - 1, by omega⟩
    have hmore := ih (fun y hy => hl y (List.mem_cons_of_mem _ hy)) g (by omega)
    simp only [tryInfix]
    split
    · exact hmore
    · rcases hs (t, b, lv, rlv) (hl _ (List.mem_cons_self ..)) with hnone | ⟨y, ys, hsome, hy, hsp⟩
      · simp only [hnone]; exact hmore
      · simp only [hsome]
        have hsk : skipSpace (y :: ys) = y :: ys := by simp [skipSpace, hsp]
        have hlen := lit_len _ _ _ hsome
        have hsl := skipSpace_len s
        simp only [List.length_cons] at hlen
        have hmul : (ys.length + 2) * K ≤ (s.length + 1) * K := Nat.mul_le_mul_right K (by omega)
        rw [hsk, infix_fails y ys hy g (by omega) rlv]
        exact hmore

/-- **a number is read as that number**, whatever follows it at the end of an operand -/
theorem expr_num (t : Str) (n : Nat) (h : NumText t n) (rest : Str) (hr : endsToken rest) (ho : OpEnd rest) :
    expr (t ++ rest) = .ok (.const (n : Int)) rest := by
  obtain ⟨y, ys, hs, hy⟩ := numText_head t n h rest
  have hK : K = prefixOps.length + infixOps.length + 8 := rfl
  have htl : 1 ≤ t.length := by obtain ⟨⟨y', ys', rfl, _⟩, _⟩ := h; simp
  have hF : exprFuel (t ++ rest) = (t.length + rest.length + 2) * K := by rw [exprFuel_eq]; simp
  have hbig : (rest.length + 1) * K + 2 * K ≤ exprFuel (t ++ rest) := by
    rw [hF]
    have : (rest.length + 1) * K + 2 * K = (rest.length + 3) * K := by rw [← Nat.add_mul]
    rw [this]
    exact Nat.mul_le_mul_right K (by omega)
  obtain ⟨f, hf⟩ : ∃ f, exprFuel (t ++ rest) = ((f + 1) + prefixOps.length + 1) + 1 + 1 :=
    ⟨exprFuel (t ++ rest) - prefixOps.length - 4, by omega⟩
  unfold expr
  rw [hf]
  simp only [parseInfix, parsePrefixAtom]
  have hpn : ∀ x ∈ prefixOps, lit x.1 (t ++ rest) = none := by rw [hs]; exact prefix_none_num y ys hy
  rw [tryPrefix_through (t ++ rest) prefixOps hpn (f + 1), parseAtom_num t n h rest hr f]
  simp only [parseLoop]
  exact tryInfix_through 0 _ rest rest ho infixOps (fun x hx => hx) _ (by omega)

theorem infix_heads : ∀ x ∈ infixOps, x.1 ≠ [] ∧ x.1.head? ≠ some ',' ∧ x.1.head? ≠ some ';' ∧
    (x.1 = ['/'] ∨ x.1.head? ≠ some '/') := by decide

/-- before a comma no operator matches -/
theorem opEnd_comma (a rest : Str) (ha : blanks a) : OpEnd (a ++ ',' :: rest) := by
  intro x hx
  left
  rw [space_absorbs a _ ha]
  have : skipSpace (',' :: rest) = ',' :: rest := by simp +decide [skipSpace]
  rw [this]
  obtain ⟨hne, hc, _, _⟩ := infix_heads x hx
  exact lit_head_ne _ _ _ hne hc

/-- at the end of the line no operator matches, except `/` where a comment starts -/
theorem opEnd_end (ws2 c : Str) (hws2 : blanks ws2) (hc : lineEnd c) : OpEnd (ws2 ++ c) := by
  intro x hx
  rw [skip_tail ws2 c hws2 hc]
  obtain ⟨hne, _, hsemi, hslash⟩ := infix_heads x hx
  rcases hc with rfl | ⟨hs, hcom⟩
  · left
    cases hx1 : x.1 with
    | nil => exact absurd hx1 hne
    | cons p ps => rfl
  · cases c with
    | nil => rcases hs with h | h <;> simp at h
    | cons y ys =>
      rcases hs with h | h
      · simp at h; subst h
        left; exact lit_head_ne _ _ _ hne hsemi
      · simp at h; subst h
        rcases hslash with h1 | h1
        · right
          rw [h1]
          -- the comment is // or /*
          cases ys with
          | nil => simp [comment] at hcom
          | cons z zs =>
            have hz : z = '/' ∨ z = '*' := by
              by_cases h2 : z = '*'
              · exact Or.inr h2
              · by_cases h3 : z = '/'
                · exact Or.inl h3
                · exfalso
                  unfold comment at hcom
                  split at hcom
                  · rename_i heq; simp at heq
                  · rename_i r heq; simp only [List.cons.injEq] at heq; exact h2 heq.2.1
                  · rename_i heq; simp only [List.cons.injEq] at heq; exact h3 heq.2.1
                  · simp at hcom
            refine ⟨z, zs, by simp [lit], ?_, ?_⟩
            · rcases hz with rfl | rfl
              · exact Or.inr (Or.inl rfl)
              · exact Or.inr (Or.inr (Or.inl rfl))
            · rcases hz with rfl | rfl <;> decide
        · left; exact lit_head_ne _ _ _ hne h1

/-- an operand: a register or a number -/
inductive Item
  | reg (up : Bool) (k : Nat)
  | num (t : Str) (n : Nat)

def Item.good : Item → Prop
  | .reg _ k => k < 32
  | .num t n => NumText t n

def Item.text : Item → Str
  | .reg up k => regText up k
  | .num t _ => t

def Item.val : Item → IOp
  | .reg _ k => .r8 k
  | .num _ n => .e (.const (n : Int))

/-- what may follow an operand -/
def AfterItem (rest : Str) : Prop := afterReg rest ∧ endsToken rest ∧ OpEnd rest

theorem item_reads (it : Item) (hg : it.good) (rest : Str) (hr : AfterItem rest) :
    instructionOps (it.text ++ rest) = .ok it.val rest := by
  cases it with
  | reg up k => exact instructionOps_reg up k hg rest hr.1
  | num t n =>
    obtain ⟨y, ys, hs, hy⟩ := numText_head t n hg rest
    have he := expr_num t n hg rest hr.2.1 hr.2.2
    simp only [Item.text, Item.val]
    have hm : y ≠ '-' := by
      rcases hy with h | rfl
      · intro hc; subst hc; revert h; decide
      · decide
    have hr16 : reg16 (y :: ys) = none := by
      rcases hy with h | rfl
      · unfold reg16
        have : ∀ c : Char, isDigit y = true → (y == c) = true → isDigit c = true := by
          intro c h1 h2; simp only [beq_iff_eq] at h2; subst h2; exact h1
        have n1 : (y == 'x') = false := by cases hh : y == 'x' with | false => rfl | true => exact absurd (this _ h hh) (by decide)
        have n2 : (y == 'X') = false := by cases hh : y == 'X' with | false => rfl | true => exact absurd (this _ h hh) (by decide)
        have n3 : (y == 'y') = false := by cases hh : y == 'y' with | false => rfl | true => exact absurd (this _ h hh) (by decide)
        have n4 : (y == 'Y') = false := by cases hh : y == 'Y' with | false => rfl | true => exact absurd (this _ h hh) (by decide)
        have n5 : (y == 'z') = false := by cases hh : y == 'z' with | false => rfl | true => exact absurd (this _ h hh) (by decide)
        have n6 : (y == 'Z') = false := by cases hh : y == 'Z' with | false => rfl | true => exact absurd (this _ h hh) (by decide)
        simp [n1, n2, n3, n4, n5, n6]
      · simp +decide [reg16]
    have hr8 : reg8 (y :: ys) = none := by
      rcases hy with h | rfl
      · unfold reg8
        have n1 : (y == 'r') = false := by
          cases hh : y == 'r' with
          | false => rfl
          | true => simp only [beq_iff_eq] at hh; subst hh; revert h; decide
        have n2 : (y == 'R') = false := by
          cases hh : y == 'R' with
          | false => rfl
          | true => simp only [beq_iff_eq] at hh; subst hh; revert h; decide
        simp [n1, n2]
      · simp +decide [reg8]
    have hi : indexOps (y :: ys) = .fail := by
      unfold indexOps
      simp only [hr16]
      split
      · rename_i v r heq
        split at heq
        · rename_i r0 hc2; simp only [List.cons.injEq] at hc2; exact absurd hc2.1 hm
        · simp at heq
      · rfl
    rw [hs] at he ⊢
    unfold instructionOps
    simp only [hi, hr8, he]

/-- the operands after the first: blanks, a comma, blanks, an operand — any number of times -/
def itemsTail : List (Str × Str × Item) → Str
  | [] => []
  | (a, b, it) :: more => a ++ ',' :: (b ++ (it.text ++ itemsTail more))

def itemsOk (more : List (Str × Str × Item)) : Prop :=
  ∀ x ∈ more, blanks x.1 ∧ blanks x.2.1 ∧ x.2.2.good

theorem items_after (more : List (Str × Str × Item)) (hm : itemsOk more) (ws2 c : Str) (hws2 : blanks ws2) (hc : lineEnd c) :
    AfterItem (itemsTail more ++ (ws2 ++ c)) := by
  cases more with
  | nil =>
    simp only [itemsTail, List.nil_append]
    refine ⟨?_, ?_, opEnd_end ws2 c hws2 hc⟩
    · intro y hy
      have := (tail_head ws2 c hws2 hc y hy).1
      cases hd : isDigit y with
      | false => rfl
      | true => simp [isIdentChar, hd] at this
    · intro y hy; exact (tail_head ws2 c hws2 hc y hy).1
  | cons x xs =>
    obtain ⟨a, b, it⟩ := x
    have ha : blanks a := (hm _ (List.mem_cons_self ..)).1
    have hform : itemsTail ((a, b, it) :: xs) ++ (ws2 ++ c) = a ++ ',' :: (b ++ (it.text ++ itemsTail xs) ++ (ws2 ++ c)) := by
      simp [itemsTail]
    rw [hform]
    have hhead : ∀ y, (a ++ ',' :: (b ++ (it.text ++ itemsTail xs) ++ (ws2 ++ c))).head? = some y → isIdentChar y = false := by
      intro y hy
      cases a with
      | nil => simp at hy; subst hy; decide
      | cons w ws =>
        simp at hy; subst hy
        have hw : isSpace w = true := ha w (by simp)
        simp only [isSpace, Bool.or_eq_true, beq_iff_eq] at hw
        rcases hw with rfl | rfl <;> decide
    refine ⟨?_, hhead, opEnd_comma a _ ha⟩
    intro y hy
    have := hhead y hy
    cases hd : isDigit y with
    | false => rfl
    | true => simp [isIdentChar, hd] at this

theorem items_len (more : List (Str × Str × Item)) : more.length ≤ (itemsTail more).length := by
  induction more with
  | nil => simp
  | cons x xs ih =>
    obtain ⟨a, b, it⟩ := x
    simp only [itemsTail, List.length_cons, List.length_append]
    omega

theorem skip_item (it : Item) (hg : it.good) (rest : Str) : skipSpace (it.text ++ rest) = it.text ++ rest := by
  cases it with
  | reg up k => exact skip_reg up k rest
  | num t n =>
    obtain ⟨y, ys, hs, hy⟩ := numText_head t n hg rest
    simp only [Item.text]
    rw [hs]
    have : isSpace y = false := by
      rcases hy with h | rfl
      · cases hsp : isSpace y with
        | false => rfl
        | true =>
          simp only [isSpace, Bool.or_eq_true, beq_iff_eq] at hsp
          rcases hsp with rfl | rfl <;> (revert h; decide)
      · decide
    simp [skipSpace, this]

theorem sepTail_items : ∀ (more : List (Str × Str × Item)), itemsOk more → ∀ (ws2 c : Str), blanks ws2 → lineEnd c →
    ∀ (f : Nat) (acc : List IOp), more.length < f →
      sepTail instructionOps f acc (itemsTail more ++ (ws2 ++ c)) =
        .ok (acc.reverse ++ more.map (fun x => x.2.2.val)) (ws2 ++ c) := by
  intro more
  induction more with
  | nil =>
    intro _ ws2 c hws2 hc f acc hf
    obtain ⟨g, rfl⟩ : ∃ g, f = g + 1 := ⟨f - 1, by omega⟩
    simp only [itemsTail, List.nil_append, sepTail, delimiter_end ws2 c hws2 hc, List.map_nil, List.append_nil]
  | cons x xs ih =>
    intro hm ws2 c hws2 hc f acc hf
    obtain ⟨a, b, it⟩ := x
    obtain ⟨g, rfl⟩ : ∃ g, f = g + 1 := ⟨f - 1, by omega⟩
    have hx := hm _ (List.mem_cons_self ..)
    have hxs : itemsOk xs := fun y hy => hm y (List.mem_cons_of_mem _ hy)
    have hdel : delimiter (itemsTail ((a, b, it) :: xs) ++ (ws2 ++ c)) = some (it.text ++ (itemsTail xs ++ (ws2 ++ c))) := by
      unfold delimiter
      simp only [itemsTail, List.append_assoc, List.cons_append]
      rw [space_absorbs a _ hx.1]
      simp only [skipSpace]
      have : isSpace ',' = false := by decide
      simp only [this, Bool.false_eq_true, if_false]
      rw [space_absorbs b _ hx.2.1, skip_item it hx.2.2]
    have hop := item_reads it hx.2.2 (itemsTail xs ++ (ws2 ++ c)) (items_after xs hxs ws2 c hws2 hc)
    simp only [sepTail, hdel, hop]
    rw [ih hxs ws2 c hws2 hc g (it.val :: acc) (by simp only [List.length_cons] at hf; omega)]
    simp

theorem opList_items (it : Item) (hg : it.good) (more : List (Str × Str × Item)) (hm : itemsOk more)
    (ws2 c : Str) (hws2 : blanks ws2) (hc : lineEnd c) :
    opList (it.text ++ (itemsTail more ++ (ws2 ++ c))) = .ok (it.val :: more.map (fun x => x.2.2.val)) (ws2 ++ c) := by
  have hop := item_reads it hg (itemsTail more ++ (ws2 ++ c)) (items_after more hm ws2 c hws2 hc)
  unfold opList sepList
  simp only [hop]
  rw [sepTail_items more hm ws2 c hws2 hc _ [it.val] (by
    have := items_len more
    simp only [List.length_append]
    omega)]
  simp

/-- **An instruction whose operands are registers and numbers** — any mnemonic or macro name,
    indented or not; registers written `r`/`R`, numbers in any spelling `e_const` reads (decimal,
    `0x`, `$`, `0b`, octal); any blanks before and after every comma; any blanks and any comment
    (or nothing) at the end — is that operation with exactly those operands -/
theorem operand_instruction_line (ws1 n wsA : Str) (it : Item) (more : List (Str × Str × Item)) (ws2 c : Str)
    (hws1 : blanks ws1) (hn : isName n) (hwsA : blanks wsA) (hA : wsA ≠ []) (hg : it.good) (hm : itemsOk more)
    (hws2 : blanks ws2) (hc : lineEnd c) :
    line (ws1 ++ (n ++ (wsA ++ (it.text ++ (itemsTail more ++ (ws2 ++ c)))))) =
      .ok (.codeLine none (opOfWord (lower n)) (it.val :: more.map (fun x => x.2.2.val))) := by
  obtain ⟨w, ws, rfl⟩ : ∃ w ws, wsA = w :: ws := by
    cases wsA with
    | nil => exact absurd rfl hA
    | cons w ws => exact ⟨w, ws, rfl⟩
  have hw : isSpace w = true := hwsA w (by simp)
  have hwi : isIdentChar w = false ∧ w ≠ ':' := by
    simp only [isSpace, Bool.or_eq_true, beq_iff_eq] at hw
    rcases hw with rfl | rfl <;> decide
  have hol := opList_items it hg more hm ws2 c hws2 hc
  have hsr := skip_item it hg (itemsTail more ++ (ws2 ++ c))
  generalize hR : it.text ++ (itemsTail more ++ (ws2 ++ c)) = R at hol hsr ⊢
  have hth : ∀ y, ((w :: ws) ++ R).head? = some y → isIdentChar y = false := by
    intro y hy; simp at hy; subst hy; exact hwi.1
  have hid : identText (n ++ ((w :: ws) ++ R)) = some (n, (w :: ws) ++ R) := identText_name n _ hn hth
  have hlab : label (ws1 ++ (n ++ ((w :: ws) ++ R))) = none := by
    cases ws1 with
    | nil =>
      simp only [List.nil_append, label, hid]
      split
      · rename_i heq; simp only [Option.some.injEq, Prod.mk.injEq, List.cons_append, List.cons.injEq] at heq; exact absurd heq.2.1 hwi.2
      · rfl
    | cons v vs =>
      have hv : isSpace v = true := hws1 v (by simp)
      have : isIdentStart v = false := by
        simp only [isSpace, Bool.or_eq_true, beq_iff_eq] at hv
        rcases hv with rfl | rfl <;> decide
      simp [label, identText, this]
  have hsk : skipSpace (ws1 ++ (n ++ ((w :: ws) ++ R))) = n ++ ((w :: ws) ++ R) := by
    rw [space_absorbs ws1 _ hws1, skip_name n _ hn]
  have hop := operation_name n ((w :: ws) ++ R) hn hth
  have hsA : skipSpace ((w :: ws) ++ R) = R := by
    rw [space_absorbs (w :: ws) _ hwsA]; exact hsr
  have hst := skip_tail ws2 c hws2 hc
  unfold line
  simp only [optLabel, hlab]
  simp only [hsk]
  rw [directive_name n _ hn]
  simp only [hop]
  simp only [hsA]
  simp only [hol]
  simp only [hst]
  rcases hc with rfl | ⟨_, hcom⟩
  · simp [comment]
  · simp only [hcom]; simp

/-! the spellings of `radix_irrelevant` are number texts -/

theorem numText_dec (cs : Numeral) (hd : ∀ p ∈ cs, p.2 < 10) (hfit : value 10 cs < 2 ^ 63)
    (hlead : (∃ u, cs = [(u, 0)]) ∨ ∃ p ps, cs = p :: ps ∧ p.2 ≠ 0) : NumText (text cs) (value 10 cs) := by
  refine ⟨?_, fun rest hr => dec_reads cs rest hd hr hfit hlead⟩
  have hne : ∃ p ps, cs = p :: ps := by
    rcases hlead with ⟨u, rfl⟩ | ⟨p, ps, rfl, _⟩
    · exact ⟨_, _, rfl⟩
    · exact ⟨_, _, rfl⟩
  obtain ⟨p, ps, rfl⟩ := hne
  exact ⟨digitChar p.1 p.2, text ps, rfl, Or.inl (isDec_digitChar p.1 p.2 (hd p (by simp)))⟩

theorem numText_hex (cs : Numeral) (hne : cs ≠ []) (hd : ∀ p ∈ cs, p.2 < 16) (hfit : value 16 cs < 2 ^ 63) :
    NumText ('0' :: 'x' :: text cs) (value 16 cs) :=
  ⟨⟨'0', 'x' :: text cs, rfl, Or.inl (by decide)⟩, fun rest hr => by
    have := hex_reads cs rest hne hd hr hfit
    simpa using this⟩

theorem numText_dollar (cs : Numeral) (hne : cs ≠ []) (hd : ∀ p ∈ cs, p.2 < 16) (hfit : value 16 cs < 2 ^ 63) :
    NumText ('$' :: text cs) (value 16 cs) :=
  ⟨⟨'$', text cs, rfl, Or.inr rfl⟩, fun rest hr => by
    have := dollar_reads cs rest hne hd hr hfit
    simpa using this⟩

theorem numText_bin (cs : Numeral) (hne : cs ≠ []) (hd : ∀ p ∈ cs, p.2 < 2) (hfit : value 2 cs < 2 ^ 63) :
    NumText ('0' :: 'b' :: text cs) (value 2 cs) :=
  ⟨⟨'0', 'b' :: text cs, rfl, Or.inl (by decide)⟩, fun rest hr => by
    have := bin_reads cs rest hne hd hr hfit
    simpa using this⟩

theorem numText_oct (cs : Numeral) (hne : cs ≠ []) (hd : ∀ p ∈ cs, p.2 < 8) (hfit : value 8 cs < 2 ^ 63) :
    NumText ('0' :: text cs) (value 8 cs) :=
  ⟨⟨'0', text cs, rfl, Or.inl (by decide)⟩, fun rest hr => by
    have := oct_reads cs rest hne hd hr hfit
    simpa using this⟩

/-! non-vacuity: ` LDI r16 , 0x1F // c` -/
example : line ([' '] ++ (['L', 'D', 'I'] ++ ([' '] ++ ((Item.reg false 16).text ++
      (itemsTail [([' '], [' '], Item.num ('0' :: 'x' :: text [(false, 1), (true, 15)]) (value 16 [(false, 1), (true, 15)]))] ++ ([' '] ++ ['/', '/', 'c'])))))) =
    .ok (.codeLine none (opOfWord (lower ['L', 'D', 'I']))
      [IOp.r8 16, IOp.e (.const ((value 16 [(false, 1), (true, 15)] : Nat) : Int))]) :=
  operand_instruction_line _ _ _ _ _ _ _ (by unfold blanks; decide) ⟨'L', ['D', 'I'], rfl, by decide, by decide⟩
    (by unfold blanks; decide) (by decide) (by unfold Item.good; decide)
    (by
      intro x hx
      simp only [List.mem_singleton] at hx
      subst hx
      exact ⟨by unfold blanks; decide, by unfold blanks; decide, numText_hex _ (by decide) (by decide) (by decide)⟩)
    (by unfold blanks; decide) (Or.inr ⟨Or.inr rfl, rfl⟩)
example : value 16 [(false, 1), (true, 15)] = 31 ∧ text [(false, 1), (true, 15)] = ['1', 'F'] := by decide

/-! ### whole lines: a directive with a list of numbers -/

/-- the list tail for any element parser that reads every good item -/
theorem sepTail_gen {α : Type} (p : Str → PO α) (v : Item → α) (good : Item → Prop)
    (hread : ∀ it, good it → it.good → ∀ rest, AfterItem rest → p (it.text ++ rest) = .ok (v it) rest) :
    ∀ (more : List (Str × Str × Item)), itemsOk more → (∀ x ∈ more, good x.2.2) → ∀ (ws2 c : Str), blanks ws2 → lineEnd c →
    ∀ (f : Nat) (acc : List α), more.length < f →
      sepTail p f acc (itemsTail more ++ (ws2 ++ c)) = .ok (acc.reverse ++ more.map (fun x => v x.2.2)) (ws2 ++ c) := by
  intro more
  induction more with
  | nil =>
    intro _ _ ws2 c hws2 hc f acc hf
    obtain ⟨g, rfl⟩ : ∃ g, f = g + 1 := ⟨f - 1, by omega⟩
    simp only [itemsTail, List.nil_append, sepTail, delimiter_end ws2 c hws2 hc, List.map_nil, List.append_nil]
  | cons x xs ih =>
    intro hm hgd ws2 c hws2 hc f acc hf
    obtain ⟨a, b, it⟩ := x
    obtain ⟨g, rfl⟩ : ∃ g, f = g + 1 := ⟨f - 1, by omega⟩
    have hx := hm _ (List.mem_cons_self ..)
    have hgx := hgd _ (List.mem_cons_self ..)
    have hxs : itemsOk xs := fun y hy => hm y (List.mem_cons_of_mem _ hy)
    have hgxs : ∀ x ∈ xs, good x.2.2 := fun y hy => hgd y (List.mem_cons_of_mem _ hy)
    have hdel : delimiter (itemsTail ((a, b, it) :: xs) ++ (ws2 ++ c)) = some (it.text ++ (itemsTail xs ++ (ws2 ++ c))) := by
      unfold delimiter
      simp only [itemsTail, List.append_assoc, List.cons_append]
      rw [space_absorbs a _ hx.1]
      simp only [skipSpace]
      have : isSpace ',' = false := by decide
      simp only [this, Bool.false_eq_true, if_false]
      rw [space_absorbs b _ hx.2.1, skip_item it hx.2.2]
    have hop := hread it hgx hx.2.2 (itemsTail xs ++ (ws2 ++ c)) (items_after xs hxs ws2 c hws2 hc)
    simp only [sepTail, hdel, hop]
    rw [ih hxs hgxs ws2 c hws2 hc g (v it :: acc) (by simp only [List.length_cons] at hf; omega)]
    simp

def Item.isNum : Item → Prop
  | .num _ _ => True
  | .reg _ _ => False

def Item.operand : Item → Operand
  | .num _ n => .e (.const (n : Int))
  | .reg _ k => .e (.const (k : Int))

theorem directiveOp_num (it : Item) (hnum : it.isNum) (hg : it.good) (rest : Str) (hr : AfterItem rest) :
    directiveOp (it.text ++ rest) = .ok it.operand rest := by
  cases it with
  | reg up k => exact absurd hnum (by simp [Item.isNum])
  | num t n =>
    have he := expr_num t n hg rest hr.2.1 hr.2.2
    simp only [Item.text, Item.operand]
    unfold directiveOp
    simp only [he]

theorem expr_fails' (x : Char) (xs : Str) (hx : noStart x) : expr (x :: xs) = .fail := by
  unfold expr
  rw [exprFuel_eq]
  exact infix_fails x xs hx _ (Nat.mul_le_mul_right K (by simp)) 0

/-- nothing a directive operand could be starts with `,`, `;`, `/`, or with nothing -/
theorem directiveOp_fails (s : Str) (hs : s = [] ∨ ∃ x xs, s = x :: xs ∧ noStart x) : directiveOp s = .fail := by
  rcases hs with rfl | ⟨x, xs, rfl, hx⟩
  · unfold directiveOp; simp [expr_fails_nil, Peg.string]
  · have hq : x ≠ '"' := by rcases hx with rfl | rfl | rfl | rfl | rfl | rfl | rfl | rfl | rfl | rfl <;> decide
    have hstr : Peg.string (x :: xs) = none := by
      unfold Peg.string
      split
      · rename_i cs heq; simp only [List.cons.injEq] at heq; exact absurd heq.1 hq
      · rfl
    unfold directiveOp
    simp only [expr_fails' x xs hx, hstr]

/-- behind an operand, after the blanks: nothing, or a comma, or the start of a comment -/
theorem after_skip (more : List (Str × Str × Item)) (hm : itemsOk more) (ws2 c : Str) (hws2 : blanks ws2) (hc : lineEnd c) :
    skipSpace (itemsTail more ++ (ws2 ++ c)) = [] ∨
      ∃ x xs, skipSpace (itemsTail more ++ (ws2 ++ c)) = x :: xs ∧ noStart x := by
  cases more with
  | nil =>
    simp only [itemsTail, List.nil_append]
    rw [skip_tail ws2 c hws2 hc]
    rcases hc with rfl | ⟨hs, _⟩
    · exact Or.inl rfl
    · cases c with
      | nil => exact Or.inl rfl
      | cons y ys =>
        right
        refine ⟨y, ys, rfl, ?_⟩
        rcases hs with h | h <;> (simp at h; subst h)
        · exact Or.inl rfl
        · exact Or.inr (Or.inl rfl)
  | cons x xs =>
    obtain ⟨a, b, it⟩ := x
    have ha : blanks a := (hm _ (List.mem_cons_self ..)).1
    right
    refine ⟨',', b ++ (it.text ++ itemsTail xs) ++ (ws2 ++ c), ?_, Or.inr (Or.inr (Or.inr (Or.inl rfl)))⟩
    have hform : itemsTail ((a, b, it) :: xs) ++ (ws2 ++ c) = a ++ ',' :: (b ++ (it.text ++ itemsTail xs) ++ (ws2 ++ c)) := by
      simp [itemsTail]
    rw [hform, space_absorbs a _ ha]
    simp +decide [skipSpace]

theorem spacedOps_fail_at (Z : Str) (hZ : Z = [] ∨ ∃ x xs, Z = x :: xs ∧ noStart x) : ∀ k, spacedOps (k + 1) Z = .fail := by
  intro k
  have hf := directiveOp_fails Z hZ
  cases k with
  | zero => simp only [spacedOps, hf]
  | succ k => simp only [spacedOps, hf]

/-- the "pragma hack" alternatives (2..6 operands separated by blanks only) do not apply to a comma list -/
theorem spacedOps_fail (it : Item) (hnum : it.isNum) (hg : it.good) (more : List (Str × Str × Item)) (hm : itemsOk more)
    (ws2 c : Str) (hws2 : blanks ws2) (hc : lineEnd c) :
    ∀ k, spacedOps (k + 2) (it.text ++ (itemsTail more ++ (ws2 ++ c))) = .fail := by
  intro k
  have hop := directiveOp_num it hnum hg _ (items_after more hm ws2 c hws2 hc)
  have hZ := after_skip more hm ws2 c hws2 hc
  simp only [spacedOps, hop]
  cases hrest : itemsTail more ++ (ws2 ++ c) with
  | nil => simp [neSpace]
  | cons y ys =>
    rw [hrest] at hZ
    cases hsp : isSpace y with
    | true =>
      have hsk : skipSpace (y :: ys) = skipSpace ys := by simp [skipSpace, hsp]
      rw [hsk] at hZ
      simp only [neSpace, hsp, if_true]
      rw [spacedOps_fail_at (skipSpace ys) hZ k]
    | false => simp [neSpace, hsp]

theorem directiveOps_numbers (it : Item) (hnum : it.isNum) (hg : it.good) (more : List (Str × Str × Item)) (hm : itemsOk more)
    (hnums : ∀ x ∈ more, x.2.2.isNum) (ws2 c : Str) (hws2 : blanks ws2) (hc : lineEnd c) :
    directiveOps (it.text ++ (itemsTail more ++ (ws2 ++ c))) =
      .ok (.opList (it.operand :: more.map (fun x => x.2.2.operand))) (ws2 ++ c) := by
  have hsp := spacedOps_fail it hnum hg more hm ws2 c hws2 hc
  have hop := directiveOp_num it hnum hg _ (items_after more hm ws2 c hws2 hc)
  -- the list
  have hlist : sepList directiveOp (it.text ++ (itemsTail more ++ (ws2 ++ c))) =
      .ok (it.operand :: more.map (fun x => x.2.2.operand)) (ws2 ++ c) := by
    unfold sepList
    simp only [hop]
    rw [sepTail_gen directiveOp Item.operand Item.isNum (fun it h1 h2 rest hr => directiveOp_num it h1 h2 rest hr)
      more hm hnums ws2 c hws2 hc _ [it.operand] (by
        have := items_len more
        simp only [List.length_append]
        omega)]
    simp
  -- no assignment: the text does not start with an identifier
  have hid : identText (it.text ++ (itemsTail more ++ (ws2 ++ c))) = none := by
    cases it with
    | reg up k => exact absurd hnum (by simp [Item.isNum])
    | num t n =>
      obtain ⟨y, ys, hs, hy⟩ := numText_head t n hg (itemsTail more ++ (ws2 ++ c))
      simp only [Item.text]
      rw [hs]
      have hnid : isIdentStart y = false := by
        rcases hy with h | rfl
        · cases hi : isIdentStart y with
          | false => rfl
          | true =>
            exfalso
            have := cls_sub
            simp only [isIdentStart, isAlpha, Bool.or_eq_true, beq_iff_eq] at hi
            simp only [isDigit, Bool.and_eq_true, decide_eq_true_eq] at h
            rcases hi with (hi | hi) | rfl
            · simp only [Bool.and_eq_true, decide_eq_true_eq] at hi
              have h1 := hi.1; have h2 := h.2
              simp only [Char.le_def, UInt32.le_iff_toNat_le] at h1 h2
              have : 'a'.val.toNat = 97 := by decide
              have : '9'.val.toNat = 57 := by decide
              omega
            · simp only [Bool.and_eq_true, decide_eq_true_eq] at hi
              have h1 := hi.1; have h2 := h.2
              simp only [Char.le_def, UInt32.le_iff_toNat_le] at h1 h2
              have : 'A'.val.toNat = 65 := by decide
              have : '9'.val.toNat = 57 := by decide
              omega
            · revert h; decide
        · decide
      simp [identText, hnid]
  unfold directiveOps
  simp only [hid]
  simp only [directiveOps.tryN, hsp 4, hsp 3, hsp 2, hsp 1, hsp 0, hlist]

/-- **A directive followed by a list of numbers** (`.db 1, 0x10 ,$ff ; table` and the like) — indented
    or not, any directive name, numbers in any spelling `e_const` reads, any blanks around every
    comma, any blanks and any comment (or nothing) at the end — is that directive with exactly
    those numbers as its operand list -/
theorem number_directive_line (ws1 name wsA : Str) (it : Item) (more : List (Str × Str × Item)) (ws2 c : Str)
    (hws1 : blanks ws1) (hname : name ≠ []) (hlow : ∀ ch ∈ name, isLowerAlpha ch = true)
    (hwsA : blanks wsA) (hA : wsA ≠ []) (hnum : it.isNum) (hg : it.good) (hm : itemsOk more)
    (hnums : ∀ x ∈ more, x.2.2.isNum) (hws2 : blanks ws2) (hc : lineEnd c) :
    line (ws1 ++ ('.' :: (name ++ (wsA ++ (it.text ++ (itemsTail more ++ (ws2 ++ c))))))) =
      .ok (.directiveLine none (directiveOfName name) (.opList (it.operand :: more.map (fun x => x.2.2.operand)))) := by
  obtain ⟨w, ws, rfl⟩ : ∃ w ws, wsA = w :: ws := by
    cases wsA with
    | nil => exact absurd rfl hA
    | cons w ws => exact ⟨w, ws, rfl⟩
  have hw : isSpace w = true := hwsA w (by simp)
  have hwl : isLowerAlpha w = false := by
    simp only [isSpace, Bool.or_eq_true, beq_iff_eq] at hw
    rcases hw with rfl | rfl <;> decide
  have hdo := directiveOps_numbers it hnum hg more hm hnums ws2 c hws2 hc
  have hsr := skip_item it hg (itemsTail more ++ (ws2 ++ c))
  generalize hR : it.text ++ (itemsTail more ++ (ws2 ++ c)) = R at hdo hsr ⊢
  have hlab : label (ws1 ++ ('.' :: (name ++ ((w :: ws) ++ R)))) = none := by
    cases ws1 with
    | nil => simp +decide [label, identText]
    | cons v vs =>
      have hv : isSpace v = true := hws1 v (by simp)
      have : isIdentStart v = false := by
        simp only [isSpace, Bool.or_eq_true, beq_iff_eq] at hv
        rcases hv with rfl | rfl <;> decide
      simp [label, identText, this]
  have hsk : skipSpace (ws1 ++ ('.' :: (name ++ ((w :: ws) ++ R)))) = '.' :: (name ++ ((w :: ws) ++ R)) := by
    rw [space_absorbs ws1 _ hws1]; simp +decide [skipSpace]
  have htw : takeWhileP isLowerAlpha (name ++ ((w :: ws) ++ R)) = (name, (w :: ws) ++ R) :=
    takeWhile_all isLowerAlpha name _ hlow (by intro y hy; simp at hy; subst hy; exact hwl)
  have hdir : directive ('.' :: (name ++ ((w :: ws) ++ R))) = some (directiveOfName name, (w :: ws) ++ R) := by
    have hne : name.isEmpty = false := by cases name with | nil => exact absurd rfl hname | cons _ _ => rfl
    simp only [directive, htw, hne]
    simp +decide
  have hsA : skipSpace ((w :: ws) ++ R) = R := by
    rw [space_absorbs (w :: ws) _ hwsA]; exact hsr
  have hst := skip_tail ws2 c hws2 hc
  unfold line
  simp only [optLabel, hlab]
  simp only [hsk]
  simp only [hdir]
  simp only [hsA]
  simp only [hdo]
  simp only [hst]
  rcases hc with rfl | ⟨_, hcom⟩
  · simp [comment]
  · simp only [hcom]; simp

/-! non-vacuity: `.db 10 ,0x1F ; t` -/
example : line ([] ++ ('.' :: (['d', 'b'] ++ ([' '] ++ ((Item.num (text [(false, 1), (false, 0)]) (value 10 [(false, 1), (false, 0)])).text ++
      (itemsTail [([' '], [], Item.num ('0' :: 'x' :: text [(false, 1), (true, 15)]) (value 16 [(false, 1), (true, 15)]))] ++ ([' '] ++ [';', ' ', 't']))))))) =
    .ok (.directiveLine none (directiveOfName ['d', 'b'])
      (.opList [Operand.e (.const ((value 10 [(false, 1), (false, 0)] : Nat) : Int)), Operand.e (.const ((value 16 [(false, 1), (true, 15)] : Nat) : Int))])) :=
  number_directive_line _ _ _ _ _ _ _ (by unfold blanks; decide) (by decide) (by decide)
    (by unfold blanks; decide) (by decide) trivial
    (numText_dec _ (by decide) (by decide) (Or.inr ⟨_, _, rfl, by decide⟩))
    (by
      intro x hx
      simp only [List.mem_singleton] at hx
      subst hx
      exact ⟨by unfold blanks; decide, by unfold blanks; decide, numText_hex _ (by decide) (by decide) (by decide)⟩)
    (by intro x hx; simp only [List.mem_singleton] at hx; subst hx; trivial)
    (by unfold blanks; decide) (Or.inr ⟨Or.inl rfl, rfl⟩)
example : directiveOfName ['d', 'b'] = .db ∧ value 10 [(false, 1), (false, 0)] = 10 := by decide

/-! ### the decimal text Rust's `Display` (and `Nat.repr`) prints is a number text -/

theorem toDigitsCore_digitsRev : ∀ (f n : Nat) (ds : List Char),
    Nat.toDigitsCore 10 f n ds = ((digitsRev 10 f n).reverse.map Nat.digitChar) ++ ds := by
  intro f
  induction f with
  | zero => intro n ds; simp [Nat.toDigitsCore, digitsRev]
  | succ f ih =>
    intro n ds
    simp only [Nat.toDigitsCore, digitsRev]
    by_cases h : n < 10
    · have h0 : n / 10 = 0 := Nat.div_eq_of_lt h
      have hm : n % 10 = n := Nat.mod_eq_of_lt h
      simp [h, h0, hm]
    · have h0 : n / 10 ≠ 0 := by omega
      simp only [h, if_false, h0]
      rw [ih]
      simp

theorem natToDec_eq (n : Nat) : natToDec n = (digitsRev 10 (n + 1) n).reverse.map Nat.digitChar := by
  simp [natToDec, Nat.repr, Nat.toDigits, toDigitsCore_digitsRev]

theorem digitChar_dec : ∀ d, d < 10 → Nat.digitChar d = digitChar false d := by decide

/-- **every number below 2^63, as `Display` prints it, is read back as that number** -/
theorem numText_natToDec (n : Nat) (hn : n < 2 ^ 63) : NumText (natToDec n) n := by
  let cs : Numeral := (digitsRev 10 (n + 1) n).reverse.map fun d => (false, d)
  have hmap : cs.map (·.2) = (digitsRev 10 (n + 1) n).reverse := by
    simp [cs, List.map_map, Function.comp_def]
  have hd : ∀ p ∈ cs, p.2 < 10 := by
    intro p hp
    simp only [cs, List.mem_map, List.mem_reverse] at hp
    obtain ⟨d, hd, rfl⟩ := hp
    exact digitsRev_lt 10 (by omega) _ _ d hd
  have hval : value 10 cs = n := value_digits 10 (by omega) n cs hmap
  have htext : text cs = natToDec n := by
    rw [natToDec_eq]
    simp only [text, cs, List.map_map, Function.comp_def]
    apply List.map_congr_left
    intro d hd
    simp only [List.mem_reverse] at hd
    exact (digitChar_dec d (digitsRev_lt 10 (by omega) _ _ d hd)).symm
  have hlead : (∃ u, cs = [(u, 0)]) ∨ ∃ p ps, cs = p :: ps ∧ p.2 ≠ 0 := by
    by_cases h0 : n = 0
    · left; subst h0; exact ⟨false, by decide⟩
    · right
      obtain ⟨d, hl, hdne⟩ := digitsRev_last 10 (by omega) (n + 1) n (by omega) (by omega)
      have hne : digitsRev 10 (n + 1) n ≠ [] := digitsRev_ne_nil 10 n n
      cases hrev : (digitsRev 10 (n + 1) n).reverse with
      | nil => simp at hrev; exact absurd hrev hne
      | cons q qs =>
        have hq : q = d := by
          have h1 : (digitsRev 10 (n + 1) n).getLast? = some q := by
            rw [← List.head?_reverse, hrev]; rfl
          rw [hl] at h1; exact (Option.some.inj h1).symm
        refine ⟨(false, q), qs.map (fun d => (false, d)), by show List.map _ (digitsRev 10 (n + 1) n).reverse = _; rw [hrev]; rfl, ?_⟩
        simp only; rw [hq]; exact hdne
  have := numText_dec cs hd (by rw [hval]; exact hn) hlead
  rw [htext, hval] at this
  exact this

theorem numText_intToDec (n : Nat) (hn : n < 2 ^ 63) : NumText (intToDec (n : Int)) n := by
  have : intToDec (n : Int) = natToDec n := by
    simp [intToDec]
  rw [this]; exact numText_natToDec n hn

end Numbers

/-! non-vacuity: 26 in the five spellings, followed by a comma -/
example : eConst "26,".toList = some (26, [',']) ∧ eConst "0x1A,".toList = some (26, [',']) ∧
    eConst "$1a,".toList = some (26, [',']) ∧ eConst "0b11010,".toList = some (26, [',']) ∧
    eConst "032,".toList = some (26, [',']) := by decide

end Avra.Props.C14
