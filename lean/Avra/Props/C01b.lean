/-
  C01 and C04 inside pass 2: an instruction line the device admits and the ISA can encode puts
  exactly the ISA words of that instruction, low byte first, behind everything emitted before and
  moves the address on by their number; one the ISA cannot encode ends the build naming the line.
-/
import Avra.Props.C04
import Avra.Props.C13b
namespace Avra.Props.C01b
open Avra Avra.Model Avra.Isa Avra.Lemmas Avra.Props.Enc Avra.Props.C01 Avra.Props.C04 Avra.Props.C03b Avra.Props.C13b

theorem bytes_words (ws : List Nat) : (Isa.bytes ws).length / 2 = ws.length := by
  rw [bytes_le]; omega

/-- C01 inside pass 2 -/
theorem instruction_item (t : SegT) (ln : Nat) (op : Op) (args : List IOp) (rest : List (Nat × Item))
    (cur : Nat) (acc : List Nat) (ctx : Ctx) (r : List AArg) (i : Instr)
    (hstd : isStd op) (hc : ctxRegsOk (atPc ctx cur)) (hargs : iopsOk args)
    (hgate : Spec.allowed ctx.device.opts op args = true)
    (hres : resolve (atPc ctx cur) (accessors op) args = some r)
    (hleg : surface ctx.device.isAvr8l op r cur = some i) :
    pass2Items t ((ln, .instruction op args) :: rest) cur acc ctx =
      pass2Items t rest (cur + (encode i).length) (acc ++ Isa.bytes (encode i)) (atPc ctx cur) := by
  rw [allowed_item t ln op args rest cur acc ctx hgate,
      process_complete (atPc ctx cur) op args cur r i hstd hc hargs hres hleg]
  simp only [bytes_words]

/-- C04 inside pass 2: operands the ISA cannot encode for the mnemonic end the build with an error
    that names the line — nothing is emitted for it -/
theorem unencodable_item (t : SegT) (ln : Nat) (op : Op) (args : List IOp) (rest : List (Nat × Item))
    (cur : Nat) (acc : List Nat) (ctx : Ctx) (r : List AArg)
    (hstd : isStd op) (hc : ctxRegsOk (atPc ctx cur)) (hargs : iopsOk args)
    (hgate : Spec.allowed ctx.device.opts op args = true)
    (hres : resolve (atPc ctx cur) (accessors op) args = some r)
    (hill : surface ctx.device.isAvr8l op r cur = none) :
    pass2Items t ((ln, .instruction op args) :: rest) cur acc ctx = .error ⟨some ln, "instruction"⟩ := by
  rw [allowed_item t ln op args rest cur acc ctx hgate,
      process_rejects (atPc ctx cur) op args cur r hstd hc hargs hres hill]

/-! non-vacuity -/
example : surface false .ldi [.reg 16, .val 255] 7 = some (.imm .ldi 16 255) := by decide
example : surface false .ldi [.reg 5, .val 1] 7 = none := by decide

end Avra.Props.C01b
