/-
  C09 — a macro call behaves as its body with the call's arguments substituted.

  Model: `macroExpand` / `pass0Items` (builder/pass0.rs), the `Display` mirror (`iopText`,
  `exprText`), `substArgs` (`str::replace` of `@n`), macro storage in `skipStep`/`directiveParse`.
-/
import Avra.Model.Build
import Avra.Props.C14
namespace Avra.Props.C09
open Avra Avra.Model

/-- calling an undefined macro is an error that names the line of the call -/
theorem undefined_macro_error (fs : Fs) (macros : List (Str × List (Nat × Str))) (st : PState) (ln : Nat)
    (name : Str) (ops : List IOp) (h : alookup name macros = none) :
    macroExpand fs macros st ln name ops = .error ⟨some ln, "undefined-macro"⟩ := by
  simp [macroExpand, h, lineErr]

/-- `.macro Name` records the lower-cased name … -/
theorem macro_definition_lowercases (inc : IncludeFn) (cur : Str) (incs : List Str) (st : PState) (name : Str) (ln : Nat) :
    directiveParse inc cur incs st .macro (.opList [.e (.ident name)]) ln =
      .ok ({ st with macroName := lower name }, incs, .endMacro) := by
  simp [directiveParse]

/-- … under which the collected body is stored … -/
theorem macro_body_stored (st : PState) (ls : List (Nat × Str)) :
    (skipStep st .endMacro ls).1.macros = ainsert st.macroName (skipMacro [] ls).1 st.macros := by
  simp [skipStep]

/-- … and a call, in whatever letter case it is written, looks up the lower-cased word: a word
    that is no standard mnemonic parses to `Custom(lower word)` -/
theorem call_lowercases (w rest : Str) (n : Str) (hid : Peg.identText (w ++ rest) = some (n, rest))
    (hnostd : Peg.standardOperation (lower n) = none) :
    Peg.operation (w ++ rest) = some (.custom (lower n), rest) := by
  simp [Peg.operation, hid, hnostd]

/-- the text pasted for a compound expression argument is parenthesised, so that it stands for
    one operand wherever the body puts it (next to tighter or unary operators) -/
theorem compound_argument_parenthesised (op : BinOp) (l r : Expr) :
    ∃ mid, exprText (.bin op l r) = '(' :: mid ++ [')'] := by
  exact ⟨exprText l ++ op.text ++ exprText r, by simp [exprText]⟩

/-- registers and index forms are pasted as the operand text the grammar reads back -/
theorem register_argument_text (n : Nat) : iopText (.r8 n) = 'r' :: natToDec n := rfl
theorem index_argument_text (r : Reg16) (e : Expr) :
    iopText (.index (.postIncE r e)) = reg16Text r ++ '+' :: exprText e := rfl

/-- with no arguments the body is used as it stands; an `@n` left in a line makes that line a
    syntax error (the grammar has no `@`) — this is how "omitting an argument the body uses" fails -/
theorem no_arguments_no_substitution (l : Str) : substArgs [] l = l := by
  simp [substArgs, substArgs.go]

section ReadBack
open Avra.Peg Avra.Lemmas.Fuel Avra.Props.C14

/-! ### the text pasted for an expression argument reads back as that expression -/

/-- characters an operand text can start with -/
def StartChar (y : Char) : Prop :=
  isIdentStart y = true ∨ isDigit y = true ∨ y = '(' ∨ y = '-' ∨ y = '~' ∨ y = '!' ∨ y = '$' ∨ y = '\''

/-- operator characters that start no operand -/
def nonStart (y : Char) : Prop := y = '<' ∨ y = '=' ∨ y = '>' ∨ y = '|' ∨ y = '&'

/-- `t` is tried before the operator text `o` is reached; it must not win: it mismatches inside
    `o`, or it is `o` plus one non-start character, or it is a proper prefix of `o` whose
    continuation is a non-start character -/
def okBefore : Str → Str → Bool
  | [], [] => false
  | [], y :: _ => y == '<' || y == '=' || y == '>' || y == '|' || y == '&'
  | [d], [] => d == '<' || d == '=' || d == '>' || d == '|' || d == '&'
  | _ :: _ :: _, [] => false
  | p :: ps, c :: cs => if p = c then okBefore ps cs else true

theorem startChar_not_nonStart (c : Char) (hc : StartChar c) : ¬ nonStart c := by
  intro hn
  rcases hn with rfl | rfl | rfl | rfl | rfl <;>
    (rcases hc with h | h | h | h | h | h | h | h <;> revert h <;> decide)

theorem lit_before (t : Str) : ∀ (o : Str), okBefore t o = true → ∀ (c : Char) (rest : Str), StartChar c →
    lit t (o ++ c :: rest) = none ∨ ∃ y ys, lit t (o ++ c :: rest) = some (y :: ys) ∧ nonStart y := by
  induction t with
  | nil =>
    intro o h c rest hc
    cases o with
    | nil => simp [okBefore] at h
    | cons y ys =>
      right
      refine ⟨y, ys ++ c :: rest, by simp [lit], ?_⟩
      simp only [okBefore, Bool.or_eq_true, beq_iff_eq] at h
      rcases h with (((h | h) | h) | h) | h
      · exact Or.inl h
      · exact Or.inr (Or.inl h)
      · exact Or.inr (Or.inr (Or.inl h))
      · exact Or.inr (Or.inr (Or.inr (Or.inl h)))
      · exact Or.inr (Or.inr (Or.inr (Or.inr h)))
  | cons p ps ih =>
    intro o h c rest hc
    cases o with
    | nil =>
      cases ps with
      | nil =>
        left
        simp only [okBefore, Bool.or_eq_true, beq_iff_eq] at h
        have hn : nonStart p := by
          rcases h with (((h | h) | h) | h) | h
          · exact Or.inl h
          · exact Or.inr (Or.inl h)
          · exact Or.inr (Or.inr (Or.inl h))
          · exact Or.inr (Or.inr (Or.inr (Or.inl h)))
          · exact Or.inr (Or.inr (Or.inr (Or.inr h)))
        have : p ≠ c := by intro hpc; subst hpc; exact startChar_not_nonStart p hc hn
        simp [lit, this]
      | cons q qs => simp [okBefore] at h
    | cons y ys =>
      simp only [okBefore] at h
      by_cases hpy : p = y
      · subst hpy
        simp only [if_true] at h
        have := ih ys h c rest hc
        simpa [lit] using this
      · left; simp [lit, hpy]

abbrev Ent := Str × BinOp × Nat × Nat

def splitOp (op : BinOp) : List Ent → Option (List Ent × Ent × List Ent)
  | [] => none
  | x :: xs =>
    if x.2.1 = op then some ([], x, xs)
    else (splitOp op xs).map fun r => (x :: r.1, r.2.1, r.2.2)

theorem splitOp_spec (op : BinOp) : ∀ (l pre : List Ent) (e : Ent) (post : List Ent),
    splitOp op l = some (pre, e, post) → l = pre ++ e :: post ∧ e.2.1 = op := by
  intro l
  induction l with
  | nil => intro pre e post h; simp [splitOp] at h
  | cons x xs ih =>
    intro pre e post h
    simp only [splitOp] at h
    split at h
    · rename_i hx
      simp only [Option.some.injEq, Prod.mk.injEq] at h
      obtain ⟨rfl, rfl, rfl⟩ := h
      exact ⟨rfl, hx⟩
    · simp only [Option.map_eq_some_iff] at h
      obtain ⟨⟨p, e', q⟩, hs, heq⟩ := h
      simp only [Prod.mk.injEq] at heq
      obtain ⟨rfl, rfl, rfl⟩ := heq
      obtain ⟨h1, h2⟩ := ih p e' q hs
      exact ⟨by rw [h1]; rfl, h2⟩

/-- the (regenerated) operator table, checked once per operator: the operator has an entry with
    its own text, left-associative, and every entry scanned before it cannot win -/
def checkOp (op : BinOp) : Bool :=
  match splitOp op infixOps with
  | some (pre, e, _) => e.1 == op.text && e.2.2.2 == e.2.2.1 + 1 && pre.all fun x => okBefore x.1 op.text
  | none => false

theorem table_checked : ∀ op : BinOp, checkOp op = true := by
  intro op; cases op <;> decide

theorem table_split (op : BinOp) : ∃ pre lv post, infixOps = pre ++ (op.text, op, lv, lv + 1) :: post ∧
    ∀ x ∈ pre, okBefore x.1 op.text = true := by
  have h := table_checked op
  unfold checkOp at h
  split at h
  · rename_i pre e post hs
    obtain ⟨hl, he⟩ := splitOp_spec op _ _ _ _ hs
    obtain ⟨t, b, lv, rl⟩ := e
    simp only [Bool.and_eq_true, beq_iff_eq, List.all_eq_true] at h
    obtain ⟨⟨h1, h2⟩, h3⟩ := h
    simp only at he h1 h2
    subst he; subst h1; subst h2
    exact ⟨pre, lv, post, hl, h3⟩
  · simp at h

/-- entries that cannot win are passed over -/
theorem tryInfix_skip (m : Nat) (e : Expr) (s0 s : Str) :
    ∀ (pre : List Ent), (∀ x ∈ pre, lit x.1 (skipSpace s) = none ∨
        ∃ y ys, lit x.1 (skipSpace s) = some (y :: ys) ∧ noStart y ∧ isSpace y = false) →
      ∀ (tail : List Ent) (f : Nat), (s.length + 1) * K ≤ f →
        tryInfix (f + pre.length) m (pre ++ tail) e s0 s = tryInfix f m tail e s0 s := by
  intro pre
  induction pre with
  | nil => intro _ tail f _; rfl
  | cons x more ih =>
    intro hl tail f hf
    obtain ⟨t, b, lv, rlv⟩ := x
    have hmore := ih (fun y hy => hl y (List.mem_cons_of_mem _ hy)) tail f hf
    have : f + ((t, b, lv, rlv) :: more).length = (f + more.length) + 1 := by simp only [List.length_cons]; omega
    rw [this]
    simp only [List.cons_append, tryInfix]
    split
    · exact hmore
    · rcases hl (t, b, lv, rlv) (List.mem_cons_self ..) with hnone | ⟨y, ys, hsome, hy, hsp⟩
      · simp only [hnone]; exact hmore
      · simp only [hsome]
        have hsk : skipSpace (y :: ys) = y :: ys := by simp [skipSpace, hsp]
        have hlen := lit_len _ _ _ hsome
        have hsl := skipSpace_len s
        simp only [List.length_cons] at hlen
        have hmul : (ys.length + 2) * K ≤ (s.length + 1) * K := Nat.mul_le_mul_right K (by omega)
        rw [hsk, infix_fails y ys hy (f + more.length) (by omega) rlv]
        exact hmore

/-! #### small facts -/

theorem identStart_facts (y : Char) (h : isIdentStart y = true) :
    isDigit y = false ∧ isSpace y = false ∧ y ≠ '$' ∧ y ≠ '(' ∧ y ≠ '\'' ∧ y ≠ '-' ∧ y ≠ '~' ∧ y ≠ '!' ∧ y ≠ '0' := by
  have hd : isDigit y = false := by
    cases hdg : isDigit y with
    | false => rfl
    | true =>
      exfalso
      simp only [isIdentStart, isAlpha, Bool.or_eq_true, beq_iff_eq] at h
      simp only [isDigit, Bool.and_eq_true, decide_eq_true_eq] at hdg
      rcases h with (hi | hi) | rfl
      · simp only [Bool.and_eq_true, decide_eq_true_eq] at hi
        have h1 := hi.1; have h2 := hdg.2
        simp only [Char.le_def, UInt32.le_iff_toNat_le] at h1 h2
        have : 'a'.val.toNat = 97 := by decide
        have : '9'.val.toNat = 57 := by decide
        omega
      · simp only [Bool.and_eq_true, decide_eq_true_eq] at hi
        have h1 := hi.1; have h2 := hdg.2
        simp only [Char.le_def, UInt32.le_iff_toNat_le] at h1 h2
        have : 'A'.val.toNat = 65 := by decide
        have : '9'.val.toNat = 57 := by decide
        omega
      · revert hdg; decide
  have ne : ∀ c : Char, isIdentStart c = false → y ≠ c := by
    intro c hc hyc; subst hyc; rw [h] at hc; exact absurd hc (by decide)
  refine ⟨hd, ?_, ne _ (by decide), ne _ (by decide), ne _ (by decide), ne _ (by decide), ne _ (by decide), ne _ (by decide), ne _ (by decide)⟩
  cases hsp : isSpace y with
  | false => rfl
  | true =>
    simp only [isSpace, Bool.or_eq_true, beq_iff_eq] at hsp
    rcases hsp with rfl | rfl <;> (revert h; decide)

theorem lit_self (t s : Str) : lit t (t ++ s) = some s := by
  induction t with
  | nil => rfl
  | cons p ps ih => simp [lit, ih]

/-- nothing follows a closing parenthesis in the infix loop -/
theorem opEnd_paren (rest : Str) : OpEnd (')' :: rest) := by
  intro x hx
  left
  have : skipSpace (')' :: rest) = ')' :: rest := by simp +decide [skipSpace]
  rw [this]
  have key : ∀ x ∈ infixOps, x.1 ≠ [] ∧ x.1.head? ≠ some ')' := by decide
  exact lit_head_ne _ _ _ (key x hx).1 (key x hx).2

theorem loop_paren (f m : Nat) (e : Expr) (rest : Str) (hf : infixOps.length + 2 + (rest.length + 2) * K ≤ f) :
    parseLoop f m e (')' :: rest) = .ok e (')' :: rest) := by
  obtain ⟨g, rfl⟩ : ∃ g, f = g + 1 := ⟨f - 1, by omega⟩
  simp only [parseLoop]
  have h2 : ((')' :: rest).length + 1) * K = (rest.length + 2) * K := by simp
  exact tryInfix_through m e _ _ (opEnd_paren rest) infixOps (fun x hx => hx) g (by rw [h2]; omega)

/-- above the level of every infix operator the loop ends at once -/
theorem tryInfix_above (m : Nat) (e : Expr) (s0 s : Str) : ∀ (l : List Ent), (∀ x ∈ l, x.2.2.1 < m) →
    ∀ f, l.length < f → tryInfix f m l e s0 s = .ok e s0 := by
  intro l
  induction l with
  | nil =>
    intro _ f hf
    obtain ⟨g, rfl⟩ : ∃ g, f = g + 1 := ⟨f - 1, by omega⟩
    simp [tryInfix]
  | cons x more ih =>
    intro hl f hf
    obtain ⟨t, b, lv, rlv⟩ := x
    simp only [List.length_cons] at hf
    obtain ⟨g, rfl⟩ : ∃ g, f = g + 1 := ⟨f - 1, by omega⟩
    have hlt : lv < m := hl (t, b, lv, rlv) (List.mem_cons_self ..)
    simp only [tryInfix, hlt, if_true]
    exact ih (fun y hy => hl y (List.mem_cons_of_mem _ hy)) g (by omega)

theorem prefixAtom_atom (s : Str) (hs : ∀ x ∈ prefixOps, lit x.1 s = none) (f : Nat) :
    parsePrefixAtom (f + prefixOps.length + 2) s = parseAtom f s := by
  have : f + prefixOps.length + 2 = (f + prefixOps.length + 1) + 1 := rfl
  rw [this]
  simp only [parsePrefixAtom]
  exact tryPrefix_through s prefixOps hs f

theorem prefix_none_of (y : Char) (ys : Str) (h : y ≠ '-' ∧ y ≠ '~' ∧ y ≠ '!') : ∀ x ∈ prefixOps, lit x.1 (y :: ys) = none := by
  have key : ∀ x ∈ prefixOps, x.1 ≠ [] ∧ ∀ c, x.1.head? = some c → c = '-' ∨ c = '~' ∨ c = '!' := by decide
  intro x hx
  obtain ⟨hne, hh⟩ := key x hx
  apply lit_head_ne _ _ _ hne
  intro hc
  rcases hh y hc with rfl | rfl | rfl
  · exact h.1 rfl
  · exact h.2.1 rfl
  · exact h.2.2 rfl

/-- the fuel an input asks for, and how it shrinks with the input -/
def need (s : Str) : Nat := (s.length + 2) * K

theorem need_step (s' s : Str) (h : s'.length + 1 ≤ s.length) : need s' + K ≤ need s := by
  unfold need
  have : (s'.length + 2) * K + K = (s'.length + 3) * K := by
    rw [Nat.add_mul (s'.length + 2) 1 K]; simp
  rw [this]
  exact Nat.mul_le_mul_right K (by omega)

theorem K_eq : K = prefixOps.length + infixOps.length + 8 := rfl

/-! #### the expressions the parser produces, and their texts -/

/-- expressions as the parser builds them: names are identifiers, constants are not negative and
    below 2^63 (what `e_const` accepts), functions are called by name -/
inductive Wf : Expr → Prop
  | ident (s : Str) : isName s → Wf (.ident s)
  | const (v : Int) (n : Nat) : v = (n : Int) → n < 2 ^ 63 → Wf (.const v)
  | func (name : Str) (a : Expr) : isName name → Wf a → Wf (.func (.ident name) a)
  | bin (op : BinOp) (l r : Expr) : Wf l → Wf r → Wf (.bin op l r)
  | un (u : UnOp) (e : Expr) : Wf e → Wf (.un u e)

/-- what may follow an operand text: no identifier character, no `(`, no blank -/
def AtomEnd (rest : Str) : Prop := ∀ y, rest.head? = some y → isIdentChar y = false ∧ y ≠ '(' ∧ isSpace y = false

theorem atomEnd_paren (rest : Str) : AtomEnd (')' :: rest) := by
  intro y hy; simp at hy; subst hy; decide

theorem atomEnd_op (op : BinOp) (rest : Str) : AtomEnd (op.text ++ rest) := by
  intro y hy
  cases op <;> (simp [BinOp.text] at hy; subst hy; decide)

theorem exprText_head (e : Expr) (h : Wf e) : ∃ y ys, exprText e = y :: ys ∧ StartChar y := by
  cases h with
  | ident s hs =>
    obtain ⟨x, xs, rfl, hx, _⟩ := hs
    exact ⟨x, xs, rfl, Or.inl hx⟩
  | const v n hv hfit =>
    have hn : NumText (intToDec v) n := by rw [hv]; exact numText_intToDec n hfit
    obtain ⟨⟨y, ys, hy, hd⟩, _⟩ := hn
    refine ⟨y, ys, by simp [exprText, hy], ?_⟩
    rcases hd with hd | hd
    · exact Or.inr (Or.inl hd)
    · exact Or.inr (Or.inr (Or.inr (Or.inr (Or.inr (Or.inr (Or.inl hd))))))
  | func name a hn _ =>
    obtain ⟨x, xs, rfl, hx, _⟩ := hn
    exact ⟨x, xs ++ '(' :: exprText a ++ [')'], by simp [exprText], Or.inl hx⟩
  | bin op l r _ _ => exact ⟨'(', _, by simp [exprText]; rfl, Or.inr (Or.inr (Or.inl rfl))⟩
  | un u e _ =>
    cases u with
    | minus => exact ⟨'-', exprText e, by simp [exprText, UnOp.text], Or.inr (Or.inr (Or.inr (Or.inl rfl)))⟩
    | bnot => exact ⟨'~', exprText e, by simp [exprText, UnOp.text], Or.inr (Or.inr (Or.inr (Or.inr (Or.inl rfl))))⟩
    | lnot => exact ⟨'!', exprText e, by simp [exprText, UnOp.text], Or.inr (Or.inr (Or.inr (Or.inr (Or.inr (Or.inl rfl)))))⟩

theorem startChar_noSpace (y : Char) (h : StartChar y) : isSpace y = false := by
  rcases h with h | h | rfl | rfl | rfl | rfl | rfl | rfl
  · exact (identStart_facts y h).2.1
  · cases hsp : isSpace y with
    | false => rfl
    | true =>
      simp only [isSpace, Bool.or_eq_true, beq_iff_eq] at hsp
      rcases hsp with rfl | rfl <;> (revert h; decide)
  all_goals decide

theorem skip_exprText (e : Expr) (h : Wf e) (rest : Str) : skipSpace (exprText e ++ rest) = exprText e ++ rest := by
  obtain ⟨y, ys, hy, hs⟩ := exprText_head e h
  rw [hy]
  simp [skipSpace, startChar_noSpace y hs]

/-- the statement proved for every well-formed expression -/
def Reads (e : Expr) : Prop :=
  ∀ rest, AtomEnd rest → ∀ f, need (exprText e ++ rest) ≤ f + 1 → parsePrefixAtom f (exprText e ++ rest) = .ok e rest

theorem reads_ident (s : Str) (hs : isName s) : Reads (.ident s) := by
  intro rest hr f hf
  obtain ⟨x, xs, rfl, hx, hxs⟩ := hs
  have hn : isName (x :: xs) := ⟨x, xs, rfl, hx, hxs⟩
  have fx := identStart_facts x hx
  simp only [exprText] at hf ⊢
  have hK := K_eq
  have h2K : 2 * K ≤ need ((x :: xs) ++ rest) := by unfold need; exact Nat.mul_le_mul_right K (by simp)
  obtain ⟨g, rfl⟩ : ∃ g, f = (g + 1) + prefixOps.length + 2 := ⟨f - prefixOps.length - 3, by omega⟩
  rw [prefixAtom_atom _ (by
    have := prefix_none_of x (xs ++ rest) ⟨fx.2.2.2.2.2.1, fx.2.2.2.2.2.2.1, fx.2.2.2.2.2.2.2.1⟩
    simpa using this)]
  have hid : identText ((x :: xs) ++ rest) = some (x :: xs, rest) :=
    identText_name _ rest hn (fun y hy => (hr y hy).1)
  have hskip : skipSpace rest = rest := by
    cases rest with
    | nil => rfl
    | cons y ys => simp [skipSpace, (hr y rfl).2.2]
  have hec : eConst ((x :: xs) ++ rest) = none := by
    have h1 : ¬ '$' = x := fun h => fx.2.2.1 h.symm
    have h0 : ¬ '0' = x := fun h => fx.2.2.2.2.2.2.2.2 h.symm
    simp [eConst, constAlt, lit, takeWhileP, fx.1, h1, h0]
  have hch : ch ((x :: xs) ++ rest) = none := by
    simp only [List.cons_append, ch]
    split
    · rename_i heq; simp only [List.cons.injEq] at heq; exact absurd heq.1 fx.2.2.2.2.1
    · rfl
  simp only [parseAtom, hid, hskip, hec, hch]
  have hnp : ∀ r2, rest ≠ '(' :: r2 := by
    intro r2 h; subst h; exact (hr '(' rfl).2.1 rfl
  split
  · rename_i e r heq
    split at heq
    · exact absurd rfl (hr '(' rfl).2.1
    · simp at heq
  · rename_i heq
    split at heq
    · exact absurd rfl (hr '(' rfl).2.1
    · simp at heq
  · split
    · rename_i e r heq
      split at heq
      · rename_i r1 hc; simp only [List.cons_append, List.cons.injEq] at hc; exact absurd hc.1 fx.2.2.2.1
      · simp at heq
    · rename_i heq
      split at heq
      · rename_i r1 hc; simp only [List.cons_append, List.cons.injEq] at hc; exact absurd hc.1 fx.2.2.2.1
      · simp at heq
    · rfl

theorem reads_const (v : Int) (n : Nat) (hv : v = (n : Int)) (hfit : n < 2 ^ 63) : Reads (.const v) := by
  have hn : NumText (intToDec v) n := by rw [hv]; exact numText_intToDec n hfit
  intro rest hr f hf
  simp only [exprText] at hf ⊢
  have hK := K_eq
  have h2K : 2 * K ≤ need (intToDec v ++ rest) := by unfold need; exact Nat.mul_le_mul_right K (by simp)
  obtain ⟨g, rfl⟩ : ∃ g, f = (g + 1) + prefixOps.length + 2 := ⟨f - prefixOps.length - 3, by omega⟩
  obtain ⟨y, ys, hs, hy⟩ := numText_head _ n hn rest
  rw [prefixAtom_atom _ (by rw [hs]; exact prefix_none_num y ys hy)]
  rw [parseAtom_num _ n hn rest (fun y hy => (hr y hy).1) g, hv]

/-- a prefix operator's entry, and what comes before it -/
abbrev PEnt := Str × UnOp × Nat

def splitUn (u : UnOp) : List PEnt → Option (List PEnt × PEnt × List PEnt)
  | [] => none
  | x :: xs =>
    if x.2.1 = u then some ([], x, xs)
    else (splitUn u xs).map fun r => (x :: r.1, r.2.1, r.2.2)

theorem splitUn_spec (u : UnOp) : ∀ (l pre : List PEnt) (e : PEnt) (post : List PEnt),
    splitUn u l = some (pre, e, post) → l = pre ++ e :: post ∧ e.2.1 = u := by
  intro l
  induction l with
  | nil => intro pre e post h; simp [splitUn] at h
  | cons x xs ih =>
    intro pre e post h
    simp only [splitUn] at h
    split at h
    · rename_i hx
      simp only [Option.some.injEq, Prod.mk.injEq] at h
      obtain ⟨rfl, rfl, rfl⟩ := h
      exact ⟨rfl, hx⟩
    · simp only [Option.map_eq_some_iff] at h
      obtain ⟨⟨p, e', q⟩, hs, heq⟩ := h
      simp only [Prod.mk.injEq] at heq
      obtain ⟨rfl, rfl, rfl⟩ := heq
      obtain ⟨h1, h2⟩ := ih p e' q hs
      exact ⟨by rw [h1]; rfl, h2⟩

/-- checked once per prefix operator: it has an entry with its own one-character text, the
    entries before it start differently, and its operand level is above every infix operator -/
def checkUn (u : UnOp) : Bool :=
  match splitUn u prefixOps with
  | some (pre, e, _) => e.1 == u.text && u.text.length == 1 &&
      (pre.all fun x => x.1.length == 1 && x.1 != u.text) && infixOps.all fun x => x.2.2.1 < e.2.2
  | none => false

theorem un_checked : ∀ u : UnOp, checkUn u = true := by
  intro u; cases u <;> decide

theorem un_split (u : UnOp) : ∃ pre lv post c, prefixOps = pre ++ (u.text, u, lv) :: post ∧ u.text = [c] ∧
    (∀ x ∈ pre, ∃ d, x.1 = [d] ∧ d ≠ c) ∧ ∀ x ∈ infixOps, x.2.2.1 < lv := by
  have h := un_checked u
  unfold checkUn at h
  split at h
  · rename_i pre e post hs
    obtain ⟨hl, he⟩ := splitUn_spec u _ _ _ _ hs
    obtain ⟨t, b, lv⟩ := e
    simp only [Bool.and_eq_true, beq_iff_eq, List.all_eq_true, decide_eq_true_eq, bne_iff_ne] at h
    obtain ⟨⟨⟨h1, h2⟩, h3⟩, h4⟩ := h
    simp only at he h1
    subst he; subst h1
    obtain ⟨c, hc⟩ : ∃ c, b.text = [c] := by
      cases htx : b.text with
      | nil => rw [htx] at h2; simp at h2
      | cons c cs =>
        cases cs with
        | nil => exact ⟨c, rfl⟩
        | cons _ _ => rw [htx] at h2; simp at h2
    refine ⟨pre, lv, post, c, hl, hc, ?_, h4⟩
    intro x hx
    obtain ⟨hx1, hx2⟩ := h3 x hx
    cases hxt : x.1 with
    | nil => rw [hxt] at hx1; simp at hx1
    | cons d ds =>
      cases ds with
      | nil =>
        refine ⟨d, rfl, ?_⟩
        intro hdc; apply hx2; rw [hxt, hc, hdc]
      | cons _ _ => rw [hxt] at hx1; simp at hx1
  · simp at h

theorem tryPrefix_skip (s : Str) : ∀ (pre : List PEnt), (∀ x ∈ pre, lit x.1 s = none) → ∀ (tail : List PEnt) (f : Nat),
    tryPrefix (f + pre.length) (pre ++ tail) s = tryPrefix f tail s := by
  intro pre
  induction pre with
  | nil => intro _ tail f; rfl
  | cons x more ih =>
    intro hl tail f
    obtain ⟨t, u, lv⟩ := x
    have ht : lit t s = none := hl (t, u, lv) (List.mem_cons_self ..)
    have : f + ((t, u, lv) :: more).length = (f + more.length) + 1 := by simp only [List.length_cons]; omega
    rw [this]
    simp only [List.cons_append, tryPrefix, ht]
    exact ih (fun y hy => hl y (List.mem_cons_of_mem _ hy)) tail f

theorem reads_un (u : UnOp) (e : Expr) (he : Wf e) (ih : Reads e) : Reads (.un u e) := by
  intro rest hr f hf
  obtain ⟨pre, lv, post, c, hsplit, hc, hpre, hlv⟩ := un_split u
  simp only [exprText, hc, List.cons_append, List.nil_append] at hf ⊢
  have hK := K_eq
  have hP : pre.length + 1 ≤ prefixOps.length := by rw [hsplit]; simp
  have hstep := need_step (exprText e ++ rest) (c :: (exprText e ++ rest)) (by simp)
  -- fuel: parsePrefixAtom, the skipped entries, the entry, parseInfix, then the operand and the loop
  obtain ⟨g, rfl⟩ : ∃ g, f = ((g + 1) + 1 + pre.length) + 1 := ⟨f - pre.length - 3, by omega⟩
  simp only [parsePrefixAtom]
  rw [hsplit, tryPrefix_skip _ pre (by
    intro x hx
    obtain ⟨d, hd, hdc⟩ := hpre x hx
    rw [hd]; simp [lit, hdc])]
  simp only [tryPrefix, hc, lit, if_true]
  have hsk : (if Gen.prefixSpace = true then skipSpace (exprText e ++ rest) else exprText e ++ rest) = exprText e ++ rest := by
    split
    · exact skip_exprText e he rest
    · rfl
  rw [hsk]
  simp only [parseInfix]
  rw [ih rest hr g (by omega)]
  simp only
  have hloop : parseLoop g lv e rest = .ok e rest := by
    obtain ⟨g2, hg2⟩ : ∃ g2, g = g2 + 1 := ⟨g - 1, by omega⟩
    rw [hg2]
    simp only [parseLoop]
    exact tryInfix_above lv e rest rest infixOps hlv g2 (by omega)
  rw [hloop]

theorem reads_func (name : Str) (a : Expr) (hname : isName name) (ha : Wf a) (ih : Reads a) :
    Reads (.func (.ident name) a) := by
  intro rest hr f hf
  obtain ⟨x, xs, rfl, hx, hxs⟩ := hname
  have hn : isName (x :: xs) := ⟨x, xs, rfl, hx, hxs⟩
  have fx := identStart_facts x hx
  have hform : exprText (.func (.ident (x :: xs)) a) ++ rest = (x :: xs) ++ ('(' :: (exprText a ++ (')' :: rest))) := by
    simp [exprText]
  rw [hform] at hf ⊢
  have hK := K_eq
  have hstep := need_step (exprText a ++ (')' :: rest)) ((x :: xs) ++ ('(' :: (exprText a ++ (')' :: rest)))) (by simp; omega)
  have hrest : (rest.length + 2) * K ≤ need (exprText a ++ (')' :: rest)) := by
    unfold need; exact Nat.mul_le_mul_right K (by simp; omega)
  obtain ⟨g, rfl⟩ : ∃ g, f = (((g + 1) + 1) + 1) + prefixOps.length + 2 := ⟨f - prefixOps.length - 5, by omega⟩
  rw [prefixAtom_atom _ (by
    have := prefix_none_of x (xs ++ ('(' :: (exprText a ++ (')' :: rest)))) ⟨fx.2.2.2.2.2.1, fx.2.2.2.2.2.2.1, fx.2.2.2.2.2.2.2.1⟩
    simpa using this)]
  have hid : identText ((x :: xs) ++ ('(' :: (exprText a ++ (')' :: rest)))) = some (x :: xs, '(' :: (exprText a ++ (')' :: rest))) :=
    identText_name _ _ hn (by intro y hy; simp at hy; subst hy; decide)
  have hsk1 : skipSpace ('(' :: (exprText a ++ (')' :: rest))) = '(' :: (exprText a ++ (')' :: rest)) := by simp +decide [skipSpace]
  have hsk2 := skip_exprText a ha (')' :: rest)
  have hsk3 : skipSpace (')' :: rest) = ')' :: rest := by simp +decide [skipSpace]
  have hinner : parseInfix (g + 1 + 1) 0 (exprText a ++ (')' :: rest)) = .ok a (')' :: rest) := by
    simp only [parseInfix]
    rw [ih (')' :: rest) (atomEnd_paren rest) (g + 1) (by omega)]
    simp only
    exact loop_paren (g + 1) 0 a rest (by omega)
  simp only [parseAtom, hid, hsk1, hsk2, hinner, hsk3]

theorem nonStart_noStart (y : Char) (h : nonStart y) : noStart y ∧ isSpace y = false := by
  rcases h with rfl | rfl | rfl | rfl | rfl
  · exact ⟨Or.inr (Or.inr (Or.inr (Or.inr (Or.inl rfl)))), by decide⟩
  · exact ⟨Or.inr (Or.inr (Or.inr (Or.inr (Or.inr (Or.inl rfl))))), by decide⟩
  · exact ⟨Or.inr (Or.inr (Or.inr (Or.inr (Or.inr (Or.inr (Or.inl rfl)))))), by decide⟩
  · exact ⟨Or.inr (Or.inr (Or.inr (Or.inr (Or.inr (Or.inr (Or.inr (Or.inl rfl))))))), by decide⟩
  · exact ⟨Or.inr (Or.inr (Or.inr (Or.inr (Or.inr (Or.inr (Or.inr (Or.inr (Or.inl rfl)))))))), by decide⟩

theorem op_text_head (op : BinOp) : ∃ y ys, op.text = y :: ys ∧ isSpace y = false := by
  cases op <;> exact ⟨_, _, rfl, by decide⟩

theorem op_text_len (op : BinOp) : 1 ≤ op.text.length := by cases op <;> simp [BinOp.text]

theorem reads_bin (op : BinOp) (l r : Expr) (hl : Wf l) (hr' : Wf r) (ihl : Reads l) (ihr : Reads r) :
    Reads (.bin op l r) := by
  intro rest hr f hf
  -- the texts
  let X := op.text ++ (exprText r ++ (')' :: rest))
  have hform : exprText (.bin op l r) ++ rest = '(' :: (exprText l ++ (op.text ++ (exprText r ++ (')' :: rest)))) := by
    simp [exprText]
  rw [hform] at hf ⊢
  have hK := K_eq
  obtain ⟨c, rest', hcr, hc⟩ : ∃ c rest', exprText r ++ (')' :: rest) = c :: rest' ∧ StartChar c := by
    obtain ⟨y, ys, hy, hs⟩ := exprText_head r hr'
    exact ⟨y, ys ++ (')' :: rest), by rw [hy]; rfl, hs⟩
  obtain ⟨ly, lys, hly, _⟩ := exprText_head l hl
  have hoplen := op_text_len op
  have hllen : 1 ≤ (exprText l).length := by rw [hly]; simp
  -- fuel
  have hs1 := need_step (exprText l ++ (op.text ++ (exprText r ++ (')' :: rest))))
    ('(' :: (exprText l ++ (op.text ++ (exprText r ++ (')' :: rest))))) (by simp)
  have hs2 := need_step (exprText r ++ (')' :: rest)) (exprText l ++ (op.text ++ (exprText r ++ (')' :: rest))))
    (by simp only [List.length_append]; omega)
  have hXK : ((op.text ++ (exprText r ++ (')' :: rest))).length + 1) * K ≤ need (exprText l ++ (op.text ++ (exprText r ++ (')' :: rest)))) := by
    unfold need; exact Nat.mul_le_mul_right K (by simp only [List.length_append]; omega)
  have hrestK : (rest.length + 2) * K ≤ need (exprText r ++ (')' :: rest)) := by
    unfold need; exact Nat.mul_le_mul_right K (by simp; omega)
  obtain ⟨pre, lv, post, hsplit, hpre⟩ := table_split op
  have hI : pre.length + 1 ≤ infixOps.length := by rw [hsplit]; simp
  -- parsePrefixAtom → parseAtom
  obtain ⟨g, rfl⟩ : ∃ g, f = ((g + 1) + 1) + prefixOps.length + 2 := ⟨f - prefixOps.length - 4, by omega⟩
  rw [prefixAtom_atom _ (prefix_none_of '(' _ (by decide))]
  have hid : identText ('(' :: (exprText l ++ (op.text ++ (exprText r ++ (')' :: rest))))) = none := by simp +decide [identText]
  have hsk1 := skip_exprText l hl (op.text ++ (exprText r ++ (')' :: rest)))
  have hsk3 : skipSpace (')' :: rest) = ')' :: rest := by simp +decide [skipSpace]
  -- the operator loop after the left operand
  have hskX : skipSpace (op.text ++ (exprText r ++ (')' :: rest))) = op.text ++ (exprText r ++ (')' :: rest)) := by
    obtain ⟨y, ys, hy, hsp⟩ := op_text_head op
    rw [hy]; simp [skipSpace, hsp]
  have hloop : parseLoop g 0 l (op.text ++ (exprText r ++ (')' :: rest))) = .ok (.bin op l r) (')' :: rest) := by
    obtain ⟨g1, hg1⟩ : ∃ g1, g = (((g1 + 1) + 1) + pre.length) + 1 := ⟨g - pre.length - 3, by omega⟩
    rw [hg1]
    simp only [parseLoop]
    rw [hsplit, tryInfix_skip 0 l _ _ pre (by
      intro x hx
      rw [hskX, hcr]
      rcases lit_before x.1 op.text (hpre x hx) c rest' hc with h | ⟨y, ys, h, hy⟩
      · exact Or.inl h
      · exact Or.inr ⟨y, ys, h, nonStart_noStart y hy⟩) _ (g1 + 1 + 1) (by omega)]
    simp only [tryInfix, Nat.not_lt_zero, if_false, hskX, lit_self]
    rw [skip_exprText r hr' (')' :: rest)]
    have hright : parseInfix (g1 + 1) (lv + 1) (exprText r ++ (')' :: rest)) = .ok r (')' :: rest) := by
      simp only [parseInfix]
      rw [ihr (')' :: rest) (atomEnd_paren rest) g1 (by omega)]
      simp only
      exact loop_paren g1 (lv + 1) r rest (by omega)
    rw [hright]
    simp only
    exact loop_paren (g1 + 1) 0 (.bin op l r) rest (by omega)
  have hinner : parseInfix (g + 1) 0 (exprText l ++ (op.text ++ (exprText r ++ (')' :: rest)))) = .ok (.bin op l r) (')' :: rest) := by
    simp only [parseInfix]
    rw [ihl _ (atomEnd_op op _) g (by omega)]
    simp only
    exact hloop
  simp only [parseAtom, hid, hsk1, hinner, hsk3]

/-- **the text pasted for an expression argument reads back as the same expression** -/
theorem argument_text_reads_back (e : Expr) (h : Wf e) : Reads e := by
  induction h with
  | ident s hs => exact reads_ident s hs
  | const v n hv hn => exact reads_const v n hv hn
  | func name a hn ha ih => exact reads_func name a hn ha ih
  | bin op l r hl hr ihl ihr => exact reads_bin op l r hl hr ihl ihr
  | un u e he ih => exact reads_un u e he ih

/-- … through `expr()` itself, with the fuel `expr()` takes, wherever the text ends an operand -/
theorem expr_reads_back (e : Expr) (h : Wf e) (rest : Str) (hr : AtomEnd rest) (ho : OpEnd rest) :
    expr (exprText e ++ rest) = .ok e rest := by
  have hK := K_eq
  obtain ⟨y, ys, hy, _⟩ := exprText_head e h
  have hlen : 1 ≤ (exprText e).length := by rw [hy]; simp
  have hF : exprFuel (exprText e ++ rest) = need (exprText e ++ rest) := rfl
  have hrestK : (rest.length + 1) * K + 2 * K ≤ need (exprText e ++ rest) := by
    unfold need
    have : (rest.length + 1) * K + 2 * K = (rest.length + 3) * K := by rw [← Nat.add_mul]
    rw [this]
    exact Nat.mul_le_mul_right K (by simp only [List.length_append]; omega)
  unfold expr
  obtain ⟨g, hg⟩ : ∃ g, exprFuel (exprText e ++ rest) = (g + 1) + 1 := ⟨exprFuel (exprText e ++ rest) - 2, by omega⟩
  rw [hg]
  simp only [parseInfix]
  rw [argument_text_reads_back e h rest hr (g + 1) (by omega)]
  simp only [parseLoop]
  exact tryInfix_through 0 e rest rest ho infixOps (fun x hx => hx) g (by omega)

/-! non-vacuity: `(1<<(k+3))`, the text pasted for the argument `1 << (k + 3)` -/
example : Wf (.bin .shl (.const 1) (.bin .add (.ident ['k']) (.const 3))) :=
  .bin _ _ _ (.const 1 1 rfl (by decide))
    (.bin _ _ _ (.ident _ ⟨'k', [], rfl, by decide, by decide⟩) (.const 3 3 rfl (by decide)))
example : exprText (.bin .shl (.const 1) (.bin .add (.ident ['k']) (.const 3))) = "(1<<(k+3))".toList := by decide

set_option linter.unusedSimpArgs false in
section
/-! ### every expression the parser returns is well-formed -/

theorem takeWhileP_all (p : Char → Bool) : ∀ s : Str, ∀ c ∈ (takeWhileP p s).1, p c = true
  | [] => by simp [takeWhileP]
  | x :: xs => by
    intro c hc
    unfold takeWhileP at hc
    split at hc
    · rename_i hx
      simp only [List.mem_cons] at hc
      rcases hc with rfl | hc
      · exact hx
      · exact takeWhileP_all p xs c hc
    · simp at hc

theorem identText_isName (s n r : Str) (h : identText s = some (n, r)) : isName n := by
  unfold identText at h
  split at h
  · rename_i c cs
    split at h
    · rename_i hc
      simp only [Option.some.injEq, Prod.mk.injEq] at h
      obtain ⟨rfl, _⟩ := h
      exact ⟨c, _, rfl, hc, takeWhileP_all isIdentChar cs⟩
    · simp at h
  · simp at h

theorem constAlt_range (pre : Str) (cls : Char → Bool) (radix : Nat) (s : Str) (v : Int) (r : Str)
    (h : constAlt pre cls radix s = some (v, r)) : ∃ n : Nat, v = (n : Int) ∧ n < 2 ^ 63 := by
  unfold constAlt at h
  split at h
  · simp at h
  · dsimp only at h
    split at h
    · simp at h
    · split at h
      · rename_i hlt
        simp only [Option.some.injEq, Prod.mk.injEq] at h
        exact ⟨_, h.1.symm, hlt⟩
      · simp at h

theorem eConst_range (s : Str) (v : Int) (r : Str) (h : eConst s = some (v, r)) : ∃ n : Nat, v = (n : Int) ∧ n < 2 ^ 63 := by
  unfold eConst at h
  cases h1 : constAlt ['$'] isHexDigit 16 s with
  | some x => rw [h1] at h; simp only [Option.orElse] at h; cases h; exact constAlt_range _ _ _ _ _ _ h1
  | none =>
    rw [h1] at h; simp only [Option.orElse] at h
    cases h2 : constAlt ['0', 'x'] isHexDigit 16 s with
    | some x => rw [h2] at h; simp only [Option.orElse] at h; cases h; exact constAlt_range _ _ _ _ _ _ h2
    | none =>
      rw [h2] at h; simp only [Option.orElse] at h
      cases h3 : constAlt ['0', 'b'] isBinDigit 2 s with
      | some x => rw [h3] at h; simp only [Option.orElse] at h; cases h; exact constAlt_range _ _ _ _ _ _ h3
      | none =>
        rw [h3] at h; simp only [Option.orElse] at h
        cases h4 : constAlt ['0'] isOctDigit 8 s with
        | some x => rw [h4] at h; simp only [Option.orElse] at h; cases h; exact constAlt_range _ _ _ _ _ _ h4
        | none =>
          rw [h4] at h; simp only [Option.orElse] at h
          exact constAlt_range _ _ _ _ _ _ h

theorem char_range (c : Char) : c.toNat < 2 ^ 63 := by
  have := c.valid
  have h : c.toNat < 0x110000 := by
    rcases this with h | ⟨_, h⟩
    · have : c.toNat < 0xd800 := h
      omega
    · exact h
  omega

def WfOut (f : Nat) : Prop :=
  (∀ m s e r, parseInfix f m s = .ok e r → Wf e) ∧
  (∀ s e r, parsePrefixAtom f s = .ok e r → Wf e) ∧
  (∀ l s e r, tryPrefix f l s = .ok e r → Wf e) ∧
  (∀ s e r, parseAtom f s = .ok e r → Wf e) ∧
  (∀ m e0 s e r, Wf e0 → parseLoop f m e0 s = .ok e r → Wf e) ∧
  (∀ m l e0 s0 s e r, Wf e0 → tryInfix f m l e0 s0 s = .ok e r → Wf e)

theorem wfOut : ∀ f, WfOut f := by
  intro f
  induction f with
  | zero =>
    refine ⟨?_, ?_, ?_, ?_, ?_, ?_⟩
    · intro m s e r h; simp [parseInfix] at h
    · intro s e r h; simp [parsePrefixAtom] at h
    · intro l s e r h; simp [tryPrefix] at h
    · intro s e r h; simp [parseAtom] at h
    · intro m e0 s e r _ h; simp [parseLoop] at h
    · intro m l e0 s0 s e r _ h; simp [tryInfix] at h
  | succ f ih =>
    obtain ⟨hI, hPA, hTP, hA, hL, hTI⟩ := ih
    refine ⟨?_, ?_, ?_, ?_, ?_, ?_⟩
    · intro m s e r h
      simp only [parseInfix] at h
      split at h
      · rename_i e1 rest hp
        exact hL _ _ _ _ _ (hPA _ _ _ hp) h
      · simp at h
      · simp at h
    · intro s e r h
      simp only [parsePrefixAtom] at h
      exact hTP _ _ _ _ h
    · intro l s e r h
      cases l with
      | nil => simp only [tryPrefix] at h; exact hA _ _ _ h
      | cons x more =>
        obtain ⟨t, u, lv⟩ := x
        simp only [tryPrefix] at h
        split at h
        · split at h
          · rename_i e1 rest hp
            simp only [PR.ok.injEq] at h
            obtain ⟨rfl, _⟩ := h
            exact .un u e1 (hI _ _ _ _ hp)
          · exact hTP _ _ _ _ h
          · simp at h
        · exact hTP _ _ _ _ h
    · intro s e r h
      simp only [parseAtom] at h
      split at h
      · rename_i pa e1 r1 heq
        simp only [PR.ok.injEq] at h; obtain ⟨rfl, _⟩ := h
        split at heq
        · rename_i n ra hid
          split at heq
          · split at heq
            · rename_i a r3 hp
              split at heq
              · simp only [PR.ok.injEq] at heq; obtain ⟨rfl, _⟩ := heq
                exact .func n a (identText_isName _ _ _ hid) (hI _ _ _ _ hp)
              · simp at heq
            · simp at heq
            · simp at heq
          · simp at heq
        · simp at heq
      · simp at h
      · split at h
        · rename_i e1 r1 heq
          simp only [PR.ok.injEq] at h; obtain ⟨rfl, _⟩ := h
          split at heq
          · split at heq
            · rename_i a r2 hp
              split at heq
              · simp only [PR.ok.injEq] at heq; obtain ⟨rfl, _⟩ := heq
                exact hI _ _ _ _ hp
              · simp at heq
            · simp at heq
            · simp at heq
          · simp at heq
        · simp at h
        · split at h
          · rename_i v r1 hc
            simp only [PR.ok.injEq] at h; obtain ⟨rfl, _⟩ := h
            obtain ⟨n, hv, hn⟩ := eConst_range _ _ _ hc
            exact .const v n hv hn
          · split at h
            · rename_i c r1 hc
              simp only [PR.ok.injEq] at h; obtain ⟨rfl, _⟩ := h
              exact .const _ c.toNat rfl (char_range c)
            · split at h
              · rename_i n r1 hid
                simp only [PR.ok.injEq] at h; obtain ⟨rfl, _⟩ := h
                exact .ident n (identText_isName _ _ _ hid)
              · simp at h
    · intro m e0 s e r he0 h
      simp only [parseLoop] at h
      exact hTI _ _ _ _ _ _ _ he0 h
    · intro m l e0 s0 s e r he0 h
      cases l with
      | nil => simp only [tryInfix] at h; simp only [PR.ok.injEq] at h; obtain ⟨rfl, _⟩ := h; exact he0
      | cons x more =>
        obtain ⟨t, b, lv, rlv⟩ := x
        simp only [tryInfix] at h
        split at h
        · exact hTI _ _ _ _ _ _ _ he0 h
        · split at h
          · split at h
            · rename_i e1 rest hp
              exact hL _ _ _ _ _ (.bin b e0 e1 he0 (hI _ _ _ _ hp)) h
            · exact hTI _ _ _ _ _ _ _ he0 h
            · simp at h
          · exact hTI _ _ _ _ _ _ _ he0 h

/-- **whatever expression `expr()` returns is well-formed** — so the read-back theorem applies to
    every argument a caller can write -/
theorem expr_wf (s : Str) (e : Expr) (r : Str) (h : expr s = .ok e r) : Wf e :=
  (wfOut _).1 _ _ _ _ h

/-- **the round trip**: any text `expr()` accepts yields an expression whose pasted text `expr()`
    reads back as the same expression -/
theorem paste_round_trip (s : Str) (e : Expr) (r : Str) (h : expr s = .ok e r)
    (rest : Str) (hr : AtomEnd rest) (ho : OpEnd rest) : expr (exprText e ++ rest) = .ok e rest :=
  expr_reads_back e (expr_wf s e r h) rest hr ho

end

end ReadBack

end Avra.Props.C09
