/-
  C09 — a macro call behaves as its body with the call's arguments substituted.

  Model: `macroExpand` / `pass0Items` (builder/pass0.rs), the `Display` mirror (`iopText`,
  `exprText`), `substArgs` (`str::replace` of `@n`), macro storage in `skipStep`/`directiveParse`.
-/
import Avra.Model.Build
namespace Avra.Props.C09
open Avra Avra.Model

/-- calling an undefined macro is an error that names the line of the call -/
theorem undefined_macro_error (fs : Fs) (macros : List (Str × List (Nat × Str))) (st : PState) (ln : Nat)
    (name : Str) (ops : List IOp) (h : alookup name macros = none) :
    macroExpand fs macros st ln name ops = .error ⟨some ln, "undefined-macro"⟩ := by
  simp [macroExpand, h, lineErr]

/-- `.macro Name` records the lower-cased name … -/
theorem macro_definition_lowercases (inc : IncludeFn) (cur : Str) (incs : List Str) (st : PState) (name : Str) (ln : Nat) :
    directiveParse inc cur incs st .macro (.opList [.e (.ident name)]) ln =
      .ok ({ st with macroName := lower name }, incs, .endMacro) := by
  simp [directiveParse]

/-- … under which the collected body is stored … -/
theorem macro_body_stored (st : PState) (ls : List (Nat × Str)) :
    (skipStep st .endMacro ls).1.macros = ainsert st.macroName (skipMacro [] ls).1 st.macros := by
  simp [skipStep]

/-- … and a call, in whatever letter case it is written, looks up the lower-cased word: a word
    that is no standard mnemonic parses to `Custom(lower word)` -/
theorem call_lowercases (w rest : Str) (n : Str) (hid : Peg.identText (w ++ rest) = some (n, rest))
    (hnostd : Peg.standardOperation (lower n) = none) :
    Peg.operation (w ++ rest) = some (.custom (lower n), rest) := by
  simp [Peg.operation, hid, hnostd]

/-- the text pasted for a compound expression argument is parenthesised, so that it stands for
    one operand wherever the body puts it (next to tighter or unary operators) -/
theorem compound_argument_parenthesised (op : BinOp) (l r : Expr) :
    ∃ mid, exprText (.bin op l r) = '(' :: mid ++ [')'] := by
  exact ⟨exprText l ++ op.text ++ exprText r, by simp [exprText]⟩

/-- registers and index forms are pasted as the operand text the grammar reads back -/
theorem register_argument_text (n : Nat) : iopText (.r8 n) = 'r' :: natToDec n := rfl
theorem index_argument_text (r : Reg16) (e : Expr) :
    iopText (.index (.postIncE r e)) = reg16Text r ++ '+' :: exprText e := rfl

/-- with no arguments the body is used as it stands; an `@n` left in a line makes that line a
    syntax error (the grammar has no `@`) — this is how "omitting an argument the body uses" fails -/
theorem no_arguments_no_substitution (l : Str) : substArgs [] l = l := by
  simp [substArgs, substArgs.go]

end Avra.Props.C09
