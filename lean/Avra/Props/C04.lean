/-
  C04 — operands the ISA cannot encode are rejected, never mis-encoded.
-/
import Avra.Props.C01
namespace Avra.Props.C04
open Avra Avra.Model Avra.Isa Avra.Lemmas Avra.Props.Enc Avra.Props.C01

/-- C04, full strength at the level of one instruction, for ALL operand lists (any number, any
    kinds), all i64 values, both cores: if `process` succeeds then the legality spec accepts the
    operands as some instruction `i` and the bytes are exactly the ISA encoding of `i`. -/
theorem process_sound (c : Ctx) (op : Op) (args : List IOp) (addr : Nat) (r : List AArg) (bs : List Nat)
    (hstd : isStd op) (hc : ctxRegsOk c) (hargs : iopsOk args)
    (hres : resolve c (accessors op) args = some r)
    (hok : process c op args addr = .ok bs) :
    ∃ i, surface c.device.isAvr8l op r addr = some i ∧ bs = Isa.bytes (encode i) := by
  have hr := resolve_regsOk c hc _ _ _ hargs hres
  rw [process_eq c op args addr r hres, model_eq_spec _ op r addr hstd hr] at hok
  unfold sWords at hok
  cases hs : surface c.device.isAvr8l op r addr with
  | none => simp [hs] at hok
  | some i =>
    simp [hs] at hok
    exact ⟨i, rfl, hok.symm⟩

/-- the contrapositive the property names: what the ISA cannot encode is an error -/
theorem process_rejects (c : Ctx) (op : Op) (args : List IOp) (addr : Nat) (r : List AArg)
    (hstd : isStd op) (hc : ctxRegsOk c) (hargs : iopsOk args)
    (hres : resolve c (accessors op) args = some r)
    (hill : surface c.device.isAvr8l op r addr = none) :
    process c op args addr = .err := by
  have hr := resolve_regsOk c hc _ _ _ hargs hres
  rw [process_eq c op args addr r hres, model_eq_spec _ op r addr hstd hr]
  simp [sWords, hill]

/-- `process` never panics: its outcomes are ok / error / out of fuel of the evaluator -/
theorem process_total (c : Ctx) (op : Op) (args : List IOp) (addr : Nat) :
    (∃ bs, process c op args addr = .ok bs) ∨ process c op args addr = .err ∨ process c op args addr = .oof := by
  cases h : process c op args addr with
  | ok bs => exact Or.inl ⟨bs, rfl⟩
  | err => exact Or.inr (Or.inl rfl)
  | oof => exact Or.inr (Or.inr rfl)

/-! non-vacuity and the rejections the property names -/

example : surface false .ldi [.reg 5, .val 1] 0 = none := by decide            -- low register
example : surface false .movw [.reg 17, .reg 18] 0 = none := by decide         -- odd register
example : surface false .adiw [.reg 25, .val 1] 0 = none := by decide          -- not r24/26/28/30
example : surface false .fmul [.reg 24, .reg 16] 0 = none := by decide         -- outside r16-r23
example : surface false .sbrc [.reg 1, .val (-1)] 0 = none := by decide        -- negative bit number
example : surface false .nop [.reg 1] 0 = none := by decide                    -- surplus operand
example : surface false .add [.reg 1] 0 = none := by decide                    -- missing operand
example : surface true .lds [.reg 3, .val 0x50] 0 = none := by decide          -- reduced core, low register
example : process exCtx .ldi [.r8 5, .e (.const 1)] 0 = .err := by decide

end Avra.Props.C04
