/-
  C03, from the single instruction to pass 2: the address the displacement is taken from is the
  address pass 2 emits the instruction at, the target is what the operand expression evaluates to
  there (a label: the position pass 1 recorded, C02; `pc`: the instruction's own address), and an
  unreachable target ends the build with an error that names the line.
-/
import Avra.Props.C03
import Avra.Model.Build
namespace Avra.Props.C03b
open Avra Avra.Model Avra.Isa Avra.Lemmas Avra.Props.Enc Avra.Props.C03

/-- a name bound to a constant (a label, a `.set` variable, `pc`) evaluates to that constant -/
theorem eval_const_symbol (c : Ctx) (name : Str) (v : Int) (h : c.getExpr name = some (.const v)) :
    eval c (.ident name) = .ok v := by
  simp [eval, evalWith, maxSymbolDepth, symAt, h]

/-- the context pass 2 evaluates an item in: `pc` is the item's own address -/
def atPc (ctx : Ctx) (cur : Nat) : Ctx :=
  { ctx with special := ainsert "pc".toList (.const (cur : Int)) ctx.special }

theorem checkInstruction_rel (d : Device) (call : Bool) (args : List IOp) :
    checkInstruction d (if call then .rcall else .rjmp) args = true := by
  cases call <;> simp [checkInstruction, checkOperation]

/-- C03 inside pass 2, `rjmp`/`rcall` with ANY operand expression: when the expression evaluates
    (with `pc` = the instruction's own address) to `target`, the item assembles iff the displacement
    `target − (cur+1)` fits 12 bits, to exactly the ISA word of that displacement, and pass 2
    goes on one word further; otherwise the build fails naming the line. -/
theorem rel_item (t : SegT) (ln : Nat) (call : Bool) (e : Expr) (rest : List (Nat × Item))
    (cur : Nat) (acc : List Nat) (ctx : Ctx) (target : Int)
    (hev : eval (atPc ctx cur) e = .ok target) :
    pass2Items t ((ln, .instruction (if call then .rcall else .rjmp) [.e e]) :: rest) cur acc ctx =
      if -2048 ≤ relOf cur target ∧ relOf cur target ≤ 2047
      then pass2Items t rest (cur + 1) (acc ++ Isa.bytes (encode (.rel call (relOf cur target)))) (atPc ctx cur)
      else .error ⟨some ln, "instruction"⟩ := by
  have hres : resolve (atPc ctx cur) (accessors (if call then .rcall else .rjmp)) [.e e] = some [.val target] := by
    cases call <;> simp [accessors, resolve, resolveOne, asVal, hev]
  have hp := process_eq (atPc ctx cur) (if call then .rcall else .rjmp) [.e e] cur _ hres
  rw [(rjmp_exact (atPc ctx cur).device.isAvr8l call cur target).1] at hp
  conv => lhs; unfold pass2Items
  simp only [checkInstruction_rel, if_true]
  show (match process (atPc ctx cur) (if call then .rcall else .rjmp) [.e e] cur with
    | .ok bytes => pass2Items t rest (cur + bytes.length / 2) (acc ++ bytes) (atPc ctx cur)
    | .err => lineErr ln "instruction"
    | .oof => .oof) = _
  rw [hp]
  by_cases h : -2048 ≤ relOf cur target ∧ relOf cur target ≤ 2047
  · simp only [h, and_self, if_true]
    have : (Isa.bytes (encode (.rel call (relOf cur target)))).length / 2 = 1 := by
      simp [encode, Isa.bytes]
    rw [this]
  · simp only [h, if_false]; rfl

theorem checkInstruction_br (d : Device) (bt : BranchT) (args : List IOp) :
    checkInstruction d (.br bt) args = true := by
  simp [checkInstruction, checkOperation]

/-- the same for the 18 named conditional branches: 7-bit displacement -/
theorem br_item (t : SegT) (ln : Nat) (bt : BranchT) (clear : Bool) (s : Nat)
    (hb : branchFlag bt = some (clear, s)) (e : Expr) (rest : List (Nat × Item))
    (cur : Nat) (acc : List Nat) (ctx : Ctx) (target : Int)
    (hev : eval (atPc ctx cur) e = .ok target) :
    pass2Items t ((ln, .instruction (.br bt) [.e e]) :: rest) cur acc ctx =
      if -64 ≤ relOf cur target ∧ relOf cur target ≤ 63
      then pass2Items t rest (cur + 1) (acc ++ Isa.bytes (encode (.brb clear s (relOf cur target)))) (atPc ctx cur)
      else .error ⟨some ln, "instruction"⟩ := by
  have hres : resolve (atPc ctx cur) (accessors (.br bt)) [.e e] = some [.val target] := by
    cases bt <;> first | simp [accessors, resolve, resolveOne, asVal, hev] | simp [branchFlag] at hb
  have hp := process_eq (atPc ctx cur) (.br bt) [.e e] cur _ hres
  rw [(branch_exact (atPc ctx cur).device.isAvr8l bt clear s hb cur target).1] at hp
  conv => lhs; unfold pass2Items
  simp only [checkInstruction_br, if_true]
  show (match process (atPc ctx cur) (.br bt) [.e e] cur with
    | .ok bytes => pass2Items t rest (cur + bytes.length / 2) (acc ++ bytes) (atPc ctx cur)
    | .err => lineErr ln "instruction"
    | .oof => .oof) = _
  rw [hp]
  by_cases h : -64 ≤ relOf cur target ∧ relOf cur target ≤ 63
  · simp only [h, and_self, if_true]
    have : (Isa.bytes (encode (.brb clear s (relOf cur target)))).length / 2 = 1 := by
      simp [encode, Isa.bytes]
    rw [this]
  · simp only [h, if_false]; rfl

/-- what a label reference evaluates to in pass 2: the position pass 1 recorded — when the name is
    not `pc` and no `.define`/`.equ`/`.set` of that name exists (the `exist` checks at every
    definition site keep the name classes disjoint) -/
theorem label_operand (ctx : Ctx) (cur : Nat) (name : Str) (seg : SegT) (pos : Nat)
    (hd : alookup name ctx.defines = none) (he : alookup (lower name) ctx.equs = none)
    (hs : alookup (lower name) ctx.sets = none) (hsp : alookup (lower name) ctx.special = none)
    (hpc : lower name ≠ "pc".toList)
    (hl : alookup (lower name) ctx.labels = some (seg, pos)) :
    eval (atPc ctx cur) (.ident name) = .ok (pos : Int) := by
  apply eval_const_symbol
  have : alookup (lower name) (ainsert "pc".toList (Expr.const (cur : Int)) ctx.special) = none := by
    unfold ainsert
    simp only [alookup]
    rw [if_neg (fun h => hpc h.symm)]
    clear hd he hs hl
    generalize ctx.special = sp at hsp ⊢
    induction sp with
    | nil => rfl
    | cons p rest ih =>
      obtain ⟨pk, pv⟩ := p
      simp only [alookup] at hsp
      by_cases hp : pk = lower name
      · simp [hp] at hsp
      · rw [if_neg hp] at hsp
        simp only [List.filter_cons]
        split
        · simp only [alookup]; rw [if_neg hp]; exact ih hsp
        · exact ih hsp
  unfold Ctx.getExpr
  simp only [atPc, hd, he, hs, this, hl, Option.map]

/-- `pc` in an operand is the address of the instruction itself (unless the program has defined a
    symbol of that name itself) -/
theorem pc_operand (ctx : Ctx) (cur : Nat)
    (hd : alookup "pc".toList ctx.defines = none) (he : alookup "pc".toList ctx.equs = none)
    (hs : alookup "pc".toList ctx.sets = none) :
    eval (atPc ctx cur) (.ident "pc".toList) = .ok (cur : Int) := by
  apply eval_const_symbol
  have hl : lower "pc".toList = "pc".toList := by decide
  unfold Ctx.getExpr
  simp only [atPc, hd, hl, he, hs, ainsert, alookup, if_true]

/-- C03 for a jump to a LABEL, in one statement: `rjmp name` / `rcall name` at address `cur`,
    the label recorded at `pos`: the build goes on iff `pos − (cur+1)` fits the field; the field
    of the emitted word, sign-extended, is that displacement, so the jump reaches
    `cur + 1 + d = pos` — the label, exactly. -/
theorem jump_reaches_label (t : SegT) (ln : Nat) (call : Bool) (name : Str) (rest : List (Nat × Item))
    (cur : Nat) (acc : List Nat) (ctx : Ctx) (seg : SegT) (pos : Nat)
    (hd : alookup name ctx.defines = none) (he : alookup (lower name) ctx.equs = none)
    (hs : alookup (lower name) ctx.sets = none) (hsp : alookup (lower name) ctx.special = none)
    (hpc : lower name ≠ "pc".toList)
    (hl : alookup (lower name) ctx.labels = some (seg, pos)) :
    let d : Int := (pos : Int) - ((cur : Int) + 1)
    pass2Items t ((ln, .instruction (if call then .rcall else .rjmp) [.e (.ident name)]) :: rest) cur acc ctx =
      (if -2048 ≤ d ∧ d ≤ 2047
       then pass2Items t rest (cur + 1) (acc ++ Isa.bytes (encode (.rel call d))) (atPc ctx cur)
       else .error ⟨some ln, "instruction"⟩) ∧
    (-2048 ≤ d ∧ d ≤ 2047 → signExt 12 (twos 12 d) = d ∧ (pos : Int) = (cur : Int) + 1 + d) := by
  intro d
  refine ⟨?_, fun h => ⟨signExt_twos12 _ h, by omega⟩⟩
  exact rel_item t ln call _ rest cur acc ctx pos (label_operand ctx cur name seg pos hd he hs hsp hpc hl)

/-- … and for a conditional branch to a label -/
theorem branch_reaches_label (t : SegT) (ln : Nat) (bt : BranchT) (clear : Bool) (s : Nat)
    (hb : branchFlag bt = some (clear, s)) (name : Str) (rest : List (Nat × Item))
    (cur : Nat) (acc : List Nat) (ctx : Ctx) (seg : SegT) (pos : Nat)
    (hd : alookup name ctx.defines = none) (he : alookup (lower name) ctx.equs = none)
    (hs : alookup (lower name) ctx.sets = none) (hsp : alookup (lower name) ctx.special = none)
    (hpc : lower name ≠ "pc".toList)
    (hl : alookup (lower name) ctx.labels = some (seg, pos)) :
    let d : Int := (pos : Int) - ((cur : Int) + 1)
    pass2Items t ((ln, .instruction (.br bt) [.e (.ident name)]) :: rest) cur acc ctx =
      (if -64 ≤ d ∧ d ≤ 63
       then pass2Items t rest (cur + 1) (acc ++ Isa.bytes (encode (.brb clear s d))) (atPc ctx cur)
       else .error ⟨some ln, "instruction"⟩) ∧
    (-64 ≤ d ∧ d ≤ 63 → signExt 7 (twos 7 d) = d ∧ (pos : Int) = (cur : Int) + 1 + d) := by
  intro d
  refine ⟨?_, fun h => ⟨signExt_twos7 _ h, by omega⟩⟩
  exact br_item t ln bt clear s hb _ rest cur acc ctx pos (label_operand ctx cur name seg pos hd he hs hsp hpc hl)

/-- a pc-relative target `pc + k` (`rjmp pc+3`, `brne pc-2`): the displacement is `k − 1`, whatever
    the address -/
theorem pc_relative_target (ctx : Ctx) (cur : Nat) (k : Int)
    (hd : alookup "pc".toList ctx.defines = none) (he : alookup "pc".toList ctx.equs = none)
    (hs : alookup "pc".toList ctx.sets = none) (hfit : inI64 ((cur : Int) + k)) :
    eval (atPc ctx cur) (.bin .add (.ident "pc".toList) (.const k)) = .ok ((cur : Int) + k) ∧
    relOf cur ((cur : Int) + k) = k - 1 := by
  constructor
  · have h := pc_operand ctx cur hd he hs
    unfold eval at h ⊢
    simp only [evalWith] at h
    simp only [evalWith, h, binEval, checked, hfit, if_true]
  · unfold relOf; omega

/-! non-vacuity: a backward jump to a label at word 3 from word 5 (d = −3), and the limits -/

def exCtx : Ctx :=
  { device := { flash := 4194304, ramStart := 96, ramSize := 8388608, eeprom := 65536, opts := [] },
    labels := [("loop".toList, (.code, 3))] }

example := jump_reaches_label .code 1 false "Loop".toList [] 5 [] exCtx .code 3
  (by decide) (by decide) (by decide) (by decide) (by decide) (by decide)
example : ((3 : Int) - ((5 : Int) + 1) = -3) ∧ twos 12 (-3) = 0xffd := by decide
example : encode (.rel false (-3)) = [0xcffd] := by decide

end Avra.Props.C03b
