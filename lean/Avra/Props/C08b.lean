/-
  C08, from the line loop to the build: "the result is identical to the program with the
  unselected lines deleted", stated for `build_str` itself.
-/
import Avra.Props.C08
import Avra.Model.Build
namespace Avra.Props.C08b
open Avra Avra.Model Avra.Spec Avra.Lemmas.Cond Avra.Lemmas.Iter Avra.Lemmas.Sel Avra.Props.C08

/-- `build_str` on a text that is already cut into numbered lines (every line keeps its own
    number, so that deleting lines does not renumber the others: errors and messages name the
    same lines before and after) -/
def buildLines (fs : Fs) (ls : List Line) : Out BuildResult :=
  match parseIter fs fs.cwd [] (PState.init initCtx) .newLine ls with
  | .ok (st, _) => buildFromParsed fs st
  | .error e => .error e
  | .panic p => .panic p
  | .oof => .oof

/-- `build_str` is `buildLines` of the numbered lines of the text -/
theorem buildStr_eq (fs : Fs) (src : Str) : buildStr fs src = buildLines fs (numbered (lines src)) := by
  unfold buildStr buildLines parseStr
  cases parseIter fs fs.cwd [] (PState.init initCtx) .newLine (numbered (lines src)) with
  | ok v => rfl
  | error e => rfl
  | panic p => rfl
  | oof => rfl

/-- **C08 for the whole build.**  A program that consists of conditional constructs and plain
    lines in any arrangement (a well-formed `Blocks` tree: any nesting, any number of `.elif`
    arms, arbitrary text in the branches) builds to EXACTLY the same result — images, sizes,
    messages, or the same error with the same line number — as the program in which every
    unselected line and every `.if/.ifdef/.ifndef/.elif/.else/.endif` line is deleted (`ls`: the
    plain lines of the selected branches, in order, with their original numbers). -/
theorem build_unselected_deleted (fs : Fs) (bs : Blocks) (hwf : bs.wf) (s' : MSt) (ls : List Line)
    (hsel : bs.sel (mExec (parseFileAt fs includeDepth) fs.cwd) (mHolds (parseFileAt fs includeDepth) fs.cwd)
              (PState.init initCtx, []) = .ok (s', ls)) :
    buildLines fs bs.flatten = buildLines fs ls := by
  have h := unselected_deleted (parseFileAt fs includeDepth) fs.cwd bs hwf (PState.init initCtx, []) s' ls [] hsel
  simp only [List.append_nil] at h
  unfold buildLines
  show (match runFrom (parseFileAt fs includeDepth) fs.cwd (PState.init initCtx, []) .newLine bs.flatten with
    | .ok (st, _) => buildFromParsed fs st
    | .error e => .error e
    | .panic p => .panic p
    | .oof => .oof) =
    (match runFrom (parseFileAt fs includeDepth) fs.cwd (PState.init initCtx, []) .newLine ls with
    | .ok (st, _) => buildFromParsed fs st
    | .error e => .error e
    | .panic p => .panic p
    | .oof => .oof)
  rw [h]

/-- … and in the words of `build_str`: when the lines of a source text are such a tree -/
theorem build_str_unselected_deleted (fs : Fs) (src : Str) (bs : Blocks) (hwf : bs.wf)
    (hsrc : numbered (lines src) = bs.flatten) (s' : MSt) (ls : List Line)
    (hsel : bs.sel (mExec (parseFileAt fs includeDepth) fs.cwd) (mHolds (parseFileAt fs includeDepth) fs.cwd)
              (PState.init initCtx, []) = .ok (s', ls)) :
    buildStr fs src = buildLines fs ls := by
  rw [buildStr_eq, hsrc]
  exact build_unselected_deleted fs bs hwf s' ls hsel

end Avra.Props.C08b
